//! C06: every input yields output or a diagnostic: no crash, no hang.
//! The malformed stream, run through parse_ledger, FormatOptions::format, report::process +
//! balance/postings queries (FakeFileSystem), Loader::load on include cycles, and through the
//! commands themselves -- `okane format|balance|register|accounts`, with and without -X /
//! --historical / a date range / --price-db -- on files of the real file system: in-process
//! (the code of cli/src/bin/okane.rs) inside a child process with a 5 s watchdog per case, and
//! the built binary in fresh processes (exit status, signal, wall time).
use crate::c05::last_panic;
use crate::child::{self, ChildObs};
use crate::cli;
use crate::coq::{self, Shards, Stats};
use crate::parseobs;
use crate::pgen;
use crate::prng::Rng;
use crate::Opts;
use okane_core::{load, report};
use serde_json::{json, Value};
use std::collections::HashMap;
use std::path::PathBuf;

fn step<T>(f: impl FnOnce() -> Result<T, String> + std::panic::UnwindSafe) -> (String, Option<T>) {
    match std::panic::catch_unwind(f) {
        Ok(Ok(v)) => ("ok".to_string(), Some(v)),
        Ok(Err(e)) => (format!("err:{}", e.chars().take(80).collect::<String>()), None),
        Err(_) => (format!("panic:{}", last_panic()), None),
    }
}

fn process_and_query(files: &[(String, String)]) -> (String, String) {
    let files: Vec<(String, String)> = files.to_vec();
    let r = std::panic::catch_unwind(move || {
        let arena = bumpalo::Bump::new();
        let mut ctx = report::ReportContext::new(&arena);
        let mut map: HashMap<PathBuf, Vec<u8>> = HashMap::new();
        for (p, c) in &files {
            map.insert(PathBuf::from(p), c.as_bytes().to_vec());
        }
        let loader = load::Loader::new(PathBuf::from("/main.ledger"), load::FakeFileSystem::from(map))
            .with_error_renderer(annotate_snippets::Renderer::plain());
        let processed = report::process(&mut ctx, loader, &report::ProcessOptions::default());
        let out = match processed {
            Err(e) => (format!("err:{}", format!("{:?}", e).chars().take(60).collect::<String>()), "skip".to_string()),
            Ok(mut ledger) => {
                let q = std::panic::catch_unwind(std::panic::AssertUnwindSafe(|| {
                    let mut n = 0usize;
                    if let Ok(b) = ledger.balance(&ctx, &report::query::BalanceQuery::default()) {
                        n += b.into_owned().into_vec().len();
                    }
                    let dr = report::query::DateRange {
                        start: chrono::NaiveDate::from_ymd_opt(1, 1, 1),
                        end: chrono::NaiveDate::from_ymd_opt(9999, 12, 31),
                    };
                    let bq = report::query::BalanceQuery { conversion: None, date_range: dr };
                    let ok2 = ledger.balance(&ctx, &bq).map(|b| b.into_owned().into_vec().len());
                    let ps = ledger.postings(&ctx, &report::query::PostingQuery { account: None });
                    let mut s = String::new();
                    for p in ps {
                        s.push_str(&format!("{}", p.amount.as_inline_display()));
                    }
                    n + ok2.unwrap_or(0) + s.len()
                }));
                match q {
                    Ok(_) => ("ok".to_string(), "ok".to_string()),
                    Err(_) => ("ok".to_string(), format!("panic:{}", last_panic())),
                }
            }
        };
        out
    });
    match r {
        Ok(x) => x,
        Err(_) => (format!("panic:{}", last_panic()), "skip".to_string()),
    }
}

/// outcome of one in-process command: ok | err:<first line> | panic:<message>
fn cli_outcome(args: &[&str]) -> String {
    let r = cli::run(args);
    if r.panicked {
        format!("panic:{}", last_panic())
    } else if r.ok {
        "ok".to_string()
    } else {
        format!("err:{}", r.stderr.lines().next().unwrap_or("").chars().take(80).collect::<String>())
    }
}

/// the names of the commands of `cli_suite`, in the order the classifier receives them
pub const CLI_NAMES: [&str; 8] = ["format", "balance", "balance_x", "balance_hist", "balance_range", "register", "register_acct", "accounts"];

const NON_COMMODITY: &str = " \t\r\n0123456789.,;:?!-+*/^&|=<>[](){}@";

/// a commodity that occurs in the text (a token of commodity characters after a number), else USD
pub fn some_commodity(text: &str) -> String {
    let mut prev_num = false;
    for tok in text.split_whitespace() {
        if prev_num && !tok.is_empty() && tok.chars().all(|c| !NON_COMMODITY.contains(c)) {
            return tok.to_string();
        }
        prev_num = tok.chars().last().map(|c| c.is_ascii_digit()).unwrap_or(false);
    }
    "USD".to_string()
}

/// `okane <command>` on the file `main` of the real file system, in this process
fn cli_suite(main: &str, x: &str, only_format: bool) -> Value {
    let mut m = serde_json::Map::new();
    m.insert("format".into(), json!(cli_outcome(&["format", main])));
    if only_format {
        return Value::Object(m);
    }
    m.insert("balance".into(), json!(cli_outcome(&["balance", main])));
    m.insert("balance_x".into(), json!(cli_outcome(&["balance", "-X", x, "--now", "2024-06-01", main])));
    m.insert("balance_hist".into(), json!(cli_outcome(&["balance", "-X", x, "--historical", "--now", "2024-06-01", main])));
    m.insert(
        "balance_range".into(),
        json!(cli_outcome(&["balance", "--start", "2000-01-01", "--end", "2024-03-01", "-X", x, "--now", "2024-06-01", main])),
    );
    m.insert("register".into(), json!(cli_outcome(&["register", "--now", "2024-06-01", main])));
    m.insert("register_acct".into(), json!(cli_outcome(&["register", "--now", "2024-06-01", main, "A"])));
    m.insert("accounts".into(), json!(cli_outcome(&["accounts", main])));
    Value::Object(m)
}

/// child side, mode "c06": input = JSON {"text":..., "process": bool, "cli": "all"|"format"|"none"}
pub fn child_observe(input: &[u8]) -> String {
    let v: Value = match serde_json::from_slice(input) {
        Ok(v) => v,
        Err(_) => return json!({"harness_error": "bad input"}).to_string(),
    };
    let text = v["text"].as_str().unwrap_or("").to_string();
    let t1 = text.clone();
    let (p, n) = step(move || {
        let o = parseobs::observe_parse(&t1);
        match &o.err {
            None => Ok(o.entries.len()),
            Some(e) => Err(e.rendered.lines().next().unwrap_or("").to_string()),
        }
    });
    let t2 = text.clone();
    let (f, _) = step(move || parseobs::format(&t2).map(|s| s.len()));
    let (pr, q) = if v["process"].as_bool().unwrap_or(true) {
        process_and_query(&[("/main.ledger".to_string(), text)])
    } else {
        ("skip".to_string(), "skip".to_string())
    };
    let mode = v["cli"].as_str().unwrap_or("all").to_string();
    let cli_obs = if mode == "none" {
        json!({})
    } else {
        let text = v["text"].as_str().unwrap_or("");
        let scratch = cli::Scratch::new("c06");
        let main = scratch.write("main.ledger", text);
        cli_suite(&main.to_string_lossy(), &some_commodity(text), mode == "format")
    };
    json!({"parse": p, "entries": n, "format": f, "process": pr, "query": q, "cli": cli_obs}).to_string()
}

/// child side, mode "c06load": input = JSON {"files": [[path, content], ...]}; root /main.ledger
pub fn child_load(input: &[u8]) -> String {
    let v: Value = match serde_json::from_slice(input) {
        Ok(v) => v,
        Err(_) => return json!({"harness_error": "bad input"}).to_string(),
    };
    let files: Vec<(String, String)> = v["files"]
        .as_array()
        .map(|a| a.iter().map(|f| (f[0].as_str().unwrap_or("").to_string(), f[1].as_str().unwrap_or("").to_string())).collect())
        .unwrap_or_default();
    let fs = files.clone();
    let (l, _) = step(move || {
        let mut map: HashMap<PathBuf, Vec<u8>> = HashMap::new();
        for (p, c) in &fs {
            map.insert(PathBuf::from(p), c.as_bytes().to_vec());
        }
        let loader = load::Loader::new(PathBuf::from("/main.ledger"), load::FakeFileSystem::from(map));
        let mut n = 0usize;
        let r: Result<(), load::LoadError> =
            loader.load(|_p, _c, _e: &okane_core::syntax::plain::LedgerEntry| {
                n += 1;
                Ok(())
            });
        r.map(|_| n).map_err(|e| format!("{}", e))
    });
    let (pr, q) = process_and_query(&files);
    // the same graph as files of the real file system, through the commands
    let scratch = cli::Scratch::new("c06g");
    for (p, c) in &files {
        scratch.write(p.trim_start_matches('/'), c);
    }
    let main = scratch.dir.join("main.ledger").to_string_lossy().to_string();
    let mut real = serde_json::Map::new();
    real.insert("flatten".into(), json!(cli_outcome(&["primitive", "flatten", &main])));
    real.insert("balance".into(), json!(cli_outcome(&["balance", &main])));
    real.insert("balance_x".into(), json!(cli_outcome(&["balance", "-X", "USD", "--now", "2024-06-01", &main])));
    real.insert("register".into(), json!(cli_outcome(&["register", "--now", "2024-06-01", &main])));
    real.insert("accounts".into(), json!(cli_outcome(&["accounts", &main])));
    real.insert("format".into(), json!(cli_outcome(&["format", &main])));
    json!({"load": l, "process": pr, "query": q, "real": Value::Object(real)}).to_string()
}

pub const PRICE_NAMES: [&str; 5] = ["balance_db", "balance_db_x", "balance_db_hist", "balance_db_range", "register_db"];

/// child side, mode "c06price": input = JSON {"ledger":..., "db":..., "x":...}: the commands with
/// --price-db on real files (report::process then runs PriceRepositoryBuilder::load_price_db)
pub fn child_price(input: &[u8]) -> String {
    let v: Value = match serde_json::from_slice(input) {
        Ok(v) => v,
        Err(_) => return json!({"harness_error": "bad input"}).to_string(),
    };
    let scratch = cli::Scratch::new("c06p");
    let main = scratch.write("main.ledger", v["ledger"].as_str().unwrap_or("")).to_string_lossy().to_string();
    let db = scratch.write("prices.db", v["db"].as_str().unwrap_or("")).to_string_lossy().to_string();
    let x = v["x"].as_str().unwrap_or("USD").to_string();
    let mut m = serde_json::Map::new();
    m.insert("balance_db".into(), json!(cli_outcome(&["balance", "--price-db", &db, main.as_str()])));
    m.insert("balance_db_x".into(), json!(cli_outcome(&["balance", "--price-db", &db, "-X", &x, "--now", "2024-06-01", &main])));
    m.insert(
        "balance_db_hist".into(),
        json!(cli_outcome(&["balance", "--price-db", &db, "-X", &x, "--historical", "--now", "2024-06-01", &main])),
    );
    m.insert(
        "balance_db_range".into(),
        json!(cli_outcome(&["balance", "--price-db", &db, "-X", &x, "--now", "2030-01-01", "--start", "2000-01-01", "--end", "2030-01-01", &main])),
    );
    m.insert("register_db".into(), json!(cli_outcome(&["register", "--price-db", &db, "--now", "2024-06-01", &main])));
    Value::Object(m).to_string()
}

fn outcome(s: &str) -> &'static str {
    if s == "ok" {
        "ROk"
    } else if s.starts_with("err") {
        "RErr"
    } else if s.starts_with("panic") {
        "RPanic"
    } else if s.starts_with("timeout") {
        "RTimeout"
    } else if s.starts_with("abort") {
        "RAbort"
    } else {
        "RSkip"
    }
}

fn crash(s: &str) -> bool {
    s.starts_with("panic") || s.starts_with("timeout") || s.starts_with("abort")
}

/// the outcomes of the named commands, in order; absent = not run
fn outcomes(v: &Value, names: &[&str]) -> Vec<String> {
    names.iter().filter_map(|k| v.get(*k).and_then(|x| x.as_str()).map(|s| s.to_string())).collect()
}

fn outcome_list(os: &[String]) -> String {
    coq::list(os.iter().map(|s| outcome(s).to_string()))
}

fn obs_term(co: &ChildObs) -> (String, Value, bool) {
    match co {
        ChildObs::Timeout => ("{| o_parse := RTimeout; o_format := RSkip; o_process := RSkip; o_query := RSkip; o_cli := [] |}".into(), json!("timeout"), true),
        ChildObs::Abort(s) => ("{| o_parse := RAbort; o_format := RSkip; o_process := RSkip; o_query := RSkip; o_cli := [] |}".into(), json!({ "abort": s }), true),
        ChildObs::Line(l) => {
            let v: Value = serde_json::from_str(l).unwrap_or(json!({}));
            let g = |k: &str| v[k].as_str().unwrap_or("harness").to_string();
            let cl = outcomes(&v["cli"], &CLI_NAMES);
            let t = format!(
                "{{| o_parse := {}; o_format := {}; o_process := {}; o_query := {}; o_cli := {} |}}",
                outcome(&g("parse")),
                outcome(&g("format")),
                outcome(&g("process")),
                outcome(&g("query")),
                outcome_list(&cl)
            );
            let bad = [g("parse"), g("format"), g("process"), g("query")].iter().chain(cl.iter()).any(|s| crash(s));
            (t, v, bad)
        }
    }
}

fn count_obs(st: &mut Stats, co: &ChildObs, v: &Value) {
    match co {
        ChildObs::Timeout => st.count("impl:timeout"),
        ChildObs::Abort(_) => st.count("impl:abort"),
        ChildObs::Line(_) => {
            for k in ["parse", "format", "process", "query", "load"] {
                if let Some(s) = v[k].as_str() {
                    let c = s.split(':').next().unwrap_or("");
                    st.count(&format!("{}:{}", k, c));
                }
            }
            for group in ["cli", "real"] {
                if let Some(m) = v[group].as_object() {
                    for (k, s) in m {
                        let c = s.as_str().unwrap_or("").split(':').next().unwrap_or("").to_string();
                        st.count(&format!("{}:{}:{}", group, k, c));
                    }
                }
            }
        }
    }
}

fn input_json(text: &str, process: bool, cli: &str) -> Vec<u8> {
    json!({"text": text, "process": process, "cli": cli}).to_string().into_bytes()
}

struct Single {
    text: String,
    stream: &'static str,
    process: bool,
    /// which commands run on the real file: "all" | "format" (texts whose numbers leave the
    /// representable range: no arithmetic) | "none"
    cli: &'static str,
    /// Coq expression building the text, when it is not written out (deep nesting)
    built: Option<String>,
}

fn single(text: String, stream: &'static str) -> Single {
    Single { text, stream, process: true, cli: "all", built: None }
}

fn nested(pre: &str, open: &str, n: usize, mid: &str, close: &str, post: &str) -> Single {
    let text = format!("{}{}{}{}{}", pre, open.repeat(n), mid, close.repeat(n), post);
    let built = format!(
        "({} ++ rep {} {} ++ {} ++ rep {} {} ++ {})",
        parseobs::text(pre),
        n,
        parseobs::text(open),
        parseobs::text(mid),
        n,
        parseobs::text(close),
        parseobs::text(post)
    );
    Single { text, stream: "deep-nesting", process: n <= 200, cli: "all", built: Some(built) }
}

/// a chain of operators: `first` then n - 1 times `more`, between `pre` and `post` (finding
/// C06-F23: the parser folds a chain with a loop into a tree as tall as the chain is long; the
/// height of the tree is bounded by MAX_EXPR_HEIGHT = 256 since the fix)
fn chain(pre: &str, first: &str, more: &str, n: usize, post: &str) -> Single {
    let mut s = nested(&format!("{}{}", pre, first), more, n.saturating_sub(1), "", "", post);
    s.stream = "long-chain";
    s.process = true;
    s
}

/// commodities that stress the display-width oracle of the printer's balance column: wide,
/// zero-width and combining characters, variation selectors, ZWJ sequences, regional
/// indicators, Khmer coeng, Tifinagh joiner, Arabic lam-alef, Lisu tones
const WIDTH_COMMODITIES: [&str; 18] = [
    "\u{FE0F}\u{200D}\u{1F642}",
    "\u{FE0F}\u{20E3}",
    "\u{200D}\u{1F468}\u{200D}\u{1F469}",
    "\u{1F1E6}\u{1F1E7}\u{1F1E8}",
    "\u{1F642}\u{200D}\u{1F1E6}\u{1F1E7}\u{1F1E8}",
    "\u{17D2}\u{1780}",
    "\u{1780}\u{17D2}\u{1780}",
    "\u{2D31}\u{2D7F}\u{2D31}",
    "\u{644}\u{627}",
    "\u{A4F8}\u{A4FC}",
    "\u{0301}\u{0301}\u{0301}",
    "\u{200B}\u{200B}",
    "\u{0338}",
    "\u{7C73}\u{30C9}\u{30EB}",
    "\u{1F3FB}\u{1F3FB}",
    "\u{E007F}\u{E0061}",
    "\u{00AD}\u{00AD}",
    "\u{1160}\u{11A8}",
];

fn singles(o: &Opts, r: &mut Rng) -> Vec<Single> {
    let mut v = Vec::new();
    let corpus = [
        "2024/01/01 x",
        "2024/01/01 x\n  A  1 USD\n  B",
        "2024/01/01 x\n  A  0 USD\n  B  5 EUR\n",
        "2024/01/01 x\n  A  0 USD @@ 5 EUR\n  B\n",
        "2024/01/01 x\n  A  1 AAA @ (1 USD + 2 EUR)\n  B\n",
        "2024/01/01 x\n  A  0,000.05 USD\n  B\n",
        "2024/01/01 x\n  A  (1 USD / 0)\n  B\n",
        "2024/01/01 x\n  A  (1 USD / 0 USD)\n  B\n",
        "2024/01/01 x\n  A  (1 / 0)\n  B\n",
        "2024/01/01 x\n  A  (0 / 0)\n  B\n",
        "2024/01/01 x\n  A  ((2 * 3) / (1 - 1))\n  B\n",
        "2024/01/01 x\n  A  (1 / 0 USD)\n  B\n",
        "2024/01/01 x\n  A  (1 / (1 USD - 1 USD))\n  B\n",
        "2024/01/01 x\n  A  1 USD @ (1 EUR / 0)\n  B\n",
        "2024/01/01 x\n  A  1 USD = (1 USD / (0 * 5))\n  B\n",
        "2024/01/01 x\n  A  1 USD {(2 EUR / 0.00)}\n  B\n",
        "2024/01/01 x\n  A  1 USD @ 0 EUR\n  B\n",
        "2024/01/01 x\n  A  1 USD {0 EUR}\n  B\n",
        "2024/01/01 x\n  A  = 0\n",
        "include nothing-here.ledger\n",
        "include /main.ledger\n",
        "include main.ledger\n",
        "include *.ledger\n",
        "include ../*/main.ledger\n",
        "include .\n",
        "include /\n",
        "account",
        "account ",
        "apply tag",
        "end apply",
        "commodity USD\n  format",
        "2024/01/01 x\n  A  1 USD\n  B  -1 USD = (",
        "\u{feff}2024/01/01 x\n",
        "2024/01/01 x\r",
        "2024/01/01 x\n  A \n",
        "2024/01/01 x\n  A  1 USD {\n",
        "2024/01/01 x\n  A  1 USD {{1 EUR}\n",
        "2024/01/01 x\n  A  1 USD [2024/13/01]\n",
        "2024/01/01 x\n  A  1 USD (\n",
        "2024/01/01 (\n",
        "0000/01/01\n",
        "9999/12/31 x\n  A  1\n  B  -1\n",
        "2024/01/01 x\n  A  1 USD @ 2 EUR\n  B  -2 EUR\n2024/02/01 y\n  A  1 JPY\n  B  -1 JPY\n",
        "2024/01/01 x\n  A  1 USD @ 1 USD\n  B\n",
        "2024/01/01 x\n  A  1 USD @@ 0.0000000000000000000000000001 EUR\n  B\n",
        "account A\n  alias A\n",
        "commodity USD\n  alias USD\n",
        "commodity USD\n  format 1,000.0000000000000000000000000000 USD\n2024/01/01 x\n  A  1 USD\n  B\n",
    ];
    for t in corpus {
        v.push(single(t.to_string(), "corpus"));
    }
    if let Ok(rd) = std::fs::read_dir(&o.corpus) {
        let mut files: Vec<_> = rd.filter_map(|e| e.ok()).map(|e| e.path()).collect();
        files.sort();
        for p in files {
            if let Ok(text) = std::fs::read_to_string(&p) {
                if let Ok(j) = serde_json::from_str::<Value>(&text) {
                    if let Some(t) = j.get("text").and_then(|x| x.as_str()) {
                        v.push(single(t.to_string(), "corpus-file"));
                    }
                }
            }
        }
    }
    // deep nesting: parentheses, minus signs, braces
    let depths: &[usize] = if o.thorough { &[99, 100, 101, 1000, 5000, 20000, 100000] } else { &[100, 101, 1000, 100000] };
    for &n in depths {
        v.push(nested("2024/01/01 x\n  A  ", "(", n, "1 USD", ")", "\n  B\n"));
        v.push(nested("2024/01/01 x\n  A  ", "(", n, "", "", "\n"));
        v.push(nested("2024/01/01 x\n  A  ", "(-", n, "1", ")", "\n  B\n"));
        v.push(nested("2024/01/01 x\n  A  (", "-", n, "1", "", ")\n  B\n"));
        v.push(nested("2024/01/01 x\n  A  1 USD = ", "( ", n, "1", " )", "\n"));
        v.push(nested("2024/01/01 x\n  A  1 USD @ ", "(", n, "1 EUR", ")", "\n  B\n"));
        v.push(nested("2024/01/01 x\n  A  1 USD {", "(", n, "1 EUR", ")", "}\n  B\n"));
        v.push(nested("2024/01/01 x\n  A  1 USD ", "(", n, "n", ")", "\n"));
        v.push(nested("2024/01/01 ", "(", n, "c", ")", " p\n"));
        v.push(nested("", ";", n, "", "\n", ""));
        v.push(nested("2024/01/01 x\n", "  A  1 USD\n", n.min(300), "", "", "  B\n"));
    }
    // long chains of operators (C06-F23): around the height bound 256 and far beyond it, as
    // posting amount, cost, lot price and balance assertion, with + * and mixed operators,
    // flat and inside nested parentheses
    let lengths: &[usize] = if o.thorough { &[200, 255, 256, 257, 1000, 10000, 50000, 200000] } else { &[200, 255, 256, 257, 1000, 50000, 200000] };
    for &n in lengths {
        let t = "2024/01/01 x\n";
        v.push(chain(&format!("{}  A  (", t), "1 USD", " + 1 USD", n, ")\n  B\n"));
        v.push(chain(&format!("{}  A  (", t), "1 USD", " * 1", n, ")\n  B\n"));
        if n >= 50000 && !o.thorough {
            // the quick tier keeps two very long chains per length; the thorough tier runs all shapes
            continue;
        }
        v.push(chain(&format!("{}  A  (", t), "1", "+1", n, ")\n  B\n"));
        v.push(chain(&format!("{}  A  (", t), "8 USD", "/1", n, ")\n  B\n"));
        v.push(chain(&format!("{}  A  (", t), "1 USD", " - 2 USD * 3 + 4 USD / 5", n, ")\n  B\n"));
        v.push(chain(&format!("{}  A  (", t), "-1 USD", " - -1 USD", n, ")\n  B\n"));
        v.push(chain(&format!("{}  A  ((", t), "1 USD", " + 1 USD", n, ") * 2)\n  B\n"));
        v.push(chain(&format!("{}  A  (2 * -(", t), "1 USD", " + 1 USD", n, "))\n  B\n"));
        v.push(chain(&format!("{}  A  1 AAA @ (", t), "1 USD", " + 1 USD", n, ")\n  B\n"));
        v.push(chain(&format!("{}  A  1 AAA @@ (", t), "1 USD", " * 1", n, ")\n  B\n"));
        v.push(chain(&format!("{}  A  1 AAA {{(", t), "1 USD", " + 1 USD", n, ")}\n  B\n"));
        v.push(chain(&format!("{}  A  1 USD = (", t), "1 USD", " + 0 USD", n, ")\n  B\n"));
        v.push(chain(&format!("{}  A  = (", t), "0", " + 0", n, ")\n"));
        v.push(chain(&format!("{}  A  ", t), "1 USD", " + 1 USD", n, "\n  B\n"));
        v.push(chain(&format!("{}  A  (", t), "1 USD", " + 1 USD", n, "\n  B\n"));
    }
    // chains inside nested parentheses: each level is 3 taller (1 + 3n: 85 levels = 256), left
    // and right nested; and chains of chains
    for n in [50usize, 84, 85, 86, 100, 101, 1000, 50000] {
        if n >= 50000 && !o.thorough {
            continue;
        }
        let mut s = nested("2024/01/01 x\n  A  ", "(", n, "1 USD", " + 1 USD + 1 USD)", "\n  B\n");
        s.stream = "long-chain";
        s.process = true;
        v.push(s);
        let mut s = nested("2024/01/01 x\n  A  ", "(1 USD + 1 USD + ", n, "1 USD", ")", "\n  B\n");
        s.stream = "long-chain";
        s.process = true;
        v.push(s);
        let mut s = nested("2024/01/01 x\n  A  1 USD = ", "(-", n, "1 USD", " * 1 * 1)", "\n");
        s.stream = "long-chain";
        s.process = true;
        v.push(s);
    }
    for (k, m) in [(3usize, 84usize), (3, 85), (100, 100), (300, 300)] {
        // k chains of m operands each, added up: height m + k - 1 (+ 1 for the parentheses)
        let inner = format!("1 USD{}", " * 1".repeat(m - 1));
        v.push(chain("2024/01/01 x\n  A  (", &inner, &format!(" + {}", inner), k, ")\n  B\n"));
    }
    // huge and tiny literals
    for n in [27usize, 28, 29, 30, 38, 39, 40, 100, 1000, 100000] {
        let d = "9".repeat(n);
        for t in [
            format!("2024/01/01 x\n  A  {} USD\n  B\n", d),
            format!("2024/01/01 x\n  A  0.{} USD\n  B\n", d),
            format!("2024/01/01 x\n  A  -{}.{} USD\n  B\n", d, d),
            format!("2024/01/01 x\n  A  1 USD @ {} EUR\n  B\n", d),
            format!("commodity USD\n  format {}.00 USD\n", d),
        ] {
            v.push(Single { text: t, stream: "huge-literal", process: n <= 12, cli: "format", built: None });
        }
    }
    // zero rates / amounts in every position
    for a in ["0", "0.00", "-0", "1"] {
        for c in ["@ 0 EUR", "@@ 0 EUR", "{0 EUR}", "{{0 EUR}}", "@ 0", "{0}", "@ (1 EUR - 1 EUR)", "= 0", "= 0 USD", "@ 1 USD", "@@ 0 USD", "{{1 USD}}"] {
            v.push(single(
                format!("2024/01/01 x\n  A  {} USD {}\n  B\n2024/01/02 y\n  A  1 USD\n  B  -1 USD\n", a, c),
                "zero-positions",
            ));
        }
    }
    // the printer's width subtraction: balance-only and amount+balance postings whose commodity
    // is wide, zero-width or part of a sequence unicode-width measures as a whole
    for (k, c) in WIDTH_COMMODITIES.iter().enumerate() {
        for b in [
            format!("= 1 {}", c),
            format!("= (1 {} + 2 {})", c, c),
            format!("= -12,345.60 {}", c),
            format!("1 {} = 1 {}", c, c),
            format!("= (1 + 2) * 3 {}", c),
        ] {
            let acct = if k % 2 == 0 { "A".to_string() } else { format!("\u{8CC7}\u{7523}:{}", c) };
            v.push(single(format!("2024/01/01 x\n  {}  {}\n", acct, b), "width-oracle"));
        }
    }
    // grammatical ledgers that book (or fail in book-keeping), and each cut at every line
    let n = if o.thorough { 400 } else { 40 };
    for k in 0..n {
        let mut b = crate::ledger::Bias::default_bias();
        b.max_txns = 5;
        b.expr_pct = 20;
        b.assert_pct = 10;
        b.unbalanced_pct = if k % 4 == 0 { 50 } else { 3 };
        b.omit_pct = 40;
        let es = crate::ledger::gen_ledger(r, &b);
        let text = crate::ledger::render(&es).text;
        let lines: Vec<&str> = text.split_inclusive('\n').collect();
        if k % 4 == 1 {
            for cut in 1..lines.len() {
                v.push(single(lines[..cut].concat(), "booked-cut"));
            }
        }
        v.push(single(text, "booked"));
    }
    // numerically adversarial valid ledgers: declared formats, half-unit and sub-precision
    // residues, zero amounts with @ / @@ / {} / {{}}, two- and three-commodity residuals (the
    // enumerated boundary set of C01), sub-precision residues beside another commodity, and
    // generated ledgers biased to zeros, costs, lots, formats and unbalanced transactions
    for es in crate::c01::boundary_cases() {
        v.push(single(crate::ledger::render(&es).text, "numeric-boundary"));
    }
    for dp in [0u32, 2, 3] {
        let unit = 10i64.pow(3 - dp.min(3)); // one unit of the declared precision, in thousandths
        for residue in [0i64, 1, unit / 2 - 1, unit / 2, unit / 2 + 1, unit - 1, unit, -1, -(unit / 2), -(unit / 2) - 1] {
            for other in ["-5 EUR", "5 EUR", "0 EUR", "0.004 EUR", "-5 EUR @ 2 JPY", "-5 EUR {2 JPY}", "(1 EUR - 1 EUR)"] {
                for three in [false, true] {
                    let fmt = match dp {
                        0 => "1,000",
                        2 => "1,000.00",
                        _ => "1,000.000",
                    };
                    let a = 10_000 + residue;
                    let mut t = format!(
                        "commodity USD\n  format {} USD\n\n2024/01/01 x\n  A  {}.{:03} USD\n  B  -10.000 USD\n  C  {}\n",
                        fmt,
                        a / 1000,
                        a % 1000,
                        other
                    );
                    if three {
                        t.push_str("  D  7 JPY\n");
                    }
                    v.push(single(t, "numeric-residue"));
                }
            }
        }
    }
    let n = if o.thorough { 3000 } else { 150 };
    for k in 0..n {
        let mut b = crate::ledger::Bias::default_bias();
        b.format_pct = 90;
        b.zero_pct = 25;
        b.cost_pct = 40;
        b.lot_pct = 25;
        b.unbalanced_pct = if k % 2 == 0 { 70 } else { 10 };
        b.omit_pct = 15;
        b.assert_pct = 10;
        b.max_txns = 3;
        let es = crate::ledger::gen_ledger(r, &b);
        v.push(single(crate::ledger::render(&es).text, "numeric-random"));
    }
    // random strings
    let n = if o.thorough { 6000 } else { 600 };
    for k in 0..n {
        v.push(single(pgen::random_text(r, k % 2 == 0), "random"));
    }
    // interleavings of valid and invalid lines
    let n = if o.thorough { 3000 } else { 300 };
    for k in 0..n {
        let mut rr = Rng::new(o.seed.wrapping_mul(7919).wrapping_add(k as u64), 606);
        let mut g = pgen::Gen::new(&mut rr, 200);
        let text = g.ledger(4);
        let mut lines: Vec<String> = text.split_inclusive('\n').map(|s| s.to_string()).collect();
        let edits = 1 + r.below(3);
        for _ in 0..edits {
            if lines.is_empty() {
                break;
            }
            let i = r.below(lines.len() as u64) as usize;
            match r.below(4) {
                0 => {
                    lines.remove(i);
                }
                1 => {
                    let mut junk = pgen::random_text(r, true);
                    junk.push('\n');
                    lines.insert(i, junk);
                }
                2 => {
                    let j = r.below(lines.len() as u64) as usize;
                    lines.swap(i, j);
                }
                _ => {
                    lines[i] = pgen::mutate(r, &lines[i]);
                }
            }
        }
        v.push(single(lines.concat(), "interleaved"));
    }
    v
}

fn load_cases(o: &Opts, r: &mut Rng) -> Vec<Vec<(String, String)>> {
    let mut v: Vec<Vec<(String, String)>> = Vec::new();
    let f = |p: &str, c: &str| (p.to_string(), c.to_string());
    v.push(vec![f("/main.ledger", "include main.ledger\n")]);
    v.push(vec![f("/main.ledger", "include /main.ledger\n")]);
    v.push(vec![f("/main.ledger", "include ./main.ledger")]);
    v.push(vec![f("/main.ledger", "include *.ledger\n")]);
    v.push(vec![f("/main.ledger", "include a.ledger\n"), f("/a.ledger", "include main.ledger\n")]);
    v.push(vec![f("/main.ledger", "include d/a.ledger\n"), f("/d/a.ledger", "include ../main.ledger\n")]);
    v.push(vec![f("/main.ledger", "include d/../d/a.ledger\n"), f("/d/a.ledger", "include ../d/./../main.ledger\n")]);
    v.push(vec![f("/main.ledger", "include a.ledger\n"), f("/a.ledger", "include b.ledger\n"), f("/b.ledger", "include a.ledger\n")]);
    v.push(vec![f("/main.ledger", "include a.ledger\n"), f("/a.ledger", "include b.ledger\n"), f("/b.ledger", "include c.ledger\n"), f("/c.ledger", "2024/01/01 x\n  A  1 USD\n  B\ninclude main.ledger\n")]);
    v.push(vec![f("/main.ledger", "include a.ledger\ninclude a.ledger\n"), f("/a.ledger", "2024/01/01 x\n")]);
    v.push(vec![f("/main.ledger", "include d/*.ledger\n"), f("/d/a.ledger", "include *.ledger\n"), f("/d/b.ledger", "2024/01/01 x\n")]);
    v.push(vec![f("/main.ledger", "2024/01/01 x\n  A  1 USD\n  B\ninclude a.ledger\n"), f("/a.ledger", "2024/01/01 (\n")]);
    v.push(vec![f("/main.ledger", "include missing.ledger\n")]);
    v.push(vec![f("/main.ledger", "include [.ledger\n")]);
    v.push(vec![f("/main.ledger", "include d\n"), f("/d/a.ledger", "2024/01/01 x\n")]);
    let n = if o.thorough { 300 } else { 40 };
    for _ in 0..n {
        // random include graph over k files
        let k = 1 + r.below(5) as usize;
        let names: Vec<String> = (0..k).map(|i| if i == 0 { "/main.ledger".to_string() } else { format!("/f{}.ledger", i) }).collect();
        let mut files = Vec::new();
        for i in 0..k {
            let mut c = String::new();
            let m = r.below(3);
            for _ in 0..m {
                if r.chance(1, 2) {
                    c.push_str("2024/01/01 x\n  A  1 USD\n  B\n");
                }
                let j = r.below(k as u64 + 1) as usize;
                if j < k {
                    c.push_str(&format!("include {}\n", &names[j][1..]));
                } else if r.chance(1, 2) {
                    c.push_str("include *.ledger\n");
                } else {
                    c.push_str("include nowhere.ledger\n");
                }
            }
            files.push((names[i].clone(), c));
        }
        v.push(files);
    }
    v
}

struct PriceInput {
    ledger: String,
    db: String,
    x: String,
    stream: &'static str,
}

const PRICE_LEDGER: &str = "2024/01/01 buy\n  Assets:Broker  10 AAPL @ 150 USD\n  Assets:Bank\n\n2024/01/05 fx\n  Assets:Bank  100 EUR @@ 110 USD\n  Assets:Bank\n\n2024/02/01 jp\n  Assets:Cash  1000 JPY\n  Equity\n\n2024/02/02 implied\n  Assets:Bank  -50 CHF\n  Assets:Bank  55 USD\n";

fn price_cases(o: &Opts, r: &mut Rng) -> Vec<PriceInput> {
    let mut v = Vec::new();
    let fixed = [
        "",
        "\n",
        "P 2024/01/02 EUR 1.1 USD\n",
        "P 2024/01/02 EUR 1.1 USD",
        "P 2024/01/02 EUR 0 USD\n",
        "P 2024/01/02 EUR 0.00 USD\n",
        "P 2024/01/02 EUR -0 USD\n",
        "P 2024/01/02 USD 1 USD\n",
        "P 2024/01/02 USD 0 USD\n",
        "P 2024/01/02 USD 2 USD\nP 2024/01/03 EUR 1 EUR\n",
        "P 2024/01/02 EUR -1.1 USD\n",
        "P 2024/01/02 EUR 1.1\n",
        "P 2024/01/02 EUR USD\n",
        "P 2024/01/02 1.1 USD\n",
        "P 2024/13/45 EUR 1.1 USD\n",
        "P 2024-01-02 EUR 1.1 USD\r\nP 2024-01-03 JPY 0.007 USD\r\n",
        "P  2024/01/02  EUR  1.1  USD  \n",
        "P 2024/01/02 EUR 1.1 USD ; comment\n",
        "; comment\nP 2024/01/02 EUR 1.1 USD\n",
        "P\n",
        "P ",
        "Q 2024/01/02 EUR 1.1 USD\n",
        "P 2024/01/02 EUR 1.1 USD\nP 2024/01/02 USD 0 EUR\nP 2024/01/03 JPY 0 JPY\nP 2024/01/04 CHF 1.2 USD\n",
        "P 2024/01/02 EUR 0.0000000000000000000000000001 USD\n",
        "P 2024/01/02 EUR 7922816251426433759354395033 USD\n",
        "P 2024/01/02 EUR 79228162514264337593543950336 USD\n",
        "P 2024/01/02 EUR (1.1 USD)\n",
        "P 2024/01/02 EUR 1,1 USD\n",
        "P 2024/01/02 AAPL 1 EUR\nP 2024/01/02 EUR 1 JPY\nP 2024/01/02 JPY 1 AAPL\nP 2024/01/02 CHF 1 CHF\n",
        "P 2024/01/02 \u{7C73}\u{30C9}\u{30EB} 1.1 USD\n",
        "\u{feff}P 2024/01/02 EUR 1.1 USD\n",
        "P 9999/12/31 EUR 1.1 USD\nP 0001/01/01 EUR 1.2 USD\n",
    ];
    for (k, db) in fixed.iter().enumerate() {
        v.push(PriceInput { ledger: PRICE_LEDGER.to_string(), db: db.to_string(), x: ["USD", "EUR", "JPY", "CHF", "AAPL"][k % 5].to_string(), stream: "price-db-fixed" });
    }
    // generated price cases: as generated, with lines mutated, zeroed, made self rates, and cut
    // at every character of the price DB
    let n = if o.thorough { 120 } else { 16 };
    for k in 0..n {
        let pc = crate::price::gen_price_case(r, k % 2 == 0, true);
        let ledger = crate::ledger::render(&pc.entries).text;
        let db = crate::price::db_text(&pc.db, k as u64);
        let x = if pc.comms.is_empty() || r.chance(1, 8) {
            crate::ledger::COMMODITIES[r.below(5) as usize].to_string()
        } else {
            crate::ledger::COMMODITIES[pc.comms[r.below(pc.comms.len() as u64) as usize]].to_string()
        };
        v.push(PriceInput { ledger: ledger.clone(), db: db.clone(), x: x.clone(), stream: "price-db-generated" });
        let mut lines: Vec<String> = db.split_inclusive('\n').map(|s| s.to_string()).collect();
        for _ in 0..(1 + r.below(3)) {
            if lines.is_empty() {
                break;
            }
            let i = r.below(lines.len() as u64) as usize;
            let parts: Vec<String> = lines[i].split(' ').map(|s| s.to_string()).collect();
            match r.below(5) {
                0 if parts.len() >= 5 => lines[i] = format!("{} {} {} 0 {}", parts[0], parts[1], parts[2], parts[4]),
                1 if parts.len() >= 5 => lines[i] = format!("{} {} {} {} {}\n", parts[0], parts[1], parts[2], parts[3], parts[2]),
                2 => lines[i] = pgen::mutate(r, &lines[i]),
                3 => {
                    let mut junk = pgen::random_text(r, true);
                    junk.push('\n');
                    lines.insert(i, junk);
                }
                _ => {
                    lines.remove(i);
                }
            }
        }
        v.push(PriceInput { ledger: ledger.clone(), db: lines.concat(), x: x.clone(), stream: "price-db-mutated" });
        if k % 4 == 0 {
            let chars: Vec<char> = db.chars().collect();
            for cut in 0..chars.len().min(160) {
                v.push(PriceInput { ledger: ledger.clone(), db: chars[..cut].iter().collect(), x: x.clone(), stream: "price-db-prefix" });
            }
        }
    }
    v
}

/// one run of the built binary in a fresh process: ok (exit 0) | err (exit 1) | panic (exit 101)
/// | abort:<signal> | timeout | err:exit<n>
fn bin_run(bin: &str, args: &[String], timeout_ms: u64) -> String {
    use std::process::{Command, Stdio};
    let mut child = match Command::new(bin)
        .args(args)
        .env_clear()
        .env("RUST_BACKTRACE", "0")
        .stdin(Stdio::null())
        .stdout(Stdio::null())
        .stderr(Stdio::null())
        .spawn()
    {
        Ok(c) => c,
        Err(e) => return format!("harness:{}", e),
    };
    let mut waited = 0u64;
    loop {
        match child.try_wait() {
            Ok(Some(s)) => {
                use std::os::unix::process::ExitStatusExt;
                return match (s.code(), s.signal()) {
                    (Some(0), _) => "ok".to_string(),
                    (Some(1), _) => "err".to_string(),
                    (Some(101), _) => "panic:exit 101".to_string(),
                    (Some(n), _) => format!("abort:exit {}", n),
                    (None, Some(sig)) => format!("abort:signal {}", sig),
                    _ => "abort:unknown".to_string(),
                };
            }
            Ok(None) => {
                if waited >= timeout_ms {
                    let _ = child.kill();
                    let _ = child.wait();
                    return "timeout".to_string();
                }
                std::thread::sleep(std::time::Duration::from_millis(2));
                waited += 2;
            }
            Err(e) => return format!("harness:{}", e),
        }
    }
}

pub fn run(o: &Opts) {
    let mut st = Stats::new();
    let mut sh = Shards::new(&o.out, o.shards, &crate::c05::header("Classify_C06"));
    st.rule = "cases: every prefix (cut at every character) of generated valid ledgers; random strings over the ledger alphabet and arbitrary Unicode; generated ledgers with deleted/inserted/swapped/mutated lines; generated ledgers that book, whole and cut at every line; 100..100000 nested parentheses, minus signs and repeated lines; chains of 200..200000 operators (+ * / mixed, flat, nested, as amount, cost, lot price and balance assertion) around and far beyond the height bound 256; literals of 27..100000 digits; zero rates, zero amounts and self rates in every position; balance assertions in commodities of wide, zero-width and sequence-forming characters; include graphs with self-includes and cycles, on a FakeFileSystem (Loader::load, report::process) and as files of the real file system; price-DB files with malformed lines, zero rates, self rates, cut at every character; numerically adversarial valid ledgers (declared formats, half-unit and sub-precision residues beside other commodities, zero amounts with costs and lots, two- and three-commodity residuals); unicode-width measured directly on expression heads followed by a space and sequence-forming characters. Each runs in a child process (5 s watchdog): parse_ledger, FormatOptions::format, report::process, balance and postings queries, and the commands format / balance / balance -X (up to date, --historical, with a date range) / register / accounts (/ --price-db) in-process on the real file; the corpus, the long chains, the include graphs and the price-DB cases also through the built okane binary in fresh processes (exit status, signal, 5 s limit). non-trivial = the text is not accepted as a fully valid ledger or a command answered an error (an error path ran); distinct by input".to_string();
    st.assumptions.push("report::process, the queries and the report commands are skipped for literals beyond 12 digits; report::process and the queries for nesting beyond 200 (the property exempts numbers outside the representable decimal range); `okane format` runs on all of them".to_string());
    st.assumptions.push("the clock is an input: every report command gets --now".to_string());
    let mut r = Rng::new(o.seed, 6);
    let bin = std::env::var("OKV_OKANE_BIN").ok().filter(|b| std::path::Path::new(b).exists());
    if bin.is_none() {
        st.assumptions.push("OKV_OKANE_BIN not set: the fresh-process leg did not run".to_string());
    }
    // replay of one recorded text
    let replay: Option<String> = o
        .extra
        .iter()
        .position(|a| a == "--replay")
        .and_then(|k| o.extra.get(k + 1))
        .and_then(|p| std::fs::read_to_string(p).ok())
        .and_then(|t| serde_json::from_str::<Value>(&t).ok())
        .and_then(|v| v.get("text").and_then(|x| x.as_str()).map(|s| s.to_string()));
    if let Some(text) = replay {
        let obs = child::run_batch("c06", &[input_json(&text, true, "all")], 5000);
        let (t, v, _) = obs_term(&obs[0]);
        count_obs(&mut st, &obs[0], &v);
        st.eval(&text, true);
        let rep = json!({"property": "C06", "text": text, "stream": "replay", "impl": v});
        sh.push(format!("Single {} {}", parseobs::text(&text), t), vec![rep]);
        sh.finish(&st);
        return;
    }
    // 1. single texts
    let items = singles(o, &mut r);
    for chunk in items.chunks(100) {
        let inputs: Vec<Vec<u8>> = chunk.iter().map(|i| input_json(&i.text, i.process, i.cli)).collect();
        let obs = child::run_batch("c06", &inputs, 5000);
        for (it, co) in chunk.iter().zip(obs.iter()) {
            let (t, v, bad) = obs_term(co);
            count_obs(&mut st, co, &v);
            st.count(&format!("stream:{}", it.stream));
            let accepted = v["parse"].as_str() == Some("ok");
            let cmd_err = outcomes(&v["cli"], &CLI_NAMES).iter().any(|s| s.starts_with("err"));
            st.eval(&it.text, !accepted || cmd_err);
            let shown: String = if it.text.len() > 400 { format!("{}… ({} bytes)", it.text.chars().take(200).collect::<String>(), it.text.len()) } else { it.text.clone() };
            let rep = json!({"property": "C06", "text": if it.text.len() <= 20000 { json!(it.text) } else { json!(null) }, "shown": shown,
                             "stream": it.stream, "impl": v, "commands": CLI_NAMES,
                             "reproduce": "parse_ledger / FormatOptions::format / report::process on a FakeFileSystem; okane format|balance [-X C --now 2024-06-01 [--historical | --start 2000-01-01 --end 2024-03-01]]|register [A]|accounts on the text written to a file"});
            if !accepted && !bad {
                st.sample(rep.clone(), 4);
            }
            let text_term = match &it.built {
                Some(b) => b.clone(),
                None => parseobs::text(&it.text),
            };
            sh.push(format!("Single {} {}", text_term, t), vec![rep]);
        }
    }
    // 2. every prefix of generated valid ledgers
    let n = if o.thorough { 60 } else { 6 };
    for k in 0..n {
        let mut rr = Rng::new(o.seed.wrapping_mul(104729).wrapping_add(k as u64), 607);
        let mut g = pgen::Gen::new(&mut rr, if k % 2 == 0 { 0 } else { 300 });
        let mut text = g.ledger(3);
        if text.chars().count() > 700 {
            text = text.chars().take(700).collect();
        }
        let chars: Vec<char> = text.chars().collect();
        let prefixes: Vec<String> = (0..=chars.len()).map(|k| chars[..k].iter().collect()).collect();
        let inputs: Vec<Vec<u8>> = prefixes.iter().map(|p| input_json(p, true, "all")).collect();
        let obs = child::run_batch("c06", &inputs, 5000);
        let mut terms = Vec::new();
        let mut reps = Vec::new();
        for (p, co) in prefixes.iter().zip(obs.iter()) {
            let (t, v, _bad) = obs_term(co);
            count_obs(&mut st, co, &v);
            st.count("stream:prefix");
            let accepted = v["parse"].as_str() == Some("ok");
            st.eval(p, !accepted);
            terms.push(t);
            reps.push(json!({"property": "C06", "text": p, "stream": "prefix", "impl": v, "commands": CLI_NAMES,
                             "reproduce": "parse_ledger / FormatOptions::format / report::process on a FakeFileSystem; the okane commands on the text written to a file"}));
        }
        sh.push(format!("Prefixes {} {}", parseobs::text(&text), coq::list(terms)), reps);
    }
    // 3. include graphs: FakeFileSystem and the real file system, in a child process
    let graphs = load_cases(o, &mut r);
    let inputs: Vec<Vec<u8>> = graphs
        .iter()
        .map(|files| json!({"files": files.iter().map(|(p, c)| json!([p, c])).collect::<Vec<_>>()}).to_string().into_bytes())
        .collect();
    let obs = child::run_batch("c06load", &inputs, 5000);
    const REAL_NAMES: [&str; 6] = ["flatten", "balance", "balance_x", "register", "accounts", "format"];
    let scratch = cli::Scratch::new("c06bin");
    for (gi, (files, co)) in graphs.iter().zip(obs.iter()).enumerate() {
        let (fake_load, fake, real, v) = match co {
            ChildObs::Timeout => ("RTimeout", "RTimeout".to_string(), Vec::new(), json!("timeout")),
            ChildObs::Abort(s) => ("RAbort", "RAbort".to_string(), Vec::new(), json!({ "abort": s })),
            ChildObs::Line(l) => {
                let v: Value = serde_json::from_str(l).unwrap_or(json!({}));
                let worst = ["load", "process", "query"].iter().map(|k| outcome(v[*k].as_str().unwrap_or("harness"))).fold("ROk", |a, b| {
                    if a == "RPanic" || b == "RPanic" {
                        "RPanic"
                    } else if a == "RErr" || b == "RErr" {
                        "RErr"
                    } else {
                        a
                    }
                });
                (outcome(v["load"].as_str().unwrap_or("harness")), worst.to_string(), outcomes(&v["real"], &REAL_NAMES), v)
            }
        };
        // the built binary, one fresh process per command
        let mut bin_obs: Vec<String> = Vec::new();
        if let Some(b) = &bin {
            for (p, c) in files {
                scratch.write(&format!("g{}/{}", gi, p.trim_start_matches('/')), c);
            }
            let main = scratch.dir.join(format!("g{}/main.ledger", gi)).to_string_lossy().to_string();
            for args in [vec!["balance"], vec!["register", "--now", "2024-06-01"], vec!["accounts"], vec!["primitive", "flatten"]] {
                let mut a: Vec<String> = args.iter().map(|s| s.to_string()).collect();
                a.push(main.clone());
                let oc = bin_run(b, &a, 5000);
                st.count(&format!("bin:{}:{}", args[0], oc.split(':').next().unwrap_or("")));
                bin_obs.push(oc);
            }
        }
        count_obs(&mut st, co, &v);
        st.count("stream:include-graph");
        st.eval(files, fake != "ROk");
        let rep = json!({"property": "C06", "files": files, "stream": "include-graph", "impl": v, "binary": bin_obs,
                         "commands_real": REAL_NAMES, "commands_binary": ["balance", "register", "accounts", "primitive flatten"],
                         "reproduce": "Loader::new(\"/main.ledger\", FakeFileSystem).load / report::process; the same files written to a directory and okane <command> main.ledger"});
        sh.push(format!("LoadCase {} {} {} {}", fake_load, fake, outcome_list(&real), outcome_list(&bin_obs)), vec![rep]);
    }
    // 4. price-DB files
    let pcs = price_cases(o, &mut r);
    let inputs: Vec<Vec<u8>> = pcs.iter().map(|p| json!({"ledger": p.ledger, "db": p.db, "x": p.x}).to_string().into_bytes()).collect();
    let obs = child::run_batch("c06price", &inputs, 5000);
    for (pi, (pc, co)) in pcs.iter().zip(obs.iter()).enumerate() {
        let (os, v) = match co {
            ChildObs::Timeout => (vec!["timeout".to_string()], json!("timeout")),
            ChildObs::Abort(s) => (vec![format!("abort:{}", s)], json!({ "abort": s })),
            ChildObs::Line(l) => {
                let v: Value = serde_json::from_str(l).unwrap_or(json!({}));
                (outcomes(&v, &PRICE_NAMES), v)
            }
        };
        let mut bin_obs: Vec<String> = Vec::new();
        if let (Some(b), true) = (&bin, pc.stream != "price-db-prefix") {
            let main = scratch.write(&format!("p{}/main.ledger", pi), &pc.ledger).to_string_lossy().to_string();
            let db = scratch.write(&format!("p{}/prices.db", pi), &pc.db).to_string_lossy().to_string();
            for hist in [false, true] {
                let mut a: Vec<String> = vec!["balance".into(), "--price-db".into(), db.clone(), "-X".into(), pc.x.clone(), "--now".into(), "2024-06-01".into()];
                if hist {
                    a.push("--historical".into());
                }
                a.push(main.clone());
                let oc = bin_run(b, &a, 5000);
                st.count(&format!("bin:balance-price-db:{}", oc.split(':').next().unwrap_or("")));
                bin_obs.push(oc);
            }
        }
        for (k, s) in PRICE_NAMES.iter().zip(os.iter()) {
            st.count(&format!("price:{}:{}", k, s.split(':').next().unwrap_or("")));
        }
        st.count(&format!("stream:{}", pc.stream));
        st.eval(&(&pc.ledger, &pc.db, &pc.x), os.iter().any(|s| s.starts_with("err")));
        let rep = json!({"property": "C06", "ledger": pc.ledger, "price_db": pc.db, "exchange": pc.x, "stream": pc.stream, "impl": v, "binary": bin_obs,
                         "commands": PRICE_NAMES,
                         "reproduce": "okane balance --price-db prices.db [-X C --now 2024-06-01 [--historical]] main.ledger; okane register --price-db prices.db main.ledger"});
        sh.push(format!("CmdCase {} {}", outcome_list(&os), outcome_list(&bin_obs)), vec![rep]);
    }
    // 5. the corpus texts through the built binary
    if let Some(b) = &bin {
        let corpus: Vec<&Single> = items.iter().filter(|i| i.stream == "corpus" || i.stream == "corpus-file" || i.stream == "width-oracle" || i.stream == "zero-positions" || i.stream == "long-chain").collect();
        for (ci, it) in corpus.iter().enumerate() {
            let main = scratch.write(&format!("c{}/main.ledger", ci), &it.text).to_string_lossy().to_string();
            let x = some_commodity(&it.text);
            let mut bin_obs = Vec::new();
            let cmds: Vec<Vec<String>> = vec![
                vec!["format".into()],
                vec!["balance".into()],
                vec!["balance".into(), "-X".into(), x.clone(), "--now".into(), "2024-06-01".into()],
                vec!["balance".into(), "-X".into(), x.clone(), "--historical".into(), "--now".into(), "2024-06-01".into()],
                vec!["register".into(), "--now".into(), "2024-06-01".into()],
                vec!["accounts".into()],
            ];
            for c in &cmds {
                let mut a = c.clone();
                a.push(main.clone());
                let oc = bin_run(b, &a, 5000);
                st.count(&format!("bin:{}:{}", c[0], oc.split(':').next().unwrap_or("")));
                bin_obs.push(oc);
            }
            st.count("stream:binary-corpus");
            st.eval(&("bin", &it.text), bin_obs.iter().any(|s| s.starts_with("err")));
            let shown: String = if it.text.len() > 400 { format!("{}… ({} bytes)", it.text.chars().take(200).collect::<String>(), it.text.len()) } else { it.text.clone() };
            let rep = json!({"property": "C06", "text": if it.text.len() <= 20000 { json!(it.text) } else { json!(null) }, "shown": shown, "stream": "binary-corpus", "binary": bin_obs,
                             "commands_binary": ["format", "balance", format!("balance -X {} --now 2024-06-01", x), format!("balance -X {} --historical --now 2024-06-01", x), "register --now 2024-06-01", "accounts"],
                             "reproduce": "the built okane binary, one fresh process per command, on the text written to main.ledger"});
            sh.push(format!("CmdCase [] {}", outcome_list(&bin_obs)), vec![rep]);
        }
    }
    // 6. the hypothesis of C06_format_total on the real oracle: unicode-width's width_cjk of
    // HEAD ++ " " ++ TAIL (HEAD: digits and expression punctuation) against len(HEAD) + width_cjk(" " ++ TAIL)
    {
        use unicode_width::UnicodeWidthStr;
        let heads = ["1", "-12,345.60", "(1 + 2) * 3", "((0.5", "-(1", "9", "1 / 3 - 2", "1 * 2", "0"];
        let pool: Vec<char> = "\u{FE0F}\u{FE0E}\u{200D}\u{20E3}\u{1F642}\u{1F468}\u{1F1E6}\u{1F1E7}\u{17D2}\u{1780}\u{2D31}\u{2D7F}\u{644}\u{627}\u{A4F8}\u{A4FC}\u{0301}\u{200B}\u{0338}\u{7C73}\u{1F3FB}\u{E007F}\u{E0061}\u{00AD}\u{1160}\u{11A8}\u{5DC}\u{5D0}\u{1A10}\u{1A17}\u{1A15}\u{10C03}\u{10C32}\u{1F3F4}aZ$<=>#*19".chars().collect();
        let n = if o.thorough { 20000 } else { 1500 };
        for k in 0..n {
            let head = heads[k % heads.len()];
            let len = 1 + r.below(6) as usize;
            let tail: String = (0..len).map(|_| *r.pick(&pool)).collect();
            let spaced = format!(" {}", tail);
            let whole = UnicodeWidthStr::width_cjk(format!("{}{}", head, spaced).as_str());
            let wt = UnicodeWidthStr::width_cjk(spaced.as_str());
            let alone = UnicodeWidthStr::width_cjk(head);
            st.count("stream:width-oracle-direct");
            st.eval(&("oracle", head, &tail), whole != head.len() + 1 + tail.chars().count());
            let rep = json!({"property": "C06", "stream": "width-oracle-direct", "head": head, "tail": tail, "width_cjk_whole": whole, "width_cjk_space_tail": wt, "width_cjk_head": alone,
                             "reproduce": "unicode_width::UnicodeWidthStr::width_cjk(head + \" \" + tail)"});
            sh.push(format!("OracleCase {} {} {} {}", head.len(), alone, whole, wt), vec![rep]);
        }
    }
    drop(scratch);
    // scratch directories of children that were killed
    if let Ok(base) = std::env::var("OKV_SCRATCH") {
        if let Ok(rd) = std::fs::read_dir(&base) {
            for e in rd.filter_map(|e| e.ok()) {
                let n = e.file_name().to_string_lossy().to_string();
                if n.starts_with("c06-") || n.starts_with("c06g-") || n.starts_with("c06p-") {
                    let _ = std::fs::remove_dir_all(e.path());
                }
            }
        }
    }
    sh.finish(&st);
}
