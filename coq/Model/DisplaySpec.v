(* Declarative vocabulary for C19 (layout of formatted postings): what "the numeric part of the
   first amount" is, display columns, and the shapes of lines.  Definitions only. *)
From Coq Require Import List NArith ZArith Bool Arith.
From Okv Require Import Model.Lit Model.Syntax Model.Display.
Import ListNotations.
Open Scope N_scope.

(* ---- an expression as the sequence of its tokens, left to right ---- *)
Inductive tok :=
| TOpen | TClose | TNeg
| TOp (op : s_binop)
| TLit (a : s_amount).

Fixpoint toks_v (v : s_vexpr) : list tok :=
  match v with
  | SAmount a => [TLit a]
  | SParen e => TOpen :: toks_e e ++ [TClose]
  end
with toks_e (e : s_expr) : list tok :=
  match e with
  | SUnaryNeg e1 => TNeg :: toks_e e1
  | SBinary op l r => toks_e l ++ [TOp op] ++ toks_e r
  | SValue v => toks_v v
  end.

Definition has_commodity (a : s_amount) : bool :=
  match sa_commodity a with [] => false | _ :: _ => true end.

(* the number of a literal, and the literal with its commodity *)
Definition lit_number (a : s_amount) : str := show (sa_value a).
Definition lit_text (a : s_amount) : str :=
  if has_commodity a then lit_number a ++ [32] ++ sa_commodity a else lit_number a.

Definition tok_text (t : tok) : str :=
  match t with
  | TOpen => [40]
  | TClose => [41]
  | TNeg => [45]
  | TOp op => [32; binop_char op; 32]
  | TLit a => lit_text a
  end.

Definition toks_text (ts : list tok) : str := flat_map tok_text ts.

(* The alignment point of an expression: the text up to the end of the numeric part of the first
   literal that carries a commodity; the whole text when no literal carries one. *)
Fixpoint align_prefix (ts : list tok) : str :=
  match ts with
  | [] => []
  | TLit a :: r => if has_commodity a then lit_number a else lit_number a ++ align_prefix r
  | t :: r => tok_text t ++ align_prefix r
  end.

Definition vexpr_align_prefix (v : s_vexpr) : str := align_prefix (toks_v v).

(* does a token / a token list carry a commodity? *)
Definition tok_comm (t : tok) : bool :=
  match t with TLit a => has_commodity a | _ => false end.
Definition has_comm (ts : list tok) : bool := existsb tok_comm ts.

(* characters an expression consists of apart from commodities: digits , . - + * / ( ) space *)
Definition expr_punct (c : N) : bool :=
  is_digit c || (c =? 44) || (c =? 46) || (c =? 45) || (c =? 43) || (c =? 42) || (c =? 47) ||
  (c =? 40) || (c =? 41) || (c =? 32).

(* ---- the oracle on ASCII ---- *)
Definition printable_ascii (s : str) : bool := forallb (fun c => (32 <=? c) && (c <? 127)) s.

(* unicode-width gives a printable ASCII string its length *)
Definition ascii_width_ok (width : str -> nat) : Prop :=
  forall s, printable_ascii s = true -> width s = length s.

(* ---- lines ---- *)
Definition one_line (s : str) : bool := forallb (fun c => negb (c =? 10)) s.

(* text of the given lines, each followed by "\n" *)
Definition unlines (ls : list str) : str := flat_map (fun l => l ++ [10]) ls.

(* exactly four spaces, then a character that is not a space *)
Definition indent4_nonspace (l : str) : Prop :=
  exists c r, l = spaces 4 ++ c :: r /\ c <> 32.
(* four spaces, then ";" *)
Definition indent4_semicolon (l : str) : Prop :=
  exists r, l = spaces 4 ++ 59 :: r.

(* ---- the strings of a tree that must stay on one line for the printed text to have the
   line structure C19 talks about (the parser never returns anything else) ---- *)
Definition account_ok (a : str) : Prop :=
  match a with [] => False | c :: _ => c <> 32 end.
Definition account_okb (a : str) : bool :=
  match a with [] => false | c :: _ => negb (c =? 32) end.

Fixpoint one_line_v (v : s_vexpr) : bool :=
  match v with
  | SAmount a => one_line (sa_commodity a)
  | SParen e => one_line_e e
  end
with one_line_e (e : s_expr) : bool :=
  match e with
  | SUnaryNeg e1 => one_line_e e1
  | SBinary _ l r => one_line_e l && one_line_e r
  | SValue v => one_line_v v
  end.

Definition one_line_exchange (x : s_exchange) : bool :=
  match x with STotal e => one_line_v e | SRate e => one_line_v e end.

Definition one_line_opt {A} (f : A -> bool) (o : option A) : bool :=
  match o with Some x => f x | None => true end.

Definition one_line_lot (l : s_lot) : bool :=
  one_line_opt one_line_exchange (lot_price l) && one_line_opt one_line (lot_note l).

Definition one_line_meta_value (v : s_meta_value) : bool :=
  match v with MText s => one_line s | MExpr s => one_line s end.

Definition one_line_metadata (m : s_metadata) : bool :=
  match m with
  | MComment s => one_line s
  | MWordTags tags => forallb one_line tags
  | MKeyValue k v => one_line k && one_line_meta_value v
  end.

Definition one_line_posting_amount (pa : s_posting_amount) : bool :=
  one_line_v (pa_amount pa) && one_line_opt one_line_exchange (pa_cost pa) && one_line_lot (pa_lot pa).

Definition posting_ok (p : s_posting) : bool :=
  account_okb (sp_account p) && one_line (sp_account p) &&
  one_line_opt one_line_posting_amount (sp_amount p) &&
  one_line_opt one_line_v (sp_balance p) &&
  forallb one_line_metadata (sp_metadata p).

Definition txn_ok (t : s_txn) : bool :=
  one_line_opt one_line (st_code t) && one_line (st_payee t) &&
  forallb one_line_metadata (st_metadata t) && forallb posting_ok (st_posts t).

Definition account_detail_ok (d : s_account_detail) : bool :=
  match d with ADAlias s => one_line s | _ => true end.
Definition commodity_detail_ok (d : s_commodity_detail) : bool :=
  match d with CDAlias s => one_line s | CDFormat a => one_line (sa_commodity a) | _ => true end.

(* an entry whose single-line fields are single lines; a top level comment has some text *)
Definition entry_ok (e : s_entry) : bool :=
  match e with
  | STxn t => txn_ok t
  | SComment s => match s with [] => false | _ => true end
  | SApplyTag k v => one_line k && one_line_opt one_line_meta_value v
  | SEndApplyTag => true
  | SInclude p => one_line p
  | SAccount n ds => one_line n && forallb account_detail_ok ds
  | SCommodity n ds => one_line n && forallb commodity_detail_ok ds
  end.

(* ---- the lines of a printed entry ---- *)
Definition mark (p : s_posting) : str := print_clear_state (sp_clear p).

(* a metadata line without its line end: "    ; " and the metadata *)
Definition meta_text (m : s_metadata) : str := [32; 32; 32; 32; 59; 32] ++ print_metadata m.

Definition posting_lines (width : str -> nat) (p : s_posting) : list str :=
  posting_line width p :: map meta_text (sp_metadata p).

Definition txn_lines (width : str -> nat) (t : s_txn) : list str :=
  txn_header t :: map meta_text (st_metadata t) ++ flat_map (posting_lines width) (st_posts t).

Definition wrapped_lines (prefix content : str) : list str := map (app prefix) (str_lines content).

Definition account_detail_lines (d : s_account_detail) : list str :=
  match d with
  | ADComment v => wrapped_lines [32; 32; 32; 32; 59] v
  | ADNote v => wrapped_lines [32; 32; 32; 32; 110; 111; 116; 101; 32] v
  | ADAlias v => [[32; 32; 32; 32; 97; 108; 105; 97; 115; 32] ++ v]
  end.

Definition commodity_detail_lines (d : s_commodity_detail) : list str :=
  match d with
  | CDComment v => wrapped_lines [32; 32; 32; 32; 59] v
  | CDNote v => wrapped_lines [32; 32; 32; 32; 110; 111; 116; 101; 32] v
  | CDAlias v => [[32; 32; 32; 32; 97; 108; 105; 97; 115; 32] ++ v]
  | CDFormat a => [[32; 32; 32; 32; 102; 111; 114; 109; 97; 116; 32] ++ fst (fmt_amount a)]
  end.

Definition entry_lines (width : str -> nat) (e : s_entry) : list str :=
  match e with
  | STxn t => txn_lines width t
  | SComment s => wrapped_lines [59] s
  | SApplyTag key value =>
      [kw_apply_tag ++ key ++ match value with Some v => print_meta_value v | None => [] end]
  | SEndApplyTag => [kw_end_apply_tag]
  | SInclude path => [kw_include ++ path]
  | SAccount name details => (kw_account ++ name) :: flat_map account_detail_lines details
  | SCommodity name details => (kw_commodity ++ name) :: flat_map commodity_detail_lines details
  end.

(* a proper line: not empty, no line end inside *)
Definition proper_line (l : str) : Prop := l <> [] /\ one_line l = true.

Definition no_lot : s_lot := {| lot_price := None; lot_date := None; lot_note := None |}.
