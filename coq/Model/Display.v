(* Model of okane_core::syntax::display (core/src/syntax/display.rs) and of the printing half
   of okane_core::format::FormatOptions::format (core/src/format.rs), as repaired by the
   "fix:" commits recorded in known_findings.json (F11: balance padding 3, F10: sub-directive
   comment prefix "    ;").  Transcribed Display impl by Display impl.

   Text is a list of Unicode scalar values.  The context is DisplayContext::default() (the
   only one `format` uses): `precisions` is empty, so `rescale` asks Decimal::rescale for the
   scale the value already has, which leaves it unchanged.

   `unicode_width::UnicodeWidthStr::width_cjk` is an ORACLE: every function that measures a
   display width takes it as the parameter `width : str -> nat`.

   Definitions only; lemmas live in Proofs/Display*.v. *)
From Coq Require Import List NArith ZArith Bool Arith.
From Okv Require Import Model.Lit Model.Syntax.
Import ListNotations.
Open Scope N_scope.

(* ---- core::fmt pieces ---- *)

Definition spaces (n : nat) : str := repeat 32 n.

(* "{:>width$}" on a string of `length s` chars: left-padded with spaces up to `width` *)
Definition pad_left (w : nat) (s : str) : str := spaces (w - length s) ++ s.

(* ---- chrono: NaiveDate::format("%Y/%m/%d") ----
   write_year: 0..=9999 zero-padded to 4 digits; anything else with an explicit sign and the
   magnitude zero-padded to 4 digits ("{:+05}").  write_two for month and day (both < 100). *)
Definition fmt_year (y : Z) : str :=
  if ((0 <=? y) && (y <? 10000))%Z then pad_zeros 4 (digits_of (Z.to_N y))
  else (if (y <? 0)%Z then [45] else [43]) ++ pad_zeros 4 (digits_of (Z.abs_N y)).

Definition fmt_two (n : N) : str := pad_zeros 2 (digits_of n).

Definition fmt_date (d : date) : str :=
  fmt_year (d_year d) ++ [47] ++ fmt_two (d_month d) ++ [47] ++ fmt_two (d_day d).

(* ---- str::lines: split_inclusive('\n'), then strip one "\n" and then one "\r" from the pieces
   that end in "\n"; a last piece without "\n" is returned as it is ---- *)
Fixpoint split_incl (s : str) : list (str * bool) :=
  match s with
  | [] => []
  | c :: r =>
      if c =? 10 then ([], true) :: split_incl r
      else match split_incl r with
           | [] => (c :: [], false) :: []
           | (l, b) :: t => (c :: l, b) :: t
           end
  end.

Definition strip_cr (l : str) : str :=
  match rev l with
  | 13 :: r => rev r
  | _ => l
  end.

Definition str_lines (s : str) : list str :=
  map (fun p : str * bool => if snd p then strip_cr (fst p) else fst p) (split_incl s).

(* LineWrapStr: every line of the content behind the prefix *)
Definition line_wrap (prefix content : str) : str :=
  flat_map (fun l => prefix ++ l ++ [10]) (str_lines content).

(* ---- print_clear_state ---- *)
Definition print_clear_state (c : clear_state) : str :=
  match c with
  | Uncleared => []
  | Cleared => [42; 32]
  | Pending => [33; 32]
  end.

(* ---- rescale under DisplayContext::default() ---- *)
Definition rescale (a : s_amount) : pdec := sa_value a.

(* ---- Alignment ---- *)
Inductive alignment := Partial (n : nat) | Complete (n : nat).

Definition al_absolute (a : alignment) : nat :=
  match a with Complete x => x | Partial x => x end.

Definition al_plus (a : alignment) (prefix_length suffix_length : nat) : alignment :=
  match a with
  | Partial x => Partial (prefix_length + x + suffix_length)
  | Complete x => Complete (prefix_length + x)
  end.

Definition binop_char (op : s_binop) : N :=
  match op with SAdd => 43 | SSub => 45 | SMul => 42 | SDiv => 47 end.

(* DisplayWithAlignment for expr::Amount; amount_str is ASCII, its byte length is its length *)
Definition fmt_amount (a : s_amount) : str * alignment :=
  let amount_str := show (rescale a) in
  match sa_commodity a with
  | [] => (amount_str, Partial (length amount_str))
  | _ :: _ => (amount_str ++ [32] ++ sa_commodity a, Complete (length amount_str))
  end.

(* DisplayWithAlignment for expr::ValueExpr and expr::Expr: the text written and the alignment *)
Fixpoint fmt_vexpr (v : s_vexpr) : str * alignment :=
  match v with
  | SAmount a => fmt_amount a
  | SParen e =>
      let r := fmt_expr e in
      ([40] ++ fst r ++ [41], al_plus (snd r) 1 1)
  end
with fmt_expr (e : s_expr) : str * alignment :=
  match e with
  | SUnaryNeg e1 =>
      let r := fmt_expr e1 in
      ([45] ++ fst r, al_plus (snd r) 1 0)
  | SBinary op l r =>
      let r1 := fmt_expr l in
      let r2 := fmt_expr r in
      (fst r1 ++ [32; binop_char op; 32] ++ fst r2,
       match al_plus (snd r1) 0 3 with
       | Complete x => Complete x
       | Partial x => al_plus (snd r2) x 0
       end)
  | SValue v => fmt_vexpr v
  end.

(* Display for WithContext<ValueExpr> (the blanket impl drops the alignment) *)
Definition show_vexpr (v : s_vexpr) : str := fst (fmt_vexpr v).
Definition align_vexpr (v : s_vexpr) : nat := al_absolute (snd (fmt_vexpr v)).

(* ---- get_column ---- *)
Definition get_column (colsize left padding : nat) : nat :=
  if (left + padding <? colsize)%nat then (colsize - left)%nat else padding.

(* ---- Display for Lot ---- *)
Definition print_lot (l : s_lot) : str :=
  (match lot_price l with
   | Some (STotal e) => [32; 123; 123] ++ show_vexpr e ++ [125; 125]
   | Some (SRate e) => [32; 123] ++ show_vexpr e ++ [125]
   | None => []
   end) ++
  (match lot_date l with
   | Some d => [32; 91] ++ fmt_date d ++ [93]
   | None => []
   end) ++
  (match lot_note l with
   | Some n => [32; 40] ++ n ++ [41]
   | None => []
   end).

Definition print_cost (c : option s_exchange) : str :=
  match c with
  | Some (SRate v) => [32; 64; 32] ++ show_vexpr v
  | Some (STotal v) => [32; 64; 64; 32] ++ show_vexpr v
  | None => []
  end.

(* ---- Display for MetadataValue and Metadata ---- *)
Definition print_meta_value (v : s_meta_value) : str :=
  match v with
  | MExpr e => [58; 58; 32] ++ e
  | MText t => [58; 32] ++ t
  end.

Definition print_metadata (m : s_metadata) : str :=
  match m with
  | MWordTags tags => [58] ++ flat_map (fun t => t ++ [58]) tags
  | MKeyValue key value => key ++ print_meta_value value
  | MComment s => s
  end.

(* writeln!(f, "    ; {}", m) *)
Definition meta_line (m : s_metadata) : str := [32; 32; 32; 32; 59; 32] ++ print_metadata m ++ [10].

Section WithWidth.
(* UnicodeWidthStr::width_cjk *)
Variable width : str -> nat.

(* account_width: width_cjk(account) + width(post_clear); post_clear is "", "* " or "! " *)
Definition account_width (p : s_posting) : nat :=
  (width (sp_account p) + length (print_clear_state (sp_clear p)))%nat.

(* the amount part of a posting line *)
Definition print_posting_amount (aw : nat) (pa : s_posting_amount) : str :=
  let r := fmt_vexpr (pa_amount pa) in
  spaces (get_column 48 (aw + al_absolute (snd r)) 2) ++ fst r ++
  print_lot (pa_lot pa) ++ print_cost (pa_cost pa).

(* `trailing = width_cjk(balance_str) - alignment` is a usize subtraction: it panics with
   overflow checks (and wraps without) when the oracle gives the whole string less than the
   length of its ASCII head.  The hazard is a value of the model. *)
Definition balance_underflow (b : s_vexpr) : bool :=
  (width (show_vexpr b) <? align_vexpr b)%nat.

Definition balance_trailing (b : s_vexpr) : nat := (width (show_vexpr b) - align_vexpr b)%nat.

Definition balance_padding (p : s_posting) (b : s_vexpr) : nat :=
  match sp_amount p with
  | Some _ => 0%nat
  | None => get_column (50 + balance_trailing b) (account_width p) 3
  end.

(* write!(f, "{:>width$} {}", " =", balance, width = balance_padding) *)
Definition print_posting_balance (p : s_posting) (b : s_vexpr) : str :=
  pad_left (balance_padding p b) [32; 61] ++ [32] ++ show_vexpr b.

(* the first line of a posting, without its line end *)
Definition posting_line (p : s_posting) : str :=
  spaces 4 ++ print_clear_state (sp_clear p) ++ sp_account p ++
  (match sp_amount p with
   | Some pa => print_posting_amount (account_width p) pa
   | None => []
   end) ++
  (match sp_balance p with
   | Some b => print_posting_balance p b
   | None => []
   end).

(* Display for WithContext<Posting> *)
Definition print_posting (p : s_posting) : str :=
  posting_line p ++ [10] ++ flat_map meta_line (sp_metadata p).

Definition posting_hazard (p : s_posting) : bool :=
  match sp_balance p with
  | Some b => balance_underflow b
  | None => false
  end.

(* Display for WithContext<Transaction> *)
Definition txn_header (t : s_txn) : str :=
  fmt_date (st_date t) ++
  (match st_edate t with Some e => [61] ++ fmt_date e | None => [] end) ++
  [32] ++ print_clear_state (st_clear t) ++
  (match st_code t with Some c => [40] ++ c ++ [41; 32] | None => [] end) ++
  st_payee t.

Definition print_txn (t : s_txn) : str :=
  txn_header t ++ [10] ++
  flat_map meta_line (st_metadata t) ++
  flat_map print_posting (st_posts t).

End WithWidth.

(* ---- declarations ---- *)
Definition print_account_detail (d : s_account_detail) : str :=
  match d with
  | ADComment v => line_wrap [32; 32; 32; 32; 59] v
  | ADNote v => line_wrap [32; 32; 32; 32; 110; 111; 116; 101; 32] v
  | ADAlias v => [32; 32; 32; 32; 97; 108; 105; 97; 115; 32] ++ v ++ [10]
  end.

Definition print_commodity_detail (d : s_commodity_detail) : str :=
  match d with
  | CDComment v => line_wrap [32; 32; 32; 32; 59] v
  | CDNote v => line_wrap [32; 32; 32; 32; 110; 111; 116; 101; 32] v
  | CDAlias v => [32; 32; 32; 32; 97; 108; 105; 97; 115; 32] ++ v ++ [10]
  | CDFormat a => [32; 32; 32; 32; 102; 111; 114; 109; 97; 116; 32] ++ fst (fmt_amount a) ++ [10]
  end.

(* "apply tag " "end apply tag" "include " "account " "commodity " *)
Definition kw_apply_tag : str := [97; 112; 112; 108; 121; 32; 116; 97; 103; 32].
Definition kw_end_apply_tag : str := [101; 110; 100; 32; 97; 112; 112; 108; 121; 32; 116; 97; 103].
Definition kw_include : str := [105; 110; 99; 108; 117; 100; 101; 32].
Definition kw_account : str := [97; 99; 99; 111; 117; 110; 116; 32].
Definition kw_commodity : str := [99; 111; 109; 109; 111; 100; 105; 116; 121; 32].

(* Display for WithContext<LedgerEntry> *)
Definition print_entry (width : str -> nat) (e : s_entry) : str :=
  match e with
  | STxn t => print_txn width t
  | SComment s => line_wrap [59] s
  | SApplyTag key value =>
      kw_apply_tag ++ key ++
      (match value with Some v => print_meta_value v | None => [] end) ++ [10]
  | SEndApplyTag => kw_end_apply_tag ++ [10]
  | SInclude path => kw_include ++ path ++ [10]
  | SAccount name details => kw_account ++ name ++ [10] ++ flat_map print_account_detail details
  | SCommodity name details => kw_commodity ++ name ++ [10] ++ flat_map print_commodity_detail details
  end.

Definition entry_hazard (width : str -> nat) (e : s_entry) : bool :=
  match e with
  | STxn t => existsb (posting_hazard width) (st_posts t)
  | _ => false
  end.

(* FormatOptions::format after parsing: writeln!(w, "{}", ctx.as_display(&entry)) per entry *)
Definition format_entries (width : str -> nat) (es : list s_entry) : str :=
  flat_map (fun e => print_entry width e ++ [10]) es.
