(* The imported transactions as entries of the book-keeping model (Model/Book.v): what
   `okane balance` sees when it reads back what `okane import` printed.  Names become ids
   through arbitrary functions (the theorems ask them to be injective where it matters).
   An empty commodity prints as a bare number.  Definitions only. *)
From Coq Require Import List NArith ZArith Bool QArith Qcanon.
From Okv Require Import Base.Maps Base.Dec Model.Amount Model.ImpConfig Model.ImpSingleEntry.
From Okv Require Model.Book.
Import ListNotations.
Open Scope Qc_scope.

(* an injective code of a byte string (bytes are < 256) *)
Definition str_code (s : str) : N := fold_left (fun a c => a * 257 + c + 1)%N s 0%N.

Section ToBook.
  Variable aid_of : str -> aid.
  Variable cid_of : str -> cid.

  Definition vamt (a : oamount) : vexpr :=
    VAmt (dec_value (oa_value a)) (match oa_commodity a with [] => None | c => Some (cid_of c) end).

  Definition book_posting (p : sposting) : Book.posting :=
    {| Book.p_account := aid_of (sp_account p);
       Book.p_amount := Some (vamt (sp_amount p));
       Book.p_cost := option_map (fun c => Book.XRate (vamt c)) (sp_cost p);
       Book.p_lot := None;
       Book.p_balance := option_map vamt (sp_balance p) |}.

  Definition book_txn (t : stxn) : Book.txn :=
    {| Book.t_date := st_date t; Book.t_posts := map book_posting (st_posts t) |}.

  Definition book_entries (ts : list stxn) : list Book.entry := map (fun t => Book.ETxn (book_txn t)) ts.

End ToBook.

(* one funding transaction per commodity: account +v, equity -v *)
Definition fund_stxn (acct equity : str) (date : Z) (cv : str * dec) : stxn :=
  let post (a : str) (v : dec) :=
    {| sp_account := a; sp_clear := Uncleared; sp_amount := {| oa_value := v; oa_commodity := fst cv |};
       sp_cost := None; sp_balance := None; sp_payee := None |} in
  {| st_date := date; st_edate := None; st_clear := Cleared; st_code := None; st_payee := [];
     st_comments := []; st_posts := [post acct (snd cv); post equity (dec_opp (snd cv))] |}.
Definition funding (acct equity : str) (date : Z) (b0 : list (str * dec)) : list stxn :=
  map (fund_stxn acct equity date) b0.
