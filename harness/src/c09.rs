//! C09: commodity conversion uses the right price.  Ledgers with costs / lot prices / implied
//! exchanges plus a price-DB file; every ordered pair of commodities is converted as of dates
//! before, on, between and after the price dates through Ledger::eval and `okane primitive eval`.
use crate::cli;
use crate::coq::{self, Shards, Stats};
use crate::ledger::*;
use crate::price::*;
use crate::prng::Rng;
use crate::Opts;
use okane_core::report::query::EvalContext;
use serde_json::json;

struct QObs {
    from: usize,
    to: usize,
    date: i32,
    api: RObs,
    cli: Option<RObs>,
}

/// `now`: the --now option (None = left to its default, today's date); the evaluation date
/// is --date, so no answer may depend on it
fn eval_args(ledger: &std::path::Path, db: Option<&std::path::Path>, from: usize, to: &str, date: i32, now: Option<i32>) -> Vec<String> {
    let d = iso_date(date);
    let lp = ledger.to_string_lossy().to_string();
    let mut args: Vec<String> = vec!["primitive".into(), "eval".into(), "--date".into(), d, "-f".into(), lp, "-X".into(), to.into()];
    if let Some(n) = now {
        args.push("--now".into());
        args.push(iso_date(n));
    }
    if let Some(p) = db {
        args.push("--price-db".into());
        args.push(p.to_string_lossy().to_string());
    }
    args.push("1".into());
    args.push(COMMODITIES[from].into());
    args
}

fn cli_eval(ledger: &std::path::Path, db: Option<&std::path::Path>, from: usize, to: usize, date: i32, now: Option<i32>) -> RObs {
    let args = eval_args(ledger, db, from, COMMODITIES[to], date, now);
    let refs: Vec<&str> = args.iter().map(|s| s.as_str()).collect();
    let r = cli::run(&refs);
    if r.panicked {
        return RObs::Other("panic".into());
    }
    if r.ok {
        let names: Vec<String> = COMMODITIES.iter().map(|s| s.to_string()).collect();
        RObs::Ok(parse_inline(r.stdout.trim(), &names))
    } else {
        classify_err(&r.stderr)
    }
}

fn fixed_cases() -> Vec<PriceCase> {
    let l = |m: i64, s: u32, c: usize| VE::Amt(Lit { m, scale: s, comm: Some(c), grouped: false });
    let cost = |d: i32, q: i64, x: usize, m: i64, s: u32, y: usize| {
        Entry::Txn(Txn {
            effective: None,
            date: d,
            posts: vec![
                Posting { account: 0, amount: Some(l(q, 0, x)), cost: Some(Exch::Rate(l(m, s, y))), lot: None, balance: None },
                Posting { account: EQUITY, amount: None, cost: None, lot: None, balance: None },
            ],
            head: Head::default(),
        })
    };
    let pl = |date: i32, target: usize, m: i64, scale: u32, comm: usize| PLine { date, target, m, scale, comm };
    let all: Vec<usize> = (0..5).collect();
    vec![
        // price_db::tests: 1 EUR = 0.8 CHF; chain CHF-EUR-USD-JPY
        PriceCase { entries: vec![cost(10, 1, 2, 8, 1, 1)], db: vec![], comms: vec![1, 2], exact: true },
        PriceCase {
            entries: vec![cost(10, 1, 2, 125, 2, 1), cost(11, 1, 4, 8, 1, 2), cost(12, 1, 4, 100, 0, 3)],
            db: vec![],
            comms: vec![1, 2, 3, 4],
            exact: true,
        },
        // a DB quote replaces the ledger's for the same pair, also when it is older
        PriceCase { entries: vec![cost(10, 1, 0, 100, 0, 4), cost(20, 1, 0, 125, 0, 4)], db: vec![pl(5, 0, 80, 0, 4)], comms: vec![0, 4], exact: true },
        // fewer ledger steps beats fewer steps: AAPL-USD direct from the ledger vs AAPL-EUR-USD from the DB
        PriceCase {
            entries: vec![cost(10, 1, 0, 100, 0, 4)],
            db: vec![pl(10, 0, 80, 0, 2), pl(10, 2, 125, 2, 4)],
            comms: vec![0, 2, 4],
            exact: true,
        },
        // equal hops: the less stale chain; two records on one day: the greater rate both ways
        PriceCase {
            entries: vec![],
            db: vec![pl(10, 0, 80, 0, 2), pl(12, 2, 125, 2, 4), pl(11, 0, 50, 0, 1), pl(11, 1, 2, 0, 4), pl(12, 2, 2, 0, 4)],
            comms: vec![0, 1, 2, 4],
            exact: true,
        },
        // genuine tie: two chains with the same distance and different rates
        PriceCase {
            entries: vec![],
            db: vec![pl(10, 0, 80, 0, 2), pl(10, 2, 125, 2, 4), pl(10, 0, 50, 0, 1), pl(10, 1, 4, 0, 4)],
            comms: vec![0, 1, 2, 4],
            exact: true,
        },
        // zero and self-mention lines are harmless; a cycle through the target
        PriceCase {
            entries: vec![cost(3, 2, 1, 5, 1, 2)],
            db: vec![pl(1, 0, 0, 0, 4), pl(2, 4, 4, 0, 4), pl(3, 2, 8, 1, 4), pl(4, 4, 2, 0, 1)],
            comms: all.clone(),
            exact: true,
        },
    ]
}

fn run_case(sh: &mut Shards, st: &mut Stats, scratch: &cli::Scratch, r: &mut Rng, case: &PriceCase, tag: &str, cli_budget: usize) {
    let rendered = render(&case.entries);
    let dbt = db_text(&case.db, r.below(10));
    let db_path = if case.db.is_empty() && r.chance(1, 2) { None } else { Some(scratch.write("prices.db", &dbt)) };
    let ledger_path = scratch.write("case.ledger", &rendered.text);
    let evs = events(case);
    shape_text_stats(st, &shape(&case.entries));
    let dates = query_dates(r, &evs, &[], 5);
    let mut pairs: Vec<(usize, usize)> = Vec::new();
    let known = known_commodities(case);
    for a in &known {
        for b in &known {
            pairs.push((*a, *b));
        }
    }
    let loaded = with_ledger(&rendered.text, db_path.as_deref(), |ctx, ledger| {
        let mut qs = Vec::new();
        for d in &dates {
            for (a, b) in &pairs {
                if a == b && !(*d == dates[0]) {
                    continue; // the identity once per pair is enough
                }
                let base = chrono::NaiveDate::from_ymd_opt(2020, 1, 1).unwrap();
                let date = base + chrono::Duration::days(*d as i64);
                let res = std::panic::catch_unwind(std::panic::AssertUnwindSafe(|| {
                    ledger.eval(ctx, &format!("1 {}", COMMODITIES[*a]), &EvalContext { date, exchange: Some(COMMODITIES[*b].to_string()) })
                }));
                let api = match res {
                    Err(_) => RObs::Other("panic".into()),
                    Ok(Ok(am)) => RObs::Ok(obs_amount(&am)),
                    Ok(Err(e)) => {
                        use std::error::Error;
                        let mut s = format!("{}", e);
                        let mut cur: &dyn Error = &e;
                        while let Some(src) = cur.source() {
                            s.push_str(&format!(" / {}", src));
                            cur = src;
                        }
                        classify_err(&s)
                    }
                };
                qs.push(QObs { from: *a, to: *b, date: *d, api, cli: None });
            }
        }
        qs
    });
    let (is_loaded, mut qs, load_err) = match loaded {
        Ok(q) => (true, q, String::new()),
        Err(e) => (false, Vec::new(), e),
    };
    // the CLI leg on a sample of the queries (each run re-reads the files)
    let mut unknown: Vec<URun> = Vec::new();
    let pdates = price_dates(&evs);
    // --now of a command run: left out, before the evaluation date (a day, or before every
    // price), the evaluation date, after it
    let pick_now = |r: &mut Rng, st: &mut Stats, date: i32, with_db: bool| -> Option<i32> {
        let now = match r.below(6) {
            0 => None,
            1 | 2 => Some(date - 1 - r.below(3) as i32),
            3 => Some(pdates.iter().next().copied().unwrap_or(date) - 1 - r.below(5) as i32),
            4 => Some(date),
            _ => Some(date + 1 + r.below(40) as i32),
        };
        st.count(match now {
            None => "leg:cli_now_default",
            Some(n) if n < date && with_db => "leg:cli_now_before_date_with_price_db",
            Some(n) if n < date => "leg:cli_now_before_date",
            Some(n) if n == date => "leg:cli_now_on_date",
            Some(_) => "leg:cli_now_after_date",
        });
        if let Some(n) = now {
            if with_db && evs.iter().any(|e| e.db && e.date > n && e.date <= date) {
                st.count("leg:cli_price_db_line_between_now_and_date");
            }
        }
        now
    };
    if is_loaded && !qs.is_empty() {
        for _ in 0..cli_budget {
            let k = r.below(qs.len() as u64) as usize;
            if qs[k].cli.is_none() {
                let now = pick_now(r, st, qs[k].date, db_path.is_some());
                qs[k].cli = Some(cli_eval(&ledger_path, db_path.as_deref(), qs[k].from, qs[k].to, qs[k].date, now));
            }
        }
        // targets the ledger and the price DB do not know
        for _ in 0..2 {
            let k = r.below(qs.len() as u64) as usize;
            let (kind, name) = unknown_target(r, &known);
            let now = pick_now(r, st, qs[k].date, db_path.is_some());
            let args = eval_args(&ledger_path, db_path.as_deref(), qs[k].from, &name, qs[k].date, now);
            st.count(&format!("unknown_target:{}", kind));
            let u = run_unknown(kind, args, &name);
            st.count(match &u.obs {
                UObs::NotFound => "unknown_target:result:commodity_not_found",
                UObs::Report => "unknown_target:result:value_printed",
                UObs::Other(_) => "unknown_target:result:other_failure",
            });
            unknown.push(u);
        }
    }
    // measured input distribution
    let pd = price_dates(&evs);
    let nprices = evs.len();
    st.count(&format!("gen:{}", tag));
    st.count(if case.exact { "stream:exact_rates" } else { "stream:arbitrary_rates(approximate comparison)" });
    st.count(&format!("case:commodities={}", case.comms.len()));
    st.count(&format!("case:prices={}", nprices.min(9)));
    st.add("events:ledger", evs.iter().filter(|e| !e.db).count() as u64);
    st.add("events:price_db", evs.iter().filter(|e| e.db).count() as u64);
    if !is_loaded {
        st.count("impl:ledger_rejected");
    }
    let text_key = format!("{}\n--db--\n{}", rendered.text, dbt);
    if qs.is_empty() {
        st.eval(&text_key, false);
    }
    for q in &qs {
        let g = graph(&evs, q.date);
        let direct = directly_priced(&evs, q.from, q.to);
        let on_date = pd.contains(&q.date);
        let nontrivial = q.from != q.to && ((nprices >= 2 && !direct) || on_date);
        st.eval(&(text_key.as_str(), q.from, q.to, q.date), nontrivial);
        if q.from == q.to {
            st.count("query:identity");
        } else {
            match brute_best(&g, q.to, q.from) {
                None => st.count("query:no_chain"),
                Some((d, nrates)) => {
                    st.count(&format!("query:optimal_hops={}", d.1));
                    if d.0 > 0 && d.0 < d.1 {
                        st.count("query:chain_mixes_ledger_and_db");
                    }
                    if nrates > 1 {
                        st.count("query:genuine_tie(several optimal rates)");
                    }
                }
            }
            st.count(match (pd.iter().next(), pd.iter().next_back()) {
                (Some(lo), _) if q.date < *lo => "date:before_all",
                (_, Some(hi)) if q.date > *hi => "date:after_all",
                _ if on_date => "date:on_a_price_date",
                (Some(_), Some(_)) => "date:between",
                _ => "date:no_prices",
            });
        }
        match &q.api {
            RObs::Ok(_) => st.count("impl:converted"),
            RObs::NotFound(_) => st.count("impl:rate_not_found"),
            RObs::Other(_) => st.count("impl:other_error"),
        }
        if q.cli.is_some() {
            st.count("leg:cli_primitive_eval");
        }
    }
    let qterms = coq::list(qs.iter().map(|q| {
        format!(
            "(Q {} {} {} {} {})",
            q.from,
            q.to,
            coq::z(q.date as i128),
            robs_term(&q.api),
            match &q.cli {
                Some(o) => format!("(Some {})", robs_term(o)),
                None => "None".into(),
            }
        )
    }));
    let term = format!(
        "CU {} {} {} {} {} {}",
        coq::list(case.entries.iter().map(entry_term)),
        db_term(&case.db),
        coq::bool_(case.exact),
        coq::bool_(is_loaded),
        qterms,
        coq::list(unknown.iter().map(|u| uobs_term(&u.obs).to_string()))
    );
    let rep = json!({
        "property": "C09",
        "ledger": rendered.text,
        "price_db": if db_path.is_some() { json!(dbt) } else { json!(null) },
        "case": serde_json::to_value(case).unwrap(),
        "load_error": load_err,
        "queries": qs.iter().map(|q| json!({
            "convert": format!("1 {}", COMMODITIES[q.from]), "into": COMMODITIES[q.to], "date": iso_date(q.date),
            "api": robs_json(&q.api), "cli": q.cli.as_ref().map(robs_json)})).collect::<Vec<_>>(),
        "unknown_targets": unknown.iter().map(urun_json).collect::<Vec<_>>(),
        "reproduce": "write `ledger` to case.ledger and `price_db` to prices.db, then: okane primitive eval --date <date> -f case.ledger -X <into> --price-db prices.db 1 <commodity>",
    });
    if st.samples.len() < 4 && !qs.is_empty() {
        let mut small = rep.clone();
        if let Some(o) = small.as_object_mut() {
            o.remove("case");
        }
        if let Some(a) = small.get_mut("queries").and_then(|q| q.as_array_mut()) {
            a.truncate(6);
        }
        st.sample(small, 4);
    }
    sh.push(term, vec![rep]);
}

pub fn run(o: &Opts) {
    let mut st = Stats::new();
    let header = "From Coq Require Import List NArith ZArith QArith Qcanon.\nFrom Okv Require Import Base.Maps Base.Dec Model.Amount Model.Book Model.PriceDb Run.LedgerCase Run.PriceCase Run.Classify_C09.\nImport ListNotations.\nOpen Scope N_scope.";
    let mut sh = Shards::new(&o.out, o.shards, header);
    st.rule = "2-5 commodities, 1-8 dated prices from ledger costs (@, @@), lot prices ({}, {{}}), lot+cost, zero-quantity quotes, implied exchanges and price-DB `P` lines (a real file under .build/, passed as ProcessOptions.price_db_path / --price-db; zero, negative and self-mention lines included), graphs: random pairs with cycles and parallel records, chains, stars, disconnected islands and unpriced commodities; same-day records; file order differs from date order. Queries: `1 A` into B for every ordered pair as of up to 5 dates before / on / between / after the price dates, through Ledger::eval and (a sample) `okane primitive eval` in-process, the command with --now left out, one to three days before --date, before every price, on --date or after it (the evaluation date is --date: no answer may depend on --now; leg:cli_now_* counts, and how often a price-DB line lies between --now and --date), and two runs per ledger with a -X target neither ledger nor price DB mention, or a known one in another case of letters: must fail with `commodity T not found`. One evaluation = one query; non-trivial = A <> B and ((>= 2 prices and the pair is not directly priced) or the query date is a price date); distinct by (ledger text, price-DB text, pair, date)".into();
    st.rule = format!("{}; {}", st.rule, TEXT_SHAPES_RULE);
    st.assumptions.push("exact stream: every rate and quantity is a product of powers of 2 and 5, so reciprocals and chained products are exact Decimals and answers are compared exactly; arbitrary-rate stream (counted separately): compared with relative tolerance 1e-18".into());
    st.assumptions.push("where several optimal chains with different rates exist (counted as query:genuine_tie) the implementation's choice depends on HashMap iteration order; any optimal rate is accepted".into());
    let scratch = cli::Scratch::new("c09");
    let mut r = Rng::new(o.seed, 109);
    let (corpus, replay) = corpus_cases(&o.corpus, &o.extra);
    for (c, _) in corpus {
        run_case(&mut sh, &mut st, &scratch, &mut r, &c, "corpus", 6);
    }
    if !replay {
        for (n, mut c) in fixed_cases().into_iter().enumerate() {
            vary_shapes_nth(&mut c.entries, n);
            run_case(&mut sh, &mut st, &scratch, &mut r, &c, "fixed", 6);
        }
        let n = if o.thorough { 6000 } else { 500 };
        for k in 0..n {
            let exact = k % 4 != 3;
            let c = gen_price_case(&mut r, exact, false);
            run_case(&mut sh, &mut st, &scratch, &mut r, &c, "random", 3);
        }
    }
    sh.finish(&st);
}
