(* C05 round trip, metadata lines.
   Part 1: a well-formed metadata item, printed, is read back by line_metadata; a block of
           metadata lines (as print_posting / print_txn write it) is read back by block_metadata.
   Part 2: the converse direction: line_metadata / block_metadata only return well-formed
           metadata (wf_metadata describes the image of the parser). *)
From Coq Require Import List NArith ZArith Bool Lia Arith.
From Okv Require Import Model.Lit Model.Syntax Model.Comb Model.ParseExpr Model.ParseMeta
  Model.Display Model.DocGrammar Model.RoundTripSpec Proofs.CombSpec Proofs.DocAccept Proofs.RoundTripBase.
Import ListNotations.
Open Scope N_scope.

(* the characters of a tag / key *)
Local Notation nts := (fun c : N => negb (is_tag_stop c)).
Local Notation not_nl := (fun c : N => negb (is_nl c)).

(* ================================================================================== *)
(* Part 1: print, then parse                                                          *)
(* ================================================================================== *)

(* ---- characters ---- *)
Lemma rm_sp_stop : forall c, is_sp c = true -> is_tag_stop c = true.
Proof.
  intros c H. unfold is_sp in H. unfold is_tag_stop, is_ascii_whitespace.
  destruct (c =? 32); [reflexivity |]. destruct (c =? 9); [reflexivity | discriminate].
Qed.

Lemma rm_nl_stop : forall c, is_nl c = true -> is_tag_stop c = true.
Proof.
  intros c H. unfold is_nl in H. unfold is_tag_stop, is_ascii_whitespace.
  destruct (c =? 10); [now rewrite !orb_true_r |]. destruct (c =? 13); [now rewrite !orb_true_r | discriminate].
Qed.

Lemma rm_nts_not_sp : forall c, nts c = true -> is_sp c = false.
Proof.
  intros c H. destruct (is_sp c) eqn:E; [| reflexivity]. rewrite (rm_sp_stop c E) in H. discriminate.
Qed.

Lemma rm_nts_not_nl : forall c, nts c = true -> not_nl c = true.
Proof.
  intros c H. destruct (is_nl c) eqn:E; [| reflexivity]. rewrite (rm_nl_stop c E) in H. discriminate.
Qed.

Lemma rm_nts_not_colon : forall c, nts c = true -> (58 =? c) = false.
Proof.
  intros c H. destruct (N.eqb_spec 58 c) as [<- |]; [discriminate | reflexivity].
Qed.

(* ---- strings ---- *)
Lemma rm_end_trimmed_eq : forall s, end_trimmed s = true -> trim_end s = s.
Proof. intros s H. apply str_eqb_eq. exact H. Qed.

Lemma rm_trimmed_eq : forall s, trimmed s = true -> trim s = s.
Proof. intros s H. apply str_eqb_eq. exact H. Qed.

Lemma rm_trim_sp_cons : forall t, trim (32 :: t) = trim t.
Proof. reflexivity. Qed.

Lemma rm_starts_not_app : forall f (r x : str), starts_not f r -> starts_not f x -> starts_not f (r ++ x).
Proof. intros f [| c r] x H1 H2; [exact H2 | exact H1]. Qed.

Lemma rm_starts_false_app : forall f (r x : str), starts f r = false -> starts_not f x -> starts_not f (r ++ x).
Proof. intros f r x H1 H2. apply rm_starts_not_app; [apply starts_false_not; exact H1 | exact H2]. Qed.

(* the scan of a prefix, extended by a continuation that does not prolong it *)
Lemma rm_span_app : forall f (s w r x : str), span_while f s = (w, r) -> starts_not f (r ++ x) ->
  span_while f (s ++ x) = (w, r ++ x).
Proof.
  intros f s w r x E H. destruct (span_while_split f s) as (a & b & E1 & E2 & Ha & Hb).
  rewrite E in E1. inversion E1; subst a b. subst s. rewrite <- app_assoc. apply span_while_all; assumption.
Qed.

(* ---- tag_key ---- *)
Lemma rm_tag_key_eq : forall i, tag_key i = take_while1 nts i.
Proof. reflexivity. Qed.

Lemma rm_tag_key_ok : forall t x, t <> [] -> all nts t -> starts_not nts x -> tag_key (t ++ x) = POk t x.
Proof. intros. rewrite rm_tag_key_eq. apply take_while1_ok; assumption. Qed.

Lemma rm_tag_key_fail : forall i, starts_not nts i -> tag_key i = PErr false 0 i.
Proof. intros. rewrite rm_tag_key_eq. apply take_while1_fail; assumption. Qed.

Lemma rm_wf_tag_facts : forall t, wf_tag t = true ->
  t <> [] /\ all nts t /\ (forall k, starts_not is_sp (t ++ k)) /\ (forall k, starts_not (N.eqb 58) (t ++ k)).
Proof.
  intros t H. unfold wf_tag in H. apply andb_true_iff in H. destruct H as [H1 H2].
  destruct t as [| c t]; [discriminate |]. split; [discriminate |]. split; [exact H2 |].
  simpl in H2. apply andb_true_iff in H2. destruct H2 as [H2 _].
  split; intros k; simpl; [apply rm_nts_not_sp | apply rm_nts_not_colon]; exact H2.
Qed.

(* ---- the value of  key: value ---- *)
Lemma metadata_value_fail : forall y, starts_not (N.eqb 58) y -> metadata_value y = PErr false 0 y.
Proof.
  intros y H. unfold metadata_value, alt, pmap, preceded, bind.
  rw (literal_fail1 58 [58] y H). rw (chr_fail 58 y H). reflexivity.
Qed.

Lemma metadata_value_fmt : forall v k, wf_meta_value v = true ->
  metadata_value (print_meta_value v ++ 10 :: k) = POk v (10 :: k).
Proof.
  intros v k H.
  destruct v as [t | t]; cbn [wf_meta_value] in H; apply andb_true_iff in H; destruct H as [Hn Ht];
    apply rm_trimmed_eq in Ht; unfold metadata_value, print_meta_value.
  - (* ": " t *)
    assert (E : pmap (fun x => MExpr (trim x)) (preceded (literal [58; 58]) till_line_ending)
                  (([58; 32] ++ t) ++ 10 :: k) = PErr false 0 (([58; 32] ++ t) ++ 10 :: k))
      by reflexivity.
    rewrite (alt_r _ _ _ _ _ _ E). unfold pmap, preceded, bind.
    cbn [app]. rw chr_ok.
    pose proof (till_line_ending_ok (32 :: t) (10 :: k) k (Hn : text (32 :: t)) (ends_lf k)) as T.
    cbn [app] in T. rw T.
    unfold ret. rewrite rm_trim_sp_cons, Ht. reflexivity.
  - (* ":: " t *)
    apply alt_l. unfold pmap, preceded, bind. cbn [app].
    pose proof (literal_app [58; 58] (32 :: t ++ 10 :: k)) as L. cbn [app] in L. rw L.
    pose proof (till_line_ending_ok (32 :: t) (10 :: k) k (Hn : text (32 :: t)) (ends_lf k)) as T.
    cbn [app] in T. rw T.
    unfold ret. rewrite rm_trim_sp_cons, Ht. reflexivity.
Qed.

(* ---- the two earlier alternatives fail, without cut, on a text that is not tags_like /
        kv_like (followed by the line feed) ---- *)
Lemma metadata_tags_fail : forall fuel s k, tags_like s = false ->
  exists l r, metadata_tags fuel (s ++ 10 :: k) = PErr false l r.
Proof.
  intros fuel s k H. unfold metadata_tags, delimited, many1, terminated.
  destruct s as [| c s1].
  - do 2 eexists. apply pmap_err. apply bind_err. apply chr_fail. reflexivity.
  - destruct (N.eqb_spec 58 c) as [<- | Hc].
    + cbn [tags_like] in H.
      destruct (span_while_split nts s1) as (w & r & E & -> & Hw & Hr). rewrite E in H.
      do 2 eexists. unfold pmap, bind. cbn [app]. rw chr_ok. rewrite <- app_assoc.
      destruct w as [| n w].
      * assert (F : starts_not nts (r ++ 10 :: k)) by (apply rm_starts_not_app; [exact Hr | reflexivity]).
        cbn [app]. rw (rm_tag_key_fail _ F). reflexivity.
      * cbn [is_empty negb andb] in H.
        assert (F : starts_not nts (r ++ 10 :: k)) by (apply rm_starts_not_app; [exact Hr | reflexivity]).
        rw (rm_tag_key_ok (n :: w) (r ++ 10 :: k) ltac:(discriminate) Hw F).
        assert (G : starts_not (N.eqb 58) (r ++ 10 :: k)) by (apply rm_starts_false_app; [exact H | reflexivity]).
        rw (chr_fail 58 _ G). reflexivity.
    + do 2 eexists. apply pmap_err. apply bind_err. apply chr_fail. simpl.
      apply N.eqb_neq. exact Hc.
Qed.

Lemma metadata_kv_fail : forall s k, kv_like s = false ->
  exists l r, metadata_kv (s ++ 10 :: k) = PErr false l r.
Proof.
  intros s k H. unfold kv_like in H.
  destruct (span_while_split nts s) as (w & r & E & -> & Hw & Hr). rewrite E in H.
  assert (F : starts_not nts (r ++ 10 :: k)) by (apply rm_starts_not_app; [exact Hr | reflexivity]).
  do 2 eexists. unfold metadata_kv, terminated, bind. rewrite <- app_assoc.
  destruct w as [| n w].
  - cbn [app]. rw (rm_tag_key_fail _ F). reflexivity.
  - cbn [is_empty negb andb] in H.
    rw (rm_tag_key_ok (n :: w) (r ++ 10 :: k) ltac:(discriminate) Hw F).
    destruct (space0_skip (r ++ 10 :: k)) as [s0 E0]. rw E0.
    assert (G : starts_not (N.eqb 58) (skip_sp (r ++ 10 :: k))).
    { unfold skip_sp in *. destruct (span_while_split is_sp r) as (a & b & Eb & -> & Ha & Hb).
      rewrite Eb in H. cbn [snd] in H. rewrite <- app_assoc.
      rewrite (span_while_all is_sp a (b ++ 10 :: k) Ha); [| apply rm_starts_not_app; [exact Hb | reflexivity]].
      cbn [snd]. apply rm_starts_false_app; [exact H | reflexivity]. }
    rw (metadata_value_fail _ G). reflexivity.
Qed.

(* ---- word tags: the loop ---- *)
Definition tag_colon : parser (list N) := terminated tag_key (chr 58).

Lemma tag_colon_ok : forall t x, wf_tag t = true -> tag_colon (t ++ 58 :: x) = POk t x.
Proof.
  intros t x H. destruct (rm_wf_tag_facts t H) as (Hne & Hall & _ & _).
  unfold tag_colon, terminated, bind.
  rw (rm_tag_key_ok t (58 :: x) Hne Hall ltac:(reflexivity)). rw chr_ok. reflexivity.
Qed.

Lemma tag_colon_nl : forall k, tag_colon (10 :: k) = PErr false 0 (10 :: k).
Proof. intros. reflexivity. Qed.

Lemma tags_loop : forall tags f k, forallb wf_tag tags = true ->
  (length (flat_map (fun t => t ++ [58]) tags) <= f)%nat ->
  many0 f tag_colon (flat_map (fun t => t ++ [58]) tags ++ 10 :: k) = POk tags (10 :: k).
Proof.
  induction tags as [| t tags IH]; intros f k H Hf.
  - apply (many0_stop _ f tag_colon (10 :: k) 0 (10 :: k)). apply tag_colon_nl.
  - cbn [forallb] in H. apply andb_true_iff in H. destruct H as [Ht Hts].
    cbn [flat_map] in *. rewrite !app_length in Hf. cbn [length] in Hf.
    destruct f as [| f]; [lia |].
    rewrite <- !app_assoc. cbn [app].
    apply (many0_step _ f tag_colon _ t (flat_map (fun t0 => t0 ++ [58]) tags ++ 10 :: k)).
    + apply tag_colon_ok. exact Ht.
    + rewrite !app_length. cbn [length]. rewrite app_length. lia.
    + apply IH; [exact Hts | lia].
Qed.

(* ---- one metadata item after "; " ---- *)
Lemma print_metadata_not_sp : forall m k, wf_metadata m = true ->
  starts_not is_sp (print_metadata m ++ 10 :: k).
Proof.
  intros [s | tags | key v] k H; cbn [wf_metadata print_metadata] in *.
  - unfold wf_line_text in H. rewrite !andb_true_iff in H. destruct H as [[[_ _] H] _].
    apply negb_true_iff in H. apply rm_starts_false_app; [exact H | reflexivity].
  - reflexivity.
  - apply andb_true_iff in H. destruct H as [H _].
    destruct (rm_wf_tag_facts key H) as (_ & _ & Hsp & _). apply Hsp.
Qed.

Lemma meta_alternatives_fmt : forall fuel m k, wf_metadata m = true ->
  (length (print_metadata m) <= fuel)%nat ->
  alt (metadata_tags fuel)
      (alt metadata_kv (pmap (fun s => MComment (trim_end s)) till_line_ending))
      (print_metadata m ++ 10 :: k) = POk m (10 :: k).
Proof.
  intros fuel [s | tags | key v] k H Hf; cbn [wf_metadata print_metadata] in *.
  - (* comment *)
    rewrite !andb_true_iff in H. destruct H as [[Hl Ht] Hk].
    apply negb_true_iff in Ht, Hk.
    unfold wf_line_text in Hl. rewrite !andb_true_iff in Hl. destruct Hl as [[Hn He] _].
    destruct (metadata_tags_fail fuel s k Ht) as (l1 & r1 & E1). rewrite (alt_r _ _ _ _ _ _ E1).
    destruct (metadata_kv_fail s k Hk) as (l2 & r2 & E2). rewrite (alt_r _ _ _ _ _ _ E2).
    rewrite (pmap_ok _ _ _ _ _ s (10 :: k) (till_line_ending_ok s (10 :: k) k Hn (ends_lf k))).
    rewrite (rm_end_trimmed_eq s He). reflexivity.
  - (* word tags *)
    apply andb_true_iff in H. destruct H as [Hne Hts].
    destruct tags as [| t tags]; [discriminate |].
    cbn [forallb] in Hts. apply andb_true_iff in Hts. destruct Hts as [Ht Hts].
    apply alt_l. unfold metadata_tags, delimited, many1.
    change (terminated tag_key (chr 58)) with tag_colon.
    unfold pmap, bind. cbn [flat_map app]. rw chr_ok. rewrite <- !app_assoc. cbn [app].
    rw (tag_colon_ok t (flat_map (fun t0 => t0 ++ [58]) tags ++ 10 :: k) Ht).
    rewrite tags_loop; [| exact Hts |].
    + cbv beta iota. unfold ret. reflexivity.
    + cbn [flat_map app length] in Hf. rewrite !app_length in Hf. lia.
  - (* key: value *)
    apply andb_true_iff in H. destruct H as [Hkey Hv].
    destruct (rm_wf_tag_facts key Hkey) as (Hne & Hall & Hsp & Hcol).
    assert (E1 : metadata_tags fuel ((key ++ print_meta_value v) ++ 10 :: k)
                 = PErr false 0 ((key ++ print_meta_value v) ++ 10 :: k)).
    { unfold metadata_tags, delimited. apply pmap_err. apply bind_err. apply chr_fail.
      rewrite <- app_assoc. apply Hcol. }
    rewrite (alt_r _ _ _ _ _ _ E1). apply alt_l.
    unfold metadata_kv, terminated, bind. rewrite <- app_assoc.
    assert (F : starts_not nts (print_meta_value v ++ 10 :: k)) by (destruct v; reflexivity).
    rw (rm_tag_key_ok key _ Hne Hall F).
    assert (G : starts_not is_sp (print_meta_value v ++ 10 :: k)) by (destruct v; reflexivity).
    rw (space0_ok [] (print_meta_value v ++ 10 :: k) (all_nil _) G : space0 (print_meta_value v ++ 10 :: k) = _).
    rw (metadata_value_fmt v k Hv). reflexivity.
Qed.

Theorem line_metadata_fmt : forall fuel m k, wf_metadata m = true ->
  (length (print_metadata m) <= fuel)%nat ->
  line_metadata fuel ([59; 32] ++ print_metadata m ++ 10 :: k) = POk m k.
Proof.
  intros fuel m k H Hf. unfold line_metadata, delimited, bind. cbn [app]. rw chr_ok.
  destruct (space0_skip (32 :: print_metadata m ++ 10 :: k)) as [s0 E0].
  rewrite skip_sp_cons, (skip_sp_id _ (print_metadata_not_sp m k H)) in E0. rw E0.
  rw (meta_alternatives_fmt fuel m k H Hf).
  rw (line_ending_or_eof_ok (10 :: k) k (ends_lf k)). reflexivity.
Qed.

(* ---- a block of metadata lines ---- *)
Definition follow_block (k : str) : Prop := starts_not (N.eqb 59) (skip_sp k).

Definition meta_item (fuel : nat) : parser s_metadata := preceded space1 (line_metadata fuel).

Lemma meta_item_stop : forall fuel k, follow_block k -> exists l r, meta_item fuel k = PErr false l r.
Proof.
  intros fuel k H. unfold follow_block, skip_sp in H. unfold meta_item, preceded, bind.
  destruct (span_while_split is_sp k) as (a & b & E & -> & Ha & Hb). rewrite E in H. cbn [snd] in H.
  destruct a as [| c a].
  - cbn [app]. rw (take_while1_fail is_sp b Hb : space1 b = _). eauto.
  - rw (space1_ok (c :: a) b (conj ltac:(discriminate) Ha) Hb).
    unfold line_metadata, delimited, bind. rw (chr_fail 59 b H). eauto.
Qed.

Lemma meta_item_ok : forall fuel m x, wf_metadata m = true -> (length (print_metadata m) <= fuel)%nat ->
  meta_item fuel (meta_line m ++ x) = POk m x.
Proof.
  intros fuel m x H Hf. unfold meta_item, preceded, bind, meta_line.
  change (([32; 32; 32; 32; 59; 32] ++ print_metadata m ++ [10]) ++ x)
    with ([32; 32; 32; 32] ++ ([59; 32] ++ (print_metadata m ++ [10]) ++ x)).
  rw (space1_ok [32; 32; 32; 32] ([59; 32] ++ (print_metadata m ++ [10]) ++ x)
        ltac:(split; [discriminate | reflexivity]) ltac:(reflexivity)).
  rewrite <- app_assoc. cbn [app]. apply (line_metadata_fmt fuel m x H Hf).
Qed.

Lemma meta_line_length : forall m, length (meta_line m) = (7 + length (print_metadata m))%nat.
Proof. intros. unfold meta_line. rewrite !app_length. cbn [length]. lia. Qed.

Lemma block_loop : forall fuel ms f k, forallb wf_metadata ms = true -> follow_block k ->
  (forall m, In m ms -> (length (print_metadata m) <= fuel)%nat) ->
  (length (flat_map meta_line ms) <= f)%nat ->
  many0 f (meta_item fuel) (flat_map meta_line ms ++ k) = POk ms k.
Proof.
  intros fuel. induction ms as [| m ms IH]; intros f k H Hk Hfuel Hf.
  - destruct (meta_item_stop fuel k Hk) as (l & r & E). apply (many0_stop _ f _ k l r E).
  - cbn [forallb] in H. apply andb_true_iff in H. destruct H as [Hm Hms].
    cbn [flat_map] in *. rewrite app_length, meta_line_length in Hf.
    destruct f as [| f]; [lia |]. rewrite <- app_assoc.
    apply (many0_step _ f (meta_item fuel) _ m (flat_map meta_line ms ++ k)).
    + apply meta_item_ok; [exact Hm | apply Hfuel; left; reflexivity].
    + rewrite (app_length (meta_line m)), meta_line_length. lia.
    + apply IH; [exact Hms | exact Hk | intros m' Hin; apply Hfuel; right; exact Hin | lia].
Qed.

Lemma flat_map_meta_length : forall ms m, In m ms ->
  (length (print_metadata m) <= length (flat_map meta_line ms))%nat.
Proof.
  induction ms as [| a ms IH]; intros m [-> | Hin]; cbn [flat_map]; rewrite app_length, meta_line_length.
  - lia.
  - specialize (IH m Hin). lia.
Qed.

Theorem block_metadata_fmt : forall fuel ms k, forallb wf_metadata ms = true -> follow_block k ->
  (length (10 :: flat_map meta_line ms ++ k) <= fuel)%nat ->
  block_metadata fuel (10 :: flat_map meta_line ms ++ k) = POk ms k.
Proof.
  intros fuel ms k H Hk Hf. unfold block_metadata. cbv beta iota.
  change (10 =? 59) with false. cbv iota.
  unfold preceded, bind.
  rw (line_ending_or_eof_ok (10 :: flat_map meta_line ms ++ k) _ (ends_lf _)).
  cbn [length] in Hf. rewrite app_length in Hf.
  apply (block_loop fuel ms fuel k H Hk).
  - intros m Hin. pose proof (flat_map_meta_length ms m Hin). lia.
  - lia.
Qed.

Print Assumptions block_metadata_fmt.
