(* Texts of the documented grammar of transactions (Model/DocGrammarTxn.v) are accepted by the
   parser model.  Stage 1: value expressions.  Stage 2: posting lines with their metadata
   lines.  Stage 3: transactions.  Stage 4: whole files (parse_ledger returns LOk). *)
From Coq Require Import List NArith ZArith Bool Lia Arith ZifyBool ZifyN ZifyNat.
From Okv Require Import Model.Lit Model.LitSpec Model.Syntax Model.Comb Model.ParseExpr Model.ParseMeta
  Model.ParsePosting Model.ParseTxn Model.ParseDirective Model.ParseLedger Model.DocGrammar
  Model.RoundTripSpec Model.DocGrammarTxn
  Proofs.LitProofs Proofs.CombSpec Proofs.ParseSafe Proofs.ParseTotal Proofs.DocAccept
  Proofs.RoundTripBase Proofs.RoundTripNum Proofs.RoundTripExpr Proofs.RoundTripLot Proofs.RoundTripMeta
  Proofs.RoundTripPosting Proofs.RoundTripTxn.
Import ListNotations.
Open Scope N_scope.

(* ================================================================================== *)
(* Stage 1: value expressions                                                          *)
(* ================================================================================== *)

(* ---- character facts ---- *)
Lemma sp_cases : forall c, is_sp c = true -> c = 32 \/ c = 9.
Proof. intros c H. unfold is_sp in H. lia. Qed.

Lemma sp_not_decimal : forall c, is_sp c = true -> is_decimal_char c = false.
Proof. intros c H. destruct (sp_cases c H) as [-> | ->]; reflexivity. Qed.
Lemma sp_non_commodity : forall c, is_sp c = true -> is_non_commodity c = true.
Proof. intros c H. destruct (sp_cases c H) as [-> | ->]; reflexivity. Qed.

Lemma decimal_cases : forall c, is_decimal_char c = true -> (48 <= c <= 57) \/ c = 44 \/ c = 46.
Proof. intros c H. unfold is_decimal_char, Comb.is_digit in H. lia. Qed.

Lemma decimal_non_commodity : forall c, is_decimal_char c = true -> is_non_commodity c = true.
Proof.
  intros c H. destruct (decimal_cases c H) as [R | [-> | ->]]; [| reflexivity | reflexivity].
  assert (C : c = 48 \/ c = 49 \/ c = 50 \/ c = 51 \/ c = 52 \/ c = 53 \/ c = 54 \/ c = 55 \/ c = 56 \/ c = 57) by lia.
  repeat (destruct C as [-> | C]; [reflexivity |]). subst. reflexivity.
Qed.

Lemma commodity_not_decimal : forall c, commodity_char c = true -> is_decimal_char c = false.
Proof.
  intros c H. destruct (is_decimal_char c) eqn:E; [| reflexivity].
  unfold commodity_char in H. rewrite (decimal_non_commodity c E) in H. discriminate.
Qed.
Lemma commodity_not_sp : forall c, commodity_char c = true -> is_sp c = false.
Proof.
  intros c H. destruct (is_sp c) eqn:E; [| reflexivity].
  unfold commodity_char in H. rewrite (sp_non_commodity c E) in H. discriminate.
Qed.

(* the first character of a text *)
Definition head_in (f : N -> bool) (x : list N) : Prop := exists c r, x = c :: r /\ f c = true.

(* what an expression can start with: a digit , . - ( *)
Definition is_expr_head (c : N) : bool := is_decimal_char c || (c =? 45) || (c =? 40).

Lemma expr_head_cases : forall c, is_expr_head c = true ->
  (48 <= c <= 57) \/ c = 44 \/ c = 46 \/ c = 45 \/ c = 40.
Proof. intros c H. unfold is_expr_head, is_decimal_char, Comb.is_digit in H. lia. Qed.

Lemma expr_head_sp : forall c, is_expr_head c = true -> is_sp c = false.
Proof. intros c H. apply expr_head_cases in H. unfold is_sp. lia. Qed.

Lemma head_in_app : forall f x y, head_in f x -> head_in f (x ++ y).
Proof. intros f x y (c & r & -> & H). exists c, (r ++ y). split; [reflexivity | exact H]. Qed.

Lemma head_not_sp : forall x y, head_in is_expr_head x -> starts_not is_sp (x ++ y).
Proof. intros x y (c & r & -> & H). simpl. apply expr_head_sp. exact H. Qed.

(* ---- the shape of a numeric literal ---- *)
Lemma strip_shape : forall l ng body, strip l = (ng, body) -> l = (if ng then [45] else []) ++ body.
Proof.
  intros [| x r] ng body H; unfold strip in H.
  - inversion H; subst. reflexivity.
  - destruct (N.eqb_spec x 45) as [-> | Hx]; inversion H; subst; reflexivity.
Qed.

Lemma strip_no_minus : forall b, starts_not (N.eqb 45) b -> strip b = (false, b).
Proof.
  intros [| x r] H; [reflexivity |]. unfold starts_not in H. unfold strip. rewrite N.eqb_sym, H. reflexivity.
Qed.

Lemma Groups_shape : forall l gs r2, Groups l gs r2 -> exists g, l = g ++ r2 /\ all is_decimal_char g.
Proof.
  intros l gs r2 H. induction H as [l Hs | a b c r gs rest Ha Hb Hc HG (g & -> & Hg)].
  - exists []. split; reflexivity.
  - exists (44 :: a :: b :: c :: g). split; [reflexivity |].
    apply all_cons. split; [reflexivity |].
    change (a :: b :: c :: g) with ([a; b; c] ++ g). apply all_app. split; [| exact Hg].
    apply dig_dec. repeat constructor; assumption.
Qed.

Lemma tail_inv : forall ng ip gs r2 t, tail ng ip gs r2 = Some t ->
  l_neg t = ng /\
  (forall ng', tail ng' ip gs r2 =
               Some {| l_neg := ng'; l_int := l_int t; l_frac := l_frac t; l_grouped := l_grouped t |}) /\
  ((r2 = [] /\ ip <> []) \/ (exists fp, r2 = 46 :: fp /\ all is_decimal_char fp)).
Proof.
  intros ng ip gs [| x r3] t H; cbn [tail] in *.
  - destruct (nonempty ip) eqn:E; [| discriminate]. inversion H; subst. cbn.
    split; [reflexivity |]. split; [intros; reflexivity |]. left. split; [reflexivity |].
    destruct ip; [discriminate | discriminate].
  - destruct (N.eqb_spec x 46) as [-> | Hx]; [| discriminate].
    destruct (span_digits r3) as [fp r4] eqn:Ed. destruct r4; [| discriminate].
    destruct (nonempty (ip ++ fp)) eqn:E; [| discriminate]. inversion H; subst. cbn.
    split; [reflexivity |]. split; [intros; reflexivity |]. right.
    destruct (span_digits_spec _ _ _ Ed) as (E1 & E2 & _). rewrite app_nil_r in E1. subst r3.
    exists fp. split; [reflexivity | apply dig_dec; exact E2].
Qed.

Lemma decimal_not_minus : forall c, is_decimal_char c = true -> (45 =? c) = false.
Proof. intros c H. apply decimal_cases in H. lia. Qed.

Lemma lit_shape : forall l t, spec_scan l = Some t ->
  exists body, l = (if l_neg t then [45] else []) ++ body /\ head_in is_decimal_char body /\
               all is_decimal_char body /\
               spec_scan body = Some {| l_neg := false; l_int := l_int t; l_frac := l_frac t;
                                        l_grouped := l_grouped t |}.
Proof.
  intros l t H. pose proof H as H0. rewrite spec_scan_eq in H.
  destruct (strip l) as [ng body] eqn:Hs.
  destruct (span_digits body) as [g0 r1] eqn:Hd.
  destruct (if (1 <=? length g0)%nat && (length g0 <=? 3)%nat then groups r1 else ([], r1)) as [gs r2] eqn:Hg.
  destruct (tail_inv _ _ _ _ _ H) as (Hn & Hany & Hr2).
  destruct (span_digits_spec _ _ _ Hd) as (Eb & Dg0 & _).
  assert (G : exists g, r1 = g ++ r2 /\ all is_decimal_char g /\ (g0 = [] -> g = [] /\ gs = [])).
  { destruct ((1 <=? length g0)%nat && (length g0 <=? 3)%nat) eqn:C.
    - destruct (Groups_shape _ _ _ (groups_Groups _ _ _ Hg)) as (g & E & A). exists g.
      split; [exact E |]. split; [exact A |]. intros ->. simpl in C. discriminate.
    - inversion Hg; subst. exists []. split; [reflexivity |]. split; [reflexivity |]. auto. }
  destruct G as (g & Er1 & Ag & Hg0).
  assert (Ab : all is_decimal_char body).
  { rewrite Eb, Er1. apply all_app. split; [apply dig_dec; exact Dg0 |]. apply all_app. split; [exact Ag |].
    destruct Hr2 as [[-> _] | (fp & -> & Afp)]; [reflexivity |]. apply all_cons. split; [reflexivity | exact Afp]. }
  assert (Nb : body <> []).
  { rewrite Eb, Er1. destruct Hr2 as [[-> Hip] | (fp & -> & _)].
    - destruct g0 as [| c g0']; [| discriminate]. destruct (Hg0 eq_refl) as [-> ->]. simpl in Hip. congruence.
    - destruct g0; [destruct g |]; discriminate. }
  assert (Hb : head_in is_decimal_char body).
  { destruct body as [| c b']; [congruence |]. apply all_cons in Ab. exists c, b'. split; [reflexivity | tauto]. }
  exists body. rewrite Hn. split; [apply strip_shape; exact Hs |]. split; [exact Hb |]. split; [exact Ab |].
  rewrite spec_scan_eq.
  assert (S0 : strip body = (false, body)).
  { apply strip_no_minus. destruct Hb as (c & b' & -> & Hc). simpl. apply decimal_not_minus. exact Hc. }
  rewrite S0, Hd, Hg. apply Hany.
Qed.

Lemma doc_decimal_shape : forall l, doc_decimal l ->
  exists body, (l = body \/ l = 45 :: body) /\ head_in is_decimal_char body /\ all is_decimal_char body /\
               doc_decimal body.
Proof.
  intros l (t & Ht & Hf). destruct (lit_shape l t Ht) as (body & E & Hh & Ha & Hs).
  exists body. split; [destruct (l_neg t); [right | left]; exact E |]. split; [exact Hh |]. split; [exact Ha |].
  eexists. split; [exact Hs |]. exact Hf.
Qed.

Definition is_lit_head (c : N) : bool := is_decimal_char c || (c =? 45).

Lemma doc_decimal_head : forall l, doc_decimal l -> head_in is_lit_head l.
Proof.
  intros l H. destruct (doc_decimal_shape l H) as (body & [-> | ->] & (c & r & -> & Hc) & _).
  - exists c, r. split; [reflexivity |]. unfold is_lit_head. rewrite Hc. reflexivity.
  - exists 45, (c :: r). split; reflexivity.
Qed.

Lemma head_in_impl : forall (f g : N -> bool) x, (forall c, f c = true -> g c = true) -> head_in f x -> head_in g x.
Proof. intros f g x H (c & r & -> & Hc). exists c, r. split; [reflexivity | auto]. Qed.

Lemma lit_head_expr : forall c, is_lit_head c = true -> is_expr_head c = true.
Proof. intros c H. unfold is_expr_head. fold (is_lit_head c). rewrite H. reflexivity. Qed.
Lemma lit_head_not_paren : forall c, is_lit_head c = true -> (c =? 40) = false.
Proof. intros c H. unfold is_lit_head, is_decimal_char, Comb.is_digit in H. lia. Qed.

(* ---- the number token ---- *)
Lemma decimal_token_lit : forall l y, doc_decimal l -> starts_not is_decimal_char y ->
  decimal_token (l ++ y) = POk l y.
Proof.
  intros l y H Hy. destruct (doc_decimal_shape l H) as (body & El & (c & b' & Eb & Hc) & Ab & _).
  unfold decimal_token, try_map.
  assert (E : exists x, (opt (chr 45) ;;; take_while0 is_decimal_char) (l ++ y) = POk x y).
  { exists body. unfold bind. destruct El as [-> | ->].
    - assert (F : chr 45 (body ++ y) = PErr false 0 (body ++ y)).
      { apply chr_fail. rewrite Eb. simpl. apply decimal_not_minus. exact Hc. }
      rw (opt_none _ _ _ _ _ F). apply take_while0_ok; assumption.
    - cbn [app]. rw (opt_ok _ (chr 45) _ _ _ (chr_ok 45 (body ++ y))). apply take_while0_ok; assumption. }
  destruct E as [x E]. rewrite (taken_ok _ _ _ _ _ E).
  destruct l; [| reflexivity]. destruct El as [El | El]; [| discriminate]. subst body. discriminate.
Qed.

Lemma pretty_decimal_lit : forall l y, doc_decimal l -> starts_not is_decimal_char y ->
  exists d, pretty_decimal (l ++ y) = POk d y.
Proof.
  intros l y H Hy. pose proof (decimal_token_lit l y H Hy) as E. destruct H as (t & Ht & Hf).
  exists (pdec_of t). unfold pretty_decimal, try_map. rewrite E.
  rewrite (wf_accepted l t Ht), Hf. reflexivity.
Qed.

(* ---- what the parser leaves of the continuation ---- *)
Definition rest_ok (r k : list N) : Prop := r = k \/ r = skip_sp k.

Lemma rest_ok_skip : forall r k, rest_ok r k -> skip_sp r = skip_sp k.
Proof. intros r k [-> | ->]; [reflexivity | apply skip_sp_idem]. Qed.
Lemma rest_ok_len : forall r k, rest_ok r k -> (length (skip_sp k) <= length r)%nat.
Proof. intros r k [-> | ->]; [apply skip_sp_length | lia]. Qed.
Lemma rest_ok_nosp : forall r k, rest_ok r k -> starts_not is_sp k -> r = k.
Proof. intros r k [-> | ->] H; [reflexivity | apply skip_sp_id; exact H]. Qed.

(* ---- amount-expr ---- *)
Lemma amount_doc : forall x k, doc_amount x -> good_follow k ->
  exists a r, amount (x ++ k) = POk a r /\ rest_ok r k.
Proof.
  intros x k H (G1 & G2 & G3). destruct H as [l s c Hl Hs Hc].
  assert (F : starts_not is_decimal_char (s ++ c ++ k)).
  { destruct s as [| a s'].
    - destruct c as [| c0 c']; [exact G1 |]. apply all_cons in Hc. simpl. apply commodity_not_decimal. tauto.
    - apply all_cons in Hs. simpl. apply sp_not_decimal. tauto. }
  destruct (pretty_decimal_lit l (s ++ c ++ k) Hl F) as [d Ed].
  unfold amount, terminated, bind. rewrite <- !app_assoc. rw Ed.
  destruct (space0_skip (s ++ c ++ k)) as [s0 Es]. rw Es. unfold ret at 1. cbv beta iota.
  rewrite (skip_sp_app s (c ++ k) Hs).
  destruct c as [| c0 c'].
  - cbn [app]. unfold commodity. change (skip_sp k) with ([] ++ skip_sp k) at 1.
    rw (take_till0_ok is_non_commodity [] (skip_sp k) (all_nil _) G3).
    eexists _, _. split; [reflexivity |]. right. reflexivity.
  - assert (NS : starts_not is_sp ((c0 :: c') ++ k)).
    { apply all_cons in Hc. simpl. apply commodity_not_sp. tauto. }
    rewrite (skip_sp_id _ NS). unfold commodity.
    rw (take_till0_ok is_non_commodity (c0 :: c') k Hc G2).
    eexists _, _. split; [reflexivity |]. left. reflexivity.
Qed.

Lemma doc_amount_lit_head : forall x, doc_amount x -> head_in is_lit_head x.
Proof. intros x [l s c Hl _ _]. apply head_in_app. apply doc_decimal_head. exact Hl. Qed.
Lemma doc_amount_head : forall x, doc_amount x -> head_in is_expr_head x.
Proof. intros x H. exact (head_in_impl _ _ x lit_head_expr (doc_amount_lit_head x H)). Qed.

(* a value expression that starts with a minus sign is a negative literal: without the sign
   it is an amount-expr again *)
Lemma neg_amount : forall d x', doc_value_expr d (45 :: x') -> doc_amount x'.
Proof.
  intros d x' H. remember (45 :: x') as x eqn:E.
  destruct H as [d x Ha | d s1 x0 s2 H1 H2 H3]; [| discriminate].
  destruct Ha as [l s c Hl Hs Hc].
  destruct (doc_decimal_shape l Hl) as (body & [-> | ->] & (c0 & b' & -> & Hc0) & _ & Hb).
  - cbn [app] in E. inversion E; subst. discriminate.
  - cbn [app] in E. inversion E; subst. change (c0 :: b' ++ s ++ c) with ((c0 :: b') ++ s ++ c).
    constructor; assumption.
Qed.

(* ---- continuations ---- *)
(* a continuation that starts with a character which ends any number / commodity and is not a
   blank (or is empty) *)
Definition stop_start (y : list N) : Prop :=
  match y with
  | [] => True
  | c :: _ => is_non_commodity c = true /\ is_decimal_char c = false /\ is_sp c = false
  end.

Lemma good_follow_sps : forall s y, sps0 s -> stop_start y -> good_follow (s ++ y).
Proof.
  intros s y Hs Hy.
  assert (Y : good_follow y).
  { destruct y as [| c y']; [repeat split |]. destruct Hy as (H1 & H2 & H3).
    unfold good_follow. rewrite skip_sp_id by exact H3. simpl. rewrite H1, H2. auto. }
  destruct s as [| a s']; [exact Y |]. pose proof Hs as Hs0. apply all_cons in Hs. destruct Hs as [Ha _].
  unfold good_follow. rewrite (skip_sp_app (a :: s') y Hs0). cbn [app]. simpl.
  rewrite (sp_not_decimal a Ha), (sp_non_commodity a Ha). destruct Y as (_ & _ & Y3). auto.
Qed.

Lemma skip_sps_stop : forall s y, sps0 s -> stop_start y -> skip_sp (s ++ y) = y.
Proof.
  intros s y Hs Hy. apply skip_sp_all; [exact Hs |]. destruct y as [| c y']; [exact I |]. simpl. apply Hy.
Qed.

(* ---- operators ---- *)
Lemma mul_op_char : forall op, mul_char op -> exists o, forall rest, mul_op (op :: rest) = POk o rest.
Proof. intros op [-> | ->]; eexists; intros; reflexivity. Qed.
Lemma add_op_char : forall op, add_char op -> exists o, forall rest, add_op (op :: rest) = POk o rest.
Proof. intros op [-> | ->]; eexists; intros; reflexivity. Qed.

Lemma op_stop : forall op x, mul_char op \/ add_char op -> stop_start (op :: x).
Proof. intros op x [[-> | ->] | [-> | ->]]; repeat split. Qed.

Lemma sep_ok2 : forall (opp : parser s_binop) o c s2 z i,
  opp (c :: s2 ++ z) = POk o (s2 ++ z) -> sps0 s2 -> starts_not is_sp z ->
  skip_sp i = c :: s2 ++ z -> sep opp i = POk o z.
Proof.
  intros opp o c s2 z i H Hs Hz Hi. unfold sep, delimited, bind. destruct (space0_skip i) as [s Es]. rewrite Es.
  rewrite Hi, H. rewrite (space0_ok s2 z Hs Hz). reflexivity.
Qed.

Section DocExpr.
Variable fuel : nat.

Definition Vd (d : nat) (x : list N) : Prop := forall D k,
  (d <= D)%nat -> good_follow k -> (length x <= fuel)%nat ->
  exists v r, VE fuel D (x ++ k) = POk v r /\ rest_ok r k.

Definition Ud (d : nat) (x : list N) : Prop := forall D k,
  (d <= D)%nat -> good_follow k -> (length x <= fuel)%nat ->
  exists e r, U fuel D (x ++ k) = POk e r /\ rest_ok r k.

Definition Mopen (d : nat) (x : list N) : Prop := exists n, (n <= length x)%nat /\ forall D k f,
  (d <= D)%nat -> good_follow k -> (length x <= fuel)%nat ->
  exists e r, separated_foldl1 (f + n) (U fuel D) (sep mul_op) mk (x ++ k)
              = foldl1_loop f (U fuel D) (sep mul_op) mk e r /\ rest_ok r k.

Definition Mok (d : nat) (x : list N) : Prop := forall D k,
  (d <= D)%nat -> good_follow k -> no_mul k -> (length x <= fuel)%nat ->
  exists e r, M fuel D (x ++ k) = POk e r /\ rest_ok r k.

Definition Aopen (d : nat) (x : list N) : Prop := exists n, (n <= length x)%nat /\ forall D k f,
  (d <= D)%nat -> good_follow k -> no_mul k -> (length x <= fuel)%nat ->
  exists e r, separated_foldl1 (f + n) (M fuel D) (sep add_op) mk (x ++ k)
              = foldl1_loop f (M fuel D) (sep add_op) mk e r /\ rest_ok r k.

Definition Aok (d : nat) (x : list N) : Prop := forall D k,
  (d <= D)%nat -> good_follow k -> no_mul k -> no_add k -> (length x <= fuel)%nat ->
  exists e r, A fuel D (x ++ k) = POk e r /\ rest_ok r k.

Lemma Mclose : forall d x, Mopen d x -> Mok d x.
Proof.
  intros d x (n & Hn & H) D k HD G NM L.
  destruct (H D k (fuel - n)%nat HD G L) as (e & r & E & R).
  exists e, r. split; [| exact R].
  unfold M, infixl. fold (sep mul_op). fold mk.
  replace fuel with (fuel - n + n)%nat at 1 by lia. rewrite E.
  destruct (sep_fail mul_op r) as [r' Er].
  { rewrite (rest_ok_skip r k R). apply mul_op_fail. exact NM. }
  eapply loop_stop. exact Er.
Qed.

Lemma Aclose : forall d x, Aopen d x -> Aok d x.
Proof.
  intros d x (n & Hn & H) D k HD G NM NA L.
  destruct (H D k (fuel - n)%nat HD G NM L) as (e & r & E & R).
  exists e, r. split; [| exact R].
  unfold A, infixl. fold (sep add_op). fold mk.
  replace fuel with (fuel - n + n)%nat at 1 by lia. rewrite E.
  destruct (sep_fail add_op r) as [r' Er].
  { rewrite (rest_ok_skip r k R). apply add_op_fail. exact NA. }
  eapply loop_stop. exact Er.
Qed.

(* amount-expr *)
Lemma V_amount_doc : forall d x, doc_amount x -> Vd d x.
Proof.
  intros d x H D k HD G L. destruct (amount_doc x k H G) as (a & r & E & R).
  exists (SAmount a), r. split; [| exact R].
  destruct (doc_amount_lit_head x H) as (c & x' & -> & Hc). cbn [app] in *.
  pose proof (lit_head_not_paren c Hc) as H40.
  rewrite (VE_amount fuel D c (x' ++ k) H40). apply pmap_ok. exact E.
Qed.

(* paren-expr *)
Lemma V_paren_doc : forall d s1 x s2, sps0 s1 -> sps0 s2 -> Aok d x -> head_in is_expr_head x ->
  Vd (S d) ([40] ++ s1 ++ x ++ s2 ++ [41]).
Proof.
  intros d s1 x s2 H1 H2 Hx Hh D k HD G L.
  destruct D as [| D]; [lia |].
  assert (Lx : (length x <= fuel)%nat) by (rewrite !app_length in L; lia).
  assert (St : stop_start (41 :: k)) by (repeat split).
  assert (Sk : skip_sp (s2 ++ 41 :: k) = 41 :: k) by (apply skip_sps_stop; assumption).
  destruct (Hx D (s2 ++ 41 :: k) ltac:(lia) (good_follow_sps _ _ H2 St)
              ltac:(unfold no_mul; rewrite Sk; reflexivity)
              ltac:(unfold no_add; rewrite Sk; reflexivity) Lx) as (e & r & E & R).
  exists (SParen e), k. split; [| left; reflexivity].
  rewrite <- !app_assoc. cbn [app]. rewrite VE_paren. apply pmap_ok.
  unfold paren, delimited, bind. rw (chr_ok 40 (s1 ++ x ++ s2 ++ 41 :: k)).
  rw (space0_ok s1 (x ++ s2 ++ 41 :: k) H1 (head_not_sp x _ Hh)).
  rw E. destruct (space0_skip r) as [s0 Es]. rw Es. rewrite (rest_ok_skip _ _ R), Sk.
  unfold ret at 1. cbv beta iota. rw (chr_ok 41 k). reflexivity.
Qed.

(* unary-expr *)
Lemma U_pos_doc : forall d x, doc_value_expr d x -> Vd d x -> head_in is_expr_head x -> Ud d x.
Proof.
  intros d x H Hv (c & x' & -> & _) D k HD G L.
  destruct (N.eqb_spec c 45) as [-> | Hc].
  - (* a negative literal: the parser reads the sign as a negation *)
    pose proof (neg_amount d x' H) as Ha.
    assert (Lx : (length x' <= fuel)%nat) by (simpl in L; lia).
    destruct (V_amount_doc d x' Ha D k HD G Lx) as (v & r & E & R).
    exists (SUnaryNeg (SValue v)), r. split; [| exact R].
    unfold U, unary_expr. cbn [app]. rewrite N.eqb_refl.
    unfold negate_expr, preceded, pmap, bind. rw (chr_ok 45 (x' ++ k)).
    fold (VE fuel D). rw E. reflexivity.
  - destruct (Hv D k HD G L) as (v & r & E & R).
    exists (SValue v), r. split; [| exact R].
    unfold U, unary_expr. cbn [app]. apply N.eqb_neq in Hc. rewrite Hc.
    apply pmap_ok. exact E.
Qed.

Lemma U_neg_doc : forall d x, Vd d x -> Ud d (45 :: x).
Proof.
  intros d x Hv D k HD G L. assert (Lx : (length x <= fuel)%nat) by (simpl in L; lia).
  destruct (Hv D k HD G Lx) as (v & r & E & R).
  exists (SUnaryNeg (SValue v)), r. split; [| exact R].
  unfold U, unary_expr. cbn [app]. rewrite N.eqb_refl.
  unfold negate_expr, preceded, pmap, bind. rw (chr_ok 45 (x ++ k)).
  fold (VE fuel D). rw E. reflexivity.
Qed.

(* one more operand of a chain *)
Lemma chain_more : forall (opp : parser s_binop) (p : nat -> parser s_expr) x s1 op s2 y n o,
  (forall rest, opp (op :: rest) = POk o rest) -> stop_start (op :: s2 ++ y) ->
  sps0 s1 -> sps0 s2 -> head_in is_expr_head y ->
  forall D k f e1 r1 b r,
    separated_foldl1 (S f + n) (p D) (sep opp) mk (x ++ s1 ++ [op] ++ s2 ++ y ++ k)
      = foldl1_loop (S f) (p D) (sep opp) mk e1 r1 ->
    rest_ok r1 (s1 ++ [op] ++ s2 ++ y ++ k) ->
    p D (y ++ k) = POk b r ->
    separated_foldl1 (f + S n) (p D) (sep opp) mk ((x ++ s1 ++ [op] ++ s2 ++ y) ++ k)
      = foldl1_loop f (p D) (sep opp) mk (SBinary o e1 b) r.
Proof.
  intros opp p x s1 op s2 y n o Hop Hst H1 H2 Hy D k f e1 r1 b r E1 R1 Eb.
  rewrite <- !app_assoc. replace (f + S n)%nat with (S f + n)%nat by lia. rewrite E1.
  assert (Sk : skip_sp (s1 ++ [op] ++ s2 ++ y ++ k) = op :: s2 ++ y ++ k).
  { cbn [app]. apply skip_sp_all; [exact H1 |]. simpl. apply Hst. }
  eapply loop_step; [| | exact Eb].
  - apply (sep_ok2 opp o op s2 (y ++ k)); [apply Hop | exact H2 | apply head_not_sp; exact Hy |].
    rewrite (rest_ok_skip _ _ R1). exact Sk.
  - pose proof (rest_ok_len _ _ R1) as Ln. rewrite Sk in Ln. cbn [length] in Ln. rewrite app_length in Ln. lia.
Qed.

Lemma op_follow : forall s1 op s2 y k, sps0 s1 -> mul_char op \/ add_char op ->
  good_follow (s1 ++ [op] ++ s2 ++ y ++ k) /\ skip_sp (s1 ++ [op] ++ s2 ++ y ++ k) = op :: s2 ++ y ++ k.
Proof.
  intros s1 op s2 y k H1 Hop. cbn [app].
  split; [apply good_follow_sps | apply skip_sps_stop]; auto using op_stop.
Qed.

Lemma M_more_doc : forall d x s1 op s2 y, Mopen d x -> sps0 s1 -> mul_char op -> sps0 s2 ->
  Ud d y -> head_in is_expr_head y -> Mopen d (x ++ s1 ++ [op] ++ s2 ++ y).
Proof.
  intros d x s1 op s2 y (n & Hn & Hx) H1 Hop H2 Hy Hh.
  exists (S n). split; [rewrite !app_length; cbn [length]; lia |].
  intros D k f HD G L.
  assert (Lx : (length x <= fuel)%nat) by (rewrite !app_length in L; lia).
  assert (Ly : (length y <= fuel)%nat) by (rewrite !app_length in L; lia).
  destruct (Hy D k HD G Ly) as (b & r & Eb & Rb).
  destruct (op_follow s1 op s2 y k H1 (or_introl Hop)) as [G' _].
  destruct (Hx D _ (S f) HD G' Lx) as (e1 & r1 & E1 & R1).
  destruct (mul_op_char op Hop) as [o Ho].
  exists (SBinary o e1 b), r. split; [| exact Rb].
  eapply (chain_more mul_op (U fuel)); eauto. apply op_stop. left. exact Hop.
Qed.

Lemma A_more_doc : forall d x s1 op s2 y, Aopen d x -> sps0 s1 -> add_char op -> sps0 s2 ->
  Mok d y -> head_in is_expr_head y -> Aopen d (x ++ s1 ++ [op] ++ s2 ++ y).
Proof.
  intros d x s1 op s2 y (n & Hn & Hx) H1 Hop H2 Hy Hh.
  exists (S n). split; [rewrite !app_length; cbn [length]; lia |].
  intros D k f HD G NM L.
  assert (Lx : (length x <= fuel)%nat) by (rewrite !app_length in L; lia).
  assert (Ly : (length y <= fuel)%nat) by (rewrite !app_length in L; lia).
  destruct (Hy D k HD G NM Ly) as (b & r & Eb & Rb).
  destruct (op_follow s1 op s2 y k H1 (or_intror Hop)) as [G' Sk].
  assert (NM' : no_mul (s1 ++ [op] ++ s2 ++ y ++ k)).
  { unfold no_mul. rewrite Sk. destruct Hop as [-> | ->]; reflexivity. }
  destruct (Hx D _ (S f) HD G' NM' Lx) as (e1 & r1 & E1 & R1).
  destruct (add_op_char op Hop) as [o Ho].
  exists (SBinary o e1 b), r. split; [| exact Rb].
  eapply (chain_more add_op (M fuel)); eauto. apply op_stop. right. exact Hop.
Qed.

Lemma M_one_doc : forall d x, Ud d x -> Mopen d x.
Proof.
  intros d x H. exists O. split; [lia |]. intros D k f HD G L.
  destruct (H D k HD G L) as (e & r & E & R). exists e, r. split; [| exact R].
  unfold separated_foldl1. rewrite E, Nat.add_0_r. reflexivity.
Qed.

Lemma A_one_doc : forall d x, Mok d x -> Aopen d x.
Proof.
  intros d x H. exists O. split; [lia |]. intros D k f HD G NM L.
  destruct (H D k HD G NM L) as (e & r & E & R). exists e, r. split; [| exact R].
  unfold separated_foldl1. rewrite E, Nat.add_0_r. reflexivity.
Qed.

End DocExpr.

Scheme dve_ind := Minimality for doc_value_expr Sort Prop
  with dadd_ind := Minimality for doc_add Sort Prop
  with dmul_ind := Minimality for doc_mul Sort Prop
  with dun_ind := Minimality for doc_unary Sort Prop.
Combined Scheme doc_expr_ind from dve_ind, dadd_ind, dmul_ind, dun_ind.

Lemma doc_expr_all : forall fuel,
  (forall d x, doc_value_expr d x -> Vd fuel d x /\ head_in is_expr_head x) /\
  (forall d x, doc_add d x -> Aopen fuel d x /\ head_in is_expr_head x) /\
  (forall d x, doc_mul d x -> Mopen fuel d x /\ head_in is_expr_head x) /\
  (forall d x, doc_unary d x -> Ud fuel d x /\ head_in is_expr_head x).
Proof.
  intros fuel. apply doc_expr_ind.
  - intros d x H. split; [apply V_amount_doc; exact H | apply doc_amount_head; exact H].
  - intros d s1 x s2 H1 _ [Hx Hh] H2. split.
    + apply V_paren_doc; auto. apply Aclose. exact Hx.
    + exists 40, (s1 ++ x ++ s2 ++ [41]). split; reflexivity.
  - intros d x _ [Hx Hh]. split; [| exact Hh]. apply A_one_doc. apply Mclose. exact Hx.
  - intros d x s1 op s2 y _ [Hx Hhx] H1 Hop H2 _ [Hy Hhy]. split; [| apply head_in_app; exact Hhx].
    apply A_more_doc; auto. apply Mclose. exact Hy.
  - intros d x _ [Hx Hh]. split; [| exact Hh]. apply M_one_doc. exact Hx.
  - intros d x s1 op s2 y _ [Hx Hhx] H1 Hop H2 _ [Hy Hhy]. split; [| apply head_in_app; exact Hhx].
    apply M_more_doc; auto.
  - intros d x H [Hx Hh]. split; [| exact Hh]. apply U_pos_doc; assumption.
  - intros d x _ [Hx Hh]. split; [apply U_neg_doc; exact Hx |]. exists 45, x. split; reflexivity.
Qed.

Lemma doc_value_expr_head : forall d x, doc_value_expr d x -> head_in is_expr_head x.
Proof. intros d x H. exact (proj2 (proj1 (doc_expr_all O) d x H)). Qed.

(* Stage 1: a documented value expression, followed by a continuation that can not extend it,
   is read by value_expr; of the continuation the parser takes at most leading blanks (after a
   number without commodity). *)
Theorem doc_value_expr_accepted : forall fuel d x k,
  doc_value_expr d x -> (d <= max_expr_depth)%nat -> good_follow k -> (length x <= fuel)%nat ->
  exists v r, value_expr fuel (x ++ k) = POk v r /\ (r = k \/ r = skip_sp k) /\ skip_sp r = skip_sp k.
Proof.
  intros fuel d x k H HD G L. rewrite value_expr_VE.
  destruct (proj1 (proj1 (doc_expr_all fuel) d x H) max_expr_depth k HD G L) as (v & r & E & R).
  exists v, r. split; [exact E |]. split; [exact R | apply rest_ok_skip; exact R].
Qed.

Print Assumptions doc_value_expr_accepted.
