(* The literal printer on every Decimal (not only the ones the scanner returns): `show d` is a
   well-formed literal for any 96-bit mantissa and scale <= 28, also for a negative zero and for an
   unformatted number with four or more integer digits (what importers print).  It scans back to
   the same mantissa and scale; only the sign of a negative zero is lost. *)
From Coq Require Import QArith.
From Coq Require Import List NArith ZArith Bool Lia ZifyBool ZifyN ZifyNat.
From Okv Require Import Model.Lit Model.LitSpec Proofs.LitProofs Proofs.LitShow.
Import ListNotations.
Open Scope N_scope.

Local Arguments N.add : simpl never.
Local Arguments N.mul : simpl never.
Local Arguments N.sub : simpl never.
Local Arguments N.leb : simpl never.
Local Arguments N.ltb : simpl never.
Local Arguments N.eqb : simpl never.
Local Arguments N.div : simpl never.
Local Arguments N.modulo : simpl never.
Local Arguments Z.mul : simpl never.
Local Arguments Z.add : simpl never.
Local Arguments N.of_nat : simpl never.

(* the printed shape: sign, leading digits, comma groups, fraction *)
Lemma show_decomp : forall d,
  exists g0 T,
    show d = (if neg d then [45] else []) ++ g0 ++ enc T ++ tailpart (fp_of d) /\
    ip_of d = g0 ++ flat T /\
    Forall dig g0 /\ g0 <> [] /\ Forall dig (flat T) /\ (T <> [] -> (length g0 <= 3)%nat) /\
    Forall dig (fp_of d) /\ length (fp_of d) = scale d /\
    digits_val (ip_of d ++ fp_of d) = mant d.
Proof.
  intros d.
  destruct (ds_of_facts d) as (Hdig & Hlen & _ & Hval).
  assert (Hsplit : ip_of d ++ fp_of d = ds_of d) by apply firstn_skipn.
  assert (Hfl : length (fp_of d) = scale d).
  { unfold fp_of. rewrite skipn_length. lia. }
  assert (Hil : length (ip_of d) = (length (ds_of d) - scale d)%nat).
  { unfold ip_of. rewrite firstn_length_le; lia. }
  rewrite <- Hsplit in Hdig. apply Forall_app in Hdig. destruct Hdig as [Hdi Hdf].
  assert (Hine : ip_of d <> []).
  { intros E. rewrite E in Hil. cbn [length] in Hil. lia. }
  assert (Hmid : exists g0 T,
            (match pfmt d with Some Comma3Dot => group3 (ip_of d) | _ => ip_of d end)
            = g0 ++ enc T /\ ip_of d = g0 ++ flat T /\ g0 <> [] /\
            (T <> [] -> (length g0 <= 3)%nat)).
  { assert (Hplain : exists g0 T,
              ip_of d = g0 ++ enc T /\ ip_of d = g0 ++ flat T /\ g0 <> [] /\
              (T <> [] -> (length g0 <= 3)%nat)).
    { exists (ip_of d), []. cbn [enc flat]. rewrite app_nil_r. repeat split; auto. congruence. }
    destruct (pfmt d) as [[|]|].
    - exact Hplain.
    - destruct (group3_shape _ Hine) as (g0 & T & H1 & H2 & H3). exists g0, T.
      repeat split; auto; try lia.
      intros E. subst g0. cbn [length] in H3. lia.
    - exact Hplain. }
  destruct Hmid as (g0 & T & Hmid & Hip & Hg0ne & HTlen).
  exists g0, T.
  assert (Hdi' := Hdi). rewrite Hip in Hdi'. apply Forall_app in Hdi'. destruct Hdi' as [Hdg0 HdT].
  split.
  { rewrite show_eq, Hmid, <- app_assoc. reflexivity. }
  split; [exact Hip|]. split; [exact Hdg0|]. split; [exact Hg0ne|]. split; [exact HdT|].
  split; [exact HTlen|]. split; [exact Hdf|]. split; [exact Hfl|].
  rewrite Hsplit. exact Hval.
Qed.

Theorem show_scan_gen : forall d, (Z.of_N (mant d) <= max96)%Z -> (scale d <= 28)%nat ->
  exists d', scan (show d) = SOk d' /\ mant d' = mant d /\ scale d' = scale d /\
             neg d' = (neg d && negb (mant d =? 0)).
Proof.
  intros d Hm Hs.
  destruct (show_decomp d) as (g0 & T & Hshow & Hip & Hdg0 & Hg0ne & HdT & HTlen & Hdf & Hfl & Hval).
  pose proof (spec_scan_shape (neg d) g0 T (fp_of d) Hdg0 Hg0ne HdT HTlen Hdf) as Hspec.
  rewrite <- Hshow in Hspec.
  pose proof (wf_accepted _ _ Hspec) as Hscan.
  set (t := {| l_neg := neg d; l_int := g0 ++ flat T; l_frac := fp_of d;
               l_grouped := nonempty (flat T) |}) in *.
  assert (Hlm : lit_mant t = mant d).
  { unfold lit_mant, t. cbn [l_int l_frac]. rewrite <- Hip. exact Hval. }
  assert (Hlp : lit_places t = scale d) by exact Hfl.
  assert (Hfits : fits t = true).
  { unfold fits. rewrite Hlm, Hlp. lia. }
  rewrite Hfits in Hscan.
  exists (pdec_of t). split; [exact Hscan|].
  unfold pdec_of. cbn [mant scale neg pfmt]. rewrite Hlm, Hlp.
  split; [reflexivity|]. split; [reflexivity|]. reflexivity.
Qed.

(* ---- the characters of a printed number ---- *)
Definition numc (c : N) : bool := is_digit c || (c =? 45) || (c =? 44) || (c =? 46).

Lemma dig_numc : forall l, Forall dig l -> Forall (fun c => numc c = true) l.
Proof.
  intros l H. induction H as [|c l Hc _ IH]; constructor; [|exact IH].
  unfold dig in Hc. unfold numc. rewrite Hc. reflexivity.
Qed.

Lemma enc_numc : forall T, Forall dig (flat T) -> Forall (fun c => numc c = true) (enc T).
Proof.
  induction T as [|[[a b] c] T IH]; intros H; [constructor|].
  cbn [flat] in H. inversion H as [|? ? Ha H1]; subst. inversion H1 as [|? ? Hb H2]; subst.
  inversion H2 as [|? ? Hc H3]; subst. unfold dig in *. cbn [enc].
  constructor; [reflexivity|].
  constructor; [unfold numc; rewrite Ha; reflexivity|].
  constructor; [unfold numc; rewrite Hb; reflexivity|].
  constructor; [unfold numc; rewrite Hc; reflexivity|].
  apply IH. exact H3.
Qed.

Lemma show_numc : forall d, Forall (fun c => numc c = true) (show d).
Proof.
  intros d.
  destruct (show_decomp d) as (g0 & T & Hshow & _ & Hdg0 & _ & HdT & _ & Hdf & _).
  rewrite Hshow. apply Forall_app. split.
  - destruct (neg d); constructor; [reflexivity|constructor].
  - apply Forall_app. split; [apply dig_numc; exact Hdg0|].
    apply Forall_app. split; [apply enc_numc; exact HdT|].
    unfold tailpart. destruct (fp_of d) as [|f fp] eqn:E; [constructor|].
    constructor; [reflexivity|]. apply dig_numc. exact Hdf.
Qed.

Lemma show_nonempty : forall d, show d <> [].
Proof.
  intros d.
  destruct (show_decomp d) as (g0 & T & Hshow & _ & _ & Hg0ne & _).
  rewrite Hshow. destruct (neg d); cbn [app]; [discriminate|].
  destruct g0; [congruence|discriminate].
Qed.

(* the first character is a digit or the minus sign *)
Lemma show_head : forall d, exists c r, show d = c :: r /\ (is_digit c = true \/ c = 45).
Proof.
  intros d.
  destruct (show_decomp d) as (g0 & T & Hshow & _ & Hdg0 & Hg0ne & _).
  rewrite Hshow. destruct (neg d); cbn [app].
  - eexists _, _. split; [reflexivity|]. right; reflexivity.
  - destruct g0 as [|x g0']; [congruence|]. inversion Hdg0 as [|? ? Hx _]; subst.
    cbn [app]. eexists _, _. split; [reflexivity|]. left. exact Hx.
Qed.
