(* Property C12, "reports show canonical names only": every account / commodity id in the
   balances and stored transactions of a reachable state is canonical in the final stores. *)
From Coq Require Import List NArith ZArith Bool QArith Qcanon Lia.
From Okv Require Import Base.Maps Base.Dec Model.Amount Model.Book Model.Intern Model.Named.
From Okv Require Import Proofs.EvalProofs Proofs.InternProofs Proofs.NamedProofs Proofs.BookClosed.
Import ListNotations.
Open Scope N_scope.

Definition canon (s : store) (n : N) : Prop := get n s = Some RCanonical.

Lemma canon_le : forall s s' n, store_le s s' -> canon s n -> canon s' n.
Proof. intros s s' n L C. apply L. exact C. Qed.

Lemma comms_ok_le : forall s s' l, store_le s s' -> comms_ok (canon s) l -> comms_ok (canon s') l.
Proof. intros s s' l L C c I. eapply canon_le; [exact L | apply C; exact I]. Qed.

Lemma comms_ok_app : forall Q l1 l2, comms_ok Q l1 -> comms_ok Q l2 -> comms_ok Q (l1 ++ l2).
Proof. intros Q l1 l2 A B c I. apply in_app_iff in I. destruct I; [apply A | apply B]; assumption. Qed.

Lemma comms_ok_nil : forall Q, comms_ok Q [].
Proof. intros Q c []. Qed.

(* resolution returns canonical ids *)
Lemma res_ve_canon :
  (forall v s s' v', res_v s v = (s', v') -> store_ok s -> comms_ok (canon s') (v_comms v')) /\
  (forall e s s' e', res_e s e = (s', e') -> store_ok s -> comms_ok (canon s') (e_comms e')).
Proof.
  apply vexpr_expr_ind.
  - intros e IH s s' v' H OK. cbn [res_v] in H. destruct (res_e s e) as [s1 e1] eqn:R. inversion H; subst.
    cbn [v_comms]. eapply IH; [exact R | exact OK].
  - intros q [c|] s s' v' H OK; cbn [res_v] in H.
    + destruct (ensure s c) as [s1 c1] eqn:E. inversion H; subst. cbn [v_comms].
      intros x [<- | []]. apply (ensure_spec _ _ _ _ E OK).
    + inversion H; subst. apply comms_ok_nil.
  - intros x IH s s' e' H OK. cbn [res_e] in H. destruct (res_e s x) as [s1 x1] eqn:R. inversion H; subst.
    cbn [e_comms]. eapply IH; [exact R | exact OK].
  - intros op l IHl r IHr s s' e' H OK. cbn [res_e] in H.
    destruct (res_e s l) as [s1 l1] eqn:Rl. destruct (res_e s1 r) as [s2 r1] eqn:Rr. inversion H; subst.
    cbn [e_comms]. pose proof (proj2 res_ve_mono l s) as [L1 O1]. rewrite Rl in L1, O1. cbn [fst] in L1, O1.
    pose proof (proj2 res_ve_mono r s1) as [L2 _]. rewrite Rr in L2. cbn [fst] in L2.
    apply comms_ok_app.
    + eapply comms_ok_le; [exact L2 | eapply IHl; [exact Rl | exact OK]].
    + eapply IHr; [exact Rr | apply O1; exact OK].
  - intros v IH s s' e' H OK. cbn [res_e] in H. destruct (res_v s v) as [s1 v1] eqn:R. inversion H; subst.
    cbn [e_comms]. eapply IH; [exact R | exact OK].
Qed.

Lemma res_ov_canon : forall o s s' o', res_ov s o = (s', o') -> store_ok s -> comms_ok (canon s') (ov_comms o').
Proof.
  intros [v|] s s' o' H OK; cbn [res_ov] in H.
  - destruct (res_v s v) as [s1 v1] eqn:R. inversion H; subst. cbn [ov_comms]. eapply (proj1 res_ve_canon); eassumption.
  - inversion H; subst. apply comms_ok_nil.
Qed.
Lemma res_ox_canon : forall o s s' o', res_ox s o = (s', o') -> store_ok s -> comms_ok (canon s') (ox_comms o').
Proof.
  intros [[v|v]|] s s' o' H OK; cbn [res_ox] in H.
  - destruct (res_v s v) as [s1 v1] eqn:R. inversion H; subst. cbn [ox_comms]. eapply (proj1 res_ve_canon); eassumption.
  - destruct (res_v s v) as [s1 v1] eqn:R. inversion H; subst. cbn [ox_comms]. eapply (proj1 res_ve_canon); eassumption.
  - inversion H; subst. apply comms_ok_nil.
Qed.

Lemma res_posting_canon : forall p sa sc sa' sc' p', res_posting sa sc p = (sa', sc', p') ->
  store_ok sa -> store_ok sc -> posting_ok (canon sa') (canon sc') p'.
Proof.
  intros p sa sc sa' sc' p' H OA OC. unfold res_posting in H.
  destruct (ensure sa (p_account p)) as [sa1 a] eqn:E.
  destruct (res_ov sc (p_amount p)) as [s1 amt] eqn:R1.
  destruct (res_ox s1 (p_cost p)) as [s2 cost] eqn:R2.
  destruct (res_ox s2 (p_lot p)) as [s3 lot] eqn:R3.
  destruct (res_ov s3 (p_balance p)) as [s4 bal] eqn:R4. inversion H; subst.
  destruct (res_ov_mono (p_amount p) sc) as [L1 O1]. rewrite R1 in L1, O1. cbn [fst] in L1, O1.
  destruct (res_ox_mono (p_cost p) s1) as [L2 O2]. rewrite R2 in L2, O2. cbn [fst] in L2, O2.
  destruct (res_ox_mono (p_lot p) s2) as [L3 O3]. rewrite R3 in L3, O3. cbn [fst] in L3, O3.
  destruct (res_ov_mono (p_balance p) s3) as [L4 O4]. rewrite R4 in L4, O4. cbn [fst] in L4, O4.
  split; cbn [p_account].
  - apply (ensure_spec _ _ _ _ E OA).
  - unfold posting_comms. cbn [p_amount p_cost p_lot p_balance].
    apply comms_ok_app; [eapply comms_ok_le; [eapply store_le_trans; [exact L2 | eapply store_le_trans; [exact L3 | exact L4]] | eapply res_ov_canon; eassumption]|].
    apply comms_ok_app; [eapply comms_ok_le; [eapply store_le_trans; [exact L3 | exact L4] | eapply res_ox_canon; [exact R2 | auto]]|].
    apply comms_ok_app; [eapply comms_ok_le; [exact L4 | eapply res_ox_canon; [exact R3 | auto]]|].
    eapply res_ov_canon; [exact R4 | auto].
Qed.

Lemma posting_ok_le : forall sa sa' sc sc' p, store_le sa sa' -> store_le sc sc' ->
  posting_ok (canon sa) (canon sc) p -> posting_ok (canon sa') (canon sc') p.
Proof.
  intros sa sa' sc sc' p LA LC [A C]. split; [eapply canon_le; eassumption | eapply comms_ok_le; eassumption].
Qed.

Lemma res_posts_canon : forall ps sa sc sa' sc' ps', res_posts sa sc ps = (sa', sc', ps') ->
  store_ok sa -> store_ok sc -> Forall (posting_ok (canon sa') (canon sc')) ps'.
Proof.
  induction ps as [|p r IH]; intros sa sc sa' sc' ps' H OA OC; cbn [res_posts] in H.
  - inversion H; subst. constructor.
  - destruct (res_posting sa sc p) as [[sa1 sc1] p1] eqn:P.
    destruct (res_posts sa1 sc1 r) as [[sa2 sc2] r1] eqn:R. inversion H; subst.
    destruct (res_posting_mono _ _ _ _ _ _ P) as [_ [_ [OA1 OC1]]].
    destruct (res_posts_mono _ _ _ _ _ _ R) as [LA [LC _]].
    constructor.
    + eapply posting_ok_le; [exact LA | exact LC | eapply res_posting_canon; eassumption].
    + eapply IH; [exact R | auto | auto].
Qed.

Lemma res_txn_canon : forall t sa sc sa' sc' t', res_txn sa sc t = (sa', sc', t') ->
  store_ok sa -> store_ok sc -> txn_ok (canon sa') (canon sc') t'.
Proof.
  intros t sa sc sa' sc' t' H OA OC. unfold res_txn in H.
  destruct (res_posts sa sc (t_posts t)) as [[sa1 sc1] ps] eqn:R. inversion H; subst.
  unfold txn_ok. cbn [t_posts]. eapply res_posts_canon; eassumption.
Qed.

(* weakening of the closed-set predicates *)
Lemma amt_ok_weaken : forall (Q Q' : N -> Prop) a, (forall x, Q x -> Q' x) -> amt_ok Q a -> amt_ok Q' a.
Proof. intros Q Q' a W A c I. apply W. apply A. exact I. Qed.

Lemma bstate_ok_weaken : forall (P P' Q Q' : N -> Prop) b,
  (forall x, P x -> P' x) -> (forall x, Q x -> Q' x) -> bstate_ok P Q b -> bstate_ok P' Q' b.
Proof.
  intros P P' Q Q' b WP WQ [B T]. split.
  - intros k a I. destruct (B k a I) as [Pk A]. split; [apply WP; exact Pk | eapply amt_ok_weaken; eassumption].
  - eapply Forall_impl; [|exact T]. intros t F. eapply Forall_impl; [|exact F].
    intros p [Pa [A Cv]]. split; [apply WP; exact Pa|]. split; [eapply amt_ok_weaken; eassumption|].
    destruct (o_converted p) as [[c v]|]; [apply WQ; exact Cv | exact I].
Qed.

Definition ids_canonical (st : nstate) : Prop := bstate_ok (canon (n_acc st)) (canon (n_com st)) (n_book st).

Lemma ids_canonical_step : forall st e st', process_named_entry st e = NOk st' ->
  nstate_ok st -> ids_canonical st -> ids_canonical st'.
Proof.
  intros st e st' H OK I. destruct (process_named_entry_ok _ _ _ H OK) as [_ [LA LC]].
  assert (W : bstate_ok (canon (n_acc st')) (canon (n_com st')) (n_book st)).
  { eapply bstate_ok_weaken; [| |exact I]; intros x C; eapply canon_le; eassumption. }
  destruct e as [name als | name als fmt | t |]; cbn [process_named_entry] in H.
  - destruct (declare (n_acc st) name als) as [[sa c]|er]; [|discriminate]. inversion H; subst. exact W.
  - destruct (declare (n_com st) name als) as [[sc c]|er]; [|discriminate].
    destruct fmt as [dp|].
    + cbn [process_entry lift_book] in H. inversion H; subst. exact W.
    + inversion H; subst. exact W.
  - destruct (res_txn (n_acc st) (n_com st) t) as [[sa sc] t'] eqn:R.
    destruct (process_entry (n_book st) (ETxn t')) as [b| |] eqn:E; cbn [lift_book] in H; try discriminate.
    inversion H; subst. unfold ids_canonical. cbn [n_acc n_com n_book] in *.
    eapply process_entry_closed; [exact E | exact W |].
    intros t0 Et. inversion Et; subst. eapply res_txn_canon; [exact R | apply OK | apply OK].
  - inversion H; subst. exact I.
Qed.

Theorem reachable_ids_canonical : forall st, reachable st -> ids_canonical st.
Proof.
  induction 1 as [|st e st' R IH H].
  - split; [intros k a [] | constructor].
  - eapply ids_canonical_step; [exact H | apply reachable_ok; exact R | exact IH].
Qed.

(* spelled out on the results of a run *)
Theorem reports_canonical : forall es st i, process_named es = (NOk st, i) ->
  (forall a amt, In (a, amt) (s_bal (n_book st)) ->
     canon (n_acc st) a /\ forall c, In c (keys amt) -> canon (n_com st) c) /\
  (forall t p, In t (s_txns (n_book st)) -> In p (o_posts t) ->
     canon (n_acc st) (o_account p) /\
     (forall c, In c (keys (o_amount p)) -> canon (n_com st) c) /\
     (forall c v, o_converted p = Some (c, v) -> canon (n_com st) c)).
Proof.
  intros es st i H.
  assert (R : reachable st) by (eapply process_named_from_reachable; [apply reach_init | exact H]).
  destruct (reachable_ids_canonical st R) as [B T]. split.
  - intros a amt I. apply (B a amt I).
  - intros t p It Ip. rewrite Forall_forall in T. specialize (T t It). rewrite Forall_forall in T.
    destruct (T p Ip) as [Pa [A Cv]]. split; [exact Pa|]. split; [exact A|].
    intros c v E. rewrite E in Cv. exact Cv.
Qed.
