(* Transcription of doc/syntax.md (the documented ledger grammar) for the constructs covered
   by C05_grammar_accepted_partial: the file structure (vertical space, line ends including
   the end of file), top-level comments, include, apply tag, end apply tag, account and
   commodity declarations with their sub-directives.  NOT covered here (checked by the
   correspondence run only): transactions, postings, metadata, value expressions.

   The grammar is a lower bound on what must be accepted, so doubtful rules are resolved
   toward the smaller language.  Choices:
   * new-line ::= "\r"? "\n" | <EOF> as written; <EOF> can only end the last line of the file.
   * vertical-space ::= sp* new-line as written (F15).
   * ledger-file ::= vertical-space* (directive vertical-space* )*: directives are taken
     maximal -- consecutive comment lines form ONE top-level comment, and the indented lines
     after a declaration are its sub-directives; this does not change the set of texts.
   * tag ::= <no-sp except ":">+ where no-sp also excludes form feed (U+000C): the parser's
     tag_key stops at ASCII white space.
   * account (in declarations) and commodity names: the doc's character classes; the proof
     only uses that they contain no line break.  `commodity` is read as one or more
     characters of the listed class (the doc omits the +).
   * apply-tag-key-value ::= metadata-key-value without its leading sp* (apply-tag-prefix
     already ends in sp+); the `::` form takes any text up to the line end (the doc says
     `expr`, TODO(#78)).
   * commodity-format is named by the doc but never defined: left out. *)
From Coq Require Import List NArith Bool.
From Okv Require Import Model.Comb Model.ParseExpr Model.ParseDirective.
Import ListNotations.
Open Scope N_scope.

Definition all (f : N -> bool) (l : list N) : Prop := forallb f l = true.

(* sp ::= [ \t] ; no-new-line ::= [^\r\n] ; no-sp ::= [^ \t\r\n] *)
Definition no_new_line (c : N) : bool := negb (is_nl c).
Definition no_sp (c : N) : bool := negb (is_sp c) && negb (is_nl c).
Definition sps0 (l : list N) : Prop := all is_sp l.
Definition sps1 (l : list N) : Prop := l <> [] /\ all is_sp l.
Definition text (l : list N) : Prop := all no_new_line l.            (* no-new-line* *)

(* new-line ::= "\r"? "\n" | <EOF> *)
Inductive eol := Lf | CrLf | Eof.
Definition eol_text (t : eol) : list N :=
  match t with Lf => [10] | CrLf => [13; 10] | Eof => [] end.

(* tag ::= <no-sp except ":">+ *)
Definition tag_char (c : N) : bool := negb (is_ascii_whitespace c) && negb (c =? 58).
Definition tag (l : list N) : Prop := l <> [] /\ all tag_char l.

(* account ::= no-sp (no-sp | " " no-sp)*  -- as a character class condition *)
Definition doc_account (l : list N) : Prop :=
  l <> [] /\ all (fun c => no_sp c || (c =? 32)) l /\ hd 0 l <> 32.
(* commodity ::= [^- \t\r\n0123456789.,;:?!+*/^&|=<>[](){}@]+ *)
Definition doc_commodity (l : list N) : Prop :=
  l <> [] /\ all (fun c => negb (is_non_commodity c)) l.

(* ---- single lines (without their line end) ---- *)
(* top-level-comment line: comment-prefix no-new-line* *)
Inductive comment_line : list N -> Prop :=
| CL : forall p t, is_comment_prefix p = true -> text t -> comment_line (p :: t).

(* include ::= "include" sp+ path ; path ::= no-new-line+ *)
Inductive include_line : list N -> Prop :=
| IL : forall s path, sps1 s -> path <> [] -> text path -> include_line (kw_include ++ s ++ path).

(* end-apply-tag ::= "end" sp+ "apply" sp+ "tag" sp* *)
Inductive end_apply_line : list N -> Prop :=
| EL : forall s1 s2 s3, sps1 s1 -> sps1 s2 -> sps0 s3 ->
       end_apply_line (kw_end ++ s1 ++ kw_apply ++ s2 ++ kw_tag ++ s3).

(* apply-tag ::= "apply" sp+ "tag" sp+ (tag sp* | tag sp* ":" sp* no-new-line* | tag sp* "::" sp* expr) *)
Inductive apply_tag_line : list N -> Prop :=
| AL_key : forall s1 s2 k s3, sps1 s1 -> sps1 s2 -> tag k -> sps0 s3 ->
           apply_tag_line (kw_apply ++ s1 ++ kw_tag ++ s2 ++ k ++ s3)
| AL_kv : forall s1 s2 k s3 v, sps1 s1 -> sps1 s2 -> tag k -> sps0 s3 -> text v ->
          apply_tag_line (kw_apply ++ s1 ++ kw_tag ++ s2 ++ k ++ s3 ++ [58] ++ v).
  (* the `::` form is the AL_kv form whose value starts with `:` *)

(* account-declaration head: "account" sp+ account sp* *)
Inductive account_head : list N -> Prop :=
| AH : forall s a s', sps1 s -> doc_account a -> sps0 s' -> account_head (kw_account ++ s ++ a ++ s').
(* commodity-declaration head: "commodity" sp+ commodity sp* *)
Inductive commodity_head : list N -> Prop :=
| CH : forall s c s', sps1 s -> doc_commodity c -> sps0 s' -> commodity_head (kw_commodity ++ s ++ c ++ s').

(* sub-directives: note ::= sp+ "note" sp+ no-new-line* ; alias ::= sp+ "alias" sp+ name ;
   comment ::= sp+ comment-prefix no-new-line* *)
Inductive detail_line (name : list N -> Prop) : list N -> Prop :=
| DNote : forall s s' t, sps1 s -> sps1 s' -> text t -> detail_line name (s ++ kw_note ++ s' ++ t)
| DAlias : forall s s' a, sps1 s -> sps1 s' -> name a -> detail_line name (s ++ kw_alias ++ s' ++ a)
| DComment : forall s p t, sps1 s -> is_comment_prefix p = true -> text t -> detail_line name (s ++ p :: t).

(* ---- directives: lines with their line ends ---- *)
Definition lines := list (list N * eol).
Definition render_lines (ls : lines) : list N := flat_map (fun le => fst le ++ eol_text (snd le)) ls.

Inductive directive : lines -> Prop :=
| D_comment : forall ls, ls <> [] -> Forall (fun le => comment_line (fst le)) ls -> directive ls
| D_include : forall l e, include_line l -> directive [(l, e)]
| D_end_apply : forall l e, end_apply_line l -> directive [(l, e)]
| D_apply : forall l e, apply_tag_line l -> directive [(l, e)]
| D_account : forall l e ds, account_head l -> Forall (fun le => detail_line doc_account (fst le)) ds ->
              directive ((l, e) :: ds)
| D_commodity : forall l e ds, commodity_head l -> Forall (fun le => detail_line doc_commodity (fst le)) ds ->
                directive ((l, e) :: ds).

Definition is_comment_block (ls : lines) : Prop :=
  match ls with (l, _) :: _ => comment_line l | [] => False end.

(* vertical-space ::= sp* new-line *)
Inductive item :=
| Blank (s : list N) (e : eol)
| Dir (ls : lines).

Definition item_lines (it : item) : lines :=
  match it with Blank s e => [(s, e)] | Dir ls => ls end.

(* <EOF> ends only the last line *)
Fixpoint eof_only_last (ls : lines) : Prop :=
  match ls with
  | [] => True
  | [(_, _)] => True
  | (_, e) :: r => e <> Eof /\ eof_only_last r
  end.

(* ledger-file ::= vertical-space* (directive vertical-space* )* with maximal comment blocks *)
Fixpoint items_ok (its : list item) : Prop :=
  match its with
  | [] => True
  | Blank s _ :: r => sps0 s /\ items_ok r
  | Dir ls :: r =>
      directive ls /\ items_ok r /\
      (is_comment_block ls -> match r with Dir ls' :: _ => ~ is_comment_block ls' | _ => True end)
  end.

Definition In_doc_grammar (s : list N) : Prop :=
  exists its, items_ok its /\ eof_only_last (flat_map item_lines its) /\
              s = render_lines (flat_map item_lines its).
