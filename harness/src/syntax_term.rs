//! okane_core::syntax::plain trees as Coq terms of Model/Syntax.v (`s_entry`), plus the
//! display-width oracle entries (`unicode_width::UnicodeWidthStr::width_cjk`, the same crate
//! version /repo links) for the strings the printer measures.
use okane_core::syntax::display::DisplayContext;
use okane_core::syntax::expr::{Amount, BinaryOp, Expr, ValueExpr};
use okane_core::syntax::plain::{LedgerEntry, Lot, Posting, PostingAmount, Transaction};
use okane_core::syntax::pretty_decimal::{Format, PrettyDecimal};
use okane_core::syntax::{
    AccountDetail, ClearState, CommodityDetail, Exchange, Metadata, MetadataValue,
};
use std::collections::BTreeMap;
use unicode_width::UnicodeWidthStr;

pub fn printable_ascii(s: &str) -> bool {
    s.bytes().all(|b| (0x20..0x7f).contains(&b))
}

/// a string as the `list N` of its code points
pub fn str_(s: &str) -> String {
    let mut out = String::from("[");
    let mut first = true;
    for c in s.chars() {
        if !first {
            out.push(';');
        }
        first = false;
        out.push_str(&(c as u32).to_string());
    }
    out.push(']');
    out
}

fn opt(o: Option<String>) -> String {
    match o {
        Some(x) => format!("(Some {})", x),
        None => "None".to_string(),
    }
}

fn list(xs: Vec<String>) -> String {
    format!("[{}]", xs.join("; "))
}

pub fn date(d: &chrono::NaiveDate) -> String {
    use chrono::Datelike;
    let y = d.year();
    let ys = if y < 0 { format!("({})%Z", y) } else { format!("{}%Z", y) };
    format!("(Build_date {} {} {})", ys, d.month(), d.day())
}

fn clear(c: ClearState) -> &'static str {
    match c {
        ClearState::Uncleared => "Uncleared",
        ClearState::Cleared => "Cleared",
        ClearState::Pending => "Pending",
    }
}

/// `canon`: drop the grouping style of numbers whose integer part is below 1000 (C05's notion
/// of "same number": value, decimal places, and style only where there are thousands to group)
pub struct Printer {
    pub canon: bool,
    /// oracle: string -> width_cjk, for every measured string that is not printable ASCII
    pub widths: BTreeMap<String, usize>,
    /// measured strings (all of them), for statistics
    pub wide: bool,
}

impl Printer {
    pub fn new(canon: bool) -> Self {
        Printer { canon, widths: BTreeMap::new(), wide: false }
    }

    fn measure(&mut self, s: &str) {
        let w = UnicodeWidthStr::width_cjk(s);
        if !printable_ascii(s) {
            self.wide = true;
            self.widths.insert(s.to_string(), w);
        } else if w != s.len() {
            // would contradict `ascii_width_ok`: make it visible to the classifier
            self.widths.insert(s.to_string(), w);
        }
    }

    pub fn pdec(&self, p: &PrettyDecimal) -> String {
        let v = p.value;
        let mant = v.mantissa().unsigned_abs();
        let scale = v.scale();
        let mut f = match p.format {
            None => "None",
            Some(Format::Plain) => "(Some Plain)",
            Some(Format::Comma3Dot) => "(Some Comma3Dot)",
            #[allow(unreachable_patterns)]
            Some(_) => "(Some UnknownFormat)",
        };
        if self.canon {
            let big = mant / 10u128.pow(scale) >= 1000;
            if !big {
                f = "None";
            }
        }
        format!(
            "(Build_pdec {} {} {}%nat {})",
            if v.is_sign_negative() { "true" } else { "false" },
            mant,
            scale,
            f
        )
    }

    pub fn amount(&self, a: &Amount) -> String {
        format!("(Build_s_amount {} {})", self.pdec(&a.value), str_(&a.commodity))
    }

    pub fn vexpr(&self, v: &ValueExpr) -> String {
        match v {
            ValueExpr::Paren(e) => format!("(SParen {})", self.expr(e)),
            ValueExpr::Amount(a) => format!("(SAmount {})", self.amount(a)),
        }
    }

    pub fn expr(&self, e: &Expr) -> String {
        match e {
            Expr::Unary(u) => format!("(SUnaryNeg {})", self.expr(&u.expr)),
            Expr::Binary(b) => format!(
                "(SBinary {} {} {})",
                match b.op {
                    BinaryOp::Add => "SAdd",
                    BinaryOp::Sub => "SSub",
                    BinaryOp::Mul => "SMul",
                    BinaryOp::Div => "SDiv",
                },
                self.expr(&b.lhs),
                self.expr(&b.rhs)
            ),
            Expr::Value(v) => format!("(SValue {})", self.vexpr(v)),
        }
    }

    pub fn exchange(&self, x: &Exchange) -> String {
        match x {
            Exchange::Total(v) => format!("(STotal {})", self.vexpr(v)),
            Exchange::Rate(v) => format!("(SRate {})", self.vexpr(v)),
        }
    }

    pub fn lot(&self, l: &Lot) -> String {
        format!(
            "(Build_s_lot {} {} {})",
            opt(l.price.as_ref().map(|x| self.exchange(x))),
            opt(l.date.as_ref().map(date)),
            opt(l.note.as_ref().map(|n| str_(n)))
        )
    }

    pub fn posting_amount(&self, pa: &PostingAmount) -> String {
        format!(
            "(Build_s_posting_amount {} {} {})",
            self.vexpr(&pa.amount),
            opt(pa.cost.as_ref().map(|x| self.exchange(x))),
            self.lot(&pa.lot)
        )
    }

    pub fn meta_value(&self, v: &MetadataValue) -> String {
        match v {
            MetadataValue::Text(t) => format!("(MText {})", str_(t)),
            MetadataValue::Expr(t) => format!("(MExpr {})", str_(t)),
        }
    }

    pub fn metadata(&self, m: &Metadata) -> String {
        match m {
            Metadata::Comment(s) => format!("(MComment {})", str_(s)),
            Metadata::WordTags(ts) => format!("(MWordTags {})", list(ts.iter().map(|t| str_(t)).collect())),
            Metadata::KeyValueTag { key, value } => format!("(MKeyValue {} {})", str_(key), self.meta_value(value)),
        }
    }

    pub fn posting(&mut self, p: &Posting) -> String {
        self.measure(&p.account);
        if let Some(b) = &p.balance {
            // the printer measures the whole printed balance expression
            let shown = std::panic::catch_unwind(|| format!("{}", DisplayContext::default().as_display(b)));
            if let Ok(s) = shown {
                self.measure(&s);
            }
        }
        format!(
            "(Build_s_posting {} {} {} {} {})",
            str_(&p.account),
            clear(p.clear_state),
            opt(p.amount.as_ref().map(|a| self.posting_amount(a))),
            opt(p.balance.as_ref().map(|b| self.vexpr(b))),
            list(p.metadata.iter().map(|m| self.metadata(m)).collect())
        )
    }

    pub fn txn(&mut self, t: &Transaction) -> String {
        let posts: Vec<String> = t.posts.iter().map(|p| self.posting(p)).collect();
        format!(
            "(Build_s_txn {} {} {} {} {} {} {})",
            date(&t.date),
            opt(t.effective_date.as_ref().map(date)),
            clear(t.clear_state),
            opt(t.code.as_ref().map(|c| str_(c))),
            str_(&t.payee),
            list(posts),
            list(t.metadata.iter().map(|m| self.metadata(m)).collect())
        )
    }

    pub fn entry(&mut self, e: &LedgerEntry) -> String {
        match e {
            LedgerEntry::Txn(t) => format!("(STxn {})", self.txn(t)),
            LedgerEntry::Comment(c) => format!("(SComment {})", str_(&c.0)),
            LedgerEntry::ApplyTag(a) => format!(
                "(SApplyTag {} {})",
                str_(&a.key),
                opt(a.value.as_ref().map(|v| self.meta_value(v)))
            ),
            LedgerEntry::EndApplyTag => "SEndApplyTag".to_string(),
            LedgerEntry::Include(i) => format!("(SInclude {})", str_(&i.0)),
            LedgerEntry::Account(a) => format!(
                "(SAccount {} {})",
                str_(&a.name),
                list(
                    a.details
                        .iter()
                        .map(|d| match d {
                            AccountDetail::Comment(s) => format!("(ADComment {})", str_(s)),
                            AccountDetail::Note(s) => format!("(ADNote {})", str_(s)),
                            AccountDetail::Alias(s) => format!("(ADAlias {})", str_(s)),
                        })
                        .collect()
                )
            ),
            LedgerEntry::Commodity(c) => format!(
                "(SCommodity {} {})",
                str_(&c.name),
                list(
                    c.details
                        .iter()
                        .map(|d| match d {
                            CommodityDetail::Comment(s) => format!("(CDComment {})", str_(s)),
                            CommodityDetail::Note(s) => format!("(CDNote {})", str_(s)),
                            CommodityDetail::Alias(s) => format!("(CDAlias {})", str_(s)),
                            CommodityDetail::Format(a) => format!("(CDFormat {})", self.amount(a)),
                        })
                        .collect()
                )
            ),
        }
    }

    /// the oracle as a Coq association list
    pub fn widths_term(&self) -> String {
        list(self.widths.iter().map(|(s, w)| format!("({}, {}%nat)", str_(s), w)).collect())
    }
}
