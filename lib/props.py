"""Registry: one JSON file per claimed property under lib/props.d/."""
import json
import os

PROPS = {}
_d = os.path.join(os.path.dirname(os.path.abspath(__file__)), "props.d")
for _f in sorted(os.listdir(_d)):
    if _f.endswith(".json"):
        PROPS[_f[:-5]] = json.load(open(os.path.join(_d, _f)))
