//! C10: converted reports convert every amount or fail.  The C09 generator in its `rich`
//! form (holdings in several accounts and commodities, format declarations, values that need
//! rounding); every commodity as target, both strategies, report dates and ranges around the
//! price dates, through Ledger::balance and `okane balance -X T [--historical] --now D`.
use crate::cli;
use crate::coq::{self, Shards, Stats};
use crate::ledger::*;
use crate::price::*;
use crate::prng::Rng;
use crate::Opts;
use okane_core::report::query::{BalanceQuery, Conversion, ConversionStrategy, DateRange};
use serde_json::json;

#[derive(Clone, Debug, PartialEq)]
enum BObs {
    Ok(Vec<(usize, AmountObs)>),
    NotFound(usize),
    Other(String),
}

#[derive(Clone, Debug)]
struct BQ {
    target: usize,
    now: Option<i32>, // None = historical
    start: Option<i32>,
    end: Option<i32>,
    api: BObs,
    cli: Option<BObs>,
    /// the command was given the target by an alias declared in front of the ledger
    via_alias: bool,
}

fn naive(d: i32) -> chrono::NaiveDate {
    chrono::NaiveDate::from_ymd_opt(2020, 1, 1).unwrap() + chrono::Duration::days(d as i64)
}

fn bobs_term(o: &BObs) -> String {
    match o {
        BObs::Ok(rep) => format!("(BOk {})", coq::list(rep.iter().map(|(a, am)| format!("({}, {})", a, amount_term(am))))),
        BObs::NotFound(c) => format!("(BNotFound {})", c),
        BObs::Other(_) => "BOther".into(),
    }
}

fn bobs_json(o: &BObs) -> serde_json::Value {
    match o {
        BObs::Ok(rep) => json!(rep
            .iter()
            .map(|(a, am)| format!(
                "{}: {}",
                ACCOUNTS.get(*a).unwrap_or(&"?"),
                am.iter().map(|(c, v)| format!("{} {}", v, COMMODITIES.get(*c).unwrap_or(&"?"))).collect::<Vec<_>>().join(" + ")
            ))
            .collect::<Vec<_>>()),
        BObs::NotFound(c) => json!(format!("RateNotFound({})", COMMODITIES.get(*c).unwrap_or(&"?"))),
        BObs::Other(s) => json!(format!("other: {}", s)),
    }
}

fn from_err(msg: &str) -> BObs {
    match classify_err(msg) {
        RObs::NotFound(c) => BObs::NotFound(c),
        RObs::Other(s) => BObs::Other(s),
        RObs::Ok(_) => BObs::Other("?".into()),
    }
}

/// the words of `okane balance -X NAME ...` for query q; `hist_now` is the --now of a
/// historical run (no rate depends on it; --now defaults to today's date: always pinned)
fn balance_args(ledger: &std::path::Path, db: Option<&std::path::Path>, q: &BQ, name: &str, hist_now: i32) -> Vec<String> {
    let mut args: Vec<String> = vec!["balance".into(), "-X".into(), name.into()];
    match q.now {
        None => {
            args.push("--historical".into());
            args.push("--now".into());
            args.push(iso_date(hist_now));
        }
        Some(n) => {
            args.push("--now".into());
            args.push(iso_date(n));
        }
    }
    if let Some(s) = q.start {
        args.push("--start".into());
        args.push(iso_date(s));
    }
    if let Some(e) = q.end {
        args.push("--end".into());
        args.push(iso_date(e));
    }
    if let Some(p) = db {
        args.push("--price-db".into());
        args.push(p.to_string_lossy().to_string());
    }
    args.push(ledger.to_string_lossy().to_string());
    args
}

fn cli_balance(ledger: &std::path::Path, db: Option<&std::path::Path>, q: &BQ, name: &str, hist_now: i32) -> BObs {
    let args = balance_args(ledger, db, q, name, hist_now);
    let refs: Vec<&str> = args.iter().map(|s| s.as_str()).collect();
    let r = cli::run(&refs);
    if r.panicked {
        return BObs::Other("panic".into());
    }
    if !r.ok {
        return from_err(&r.stderr);
    }
    let names: Vec<String> = COMMODITIES.iter().map(|s| s.to_string()).collect();
    let mut rep = Vec::new();
    for line in r.stdout.lines() {
        if let Some((acct, amt)) = line.rsplit_once(": ") {
            let a = ACCOUNTS.iter().position(|x| *x == acct).unwrap_or(999);
            rep.push((a, parse_inline(amt, &names)));
        } else {
            return BObs::Other(format!("unparsed line {}", line));
        }
    }
    BObs::Ok(rep)
}

fn fixed_cases() -> Vec<PriceCase> {
    let l = |m: i64, s: u32, c: usize| VE::Amt(Lit { m, scale: s, comm: Some(c), grouped: false });
    let hold = |d: i32, acct: usize, m: i64, s: u32, c: usize| {
        Entry::Txn(Txn {
            effective: None,
            date: d,
            posts: vec![
                Posting { account: acct, amount: Some(l(m, s, c)), cost: None, lot: None, balance: None },
                Posting { account: EQUITY, amount: None, cost: None, lot: None, balance: None },
            ],
            head: Head::default(),
        })
    };
    let quote = |d: i32, x: usize, m: i64, s: u32, y: usize| {
        Entry::Txn(Txn {
            effective: None,
            date: d,
            posts: vec![
                Posting { account: EQUITY, amount: Some(l(0, 0, x)), cost: Some(Exch::Rate(l(m, s, y))), lot: None, balance: None },
                Posting { account: EQUITY, amount: None, cost: None, lot: None, balance: None },
            ],
            head: Head::default(),
        })
    };
    vec![
        // double rounding of a date-ranged up-to-date report (fixed in /repo): 0.4 + 0.4 of a
        // commodity with no decimal places, at 100
        PriceCase {
            entries: vec![Entry::Format(0, 0, FmtLit::default()), Entry::Format(4, 2, FmtLit::default()), quote(1, 0, 100, 0, 4), hold(2, 0, 4, 1, 0), hold(3, 0, 4, 1, 0)],
            db: vec![],
            comms: vec![0, 4],
            exact: true,
        },
        // half-unit results in the target commodity (banker's rounding), a missing rate for EUR
        PriceCase {
            entries: vec![Entry::Format(4, 0, FmtLit::default()), quote(1, 0, 5, 1, 4), hold(2, 0, 1, 0, 0), hold(2, 1, 3, 0, 0), hold(3, 1, 5, 0, 2), hold(4, 3, 25, 1, 4)],
            db: vec![PLine { date: 3, target: 0, m: 25, scale: 1, comm: 4 }],
            comms: vec![0, 2, 4],
            exact: true,
        },
    ]
}

fn gen_queries(r: &mut Rng, case: &PriceCase, evs: &[Ev], thorough_pairs: bool) -> Vec<BQ> {
    let txn_dates: Vec<i32> = case.entries.iter().filter_map(|e| if let Entry::Txn(t) = e { Some(t.date) } else { None }).collect();
    // [date, effective) or [effective, date) of every transaction that has an effective date: a
    // report dated inside sees the transaction's own rates iff they are dated at the date
    let windows: Vec<(i32, i32)> = case
        .entries
        .iter()
        .filter_map(|e| match e {
            Entry::Txn(Txn { date, effective: Some(ed), .. }) if ed != date => Some((*date.min(ed), *date.max(ed))),
            _ => None,
        })
        .filter(|(lo, _)| *lo >= 0)
        .collect();
    let mut around: Vec<i32> = txn_dates.clone();
    around.extend(windows.iter().flat_map(|(lo, hi)| [*lo, *hi]));
    let dates = query_dates(r, evs, &around, 6);
    let known = known_commodities(case);
    let mut out = Vec::new();
    if thorough_pairs {
        // fixed and corpus cases: the full grid over the whole span of the ledger
        let lo = txn_dates.iter().min().copied().unwrap_or(0);
        let hi = txn_dates.iter().max().copied().unwrap_or(0) + 1;
        for t in &known {
            for now in [None, Some(hi), Some(lo)] {
                for (start, end) in [(None, None), (Some(lo), Some(hi)), (Some(lo), None), (None, Some(hi)), (Some(lo + 1), Some(hi))] {
                    out.push(BQ { target: *t, now, start, end, api: BObs::Other(String::new()), cli: None, via_alias: false });
                }
            }
        }
        return out;
    }
    for t in &known {
        let n_variants = 4;
        for v in 0..n_variants {
            // later report dates (more prices known) somewhat more often
            let now = if v % 2 == 0 && !windows.is_empty() && r.chance(1, 3) {
                let (lo, hi) = *r.pick(&windows);
                Some(lo + r.below((hi - lo) as u64) as i32)
            } else if v % 2 == 0 {
                Some(if r.chance(1, 2) { dates[dates.len() - 1 - r.below(((dates.len() + 1) / 2) as u64) as usize] } else { *r.pick(&dates) })
            } else {
                None
            };
            let (start, end) = match r.below(5) {
                0 | 1 => (None, None),
                2 => (Some(*r.pick(&dates)), None),
                3 => (None, Some(*r.pick(&dates))),
                _ => {
                    let a = *r.pick(&dates);
                    let b = *r.pick(&dates);
                    (Some(a.min(b)), Some(a.max(b) + r.range(0, 1) as i32))
                }
            };
            out.push(BQ { target: *t, now, start, end, api: BObs::Other(String::new()), cli: None, via_alias: false });
        }
    }
    out
}

/// the queries stored in a replay / corpus record
fn stored_queries(v: &serde_json::Value) -> Vec<BQ> {
    let mut out = Vec::new();
    if let Some(a) = v.as_array() {
        for q in a {
            let target = q.get("target").and_then(|x| x.as_str()).and_then(comm_of);
            let strat = q.get("strategy").and_then(|x| x.as_str()).unwrap_or("");
            let now = if strat == "historical" { Some(None) } else { strat.strip_prefix("up-to-date now=").and_then(from_iso).map(Some) };
            let d = |k: &str| q.get(k).and_then(|x| x.as_str()).and_then(from_iso);
            if let (Some(target), Some(now)) = (target, now) {
                out.push(BQ { target, now, start: d("start"), end: d("end"), api: BObs::Other(String::new()), cli: None, via_alias: false });
            }
        }
    }
    out
}

fn run_case(sh: &mut Shards, st: &mut Stats, scratch: &cli::Scratch, r: &mut Rng, case: &PriceCase, stored: &serde_json::Value, tag: &str, cli_budget: usize) {
    let rendered = render(&case.entries);
    let dbt = db_text(&case.db, r.below(10));
    let db_path = if case.db.is_empty() && r.chance(1, 2) { None } else { Some(scratch.write("prices.db", &dbt)) };
    let ledger_path = scratch.write("case.ledger", &rendered.text);
    let evs = events(case);
    let mut qs = gen_queries(r, case, &evs, tag != "random");
    let mut extra = stored_queries(stored);
    extra.append(&mut qs);
    let mut qs = extra;
    let loaded = with_ledger(&rendered.text, db_path.as_deref(), |ctx, ledger| {
        let mut txns = Vec::new();
        for t in ledger.transactions() {
            let mut ps = Vec::new();
            for p in t.postings.iter() {
                let conv = p.converted_amount.map(|sa| {
                    let s = sa.to_string();
                    let mut it = s.splitn(2, ' ');
                    let v: rust_decimal::Decimal = it.next().unwrap().parse().unwrap();
                    let name = it.next().unwrap_or("");
                    (COMMODITIES.iter().position(|x| *x == name).unwrap_or(999), v)
                });
                ps.push(PostingObs {
                    account: ACCOUNTS.iter().position(|x| *x == p.account.as_str()).unwrap_or(999),
                    amount: obs_amount(&p.amount),
                    converted: conv,
                });
            }
            txns.push(((t.date - naive(0)).num_days() as i32, ps));
        }
        let raw = ledger
            .balance(ctx, &BalanceQuery::default())
            .map(|b| b.into_owned().into_vec())
            .unwrap_or_default();
        let balance: Vec<(usize, AmountObs)> = raw
            .iter()
            .map(|(a, am)| (ACCOUNTS.iter().position(|x| *x == a.as_str()).unwrap_or(999), obs_amount(am)))
            .collect();
        for q in qs.iter_mut() {
            let target = match ctx.commodity(COMMODITIES[q.target]) {
                Some(c) => c,
                None => {
                    q.api = BObs::Other("unknown target".into());
                    continue;
                }
            };
            let strategy = match q.now {
                None => ConversionStrategy::Historical,
                Some(n) => ConversionStrategy::UpToDate { now: naive(n) },
            };
            let query = BalanceQuery {
                conversion: Some(Conversion { strategy, target }),
                date_range: DateRange { start: q.start.map(naive), end: q.end.map(naive) },
            };
            let res = std::panic::catch_unwind(std::panic::AssertUnwindSafe(|| {
                ledger.balance(ctx, &query).map(|b| b.into_owned().into_vec()).map_err(|e| format!("{}", e))
            }));
            q.api = match res {
                Err(_) => BObs::Other("panic".into()),
                Ok(Ok(v)) => BObs::Ok(
                    v.iter()
                        .map(|(a, am)| (ACCOUNTS.iter().position(|x| *x == a.as_str()).unwrap_or(999), obs_amount(am)))
                        .collect(),
                ),
                Ok(Err(e)) => from_err(&e),
            };
        }
        Obs::Ok { txns, balance }
    });
    let (obs, load_err) = match loaded {
        Ok(o) => (o, String::new()),
        Err(e) => {
            qs.clear();
            (Obs::Err { entry: 0, err: ErrObs::Other(e.clone()), text: e.clone() }, e)
        }
    };
    let txn_dates: Vec<i32> = case.entries.iter().filter_map(|e| if let Entry::Txn(t) = e { Some(t.date) } else { None }).collect();
    // --now of a historical run: before every transaction, on one of their dates, after all
    let hist_now = |r: &mut Rng, st: &mut Stats| -> i32 {
        let lo = txn_dates.iter().min().copied().unwrap_or(0);
        let hi = txn_dates.iter().max().copied().unwrap_or(0);
        let n = match r.below(4) {
            0 => 0,
            1 => lo - 1 - r.below(3) as i32,
            2 => *r.pick(&txn_dates[..]),
            _ => hi + 1 + r.below(30) as i32,
        };
        if txn_dates.iter().any(|d| *d > n) {
            st.count("leg:cli_historical_now_before_some_transaction");
        } else {
            st.count("leg:cli_historical_now_after_all_transactions");
        }
        n
    };
    let mut unknown: Vec<URun> = Vec::new();
    let known = known_commodities(case);
    let in_ledger: Vec<usize> = {
        let mut c = case.clone();
        c.db.clear();
        known_commodities(&c)
    };
    if !qs.is_empty() {
        for _ in 0..cli_budget {
            let k = r.below(qs.len() as u64) as usize;
            if qs[k].cli.is_none() {
                let hn = if qs[k].now.is_none() && !txn_dates.is_empty() { hist_now(r, st) } else { 0 };
                qs[k].cli = Some(cli_balance(&ledger_path, db_path.as_deref(), &qs[k], COMMODITIES[qs[k].target], hn));
            }
        }
        // a target reached through an alias: the ledger once more behind `commodity T / alias NAME`
        // (one query; counted as a query of its own with the command's answer only)
        if matches!(obs, Obs::Ok { .. }) {
            let k = r.below(qs.len() as u64) as usize;
            let t = qs[k].target;
            let alias = format!("{}ALIAS", COMMODITIES[t]);
            let text = format!("commodity {}\n    alias {}\n\n{}", COMMODITIES[t], alias, rendered.text);
            let alias_path = scratch.write("case_alias.ledger", &text);
            let mut q = qs[k].clone();
            q.cli = Some(cli_balance(&alias_path, db_path.as_deref(), &q, &alias, 0));
            q.via_alias = true;
            st.count("leg:cli_target_given_by_alias");
            qs.push(q);
        }
        // targets the ledger and the price DB do not know: under the options of one of the queries each
        if matches!(obs, Obs::Ok { .. }) {
            for _ in 0..(cli_budget.min(4)).max(2) {
                let k = r.below(qs.len() as u64) as usize;
                let (kind, name) = unknown_target(r, &known);
                let hn = if qs[k].now.is_none() && !txn_dates.is_empty() { hist_now(r, st) } else { 0 };
                let with_db = db_path.as_deref().filter(|_| r.chance(3, 4));
                let args = balance_args(&ledger_path, with_db, &qs[k], &name, hn);
                st.count(&format!("unknown_target:{}", kind));
                st.count(match (&qs[k].now, qs[k].start.is_some() || qs[k].end.is_some()) {
                    (None, false) => "unknown_target:historical",
                    (None, true) => "unknown_target:historical+range",
                    (Some(_), false) => "unknown_target:up_to_date",
                    (Some(_), true) => "unknown_target:up_to_date+range",
                });
                let u = run_unknown(kind, args, &name);
                st.count(match &u.obs {
                    UObs::NotFound => "unknown_target:result:commodity_not_found",
                    UObs::Report => "unknown_target:result:report_printed",
                    UObs::Other(_) => "unknown_target:result:other_failure",
                });
                unknown.push(u);
            }
        }
    }
    for q in &qs {
        if !in_ledger.contains(&q.target) {
            st.count("query:target_mentioned_only_in_price_db");
        }
    }
    // measured distribution
    st.count(&format!("gen:{}", tag));
    st.count(if case.exact { "stream:exact_rates" } else { "stream:arbitrary_rates(approximate comparison)" });
    let text_key = format!("{}\n--db--\n{}", rendered.text, dbt);
    let mut held: std::collections::BTreeSet<usize> = std::collections::BTreeSet::new();
    if let Obs::Ok { balance, .. } = &obs {
        for (_, am) in balance {
            for (c, v) in am {
                if !v.is_zero() {
                    held.insert(*c);
                }
            }
        }
        st.count(&format!("case:commodities_held={}", held.len()));
        st.count(&format!("case:accounts={}", balance.len()));
    } else {
        st.count("impl:ledger_rejected");
        st.eval(&text_key, false);
    }
    let nfmt = case.entries.iter().filter(|e| matches!(e, Entry::Format(..))).count();
    st.add("shape:format_decl", nfmt as u64);
    shape_text_stats(st, &shape(&case.entries));
    let mut windows: Vec<(i32, i32, bool)> = Vec::new();
    for e in &case.entries {
        if let Entry::Txn(t) = e {
            let priced = t.posts.iter().any(|p| p.cost.is_some() || p.lot.is_some()) || t.posts.iter().filter(|p| p.amount.is_some()).count() >= 2;
            match t.effective {
                Some(ed) if ed > t.date => st.count(if priced { "txn:effective_later(states a rate)" } else { "txn:effective_later" }),
                Some(ed) if ed < t.date => st.count(if priced { "txn:effective_earlier(states a rate)" } else { "txn:effective_earlier" }),
                Some(_) => st.count("txn:effective_same_day"),
                None => st.count("txn:no_effective_date"),
            }
            if let Some(ed) = t.effective {
                windows.push((t.date.min(ed), t.date.max(ed), priced));
            }
        }
    }
    for q in &qs {
        let converted_or_refused = match &q.api {
            BObs::Ok(_) => held.iter().any(|c| *c != q.target),
            BObs::NotFound(_) => true,
            BObs::Other(_) => false,
        };
        st.eval(&(text_key.as_str(), q.target, q.now, q.start, q.end, q.via_alias), held.len() >= 2 && converted_or_refused);
        st.count(match (&q.now, q.start.is_some() || q.end.is_some()) {
            (None, false) => "query:historical",
            (None, true) => "query:historical+range",
            (Some(_), false) => "query:up_to_date",
            (Some(_), true) => "query:up_to_date+range",
        });
        match q.now {
            Some(n) if windows.iter().any(|(lo, hi, priced)| *priced && *lo <= n && n < *hi) => {
                st.count("query:now_between_date_and_effective_of_a_rate")
            }
            None if windows.iter().any(|(lo, hi, priced)| *priced && lo != hi) => st.count("query:historical_with_effective_dated_rate"),
            _ => {}
        }
        match &q.api {
            BObs::Ok(_) => st.count("impl:report"),
            BObs::NotFound(_) => st.count("impl:rate_not_found"),
            BObs::Other(_) => st.count("impl:other_error"),
        }
        if q.cli.is_some() {
            st.count("leg:cli_balance");
        }
        // does some needed conversion have several optimal rates?  (statistics only)
        if let Some(n) = q.now {
            let g = graph(&evs, n);
            if held.iter().any(|c| *c != q.target && matches!(brute_best(&g, q.target, *c), Some((_, k)) if k > 1)) {
                st.count("query:genuine_tie_possible");
            }
        }
    }
    let qterms = coq::list(qs.iter().map(|q| {
        format!(
            "(BQ {} {} {} {} {} {})",
            q.target,
            match q.now {
                None => "Historical".to_string(),
                Some(n) => format!("(UpToDate {})", coq::z(n as i128)),
            },
            coq::opt(q.start.map(|d| coq::z(d as i128))),
            coq::opt(q.end.map(|d| coq::z(d as i128))),
            bobs_term(&q.api),
            match &q.cli {
                Some(o) => format!("(Some {})", bobs_term(o)),
                None => "None".into(),
            }
        )
    }));
    let term = format!(
        "CU {} {} {} {} {} {}",
        coq::list(case.entries.iter().map(entry_term)),
        db_term(&case.db),
        coq::bool_(case.exact),
        obs_term(&obs),
        qterms,
        coq::list(unknown.iter().map(|u| uobs_term(&u.obs).to_string()))
    );
    let rep = json!({
        "property": "C10",
        "ledger": rendered.text,
        "price_db": if db_path.is_some() { json!(dbt) } else { json!(null) },
        "case": serde_json::to_value(case).unwrap(),
        "load_error": load_err,
        "queries": qs.iter().map(|q| json!({
            "target": COMMODITIES[q.target],
            "strategy": match q.now { None => "historical".to_string(), Some(n) => format!("up-to-date now={}", iso_date(n)) },
            "start": q.start.map(iso_date), "end": q.end.map(iso_date),
            "api": bobs_json(&q.api), "cli": q.cli.as_ref().map(bobs_json), "cli_target_given_by_alias": q.via_alias})).collect::<Vec<_>>(),
        "unknown_targets": unknown.iter().map(urun_json).collect::<Vec<_>>(),
        "reproduce": "write `ledger` to case.ledger and `price_db` to prices.db, then: okane balance -X <target> [--historical] --now <now> [--start S] [--end E] --price-db prices.db case.ledger",
    });
    if st.samples.len() < 4 && !qs.is_empty() {
        let mut small = rep.clone();
        if let Some(o) = small.as_object_mut() {
            o.remove("case");
        }
        if let Some(a) = small.get_mut("queries").and_then(|q| q.as_array_mut()) {
            a.truncate(4);
        }
        st.sample(small, 4);
    }
    sh.push(term, vec![rep]);
}

pub fn run(o: &Opts) {
    let mut st = Stats::new();
    let header = "From Coq Require Import List NArith ZArith QArith Qcanon.\nFrom Okv Require Import Base.Maps Base.Dec Model.Amount Model.Book Model.PriceDb Model.Convert Run.LedgerCase Run.PriceCase Run.Classify_C10.\nImport ListNotations.\nOpen Scope N_scope.";
    let mut sh = Shards::new(&o.out, o.shards, header);
    st.rule = "accepted multi-commodity ledgers from the C09 generator in its rich form (1-8 prices from costs, lot prices, implied exchanges and a price-DB file; 1-4 extra holdings in several accounts and commodities with values that need rounding; format declarations with 0-6 places; about 4 in 9 transactions written DATE=EFFECTIVE with the effective date later, earlier or equal, and up-to-date reports dated between the two), every known commodity as target with 4-5 queries each: historical / up-to-date at a date around the price dates, with no range, start only, end only or both; observed through Ledger::balance(conversion: Some(..)) and (a sample) `okane balance -X T [--historical] --now D [--start --end]` in-process; includes targets for which a needed rate is missing and targets only the price DB mentions (counted); a historical run of the command is given a --now before every transaction, on a transaction date or after all (counted); one query per ledger is repeated through the command with the target given by an alias (`commodity T / alias TALIAS` in front of the ledger): same report required; and 2-4 runs per ledger ask for a target that neither ledger nor price DB mention (ZZZ, XAU, GBP, BTC, US, USDX) or a known one in another case of letters (usd, Usd, uSD) under the options of one of the queries (up-to-date, --historical, ranged; with and without --price-db): the command must fail with `commodity T not found` (unknown_target:* counts). One evaluation = one query; non-trivial = at least 2 commodities held and at least one conversion performed or refused; distinct by (ledger text, price-DB text, query)".into();
    st.rule = format!("{}; {}", st.rule, TEXT_SHAPES_RULE);
    st.assumptions.push("exact stream: rates and priced quantities are products of powers of 2 and 5 (exact Decimal division), reports compared exactly; arbitrary-rate stream compared with relative tolerance 1e-18".into());
    st.assumptions.push("where an amount to be converted has several optimal chains with different rates (genuine tie) only success/failure and the result commodity are checked".into());
    st.assumptions.push("historical conversion needs a rate for every commodity entry of every posting in range, zero-valued entries included (Amount keeps `0 X` entries)".into());
    let scratch = cli::Scratch::new("c10");
    let mut r = Rng::new(o.seed, 110);
    let (corpus, replay) = corpus_cases(&o.corpus, &o.extra);
    for (c, q) in corpus {
        run_case(&mut sh, &mut st, &scratch, &mut r, &c, &q, "corpus", 8);
    }
    if !replay {
        // the fixed ledgers need their declared precisions: once in every way of writing the
        // sample number of the `format` line (and in as many header shapes)
        for c in fixed_cases() {
            for n in 0..FMT_LITS.len() {
                let mut c = c.clone();
                vary_shapes_nth(&mut c.entries, n);
                for e in c.entries.iter_mut() {
                    if let Entry::Format(_, _, f) = e {
                        *f = FmtLit::nth(n);
                    }
                }
                run_case(&mut sh, &mut st, &scratch, &mut r, &c, &serde_json::Value::Null, "fixed", if n == 0 { 20 } else { 6 });
            }
        }
        let n = if o.thorough { 5000 } else { 450 };
        for k in 0..n {
            let exact = k % 4 != 3;
            let c = gen_price_case(&mut r, exact, true);
            run_case(&mut sh, &mut st, &scratch, &mut r, &c, &serde_json::Value::Null, "random", 3);
        }
    }
    sh.finish(&st);
}
