(* C11 — includes expand in place, in order; splitting a ledger changes nothing.  Theorems only.
   Model: Model/Load.v (Loader::load_impl over an abstract file system), Model/Glob.v
   (glob::Pattern for literals, ?, * and character classes [...] / [!...] under okane's match
   options; ** is outside the model).
   Spec: Model/LoadSpec.v (expands, cut_of), Model/GlobSpec.v (gmatch, in_class, body_lists). *)
From Coq Require Import List NArith Bool Sorting.Sorted.
From Okv Require Import Model.Glob Model.GlobSpec Model.Load Model.LoadSpec
  Proofs.GlobProofs Proofs.PathOrder Proofs.LoadProofs Proofs.LoadSplit Proofs.LoadCycle
  Model.Syntax Model.ParseLedger Model.Lower Model.Convert Model.Display Model.RoundTripSpec
  Model.Pipeline Model.PipelineSpec Proofs.PipelineLoad Proofs.PipelineProofs Proofs.PipelineExamples.
Import ListNotations.
Open Scope N_scope.

(* `loadc` is Loader::load_impl as it is, with its stack of files being loaded (the repair of the
   include-cycle defect F6); `load` is the same recursion without that check.  The theorems
   below are stated for `load`; C11_loader_agrees / C11_loader_iff_expands carry them over. *)

(* whatever a load delivers before ending normally is the expansion of the root *)
Theorem C11_load_sound : forall fs, wf_fs fs ->
  forall fuel p out, load fuel fs p = (out, Done) -> expands fs p out.
Proof. exact load_sound. Qed.
Print Assumptions C11_load_sound.

(* every expansion is what load delivers, from some fuel on (the fuel only bounds the include depth) *)
Theorem C11_load_complete : forall fs, wf_fs fs ->
  forall p out, expands fs p out -> exists n, forall f, (n <= f)%nat -> load f fs p = (out, Done).
Proof. exact load_complete. Qed.
Print Assumptions C11_load_complete.

Theorem C11_load_iff_expands : forall fs, wf_fs fs ->
  forall p out, (exists fuel, load fuel fs p = (out, Done)) <-> expands fs p out.
Proof. exact load_iff_expands. Qed.
Print Assumptions C11_load_iff_expands.

Theorem C11_expands_deterministic : forall fs, wf_fs fs ->
  forall p o1 o2, expands fs p o1 -> expands fs p o2 -> o1 = o2.
Proof. exact expands_deterministic. Qed.
Print Assumptions C11_expands_deterministic.

(* everything delivered — also before a failure — is a non-include entry of the file it is
   attributed to; the include line itself is never delivered *)
Theorem C11_include_never_delivered : forall fs fuel p x,
  In x (fst (load fuel fs p)) ->
  exists content, lookup (fst x) fs = Some content /\ In (Ent (snd x)) content.
Proof. exact include_never_delivered. Qed.
Print Assumptions C11_include_never_delivered.

(* the transcription of Pattern::matches_from decides the declarative match relation *)
Theorem C11_glob_decides : forall ts s, matches_with ts s = true <-> gmatch true ts s.
Proof. exact matches_with_iff. Qed.
Print Assumptions C11_glob_decides.

(* `*`, `?` and classes never match "/" (not even a class that lists it, or a negated one): a
   matched path has exactly the pattern's literal separators *)
Theorem C11_glob_no_separator : forall ts s,
  matches_with ts s = true -> count_sep s = count_sep_tokens ts.
Proof. exact glob_no_separator. Qed.
Print Assumptions C11_glob_no_separator.

(* a dot at the start of a component is matched by a literal dot of the pattern, reached from
   the literal separator through stars that matched nothing: never by `?`, `*` or a class *)
Theorem C11_glob_dotfiles : forall ts a b,
  matches_with ts (a ++ SLASH :: DOT :: b) = true ->
  exists ta stars tb, ts = ta ++ Char SLASH :: stars ++ Char DOT :: tb /\ all_seq stars /\
                      gmatch true ta a /\ gmatch false tb b.
Proof. exact glob_dotfiles. Qed.
Print Assumptions C11_glob_dotfiles.

Theorem C11_glob_dotfiles_start : forall ts b,
  matches_with ts (DOT :: b) = true ->
  exists stars tb, ts = stars ++ Char DOT :: tb /\ all_seq stars /\ gmatch false tb b.
Proof. exact glob_dotfiles_start. Qed.
Print Assumptions C11_glob_dotfiles_start.

(* a class token stands for exactly one character of the path: one that the class lists (for
   [!...]: does not list), never "/", never a "." right after a separator (or at the start) *)
Theorem C11_glob_class : forall cs rest f s,
  (matches_from (AnyWithin cs :: rest) f s = Match <->
     exists c s1, s = c :: s1 /\ in_class cs c /\ c <> SLASH /\ ~ (f = true /\ c = DOT) /\
                  matches_from rest false s1 = Match) /\
  (matches_from (AnyExcept cs :: rest) f s = Match <->
     exists c s1, s = c :: s1 /\ ~ in_class cs c /\ c <> SLASH /\ ~ (f = true /\ c = DOT) /\
                  matches_from rest false s1 = Match).
Proof. exact glob_class. Qed.
Print Assumptions C11_glob_class.

Theorem C11_glob_class_alone : forall cs s,
  (matches_with [AnyWithin cs] s = true <-> exists c, s = [c] /\ in_class cs c /\ c <> SLASH /\ c <> DOT) /\
  (matches_with [AnyExcept cs] s = true <-> exists c, s = [c] /\ ~ in_class cs c /\ c <> SLASH /\ c <> DOT).
Proof. exact glob_class_alone. Qed.
Print Assumptions C11_glob_class_alone.

(* what a written class body lists: `a-b` the characters from a to b (by scalar value, case
   sensitive), any other character itself *)
Theorem C11_glob_class_lists : forall body c, in_class (char_specifiers body) c <-> body_lists body c.
Proof. exact char_specifiers_lists. Qed.
Print Assumptions C11_glob_class_lists.

(* how a class is written: `[`, a first body character taken as it is (so `]` there is a
   member), more body characters up to the next `]`; with `!` after the `[`: negated *)
Theorem C11_glob_class_parse : forall y b rest, y <> BANG -> ~ In RBRACKET b ->
  parse_pattern (LBRACKET :: y :: b ++ RBRACKET :: rest) =
  push (AnyWithin (char_specifiers (y :: b))) (parse_pattern rest).
Proof. exact parse_class. Qed.
Print Assumptions C11_glob_class_parse.

Theorem C11_glob_class_parse_not : forall x b rest, ~ In RBRACKET b ->
  parse_pattern (LBRACKET :: BANG :: x :: b ++ RBRACKET :: rest) =
  push (AnyExcept (char_specifiers (x :: b))) (parse_pattern rest).
Proof. exact parse_class_not. Qed.
Print Assumptions C11_glob_class_parse_not.

(* a `[` that is never closed makes the pattern invalid (glob::PatternError), whatever follows
   it and after any characters other than `*` and `[` ... *)
Theorem C11_glob_class_unclosed : forall r,
  match r with
  | [] => True
  | y :: b => if y =? BANG
              then match b with [] => True | _ :: b' => ~ In RBRACKET b' end
              else ~ In RBRACKET b
  end ->
  parse_pattern (LBRACKET :: r) = PatternError.
Proof. exact parse_class_unclosed. Qed.
Print Assumptions C11_glob_class_unclosed.

Theorem C11_glob_error_after_plain : forall pre s,
  Forall (fun c => c <> STAR /\ c <> LBRACKET) pre ->
  parse_pattern s = PatternError -> parse_pattern (pre ++ s) = PatternError.
Proof. exact parse_error_after_plain. Qed.
Print Assumptions C11_glob_error_after_plain.

(* ... and an include with such a pattern ends the load with LoadError::InvalidIncludeGlob, after
   the entries before it; it has no expansion *)
Theorem C11_invalid_glob_is_error : forall fs cp dir w,
  parent cp = Some dir ->
  parse_pattern (path_string (canonicalize (join dir w))) = PatternError ->
  forall ld pre post,
    include_targets fs cp w = inl InvalidIncludeGlob /\
    load_entries ld fs cp (Inc w :: post) = ([], Failed InvalidIncludeGlob) /\
    snd (load_entries ld fs cp (pre ++ Inc w :: post)) <> Done /\
    (forall t, load_entries ld fs cp pre = (t, Done) ->
       load_entries ld fs cp (pre ++ Inc w :: post) = (t, Failed InvalidIncludeGlob)).
Proof. exact invalid_glob_is_error. Qed.
Print Assumptions C11_invalid_glob_is_error.

Theorem C11_invalid_glob_no_expansion : forall fs cp dir w pre post out,
  wf_fs fs -> parent cp = Some dir ->
  parse_pattern (path_string (canonicalize (join dir w))) = PatternError ->
  ~ expands_entries fs cp (pre ++ Inc w :: post) out.
Proof. exact invalid_glob_no_expansion. Qed.
Print Assumptions C11_invalid_glob_no_expansion.

(* known finding C11-K1: the in-memory file system lets "*.ledger" match a file named ".ledger"
   (the star matches nothing, the literal dot matches the leading dot); the real file system
   never lets a wildcard component match a dot-file.  Outside patterns with a star between a
   separator and a literal dot, a dot-file is only matched by a component that starts with a
   literal dot ... *)
Theorem C11_glob_dotfiles_component : forall ts a b,
  star_dot_free ts = true ->
  matches_with ts (a ++ SLASH :: DOT :: b) = true ->
  exists ta tb, ts = ta ++ Char SLASH :: Char DOT :: tb /\ gmatch true ta a /\ gmatch false tb b.
Proof. exact glob_dotfiles_component. Qed.
Print Assumptions C11_glob_dotfiles_component.

(* ... and inside them that is false *)
Theorem C11_glob_dotfiles_component_refuted :
  exists ts a b, parse_pattern [SLASH; 100; SLASH; STAR; DOT; 108] = Tokens ts /\
    matches_with ts (a ++ SLASH :: DOT :: b) = true /\
    ~ exists ta tb, ts = ta ++ Char SLASH :: Char DOT :: tb.
Proof. exact glob_dotfiles_component_refuted. Qed.
Print Assumptions C11_glob_dotfiles_component_refuted.

(* the files of an include are exactly the matching keys, visited in strictly increasing
   PathBuf (component-wise) order, one after the other *)
Theorem C11_sorted_visit : forall fs cp w ps,
  wf_fs fs -> include_targets fs cp w = inr ps ->
  StronglySorted path_lt ps /\ (forall k, In k ps <-> matching fs cp w k) /\
  forall ld r, load_entries ld fs cp (Inc w :: r) = then_ (load_all ld ps) (load_entries ld fs cp r).
Proof. exact sorted_visit. Qed.
Print Assumptions C11_sorted_visit.

(* component order is a strict total order, and differs from the byte order of the joined string *)
Theorem C11_path_order_total : forall a b, path_lt a b \/ a = b \/ path_lt b a.
Proof. exact path_lt_total. Qed.
Print Assumptions C11_path_order_total.

Theorem C11_path_order_not_string_order :
  path_cmp [[97]; [98]] [[97; 46; 120]] = Lt /\
  str_cmp (path_string [[97]; [98]]) (path_string [[97; 46; 120]]) = Gt.
Proof. exact component_order_vs_string_order. Qed.
Print Assumptions C11_path_order_not_string_order.

(* an include that matches no file ends the load with IO NotFound, after the entries before it *)
Theorem C11_empty_glob_is_error : forall fs cp w ts,
  target_tokens cp w = Some ts ->
  (forall k, In k (map fst fs) -> ~ gmatch true ts (path_string k)) ->
  forall ld pre post,
    (forall ps, include_targets fs cp w <> inr ps) /\
    load_entries ld fs cp (Inc w :: post) = ([], Failed IONotFound) /\
    snd (load_entries ld fs cp (pre ++ Inc w :: post)) <> Done /\
    (forall t, load_entries ld fs cp pre = (t, Done) ->
       load_entries ld fs cp (pre ++ Inc w :: post) = (t, Failed IONotFound)).
Proof. exact empty_glob_is_error. Qed.
Print Assumptions C11_empty_glob_is_error.

(* splitting: for every way of cutting the entry sequence L into a tree of files (cut_of:
   nested, through any written path, literal and glob includes alike), loading the root
   delivers exactly L, in order *)
Theorem C11_split_invariant : forall fs root L,
  wf_fs fs -> cut_of fs root L ->
  exists n, forall f, (n <= f)%nat ->
    exists out, load f fs root = (out, Done) /\ map snd out = L.
Proof. exact split_invariant. Qed.
Print Assumptions C11_split_invariant.

(* conversely a successful load is a cut of what it delivered, and the uncut ledger is a cut *)
Theorem C11_loaded_is_cut : forall fs root fuel out,
  wf_fs fs -> load fuel fs root = (out, Done) -> cut_of fs root (map snd out).
Proof. exact loaded_is_cut. Qed.
Print Assumptions C11_loaded_is_cut.

Theorem C11_uncut_is_cut : forall fs root L,
  In (canonicalize root, map Ent L) fs -> cut_of fs root L.
Proof. exact uncut_is_cut. Qed.
Print Assumptions C11_uncut_is_cut.

(* splitting step by step: moving a stretch B of the entries of the file p into a new file q and
   leaving `include w` in its place — w (literal or glob, through any directories) standing for
   exactly q, no older include matching q, the includes inside B keeping their meaning —
   delivers the same entries in the same order from every root.  (One new file per step; an
   include standing for several new files at once is covered by C11_split_invariant, whose
   cut_of treats literal and glob includes alike.) *)
Theorem C11_split_step : forall fs1 p q A B C w,
  wf_fs fs1 ->
  In (p, A ++ B ++ C) fs1 ->
  ~ In q (map fst fs1) ->
  canonicalize q = q ->
  include_targets (extract fs1 p q A C B w) p w = inr [q] ->
  (forall k content w' ts,
     In (k, content) fs1 -> In (Inc w') content -> target_tokens k w' = Some ts ->
     matches_with ts (path_string q) = false) ->
  (forall w', In (Inc w') B -> target_tokens q w' = target_tokens p w') ->
  forall root n out,
    load n fs1 root = (out, Done) ->
    exists N out', (forall m, (N <= m)%nat -> load m (extract fs1 p q A C B w) root = (out', Done)) /\
                   map snd out' = map snd out.
Proof. exact split_step. Qed.
Print Assumptions C11_split_step.

(* hence every tree obtained from the one-file ledger (C11_uncut_is_cut) by such steps is a cut of it *)
Theorem C11_cut_step : forall fs1 p q A B C w,
  wf_fs fs1 ->
  In (p, A ++ B ++ C) fs1 ->
  ~ In q (map fst fs1) ->
  canonicalize q = q ->
  include_targets (extract fs1 p q A C B w) p w = inr [q] ->
  (forall k content w' ts,
     In (k, content) fs1 -> In (Inc w') content -> target_tokens k w' = Some ts ->
     matches_with ts (path_string q) = false) ->
  (forall w', In (Inc w') B -> target_tokens q w' = target_tokens p w') ->
  forall root L, cut_of fs1 root L -> cut_of (extract fs1 p q A C B w) root L.
Proof. exact cut_step. Qed.
Print Assumptions C11_cut_step.

(* the loader with its cycle check: it never does more than the core ... *)
Theorem C11_loader_refines : forall fs n st p o,
  loadc n fs st p = (o, Done) -> load n fs p = (o, Done).
Proof. exact loadc_refines_load. Qed.
Print Assumptions C11_loader_refines.

(* ... and the check never fires on a load that ends normally *)
Theorem C11_loader_agrees : forall fs n p o,
  load n fs p = (o, Done) -> exists N, forall f, (N <= f)%nat -> loadc f fs [] p = (o, Done).
Proof. exact load_done_loadc. Qed.
Print Assumptions C11_loader_agrees.

Theorem C11_loader_iff_expands : forall fs, wf_fs fs ->
  forall p out, (exists fuel, loadc fuel fs [] p = (out, Done)) <-> expands fs p out.
Proof. exact loadc_iff_expands. Qed.
Print Assumptions C11_loader_iff_expands.

Theorem C11_loader_split_invariant : forall fs root L,
  wf_fs fs -> cut_of fs root L ->
  exists N, forall f, (N <= f)%nat -> exists out, loadc f fs [] root = (out, Done) /\ map snd out = L.
Proof. exact loadc_split_invariant. Qed.
Print Assumptions C11_loader_split_invariant.

(* including a file that is being loaded is an error (LoadError::IncludeCycle), not a recursion *)
Theorem C11_cycle_is_error : forall fs f st p,
  In (canonicalize p) st -> loadc (S f) fs st p = ([], Failed IncludeCycle).
Proof. exact cycle_is_error. Qed.
Print Assumptions C11_cycle_is_error.

(* ---------- end to end: files are TEXTS (Model/Pipeline.v, Model/PipelineSpec.v) ----------
   `loadt` / `load_texts` is Loader::load_impl on a file system path |-> text: a file is parsed
   when it is visited, its first syntax error ends the load with LoadError::Parse after the
   entries before it.  `parse_fs` is that file system seen through Model/Load.v (every file
   parsed up front, the i-th entry of a file `Inc written` or `Ent i`).  `run_files` = load,
   then report::process on the delivered entries, then balance / register. *)

(* the loader on texts is `loadc` over the parsed file system: exactly, unless it stops at a
   syntax error (or a hazard value of the parser: there is none, C06_files_load_terminates) ... *)
Theorem C11_text_loader_agrees : forall fs f st p,
  ~ bad (snd (loadt f fs st p)) ->
  map proj (fst (loadt f fs st p)) = fst (loadc f (parse_fs fs) st p) /\
  snd (loadt f fs st p) = emb (snd (loadc f (parse_fs fs) st p)).
Proof. exact loadt_exact. Qed.
Print Assumptions C11_text_loader_agrees.

(* ... and then what it delivered before that is an initial part of what `loadc` delivers (a
   file with a syntax error that no include reaches is never parsed: Proofs/PipelineExamples.v
   ex_unvisited) *)
Theorem C11_text_loader_prefix : forall fs f st p,
  exists k, map proj (fst (loadt f fs st p)) = firstn k (fst (loadc f (parse_fs fs) st p)).
Proof. exact loadt_prefix. Qed.
Print Assumptions C11_text_loader_prefix.

(* cut_text_of is cut_of on the parsed file system with the ids resolved to the entries *)
Theorem C11_cut_text_is_cut : forall fs root L, wf_tfs fs -> cut_text_of fs root L ->
  exists out, cut_of (parse_fs fs) root (map snd out) /\ Forall2 (resolves fs) out L.
Proof. exact cut_text_is_cut. Qed.
Print Assumptions C11_cut_text_is_cut.

(* every way of cutting the entry sequence L into a tree of text files (cut_text_of: each
   file's text parses to some of the entries in order with includes - literal or glob, nested,
   through any written path - in between) loads back to exactly L, in order, with any budget
   beyond the number of files ... *)
Theorem C11_cut_text_loads : forall fs root L,
  wf_tfs fs -> cut_text_of fs root L ->
  forall f, (length fs < f)%nat ->
    exists out, load_texts f fs root = (out, TDone) /\ loaded_entries out = L.
Proof. exact cut_text_loads. Qed.
Print Assumptions C11_cut_text_loads.

(* ... conversely a load that ends normally is a cut of what it delivered, and a text without
   includes, in one file, is a cut of its entries *)
Theorem C11_loaded_text_is_cut : forall fs, wf_tfs fs ->
  forall f st p out, loadt f fs st p = (out, TDone) -> cut_text_of fs p (loaded_entries out).
Proof. exact loaded_text_is_cut. Qed.
Print Assumptions C11_loaded_text_is_cut.

Theorem C11_uncut_text_is_cut : forall fs root text pes,
  In (canonicalize root, text) fs -> parse_ledger text = LOk pes -> no_includes (map e_entry pes) ->
  cut_text_of fs root (map e_entry pes).
Proof. exact uncut_text_is_cut. Qed.
Print Assumptions C11_uncut_text_is_cut.

(* SPLITTING CHANGES NOTHING, end to end.  A ledger text in one file, and any way of cutting
   its entries at entry boundaries into a tree of included text files (the files parse to the
   entries up to same_meaning, i.e. up to the number-format flag that `format` may drop:
   C05_roundtrip): `run_files` gives the same result for every option, price DB, chooser and
   budgets beyond the number of files - the same balance and register report, the same
   conversion error, or the same book-keeping error on the entry with the same number in load
   order.  `unplaced` forgets only WHERE a book-keeping error is reported (file, span, line):
   that necessarily differs and is the subject of C14_bookkeeping_error_entry. *)
Theorem C11_split_texts_invariant : forall text pes root0 fs root L,
  parse_ledger text = LOk pes -> no_includes (map e_entry pes) ->
  wf_tfs fs -> cut_text_of fs root L -> same_meaning (map e_entry pes) L ->
  forall f0 f qfuel choose o, (1 < f0)%nat -> (length fs < f)%nat ->
    unplaced (run_files f0 qfuel choose o [(canonicalize root0, text)] root0) =
    unplaced (run_files f qfuel choose o fs root).
Proof. exact split_texts_invariant. Qed.
Print Assumptions C11_split_texts_invariant.

(* the same for any two cuts of the same entries: trees of different shape, depth and layout *)
Theorem C11_split_texts_two_cuts : forall fs1 root1 L1 fs2 root2 L2,
  wf_tfs fs1 -> wf_tfs fs2 ->
  cut_text_of fs1 root1 L1 -> cut_text_of fs2 root2 L2 -> same_meaning L1 L2 ->
  forall f1 f2 qfuel choose o, (length fs1 < f1)%nat -> (length fs2 < f2)%nat ->
    unplaced (run_files f1 qfuel choose o fs1 root1) = unplaced (run_files f2 qfuel choose o fs2 root2).
Proof. exact split_texts_two_cuts. Qed.
Print Assumptions C11_split_texts_two_cuts.

(* the ledger given as entries and printed by `format`: the printed text in one file against
   any cut (uses C05_roundtrip: printing well-formed entries and parsing them back gives the
   same entries) ... *)
Theorem C11_split_formatted_invariant : forall w L root0 fs root L',
  wf_ledger L = true -> no_includes L ->
  wf_tfs fs -> cut_text_of fs root L' -> same_meaning L L' ->
  forall f0 f qfuel choose o, (1 < f0)%nat -> (length fs < f)%nat ->
    unplaced (run_files f0 qfuel choose o [(canonicalize root0, format_entries w L)] root0) =
    unplaced (run_files f qfuel choose o fs root).
Proof. exact split_formatted_invariant. Qed.
Print Assumptions C11_split_formatted_invariant.

(* ... and a file of the tree that is itself a printed entry list may be cut along the entries
   it was printed from *)
Theorem C11_cut_text_printed_file : forall w fs p es L,
  wf_ledger es = true -> In (canonicalize p, format_entries w es) fs ->
  cut_text_entries fs (canonicalize p) es L ->
  exists L', cut_text_of fs p L' /\ same_meaning L L'.
Proof. exact cut_text_printed_file. Qed.
Print Assumptions C11_cut_text_printed_file.

(* What is NOT true, and why cut_text_of goes through the parser instead of slicing the
   characters of one text: include expansion is not textual inclusion.  Two files, a balanced
   transaction whose payee starts with `(` and a comment that ends with `)`, included one after
   the other, are booked (two accounts reported); their texts concatenated in one file are ONE
   transaction whose code runs over the line ends from the `(` to the `)` (the code parser is
   take_till(')')), with no payee and no postings, and nothing is reported.  Replayed on the
   okane binary (Proofs/PipelineExamples.v). *)
Theorem C11_textual_inclusion_refuted :
  match run_files 4 0 PriceDb.choose_max TotalPipeline.opts0 [(p_m, t_two); (p_x, t_open); (p_y, t_close)] p_m with
  | FrReport [_; _] [_; _] => True
  | _ => False
  end /\
  run_files 2 0 PriceDb.choose_max TotalPipeline.opts0 [(p_m, t_open ++ t_close)] p_m = FrReport [] [] /\
  match parse_ledger (t_open ++ t_close) with
  | LOk [e] => match e_entry e with STxn t => st_posts t = [] /\ st_payee t = [] | _ => False end
  | _ => False
  end.
Proof. exact textual_inclusion_refuted. Qed.
Print Assumptions C11_textual_inclusion_refuted.
