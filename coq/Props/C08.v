(* C08 — value expressions evaluate as ordinary arithmetic with commodity typing.
   Meaning: Model/Amount.v (evaluator) against Model/EvalSpec.v (den: numbers and finitely
   supported functions commodity -> Q).  Shape: Model/ExprParse.v (token-level parser, fuel =
   token count) against the textbook grammar `derives`. *)
From Coq Require Import List NArith ZArith Bool QArith Qcanon.
From Okv Require Import Base.Maps Base.Dec Model.Amount Model.EvalSpec Model.ExprParse.
From Okv Require Import Model.Book Model.Query.
From Okv Require Import Proofs.EvalProofs Proofs.EvalTyping Proofs.ExprParseProofs Proofs.EvalQuery.
Import ListNotations.
Open Scope Qc_scope.

(* ---- meaning ---- *)

(* the evaluator answers exactly what the denotation says, value or error *)
Theorem C08_eval_denotes : forall e, agrees (eval_e e) (den_e e).
Proof. exact eval_e_denotes. Qed.
Print Assumptions C08_eval_denotes.

(* ... spelled out for a value: v denotes den e, pointwise through a_get *)
Theorem C08_eval_denotes_pointwise : forall e v, eval_e e = inl v ->
  exists d, den_e e = inl d /\ wf_dval d /\ denotes v d.
Proof. exact eval_denotes_pointwise. Qed.
Print Assumptions C08_eval_denotes_pointwise.

Theorem C08_eval_error_iff : forall e x, eval_e e = inr x <-> den_e e = inr x.
Proof. exact eval_error_iff. Qed.
Print Assumptions C08_eval_error_iff.

(* where a posting amount / a single amount is required, the conversions agree too *)
Theorem C08_posting_amount_denotes : forall v d, denotes v d -> wf_dval d ->
  match ev_to_pa v, d_to_pa d with
  | inl PZero, inl None => True
  | inl (PSingle c x), inl (Some (c', x')) => c = c' /\ x = x'
  | inr e, inr e' => e = e'
  | _, _ => False
  end.
Proof. exact to_pa_agrees. Qed.
Print Assumptions C08_posting_amount_denotes.

Theorem C08_single_amount_denotes : forall v d, denotes v d -> wf_dval d ->
  match ev_to_single v, d_to_single d with
  | inl (c, x), inl (c', x') => c = c' /\ x = x'
  | inr e, inr e' => e = e'
  | _, _ => False
  end.
Proof. exact to_single_agrees. Qed.
Print Assumptions C08_single_amount_denotes.

(* Ledger::eval / `okane primitive eval`: on every processed ledger s - whatever display
   precisions it declares with `commodity X` + `format` (s_fmt s) - the answer is the exact
   amount the expression denotes (same commodities, same quantity in each), or the error the
   denotation has; nothing is rounded *)
Theorem C08_ledger_eval_exact : forall (s : bstate) (t : vexpr),
  match ledger_eval s t, (match den_v t with inl d => d_to_amount d | inr e => inr e end) with
  | inl a, inl (ks, f) =>
      NoDup (keys a) /\ (forall c, In c (keys a) <-> In c ks) /\ (forall c, a_get a c = f c)
  | inr e, inr e' => e = e'
  | _, _ => False
  end.
Proof. exact ledger_eval_exact. Qed.
Print Assumptions C08_ledger_eval_exact.

Theorem C08_eval_total : forall e, (exists v, eval_e e = inl v) \/ (exists x, eval_e e = inr x).
Proof. exact eval_total. Qed.
Print Assumptions C08_eval_total.

Theorem C08_eval_compositional : forall op l r,
  eval_e (EBin op l r) =
  match eval_e l with
  | inr x => inr x
  | inl a => match eval_e r with inr x => inr x | inl b => ev_binop op a b end
  end.
Proof. exact eval_bin. Qed.
Print Assumptions C08_eval_compositional.

(* same commodities combine, different ones stay apart *)
Theorem C08_add_pointwise : forall l r a b,
  eval_e l = inl (ECom a) -> eval_e r = inl (ECom b) ->
  exists s, eval_e (EBin OAdd l r) = inl (ECom s) /\
            (forall c, a_get s c = a_get a c + a_get b c) /\
            (forall c, In c (keys s) <-> In c (keys a) \/ In c (keys b)).
Proof. exact add_pointwise_eval. Qed.
Print Assumptions C08_add_pointwise.

Theorem C08_sub_pointwise : forall l r a b,
  eval_e l = inl (ECom a) -> eval_e r = inl (ECom b) ->
  exists s, eval_e (EBin OSub l r) = inl (ECom s) /\
            (forall c, a_get s c = a_get a c - a_get b c) /\
            (forall c, In c (keys s) <-> In c (keys a) \/ In c (keys b)).
Proof. exact sub_pointwise_eval. Qed.
Print Assumptions C08_sub_pointwise.

(* ---- typing: rejected forms ---- *)
Theorem C08_add_num_com_rejected : forall l r q a,
  (eval_e l = inl (ENum q) /\ eval_e r = inl (ECom a)) \/ (eval_e l = inl (ECom a) /\ eval_e r = inl (ENum q)) ->
  eval_e (EBin OAdd l r) = inr UnmatchingOperation /\ eval_e (EBin OSub l r) = inr UnmatchingOperation.
Proof. exact add_num_com_rejected. Qed.
Print Assumptions C08_add_num_com_rejected.

Theorem C08_mul_com_com_rejected : forall l r a b,
  eval_e l = inl (ECom a) -> eval_e r = inl (ECom b) -> eval_e (EBin OMul l r) = inr UnmatchingOperation.
Proof. exact mul_com_com_rejected. Qed.
Print Assumptions C08_mul_com_com_rejected.

(* the divisor is a zero number, or an amount all of whose entries are zero (the empty
   amount included): DivideByZero for every dividend *)
Theorem C08_div_by_zero_rejected : forall l r vl vr,
  eval_e l = inl vl -> eval_e r = inl vr ->
  (match vr with ENum q => q = 0 | ECom a => forall c v, In (c, v) a -> v = 0 end) ->
  eval_e (EBin ODiv l r) = inr DivideByZero.
Proof. exact div_by_zero_rejected_explicit. Qed.
Print Assumptions C08_div_by_zero_rejected.

Theorem C08_div_com_by_com_rejected : forall l r a b,
  eval_e l = inl (ECom a) -> eval_e r = inl (ECom b) -> ev_is_zero (ECom b) = false ->
  eval_e (EBin ODiv l r) = inr UnmatchingOperation.
Proof. exact div_com_by_com_rejected. Qed.
Print Assumptions C08_div_com_by_com_rejected.

Theorem C08_div_num_by_multi_rejected : forall l r x b,
  eval_e l = inl (ENum x) -> eval_e r = inl (ECom b) -> ev_is_zero (ECom b) = false -> (2 <= length b)%nat ->
  eval_e (EBin ODiv l r) = inr SingleAmountRequired.
Proof. exact div_num_by_multi_rejected. Qed.
Print Assumptions C08_div_num_by_multi_rejected.

Theorem C08_amount_required : forall q,
  (q <> 0 -> ev_to_amount (ENum q) = inr AmountRequired /\ ev_to_pa (ENum q) = inr AmountRequired
             /\ ev_to_single (ENum q) = inr AmountRequired)
  /\ (q = 0 -> ev_to_amount (ENum q) = inl a_zero /\ ev_to_pa (ENum q) = inl PZero).
Proof. exact amount_required. Qed.
Print Assumptions C08_amount_required.

Theorem C08_single_rejects_multi : forall a, (2 <= length a)%nat ->
  amount_to_single a = inr SingleAmountRequired /\ amount_to_pa a = inr PostingAmountRequired
  /\ ev_to_single (ECom a) = inr SingleAmountRequired /\ ev_to_pa (ECom a) = inr PostingAmountRequired.
Proof. exact single_rejects_multi. Qed.
Print Assumptions C08_single_rejects_multi.

(* ---- typing: accepted mixed forms, with their values ---- *)
Theorem C08_mixed_forms_accepted : forall l r k a,
  (eval_e l = inl (ENum k) -> eval_e r = inl (ECom a) ->
     exists a', eval_e (EBin OMul l r) = inl (ECom a') /\ keys a' = keys a /\ forall c, a_get a' c = a_get a c * k) /\
  (eval_e l = inl (ECom a) -> eval_e r = inl (ENum k) ->
     exists a', eval_e (EBin OMul l r) = inl (ECom a') /\ keys a' = keys a /\ forall c, a_get a' c = a_get a c * k) /\
  (eval_e l = inl (ECom a) -> eval_e r = inl (ENum k) -> k <> 0 ->
     exists a', eval_e (EBin ODiv l r) = inl (ECom a') /\ keys a' = keys a /\ forall c, a_get a' c = a_get a c / k).
Proof. exact mixed_forms_accepted. Qed.
Print Assumptions C08_mixed_forms_accepted.

Theorem C08_num_div_single : forall l r x c v,
  eval_e l = inl (ENum x) -> eval_e r = inl (ECom [(c, v)]) -> v <> 0 ->
  eval_e (EBin ODiv l r) = inl (ECom [(c, x / v)]).
Proof. exact num_div_single. Qed.
Print Assumptions C08_num_div_single.

(* ---- shape: precedence, left associativity, unary minus, parentheses ---- *)
Theorem C08_parser_is_grammar : forall ts t k, parse_value_expr ts = POk (t, k) <-> derives ts t k.
Proof. exact parser_is_grammar. Qed.
Print Assumptions C08_parser_is_grammar.

Theorem C08_parser_total : forall ts, parse_value_expr ts <> POutOfFuel.
Proof. exact parse_value_expr_total. Qed.
Print Assumptions C08_parser_total.

Theorem C08_grammar_unambiguous : forall ts t k t' k', derives ts t k -> derives ts t' k' -> t = t' /\ k = k'.
Proof. exact g_value_unique. Qed.
Print Assumptions C08_grammar_unambiguous.
