(* process_posting: no Panic, exact results of the three posting shapes (unconstrained,
   assignment, explicit amount), frame and well-formedness. *)
From Coq Require Import List NArith ZArith Bool QArith Qcanon Lia.
From Okv Require Import Base.Maps.
From Okv Require Import Base.Dec.
From Okv Require Import Model.Amount.
From Okv Require Import Model.Book.
From Okv Require Import Model.BookSpec.
From Okv Require Import Proofs.BookA_Maps.
From Okv Require Import Proofs.BookA_Amount.
Import ListNotations.
Open Scope Qc_scope.

(* ---- outcome monad ---- *)

Lemma bind_ok_inv {A B} (x : outcome A) (f : A -> outcome B) b :
  bind x f = Ok b -> exists a, x = Ok a /\ f a = Ok b.
Proof. destruct x; cbn [bind]; try discriminate. eauto. Qed.

Lemma bind_np {A B} (x : outcome A) (f : A -> outcome B) :
  x <> Panic -> (forall a, x = Ok a -> f a <> Panic) -> bind x f <> Panic.
Proof. destruct x; cbn [bind]; intros; try discriminate; auto. Qed.

Lemma lift_eval_np {A} (x : A + eval_err) : lift_eval x <> Panic.
Proof. destruct x; discriminate. Qed.

Lemma eval_pa_np e : eval_pa e <> Panic.
Proof. apply lift_eval_np. Qed.

Ltac inv_bind H :=
  let a := fresh "a" in let Ha := fresh "Ha" in
  apply bind_ok_inv in H; destruct H as [a [Ha H]].
Ltac inv_bind_as H a Ha := apply bind_ok_inv in H; destruct H as [a [Ha H]].

(* ---- Exchange::try_from_syntax ---- *)

Lemma lift_eval_single e s :
  lift_eval (match eval_v e with inl v => ev_to_single v | inr er => inr er end) = Ok s ->
  eval_single e = Some s.
Proof.
  unfold eval_single. destruct (eval_v e) as [v|]; cbn [lift_eval]; [|discriminate].
  destruct (ev_to_single v); cbn [lift_eval]; [|discriminate]. congruence.
Qed.

(* an accepted annotation: the amount is a single commodity, the rate is non-zero and in
   another commodity *)
Lemma xchg_from_syntax_ok amt x r :
  xchg_from_syntax amt x = Ok r ->
  exists c q rc rv,
    amt = PSingle c q /\ rv <> 0 /\ c <> rc /\
    ((exists e, x = XRate e /\ eval_single e = Some (rc, rv) /\ r = XR rc rv) \/
     (exists e, x = XTotal e /\ eval_single e = Some (rc, rv) /\ r = XT rc rv)).
Proof.
  unfold xchg_from_syntax. intros H. inv_bind H.
  assert (exists rc rv, (rc, rv) = match a with XT c v | XR c v => (c, v) end /\
          ((exists e, x = XRate e /\ eval_single e = Some (rc, rv) /\ a = XR rc rv) \/
           (exists e, x = XTotal e /\ eval_single e = Some (rc, rv) /\ a = XT rc rv)))
    as [rc [rv [Hrc Hx]]].
  { destruct x as [e|e]; inv_bind Ha; apply lift_eval_single in Ha0;
      injection Ha as <-; destruct a0 as [c v]; exists c, v; cbn [fst snd]; split; try reflexivity.
    - right. eauto.
    - left. eauto. }
  rewrite <- Hrc in H.
  destruct (qc_zero rv) eqn:Ez; [discriminate|]. apply qc_zero_false_iff in Ez.
  destruct amt as [|c q]; [discriminate|].
  destruct (N.eqb_spec c rc) as [E|E]; [discriminate|].
  injection H as <-. exists c, q, rc, rv. tauto.
Qed.

Lemma xchg_from_syntax_np amt x : xchg_from_syntax amt x <> Panic.
Proof.
  unfold xchg_from_syntax. apply bind_np.
  - destruct x; (apply bind_np; [apply lift_eval_np|discriminate]).
  - intros r _. destruct (match r with XT c v | XR c v => (c, v) end) as [rc rv].
    destruct (qc_zero rv); [discriminate|]. destruct amt; [discriminate|].
    destruct (_ =? _)%N; discriminate.
Qed.

(* the model's Exchange::exchange is the specification's *)
Lemma xchg_apply_spec amt x r c q :
  xchg_from_syntax amt x = Ok r -> amt = PSingle c q ->
  spec_exchange x q = Some (PSingle (fst (xchg_apply r q)) (snd (xchg_apply r q))).
Proof.
  intros H _. apply xchg_from_syntax_ok in H.
  destruct H as [c' [q' [rc [rv [_ [_ [_ [[e [-> [He ->]]]|[e [-> [He ->]]]]]]]]]]];
    unfold spec_exchange; rewrite He; cbn [xchg_apply fst snd]; [reflexivity|].
  rewrite with_sign_of_spec. reflexivity.
Qed.

Definition opt_xchg (amt : posting_amount) (o : option exchange) : outcome (option xchg) :=
  match o with Some x => do r <- xchg_from_syntax amt x; Ok (Some r) | None => Ok None end.

Lemma opt_xchg_ok amt o r :
  opt_xchg amt o = Ok r ->
  match o, r with
  | Some x, Some y => xchg_from_syntax amt x = Ok y
  | None, None => True
  | _, _ => False
  end.
Proof.
  destruct o as [x|]; cbn [opt_xchg]; intros H.
  - inv_bind H. injection H as <-. exact Ha.
  - injection H as <-. exact I.
Qed.

Lemma opt_xchg_np amt o : opt_xchg amt o <> Panic.
Proof.
  destruct o; cbn [opt_xchg]; [|discriminate].
  apply bind_np; [apply xchg_from_syntax_np|discriminate].
Qed.

(* ---- balance updates ---- *)

Lemma bal_get_set_same b a x : bal_get (set a x b) a = x.
Proof. unfold bal_get. rewrite get_set_same. reflexivity. Qed.

Lemma bal_get_set_other b a a' x : a' <> a -> bal_get (set a x b) a' = bal_get b a'.
Proof. intros H. unfold bal_get. rewrite get_set_other by exact H. reflexivity. Qed.

Lemma bal_wf_set b a x : bal_wf b -> NoDup (keys x) -> bal_wf (set a x b).
Proof.
  intros Hb Hx a'. destruct (N.eq_dec a' a) as [->|E].
  - rewrite bal_get_set_same. exact Hx.
  - rewrite bal_get_set_other by exact E. apply Hb.
Qed.

Lemma bal_wf_nil : bal_wf [].
Proof. intros a. cbn. constructor. Qed.

Lemma bal_set_partial_np b a p : bal_set_partial b a p <> Panic.
Proof.
  destruct p as [|c v]; cbn [bal_set_partial].
  - destruct (amount_to_pa (bal_get b a)); discriminate.
  - discriminate.
Qed.

Lemma amount_to_pa_keys a p : amount_to_pa a = inl p -> pa_to_amount p = a.
Proof.
  destruct a as [|[c v] [|? ?]]; cbn [amount_to_pa]; intros H; try discriminate;
    injection H as <-; reflexivity.
Qed.

Lemma amount_to_pa_inl_iff a : (exists p, amount_to_pa a = inl p) <-> (length a <= 1)%nat.
Proof.
  destruct a as [|[c v] [|? ?]]; cbn [amount_to_pa length]; split; intros H; eauto; try lia.
  destruct H as [? H]; discriminate.
Qed.

(* ---- the three shapes of a posting ---- *)

Lemma process_posting_unconstrained b d i p :
  unconstrained p -> process_posting b d i p = Ok (b, None, None).
Proof. intros [H1 H2]. unfold process_posting. rewrite H1, H2. reflexivity. Qed.

Lemma unconstrainedb_iff p : unconstrainedb p = true <-> unconstrained p.
Proof.
  unfold unconstrainedb, unconstrained.
  destruct (p_amount p), (p_balance p); split; intros H; try discriminate; try tauto;
    destruct H; discriminate.
Qed.

(* `Account = c v`: stored amount is v minus the current holding of c; the account is left
   with exactly v of c (the entry is dropped when v = 0) *)
Lemma process_posting_assign_single b d i p bc c v :
  assignment p bc -> eval_pa bc = Ok (PSingle c v) ->
  let cur := bal_get b (p_account p) in
  let amt := PSingle c (v - a_get cur c) in
  process_posting b d i p =
    Ok (set (p_account p) (if qc_zero v then remove c cur else set c v cur) b,
        Some {| ep_amount := amt; ep_converted := None; ep_delta := amt |}, None).
Proof.
  intros [H1 H2] He. unfold process_posting. rewrite H1, H2, He. cbn [bind bal_set_partial].
  unfold a_set_partial. cbn [bind pa_check_sub pa_neg pa_check_add].
  rewrite N.eqb_refl. cbn [lift_eval bind]. reflexivity.
Qed.

(* `Account = 0`: the whole (single-commodity) holding is negated and the account emptied *)
Lemma process_posting_assign_zero b d i p bc :
  assignment p bc -> eval_pa bc = Ok PZero ->
  process_posting b d i p =
    match amount_to_pa (bal_get b (p_account p)) with
    | inl cur => Ok (set (p_account p) [] b,
                     Some {| ep_amount := pa_neg cur; ep_converted := None; ep_delta := pa_neg cur |}, None)
    | inr _ => Err BalanceFailure
    end.
Proof.
  intros [H1 H2] He. unfold process_posting. rewrite H1, H2, He. cbn [bind bal_set_partial].
  destruct (amount_to_pa (bal_get b (p_account p))) as [cur|]; cbn [bind]; [|reflexivity].
  unfold pa_check_sub. cbn [pa_check_add lift_eval bind]. reflexivity.
Qed.

(* explicit amount *)
Lemma process_posting_explicit b d i p sa b' ep ev :
  p_amount p = Some sa -> process_posting b d i p = Ok (b', ep, ev) ->
  exists amt delta conv,
    eval_pa sa = Ok amt /\ spec_bv p amt = Some delta /\
    b' = fst (bal_add_pa b (p_account p) amt) /\
    ep = Some {| ep_amount := amt; ep_converted := conv; ep_delta := delta |}.
Proof.
  intros Hsa H. unfold process_posting in H. rewrite Hsa in H.
  inv_bind H. rename a into amt. rename Ha into Hamt.
  change (match p_cost p with Some x => do r <- xchg_from_syntax amt x; Ok (Some r) | None => Ok None end)
    with (opt_xchg amt (p_cost p)) in H.
  inv_bind H. rename a into cost. apply opt_xchg_ok in Ha. rename Ha into Hcost.
  change (match p_lot p with Some x => do r <- xchg_from_syntax amt x; Ok (Some r) | None => Ok None end)
    with (opt_xchg amt (p_lot p)) in H.
  inv_bind H. rename a into lot. apply opt_xchg_ok in Ha. rename Ha into Hlot.
  cbv zeta in H. destruct (bal_add_pa b (p_account p) amt) as [b1 current] eqn:Eb.
  inv_bind H. clear Ha a.
  inv_bind H. rename a into delta. rename Ha into Hdelta.
  inv_bind H. rename a into conv.
  inv_bind H. injection H as <- <- <-.
  exists amt, delta, conv. split; [assumption|].
  split; [|split; [rewrite Eb; reflexivity|reflexivity]].
  unfold balance_amount in Hdelta. cbn [c_lot c_cost c_amount] in Hdelta.
  unfold spec_bv.
  destruct (p_lot p) as [xl|], lot as [l|]; try contradiction; cbn [option_or] in Hdelta.
  - inv_bind_as Hdelta s Hs. destruct amt as [|c q]; [discriminate|]. cbn [pa_to_single] in Hs. injection Hs as <-.
    cbn [snd] in Hdelta. injection Hdelta as <-.
    eapply xchg_apply_spec; eauto.
  - destruct (p_cost p) as [xc|], cost as [k|]; try contradiction.
    + inv_bind_as Hdelta s Hs. destruct amt as [|c q]; [discriminate|]. cbn [pa_to_single] in Hs. injection Hs as <-.
      cbn [snd] in Hdelta. injection Hdelta as <-.
      eapply xchg_apply_spec; eauto.
    + injection Hdelta as <-. reflexivity.
Qed.

(* an evaluated posting is missing exactly for the unconstrained shape *)
Lemma process_posting_none b d i p b' ev :
  process_posting b d i p = Ok (b', None, ev) -> unconstrained p /\ b' = b /\ ev = None.
Proof.
  intros H. destruct (p_amount p) as [sa|] eqn:Hsa.
  - destruct (process_posting_explicit _ _ _ _ _ _ _ _ Hsa H) as [? [? [? [_ [_ [_ ?]]]]]]. discriminate.
  - destruct (p_balance p) as [bc|] eqn:Hbc.
    + exfalso. unfold process_posting in H. rewrite Hsa, Hbc in H.
      inv_bind H. inv_bind H. destruct a0 as [b1 prev]. inv_bind H. discriminate.
    + unfold process_posting in H. rewrite Hsa, Hbc in H. injection H as <- <-.
      repeat split; assumption.
Qed.

(* ---- what a posting contributes to the residual ---- *)

Lemma process_posting_bv b d i p b' ep ev :
  process_posting b d i p = Ok (b', ep, ev) -> posting_bv b p (option_map ep_delta ep).
Proof.
  intros H. destruct (p_amount p) as [sa|] eqn:Hsa.
  - destruct (process_posting_explicit _ _ _ _ _ _ _ _ Hsa H)
      as [amt [delta [conv [Hamt [Hbv [_ ->]]]]]].
    cbn [option_map ep_delta]. eapply bv_explicit; eauto.
  - destruct (p_balance p) as [bc|] eqn:Hbc.
    + assert (assignment p bc) as Has by (split; assumption).
      destruct (eval_pa bc) as [[|c v]| |] eqn:He.
      * rewrite (process_posting_assign_zero b d i p bc Has He) in H.
        destruct (amount_to_pa (bal_get b (p_account p))) as [cur|] eqn:Ecur; [|discriminate].
        injection H as <- <- <-. cbn [option_map ep_delta]. eapply bv_assign_zero; eauto.
      * rewrite (process_posting_assign_single b d i p bc c v Has He) in H.
        injection H as <- <- <-. cbn [option_map ep_delta]. eapply bv_assign_single; eauto.
      * unfold process_posting in H. rewrite Hsa, Hbc, He in H. discriminate.
      * unfold process_posting in H. rewrite Hsa, Hbc, He in H. discriminate.
    + unfold process_posting in H. rewrite Hsa, Hbc in H. injection H as <- <- <-.
      cbn [option_map]. apply bv_omitted. split; assumption.
Qed.

(* ---- no Panic ---- *)

Lemma pa_to_single_np p : pa_to_single p <> Panic.
Proof. destruct p; discriminate. Qed.

Lemma process_posting_no_panic b d i p : process_posting b d i p <> Panic.
Proof.
  unfold process_posting. destruct (p_amount p) as [sa|].
  - apply bind_np; [apply eval_pa_np|]. intros amt _.
    change (match p_cost p with Some x => do r <- xchg_from_syntax amt x; Ok (Some r) | None => Ok None end)
      with (opt_xchg amt (p_cost p)).
    change (match p_lot p with Some x => do r <- xchg_from_syntax amt x; Ok (Some r) | None => Ok None end)
      with (opt_xchg amt (p_lot p)).
    apply bind_np; [apply opt_xchg_np|]. intros cost Hcost. apply opt_xchg_ok in Hcost.
    apply bind_np; [apply opt_xchg_np|]. intros lot Hlot. apply opt_xchg_ok in Hlot.
    cbv zeta. destruct (bal_add_pa b (p_account p) amt) as [b1 current].
    apply bind_np.
    { destruct (p_balance p); [|discriminate].
      apply bind_np; [apply eval_pa_np|]. intros expected _. cbv zeta.
      destruct (a_is_absolute_zero _); discriminate. }
    intros _ _. apply bind_np.
    { unfold balance_amount. destruct (option_or _ _); [|discriminate].
      apply bind_np; [apply pa_to_single_np|discriminate]. }
    intros delta _. apply bind_np.
    { unfold converted_amount. destruct (option_or _ _); [|discriminate].
      apply bind_np; [apply pa_to_single_np|discriminate]. }
    intros conv _. apply bind_np; [|discriminate].
    (* the unreachable!() branch: an annotation was accepted, so the amount is not PZero *)
    unfold posting_price_event. cbn [c_cost c_lot c_amount].
    destruct (option_or cost lot) as [x|] eqn:Eo; [|discriminate].
    assert (exists c q, amt = PSingle c q) as [c [q ->]].
    { destruct cost as [k|].
      - destruct (p_cost p) as [xc|]; [|contradiction].
        apply xchg_from_syntax_ok in Hcost. destruct Hcost as [c [q [_ [_ [-> _]]]]]. eauto.
      - cbn [option_or] in Eo. subst lot. destruct (p_lot p) as [xl|]; [|contradiction].
        apply xchg_from_syntax_ok in Hlot. destruct Hlot as [c [q [_ [_ [-> _]]]]]. eauto. }
    destruct x; discriminate.
  - destruct (p_balance p) as [bc|]; [|discriminate].
    apply bind_np; [apply eval_pa_np|]. intros current _.
    apply bind_np; [apply bal_set_partial_np|]. intros [b1 prev] _.
    apply bind_np; [apply lift_eval_np|discriminate].
Qed.

(* ---- frame: only the posting's own account changes ---- *)

Lemma process_posting_balance b d i p b' ep ev :
  process_posting b d i p = Ok (b', ep, ev) ->
  b' = b \/ exists x, b' = set (p_account p) x b.
Proof.
  intros H. destruct (p_amount p) as [sa|] eqn:Hsa.
  - destruct (process_posting_explicit _ _ _ _ _ _ _ _ Hsa H) as [amt [_ [_ [_ [_ [-> _]]]]]].
    right. unfold bal_add_pa. cbn [fst]. eauto.
  - destruct (p_balance p) as [bc|] eqn:Hbc.
    + assert (assignment p bc) as Has by (split; assumption).
      destruct (eval_pa bc) as [[|c v]| |] eqn:He.
      * rewrite (process_posting_assign_zero b d i p bc Has He) in H.
        destruct (amount_to_pa (bal_get b (p_account p))); [|discriminate].
        injection H as <- _ _. eauto.
      * rewrite (process_posting_assign_single b d i p bc c v Has He) in H.
        injection H as <- _ _. eauto.
      * unfold process_posting in H. rewrite Hsa, Hbc, He in H. discriminate.
      * unfold process_posting in H. rewrite Hsa, Hbc, He in H. discriminate.
    + unfold process_posting in H. rewrite Hsa, Hbc in H. injection H as <- _ _. left. reflexivity.
Qed.

Lemma process_posting_frame b d i p b' ep ev a' :
  process_posting b d i p = Ok (b', ep, ev) -> a' <> p_account p -> get a' b' = get a' b.
Proof.
  intros H Hne. apply process_posting_balance in H. destruct H as [->|[x ->]]; [reflexivity|].
  apply get_set_other. exact Hne.
Qed.

(* ---- well-formedness of balances is preserved ---- *)

Lemma process_posting_wf b d i p b' ep ev :
  bal_wf b -> process_posting b d i p = Ok (b', ep, ev) -> bal_wf b'.
Proof.
  intros Hwf H. destruct (p_amount p) as [sa|] eqn:Hsa.
  - destruct (process_posting_explicit _ _ _ _ _ _ _ _ Hsa H) as [amt [_ [_ [_ [_ [-> _]]]]]].
    unfold bal_add_pa. cbn [fst]. apply bal_wf_set; [exact Hwf|].
    apply NoDup_remove_zeros, NoDup_add_pa, Hwf.
  - destruct (p_balance p) as [bc|] eqn:Hbc.
    + assert (assignment p bc) as Has by (split; assumption).
      destruct (eval_pa bc) as [[|c v]| |] eqn:He.
      * rewrite (process_posting_assign_zero b d i p bc Has He) in H.
        destruct (amount_to_pa (bal_get b (p_account p))); [|discriminate].
        injection H as <- _ _. apply bal_wf_set; [exact Hwf|constructor].
      * rewrite (process_posting_assign_single b d i p bc c v Has He) in H.
        injection H as <- _ _. apply bal_wf_set; [exact Hwf|].
        destruct (qc_zero v); [apply NoDup_keys_remove|apply NoDup_keys_set]; apply Hwf.
      * unfold process_posting in H. rewrite Hsa, Hbc, He in H. discriminate.
      * unfold process_posting in H. rewrite Hsa, Hbc, He in H. discriminate.
    + unfold process_posting in H. rewrite Hsa, Hbc in H. injection H as <- _ _. exact Hwf.
Qed.
