(* Non-vacuity: the hypotheses of the C01 / C03 theorems hold of concrete transactions.
   Commodities: 1 = USD, 2 = EUR, 3 = JPY.  Accounts: 10, 11, 12. *)
From Coq Require Import List NArith ZArith Bool QArith Qcanon Lia.
From Okv Require Import Base.Maps.
From Okv Require Import Base.Dec.
From Okv Require Import Model.Amount.
From Okv Require Import Model.Book.
From Okv Require Import Model.BookSpec.
From Okv Require Import Proofs.BookA_Maps.
From Okv Require Import Proofs.BookA_Amount.
From Okv Require Import Proofs.BookA_Check.
From Okv Require Import Proofs.BookA_Posting.
From Okv Require Import Proofs.BookA_Loop.
From Okv Require Import Proofs.BookA_Txn.
Import ListNotations.
Local Open Scope N_scope.

Definition D (m : Z) (s : nat) : Qc := of_dec m s.
Definition amt (m : Z) (s : nat) (c : cid) : option vexpr := Some (VAmt (D m s) (Some c)).
Definition P (a : aid) (am : option vexpr) (cost lot : option exchange) (bal : option vexpr) : posting :=
  {| p_account := a; p_amount := am; p_cost := cost; p_lot := lot; p_balance := bal |}.
Definition T (ps : list posting) : txn := {| t_date := 20240101%Z; t_posts := ps |}.

(* USD is declared with two places *)
Definition hist : list entry :=
  [ EFormat 1 2;
    ETxn (T [P 10 (amt 300 2 1) None None None; P 10 (amt 700 2 2) None None None;
             P 11 (amt 100 0 3) None None None; P 12 None None None None]) ].

Definition s1 : bstate :=
  match fst (process hist) with Ok s => s | _ => bstate0 end.

Example hist_ok : exists s, process hist = (Ok s, 2%nat).
Proof. vm_compute. eexists. reflexivity. Qed.

(* account 10 holds two commodities, account 11 one, account 12 three *)
Example s1_holdings :
  length (bal_get (s_bal s1) 10) = 2%nat /\ length (bal_get (s_bal s1) 11) = 1%nat /\
  length (bal_get (s_bal s1) 12) = 3%nat.
Proof. vm_compute. repeat split. Qed.

(* ---- transactions ---- *)
(* balanced in one commodity, up to the declared precision: 10.004 - 10.00 rounds to 0.00 *)
Definition t_round : txn := T [P 10 (amt 10004 3 1) None None None; P 11 (amt (-1000) 2 1) None None None].
(* implied exchange: 10 USD against -8 EUR *)
Definition t_exch : txn := T [P 10 (amt 10 0 1) None None None; P 11 (amt (-8) 0 2) None None None].
(* unbalanced: two commodities of the same sign *)
Definition t_same_sign : txn := T [P 10 (amt 10 0 1) None None None; P 11 (amt 8 0 2) None None None].
(* unbalanced: three commodities *)
Definition t_three : txn :=
  T [P 10 (amt 10 0 1) None None None; P 11 (amt (-8) 0 2) None None None; P 12 (amt 1 0 3) None None None].
(* cost, lot price and an omitted posting: 10 USD {2 EUR} @ 3 JPY is valued at its lot price *)
Definition t_omit : txn :=
  T [P 10 (amt 10 0 1) (Some (XRate (VAmt (D 3 0) (Some 3)))) (Some (XRate (VAmt (D 2 0) (Some 2)))) None;
     P 11 None None None None;
     P 12 (amt (-5) 0 1) (Some (XTotal (VAmt (D 7 0) (Some 3)))) None None].
(* assignment `11 = 250 JPY` (holding 100 JPY) and an omitted posting *)
Definition t_assign : txn :=
  T [P 11 None None None (Some (VAmt (D 250 0) (Some 3))); P 12 None None None None].
(* assignment to zero of a commodity held: the entry disappears *)
Definition t_assign_c0 : txn :=
  T [P 11 None None None (Some (VAmt (D 0 0) (Some 3))); P 12 None None None None].
(* bare `= 0` on a single-commodity account, and on a two-commodity account *)
Definition t_zero_one : txn := T [P 11 None None None (Some (VAmt (D 0 0) None)); P 12 None None None None].
Definition t_zero_two : txn := T [P 10 None None None (Some (VAmt (D 0 0) None)); P 12 None None None None].
(* two unconstrained postings, the second at index 2 *)
Definition t_two_omitted : txn :=
  T [P 10 None None None None; P 11 (amt 1 0 1) None None None; P 12 None None None None;
     P 10 (amt 1 0 1) None None None].
(* evaluation error in the loop: 1 USD + 1 EUR is not a posting amount *)
Definition t_eval_err : txn :=
  T [P 10 (Some (VParen (EBin OAdd (EVal (VAmt (D 1 0) (Some 1))) (EVal (VAmt (D 1 0) (Some 2)))))) None None None].

(* ---- C01 (1): each disjunct of the balance condition, and its negation ---- *)
Example ex_check_all_zero :
  exists r x, ~ all_zero r /\ all_zero (a_round (s_fmt s1) r) /\ check_balance (s_fmt s1) 0 [] r = Ok x.
Proof.
  exists [(1%N, D 4 3)]. eexists. split; [|split].
  - intros H. specialize (H 1%N (D 4 3) (or_introl eq_refl)). discriminate.
  - apply a_is_zero_iff. vm_compute. reflexivity.
  - vm_compute. reflexivity.
Qed.

Example ex_check_two_opposite :
  exists r x, two_opposite (a_round (s_fmt s1) r) /\ check_balance (s_fmt s1) 0 [] r = Ok x.
Proof.
  exists [(3%N, D 0 0); (1%N, D 10 0); (2%N, D (-8) 0)]. eexists. split.
  - eapply two_opposite_shape; [vm_compute; reflexivity|vm_compute; discriminate].
  - vm_compute. reflexivity.
Qed.

Example ex_check_unbalanced :
  exists r, ~ balanced (s_fmt s1) r /\
            check_balance (s_fmt s1) 0 [] r = Err (UnbalancedPostings (a_remove_zeros (a_round (s_fmt s1) r))).
Proof.
  exists [(1%N, D 10 0); (2%N, D 8 0)].
  destruct (check_balance_cases (s_fmt s1) 0 [] [(1%N, D 10 0); (2%N, D 8 0)]) as [[_ [x Hx]]|H];
    [vm_compute in Hx; discriminate|exact H].
Qed.

(* ---- C01 (3), (4): loop succeeds; accepted by each disjunct; rejected otherwise ---- *)
Ltac loop_ok := vm_compute; eexists; reflexivity.

Example ex_loop_round : exists st, txn_loop s1 t_round = Ok st /\ l_unfilled st = None /\
  all_zero (a_round (s_fmt s1) (l_residual st)) /\ ~ all_zero (l_residual st).
Proof.
  assert (exists st, txn_loop s1 t_round = Ok st) as [st H] by loop_ok.
  exists st. split; [exact H|]. vm_compute in H. injection H as <-. split; [reflexivity|]. split.
  - apply a_is_zero_iff. vm_compute. reflexivity.
  - apply a_is_zero_false_iff. vm_compute. reflexivity.
Qed.

Example ex_accept_round : exists s', add_transaction s1 t_round = Ok s'.
Proof.
  destruct ex_loop_round as [st [H [_ [Hz _]]]]. eapply mandatory_accept; eauto.
Qed.

Example ex_loop_exch : exists st, txn_loop s1 t_exch = Ok st /\ l_unfilled st = None /\
  two_opposite (a_round (s_fmt s1) (l_residual st)).
Proof.
  assert (exists st, txn_loop s1 t_exch = Ok st) as [st H] by loop_ok.
  exists st. split; [exact H|]. vm_compute in H. injection H as <-. split; [reflexivity|].
  eapply two_opposite_shape; [vm_compute; reflexivity|vm_compute; discriminate].
Qed.

Example ex_reject_same_sign : exists st r, txn_loop s1 t_same_sign = Ok st /\
  ~ (l_unfilled st <> None \/ balanced (s_fmt s1) (l_residual st)) /\
  add_transaction s1 t_same_sign = Err (UnbalancedPostings r) /\ length r = 2%nat.
Proof.
  assert (exists st, txn_loop s1 t_same_sign = Ok st) as [st H] by loop_ok.
  exists st. eexists. split; [exact H|].
  assert (~ (l_unfilled st <> None \/ balanced (s_fmt s1) (l_residual st))) as Hn.
  { intros Hc. apply (accept_iff _ _ _ H) in Hc. destruct Hc as [s' Hs']. vm_compute in Hs'. discriminate. }
  split; [exact Hn|]. split; [apply (accept_iff _ _ _ H); exact Hn|].
  vm_compute in H. injection H as <-. vm_compute. reflexivity.
Qed.

Example ex_reject_three : exists r, add_transaction s1 t_three = Err (UnbalancedPostings r) /\ length r = 3%nat.
Proof. vm_compute. eexists. split; reflexivity. Qed.

Example ex_loop_error : exists e, txn_loop s1 t_eval_err = Err e /\ add_transaction s1 t_eval_err = Err e.
Proof. vm_compute. eexists. split; reflexivity. Qed.

(* ---- C01 (5): balancing values (lot price before cost; total with the sign of the quantity) ---- *)
Example ex_residual_omit : exists st, txn_loop s1 t_omit = Ok st /\ l_unfilled st = Some 1%nat /\
  Qc_eq_bool (a_get (l_residual st) 2) (D 20 0) = true /\
  Qc_eq_bool (a_get (l_residual st) 3) (D (-7) 0) = true /\
  Qc_eq_bool (a_get (l_residual st) 1) 0%Qc = true.
Proof.
  assert (exists st, txn_loop s1 t_omit = Ok st) as [st H] by loop_ok.
  exists st. split; [exact H|]. vm_compute in H. injection H as <-. vm_compute. repeat split.
Qed.

(* ---- C01 (6) ---- *)
Example ex_error_position :
  exists e, process (hist ++ [ETxn t_round; ENop; ETxn t_same_sign; ETxn t_exch]) = (Err e, 4%nat).
Proof. vm_compute. eexists. reflexivity. Qed.

(* ---- C03 (1): deduced amount in two commodities ---- *)
Example ex_omitted : exists st s' tx ou,
  txn_loop s1 t_omit = Ok st /\ l_unfilled st = Some 1%nat /\ add_transaction s1 t_omit = Ok s' /\
  last (s_txns s') {| o_date := 0%Z; o_posts := [] |} = tx /\ nth_error (o_posts tx) 1 = Some ou /\
  length (o_amount ou) = 2%nat /\
  Qc_eq_bool (a_get (o_amount ou) 2) (D (-20) 0) = true /\
  Qc_eq_bool (a_get (o_amount ou) 3) (D 7 0) = true.
Proof.
  assert (exists st, txn_loop s1 t_omit = Ok st) as [st H] by loop_ok.
  assert (exists s', add_transaction s1 t_omit = Ok s') as [s' H'] by loop_ok.
  exists st, s'. do 2 eexists. split; [exact H|]. split; [vm_compute in H; injection H as <-; reflexivity|].
  split; [exact H'|]. vm_compute in H'. injection H' as <-. vm_compute. repeat split.
Qed.

(* ---- C03 (2): assignments ---- *)
Example ex_assign_hyp : assignment (P 11 None None None (Some (VAmt (D 250 0) (Some 3)))) (VAmt (D 250 0) (Some 3)) /\
  exists v, eval_pa (VAmt (D 250 0) (Some 3)) = Ok (PSingle 3 v).
Proof. split; [split; reflexivity|]. vm_compute. eexists. reflexivity. Qed.

Example ex_assign : exists s' tx ou,
  add_transaction s1 t_assign = Ok s' /\
  last (s_txns s') {| o_date := 0%Z; o_posts := [] |} = tx /\ nth_error (o_posts tx) 0 = Some ou /\
  Qc_eq_bool (a_get (o_amount ou) 3) (D 150 0) = true /\
  Qc_eq_bool (a_get (bal_get (s_bal s') 11) 3) (D 250 0) = true.
Proof.
  assert (exists s', add_transaction s1 t_assign = Ok s') as [s' H'] by loop_ok.
  exists s'. do 2 eexists. split; [exact H'|]. vm_compute in H'. injection H' as <-. vm_compute. repeat split.
Qed.

Example ex_assign_commodity_zero : exists s',
  add_transaction s1 t_assign_c0 = Ok s' /\ bal_get (s_bal s') 11 = [].
Proof.
  assert (exists s', add_transaction s1 t_assign_c0 = Ok s') as [s' H'] by loop_ok.
  exists s'. split; [exact H'|]. vm_compute in H'. injection H' as <-. reflexivity.
Qed.

Example ex_zero_hyp : eval_pa (VAmt (D 0 0) None) = Ok PZero.
Proof. vm_compute. reflexivity. Qed.

Example ex_zero_one : exists s', add_transaction s1 t_zero_one = Ok s' /\ bal_get (s_bal s') 11 = [].
Proof.
  assert (exists s', add_transaction s1 t_zero_one = Ok s') as [s' H'] by loop_ok.
  exists s'. split; [exact H'|]. vm_compute in H'. injection H' as <-. reflexivity.
Qed.

Example ex_zero_two : add_transaction s1 t_zero_two = Err BalanceFailure.
Proof. vm_compute. reflexivity. Qed.

(* ---- C03 (3) ---- *)
Example ex_two_omitted :
  (exists stj, txn_loop s1 (txn_prefix t_two_omitted 2) = Ok stj) /\
  add_transaction s1 t_two_omitted = Err (UndeduciblePostingAmount 0 2).
Proof. split; [loop_ok|vm_compute; reflexivity]. Qed.

(* ---- C03 (4): account 10 is not named by t_assign ---- *)
Example ex_frame : exists s', add_transaction s1 t_assign = Ok s' /\
  get 10%N (s_bal s') = get 10%N (s_bal s1) /\ get 12%N (s_bal s') <> get 12%N (s_bal s1).
Proof.
  assert (exists s', add_transaction s1 t_assign = Ok s') as [s' H'] by loop_ok.
  exists s'. split; [exact H'|]. split.
  - eapply add_transaction_frame; [exact H'|]. cbn. intros p [<-|[<-|[]]]; discriminate.
  - vm_compute in H'. injection H' as <-. vm_compute. discriminate.
Qed.

(* the NoDup side condition of the assignment theorem is needed: on a (non-reachable) balance
   with a duplicated commodity, `= 0 JPY` removes only the first entry *)
Example ex_assign_needs_wf :
  let b : balance := [(11%N, [(3%N, D 1 0); (3%N, D 2 0)])] in
  exists b' ep ev,
    process_posting b 0 0 (P 11 None None None (Some (VAmt (D 0 0) (Some 3)))) = Ok (b', ep, ev) /\
    Qc_eq_bool (a_get (bal_get b' 11) 3) (D 2 0) = true.
Proof. vm_compute. do 3 eexists. split; reflexivity. Qed.

(* C03 end-of-transaction form: an assigned account named by no other posting ends at X *)
Example ex_assign_final_hyp :
  forall j pj, j <> 0%nat -> nth_error (t_posts t_assign) j = Some pj -> p_account pj <> 11.
Proof. intros [|[|[|j]]] pj Hj H; cbn in H; try congruence; injection H as <-; discriminate. Qed.

(* known finding C03-K1 in the model: `A / A = 5 USD / B 3 USD` from the empty state is
   accepted and leaves A at -3 USD, not 5 USD: the exclusivity hypothesis of
   assign_single_final cannot be dropped *)
Definition t_k1 : txn :=
  T [P 10 None None None None; P 10 None None None (Some (VAmt (D 5 0) (Some 1)));
     P 11 (amt 3 0 1) None None None].

Lemma k1_witness :
  exists t s' p bc c v,
    add_transaction bstate0 t = Ok s' /\ bal_wf (s_bal bstate0) /\
    nth_error (t_posts t) 1 = Some p /\ assignment p bc /\ eval_pa bc = Ok (PSingle c v) /\
    a_get (bal_get (s_bal s') (p_account p)) c <> v.
Proof.
  assert (exists s', add_transaction bstate0 t_k1 = Ok s') as [s' H'] by loop_ok.
  exists t_k1, s', (P 10 None None None (Some (VAmt (D 5 0) (Some 1)))), (VAmt (D 5 0) (Some 1)), 1, (D 5 0).
  split; [exact H'|]. split; [apply bal_wf_nil|]. split; [reflexivity|]. split; [split; reflexivity|].
  split; [reflexivity|].
  vm_compute in H'. injection H' as <-. intros E. apply (f_equal this) in E. vm_compute in E. discriminate.
Qed.
