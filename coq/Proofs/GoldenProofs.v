(* Lemmas about Model/Golden.v for property C20. *)
From Coq Require Import List NArith Bool Lia.
From Okv Require Import Model.Golden.
Import ListNotations.
Open Scope N_scope.

(* ---------- text equality ---------- *)

Lemma text_eqb_refl : forall a, text_eqb a a = true.
Proof. induction a; cbn; [reflexivity|]. rewrite N.eqb_refl. exact IHa. Qed.

Lemma text_eqb_eq : forall a b, text_eqb a b = true <-> a = b.
Proof.
  induction a as [|x a IH]; destruct b as [|y b]; cbn; split; intro H;
    try reflexivity; try discriminate.
  - apply andb_true_iff in H. destruct H as [H1 H2].
    apply N.eqb_eq in H1. apply IH in H2. subst. reflexivity.
  - inversion H; subst. rewrite N.eqb_refl. apply IH. reflexivity.
Qed.

Lemma str_eq_pass : forall want got, str_eq want got = Pass <-> want = got.
Proof.
  intros. unfold str_eq. destruct (text_eqb want got) eqn:E.
  - apply text_eqb_eq in E. split; auto.
  - split; [discriminate|]. intro H. apply text_eqb_eq in H. congruence.
Qed.

Lemma str_eq_panic : forall want got, str_eq want got = AssertPanic <-> want <> got.
Proof.
  intros. unfold str_eq. destruct (text_eqb want got) eqn:E.
  - apply text_eqb_eq in E. split; [discriminate|congruence].
  - split; auto. intros _ H. apply text_eqb_eq in H. congruence.
Qed.

(* ---------- normalise ---------- *)

Definition is_crlf_at (c : N) (r : text) : bool := (c =? CR) && starts_lf r.

(* one step of the scan, without the nested match *)
Lemma normalise_cons : forall c r,
  normalise (c :: r) = if is_crlf_at c r then normalise r else c :: normalise r.
Proof.
  intros c r. unfold is_crlf_at. destruct r as [|d r'].
  - cbn. rewrite andb_false_r. reflexivity.
  - cbn [normalise starts_lf]. destruct (c =? CR) eqn:Ec; cbn [andb]; [|reflexivity].
    destruct (d =? LF) eqn:Ed; [|reflexivity].
    apply N.eqb_eq in Ed. subst d.
    (* normalise (LF :: r') = LF :: normalise r' because LF <> CR *)
    destruct r' as [|e r'']; reflexivity.
Qed.

Lemma normalise_nil : normalise [] = [].
Proof. reflexivity. Qed.

Lemma normalise_crlf_head : forall b, normalise (CR :: LF :: b) = LF :: normalise b.
Proof. intros. reflexivity. Qed.

Lemma starts_lf_app_cr : forall a x, starts_lf (a ++ CR :: x) = starts_lf a.
Proof. destruct a; reflexivity. Qed.

(* every "\r\n" becomes "\n", whatever surrounds it *)
Lemma normalise_crlf : forall a b,
  normalise (a ++ [CR; LF] ++ b) = normalise a ++ [LF] ++ normalise b.
Proof.
  induction a as [|c a IH]; intro b.
  - reflexivity.
  - rewrite <- app_comm_cons. rewrite !normalise_cons.
    unfold is_crlf_at. cbn [app]. rewrite starts_lf_app_cr.
    destruct ((c =? CR) && starts_lf a).
    + apply IH.
    + cbn [app] in IH. rewrite IH. reflexivity.
Qed.

(* normalise distributes over a cut that does not separate a "\r" from its "\n" *)
Definition ends_cr (a : text) : bool :=
  match rev a with c :: _ => c =? CR | [] => false end.

Lemma ends_cr_cons : forall c a, a <> [] -> ends_cr (c :: a) = ends_cr a.
Proof.
  intros c a H. unfold ends_cr. cbn [rev].
  destruct (rev a) eqn:E.
  - apply (f_equal (@rev N)) in E. rewrite rev_involutive in E. contradiction.
  - reflexivity.
Qed.

Lemma normalise_app : forall a b,
  ends_cr a && starts_lf b = false ->
  normalise (a ++ b) = normalise a ++ normalise b.
Proof.
  induction a as [|c a IH]; intros b H.
  - reflexivity.
  - rewrite <- app_comm_cons. rewrite !normalise_cons. unfold is_crlf_at.
    destruct a as [|d a'].
    + (* a = [c] *)
      cbn [app starts_lf]. rewrite andb_false_r.
      unfold ends_cr in H. cbn in H. rewrite H. reflexivity.
    + assert (Hs : starts_lf ((d :: a') ++ b) = starts_lf (d :: a')) by reflexivity.
      rewrite Hs. rewrite ends_cr_cons in H by discriminate.
      rewrite (IH b H).
      destruct ((c =? CR) && starts_lf (d :: a')); reflexivity.
Qed.

(* a lone "\r" (not followed by "\n") and every other byte stays *)
Lemma normalise_keep : forall c r,
  is_crlf_at c r = false -> normalise (c :: r) = c :: normalise r.
Proof. intros c r H. rewrite normalise_cons, H. reflexivity. Qed.

Lemma normalise_length_le : forall s, (length (normalise s) <= length s)%nat.
Proof.
  induction s as [|c r IH]; [cbn; lia|].
  rewrite normalise_cons. destruct (is_crlf_at c r); cbn [length]; lia.
Qed.

Definition contains_crlf (s : text) : Prop := exists a b, s = a ++ [CR; LF] ++ b.

Lemma contains_crlf_cons : forall c r, contains_crlf r -> contains_crlf (c :: r).
Proof. intros c r [a [b H]]. exists (c :: a), b. subst. reflexivity. Qed.

Lemma is_crlf_at_contains : forall c r, is_crlf_at c r = true -> contains_crlf (c :: r).
Proof.
  intros c r H. unfold is_crlf_at in H. apply andb_true_iff in H. destruct H as [H1 H2].
  apply N.eqb_eq in H1. destruct r as [|d r']; [discriminate|]. cbn in H2.
  apply N.eqb_eq in H2. subst. exists [], r'. reflexivity.
Qed.

(* identity exactly on the texts without "\r\n" *)
Lemma normalise_id_iff : forall s, normalise s = s <-> ~ contains_crlf s.
Proof.
  intro s. split.
  - intros H [a [b E]]. subst s.
    assert (L : length (normalise (a ++ [CR; LF] ++ b)) = length (a ++ [CR; LF] ++ b)) by (rewrite H; reflexivity).
    rewrite normalise_crlf in L. rewrite !app_length in L. cbn [length] in L.
    pose proof (normalise_length_le a). pose proof (normalise_length_le b). lia.
  - induction s as [|c r IH]; intro H; [reflexivity|].
    rewrite normalise_cons. destruct (is_crlf_at c r) eqn:E.
    + exfalso. apply H. apply is_crlf_at_contains. exact E.
    + f_equal. apply IH. intro C. apply H. apply contains_crlf_cons. exact C.
Qed.

(* how many "\r\n" a text holds, and the length of its normal form *)
Fixpoint count_crlf (s : text) : nat :=
  match s with
  | [] => O
  | c :: r => ((if is_crlf_at c r then 1 else 0) + count_crlf r)%nat
  end.

Lemma normalise_length : forall s, (length (normalise s) + count_crlf s = length s)%nat.
Proof.
  induction s as [|c r IH]; [reflexivity|].
  rewrite normalise_cons. cbn [count_crlf]. destruct (is_crlf_at c r); cbn [length]; lia.
Qed.

(* str::replace does not iterate: "\r\r\n" becomes "\r\n".  So "no \r\n remains" is false of
   the normal form, and normalise is not idempotent. *)
Lemma normalise_not_idempotent_witness :
  normalise [CR; CR; LF] = [CR; LF] /\ normalise (normalise [CR; CR; LF]) = [LF].
Proof. split; reflexivity. Qed.

Lemma normalise_may_contain_crlf : exists s, contains_crlf (normalise s).
Proof. exists [CR; CR; LF]. exists [], []. reflexivity. Qed.

(* a "\r\n" can remain only where the source had "\r\r\n" *)
Lemma normalise_crlf_origin : forall s,
  contains_crlf (normalise s) -> exists a b, s = a ++ [CR; CR; LF] ++ b.
Proof.
  induction s as [|c r IH]; intros [a [b E]].
  - destruct a; discriminate.
  - rewrite normalise_cons in E. destruct (is_crlf_at c r) eqn:Ec.
    + destruct IH as [a' [b' E']]. { exists a, b. exact E. }
      exists (c :: a'), b'. subst r. reflexivity.
    + destruct a as [|x a'].
      * (* the remaining "\r\n" starts at c: c = CR kept, and normalise r starts with LF *)
        cbn [app] in E. injection E as Ec' Er. subst c.
        unfold is_crlf_at in Ec. rewrite N.eqb_refl in Ec. cbn [andb] in Ec.
        destruct r as [|d r']; [discriminate|].
        rewrite normalise_cons in Er. cbn [starts_lf] in Ec.
        destruct (is_crlf_at d r') eqn:Ed.
        -- (* d = CR followed by LF: the source is CR CR LF ... *)
           unfold is_crlf_at in Ed. apply andb_true_iff in Ed. destruct Ed as [Ed1 Ed2].
           apply N.eqb_eq in Ed1. subst d. destruct r' as [|e r'']; [discriminate|].
           cbn in Ed2. apply N.eqb_eq in Ed2. subst e.
           exists [], r''. reflexivity.
        -- injection Er as Ed' _. subst d. discriminate.
      * cbn [app] in E. injection E as Ex Er. subst x.
        destruct IH as [a'' [b'' E'']]. { exists a', b. exact Er. }
        exists (c :: a''), b''. subst r. reflexivity.
Qed.

(* ---------- the helper ---------- *)

Lemma update_iff_env_nonempty : forall w,
  is_update_golden w = true <-> exists c r, env w = Some (c :: r).
Proof.
  intro w. unfold is_update_golden. destruct (env w) as [[|c r]|]; split; intro H;
    try discriminate; try reflexivity.
  - destruct H as [c [r H]]. discriminate.
  - exists c, r. reflexivity.
  - destruct H as [c [r H]]. discriminate.
Qed.

Lemma new_never_writes : forall w, fst (golden_new w) = w.
Proof.
  intro w. unfold golden_new. destruct (read_as_utf8 w); [reflexivity|].
  destruct (is_update_golden w); reflexivity.
Qed.

Lemma new_present : forall w c,
  file w = Some c -> golden_new w = (w, NewOk {| g_content := normalise c |}).
Proof. intros w c H. unfold golden_new, read_as_utf8. rewrite H. reflexivity. Qed.

Lemma new_missing : forall w,
  file w = None ->
  golden_new w = (w, if is_update_golden w then NewOk {| g_content := [] |} else NewErr NotFound).
Proof.
  intros w H. unfold golden_new, read_as_utf8. rewrite H.
  destruct (is_update_golden w); reflexivity.
Qed.

Lemma missing_is_error : forall w,
  is_update_golden w = false -> file w = None -> golden_new w = (w, NewErr NotFound).
Proof. intros w U H. rewrite new_missing by exact H. rewrite U. reflexivity. Qed.

Lemma assert_no_update : forall w g got,
  is_update_golden w = false ->
  golden_assert w g got = (w, str_eq (g_content g) got).
Proof. intros w g got U. unfold golden_assert. rewrite U. reflexivity. Qed.

Lemma assert_update : forall w g got,
  is_update_golden w = true ->
  golden_assert w g got = (write_file w got, Pass).
Proof.
  intros w g got U. unfold golden_assert. rewrite U. unfold str_eq.
  rewrite text_eqb_refl. reflexivity.
Qed.

(* C20_assert_iff *)
Lemma assert_iff : forall w c got,
  is_update_golden w = false -> file w = Some c ->
  exists g, golden_new w = (w, NewOk g) /\
            (snd (golden_assert w g got) = Pass <-> got = normalise c) /\
            (snd (golden_assert w g got) = AssertPanic <-> got <> normalise c).
Proof.
  intros w c got U F. exists {| g_content := normalise c |}. split; [apply new_present; exact F|].
  rewrite assert_no_update by exact U. cbn [snd g_content]. split.
  - rewrite str_eq_pass. split; intro; congruence.
  - rewrite str_eq_panic. split; intros H E; apply H; congruence.
Qed.

(* C20_no_write *)
Lemma no_write : forall w,
  is_update_golden w = false ->
  fst (golden_new w) = w /\ forall g got, fst (golden_assert w g got) = w.
Proof.
  intros w U. split; [apply new_never_writes|].
  intros g got. rewrite assert_no_update by exact U. reflexivity.
Qed.

(* the same for a whole session whose environment stays non-updating *)
Lemma session_no_write : forall w e got,
  is_update_golden w = false -> is_update_golden (set_env w e) = false ->
  file (fst (session w e got)) = file w.
Proof.
  intros w e got U1 U2. unfold session.
  pose proof (new_never_writes w) as Hn. destruct (golden_new w) as [w1 [g|er]]; cbn [fst] in Hn; subst w1.
  - rewrite assert_no_update by exact U2. reflexivity.
  - reflexivity.
Qed.

(* C20_update_writes *)
Lemma update_writes : forall w g got,
  is_update_golden w = true ->
  file (fst (golden_assert w g got)) = Some got /\ snd (golden_assert w g got) = Pass /\
  env (fst (golden_assert w g got)) = env w.
Proof. intros w g got U. rewrite assert_update by exact U. repeat split. Qed.

(* with the variable set, new succeeds whether or not the file exists, so the session always
   reaches the write *)
Lemma session_update : forall w got,
  is_update_golden w = true ->
  session w (env w) got = (write_file w got, SAsserted Pass).
Proof.
  intros w got U. unfold session.
  assert (E : set_env w (env w) = w) by (destruct w; reflexivity).
  unfold golden_new. destruct (read_as_utf8 w); [|rewrite U]; rewrite E, assert_update by exact U; reflexivity.
Qed.

(* C20_env_empty_is_unset *)
Lemma env_empty_is_unset : forall f,
  let we := {| file := f; env := Some [] |} in
  let wn := {| file := f; env := None |} in
  is_update_golden we = false /\
  snd (golden_new we) = snd (golden_new wn) /\
  (forall g got, snd (golden_assert we g got) = snd (golden_assert wn g got) /\
                 file (fst (golden_assert we g got)) = f) /\
  (forall got, snd (session we (Some []) got) = snd (session wn None got) /\
               file (fst (session we (Some []) got)) = f).
Proof.
  intros f we wn. split; [reflexivity|]. split; [destruct f; reflexivity|]. split.
  - intros g got. split; reflexivity.
  - intro got. destruct f; split; reflexivity.
Qed.

(* the whole property in one statement about a session with a fixed environment *)
Lemma session_spec : forall w got,
  session w (env w) got =
    if is_update_golden w then (write_file w got, SAsserted Pass)
    else match file w with
         | None => (w, SNewErr NotFound)
         | Some c => (w, SAsserted (if text_eqb (normalise c) got then Pass else AssertPanic))
         end.
Proof.
  intros w got. destruct (is_update_golden w) eqn:U.
  - apply session_update. exact U.
  - unfold session. assert (E : set_env w (env w) = w) by (destruct w; reflexivity).
    destruct (file w) as [c|] eqn:F.
    + rewrite (new_present w c F). rewrite E. rewrite assert_no_update by exact U. reflexivity.
    + rewrite (missing_is_error w U F). reflexivity.
Qed.

(* ---------- the hypotheses are satisfiable ---------- *)

Example ex_pass :
  session {| file := Some [97; CR; LF; 98]; env := None |} None [97; LF; 98]
  = ({| file := Some [97; CR; LF; 98]; env := None |}, SAsserted Pass).
Proof. reflexivity. Qed.

Example ex_crlf_in_got_fails :
  snd (session {| file := Some [97; CR; LF]; env := None |} None [97; CR; LF]) = SAsserted AssertPanic.
Proof. reflexivity. Qed.

Example ex_lone_cr_kept :
  snd (session {| file := Some [97; CR; 98]; env := None |} None [97; CR; 98]) = SAsserted Pass.
Proof. reflexivity. Qed.

Example ex_missing :
  session {| file := None; env := Some [] |} (Some []) [97] = ({| file := None; env := Some [] |}, SNewErr NotFound).
Proof. reflexivity. Qed.

Example ex_update_creates :
  session {| file := None; env := Some [49] |} (Some [49]) [97] = ({| file := Some [97]; env := Some [49] |}, SAsserted Pass).
Proof. reflexivity. Qed.

(* ---- the rest of the directory ---- *)
Lemma dir_new_others : forall d, others (fst (dir_new d)) = others d.
Proof. intros d. unfold dir_new. destruct (golden_new (dw d)). reflexivity. Qed.

Lemma dir_assert_others : forall d g got, others (fst (dir_assert d g got)) = others d.
Proof. intros d g got. unfold dir_assert. destruct (golden_assert (dw d) g got). reflexivity. Qed.

Lemma dir_session_others : forall d e got, others (fst (dir_session d e got)) = others d.
Proof. intros d e got. unfold dir_session. destruct (session (dw d) e got). reflexivity. Qed.

Lemma dir_session_path : forall d e got,
  dw (fst (dir_session d e got)) = fst (session (dw d) e got) /\
  snd (dir_session d e got) = snd (session (dw d) e got).
Proof. intros d e got. unfold dir_session. destruct (session (dw d) e got). split; reflexivity. Qed.

Lemma dir_untouched_all : forall d e got g,
  others (fst (dir_new d)) = others d /\
  others (fst (dir_assert d g got)) = others d /\
  others (fst (dir_session d e got)) = others d /\
  dw (fst (dir_session d e got)) = fst (session (dw d) e got) /\
  snd (dir_session d e got) = snd (session (dw d) e got).
Proof.
  intros d e got g. split; [apply dir_new_others|]. split; [apply dir_assert_others|].
  split; [apply dir_session_others|]. apply dir_session_path.
Qed.

Example dir_session_keeps_actual :
  dir_session {| dw := {| file := Some [97]; env := None |}; others := [([120], [121])] |} None [98]
  = ({| dw := {| file := Some [97]; env := None |}; others := [([120], [121])] |}, SAsserted AssertPanic).
Proof. reflexivity. Qed.
