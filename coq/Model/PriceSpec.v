(* Declarative side of C09: the price graph as of a date, walks with their distance and
   rate, the brute-force optimum over simple paths, and the edges read directly off the
   list of price events (independent of insert_price / build / partition_point). *)
From Coq Require Import List NArith ZArith Bool QArith Qcanon.
From Okv Require Import Base.Maps Base.Dec Model.Amount Model.Book Model.PriceDb.
Import ListNotations.
Open Scope Qc_scope.

Fixpoint omap {A B} (f : A -> option B) (l : list A) : list B :=
  match l with
  | [] => []
  | x :: r => match f x with Some y => y :: omap f r | None => omap f r end
  end.

(* the graph compute_price_table walks: edges out of c as of `date` *)
Definition out_edges (recs : records) (date : Z) (c : cid) : list edge :=
  match get c recs with
  | None => []
  | Some inn => omap (edge_of date) inn
  end.

Definition dist_le (a b : dist) : Prop := dist_leb a b = true.
Definition dist_lt (a b : dist) : Prop := dist_ltb a b = true.

Definition cmem (c : cid) (l : list cid) : bool := existsb (N.eqb c) l.
Fixpoint dedup (l : list cid) : list cid :=
  match l with
  | [] => []
  | x :: r => if cmem x r then dedup r else x :: dedup r
  end.

Section Graph.
  Variable out : cid -> list edge.

  (* w is a chain of edges from a to b *)
  Fixpoint is_walk (a : cid) (w : list edge) (b : cid) : Prop :=
    match w with
    | [] => a = b
    | e :: r => In e (out a) /\ is_walk (e_to e) r b
    end.

  Definition walk_dist_from (d : dist) (w : list edge) : dist :=
    fold_left (fun d e => extend d (e_src e) (e_stale e)) w d.
  Definition walk_dist (w : list edge) : dist := walk_dist_from dist0 w.
  Definition walk_rate (w : list edge) : Qc := fold_left (fun r e => r * e_rate e) w 1.

  (* commodities visited by a walk starting at a, the start included *)
  Definition walk_nodes (a : cid) (w : list edge) : list cid := a :: map e_to w.
  Definition simple (a : cid) (w : list edge) : Prop := NoDup (walk_nodes a w).

  (* every simple path of at most n edges that starts at a and avoids `seen`, with its end *)
  Fixpoint spaths (n : nat) (seen : list cid) (a : cid) : list (cid * list edge) :=
    (a, []) ::
    match n with
    | O => []
    | S k => flat_map (fun e => if cmem (e_to e) (a :: seen) then []
                                else map (fun p => (fst p, e :: snd p)) (spaths k (a :: seen) (e_to e)))
                      (out a)
    end.

  (* simple paths from `target` to c with at least one edge, at most n *)
  Definition paths_to (n : nat) (target c : cid) : list (list edge) :=
    omap (fun p => if (fst p =? c)%N then match snd p with [] => None | _ => Some (snd p) end else None)
         (spaths n [] target).

  Definition min_dist (ws : list (list edge)) : option dist :=
    fold_left (fun m w => match m with
                          | None => Some (walk_dist w)
                          | Some d => if dist_ltb (walk_dist w) d then Some (walk_dist w) else Some d
                          end) ws None.

  (* the least distance of a chain from target to c (c <> target), None when there is none *)
  Definition best (n : nat) (target c : cid) : option dist := min_dist (paths_to n target c).

  (* the rates of all optimal chains: a singleton unless there is a genuine tie *)
  Definition best_rates (n : nat) (target c : cid) : list Qc :=
    match best n target c with
    | None => []
    | Some d => omap (fun w => match dist_cmp (walk_dist w) d with Eq => Some (walk_rate w) | _ => None end)
                     (paths_to n target c)
    end.
End Graph.

(* ---- edges straight from the events ---- *)

(* what one event says about the price of o in w: (date, how many w one o is worth) *)
Definition ev_rates (w o : cid) (e : price_event) : list (Z * Qc) :=
  if qc_zero (e_xv e) || qc_zero (e_yv e) then [] else
  (if (e_yc e =? w)%N && (e_xc e =? o)%N then [(e_date e, e_yv e / e_xv e)] else []) ++
  (if (e_xc e =? w)%N && (e_yc e =? o)%N then [(e_date e, e_xv e / e_yv e)] else []).

(* price-DB records replace the ledger-derived ones of the same ordered pair *)
Definition pair_records (evs : list price_event) (db : list pline) (w o : cid) : source * list (Z * Qc) :=
  match flat_map (ev_rates w o) (map pline_event db) with
  | [] => (SLedger, flat_map (ev_rates w o) evs)
  | rs => (SPriceDB, rs)
  end.

(* the latest record dated <= D; among several of that day, the greatest rate *)
Definition spec_as_of (rs : list (Z * Qc)) (D : Z) : option (Z * Qc) :=
  fold_left (fun best x => if (fst x <=? D)%Z
                           then match best with
                                | None => Some x
                                | Some b => if dr_leb b x then Some x else Some b
                                end
                           else best) rs None.

Definition spec_edge (evs : list price_event) (db : list pline) (D : Z) (w o : cid) : option edge :=
  let '(src, rs) := pair_records evs db w o in
  match spec_as_of rs D with
  | None => None
  | Some (d, r) => Some {| e_to := o; e_src := src; e_stale := D - d; e_rate := r |}
  end.

Definition spec_out (evs : list price_event) (db : list pline) (universe : list cid) (D : Z) (w : cid) : list edge :=
  omap (spec_edge evs db D w) universe.

(* commodities mentioned by the events *)
Definition ev_comms (evs : list price_event) (db : list pline) : list cid :=
  dedup (flat_map (fun e => [e_xc e; e_yc e]) (evs ++ map pline_event db)).

(* the price graph read off the events, and the optimal rates of "one c in target" as of D
   ([] = no chain): what the correspondence check compares the implementation with *)
Definition spec_graph (evs : list price_event) (db : list pline) (D : Z) : cid -> list edge :=
  spec_out evs db (ev_comms evs db) D.
Definition spec_rates (evs : list price_event) (db : list pline) (D : Z) (target c : cid) : list Qc :=
  best_rates (spec_graph evs db D) (length (ev_comms evs db)) target c.
