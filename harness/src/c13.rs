//! C13: determinism.  The freshly built okane binary is run N times in fresh processes per
//! (input, command); all (exit, stdout, stderr) triples must be identical, and what the
//! first run printed must be what the model's render functions say, in printing order.
use crate::cli::Scratch;
use crate::coq::{self, Shards, Stats};
use crate::ledger::*;
use crate::prng::Rng;
use crate::Opts;
use rust_decimal::Decimal;
use serde_json::json;
use std::collections::HashSet;
use std::process::Command;

struct RunOut {
    code: i32,
    stdout: String,
    stderr: String,
}

fn run_bin(bin: &str, args: &[String]) -> RunOut {
    let o = Command::new(bin)
        .args(args)
        .env_clear()
        .env("RUST_BACKTRACE", "0")
        .output()
        .expect("spawn okane");
    RunOut {
        code: o.status.code().unwrap_or(-1),
        stdout: String::from_utf8_lossy(&o.stdout).into_owned(),
        stderr: String::from_utf8_lossy(&o.stderr).into_owned(),
    }
}

/// "0" | "v C" | "(v C + v C)" -> sequence in printed order
fn parse_seq(s: &str) -> Vec<(usize, Decimal)> {
    let s = s.trim();
    let mut out = Vec::new();
    if s == "0" {
        return out;
    }
    let body = s.trim_start_matches('(').trim_end_matches(')');
    for part in body.split(" + ") {
        let mut it = part.trim().splitn(2, ' ');
        let v = it.next().unwrap_or("0");
        let c = it.next().unwrap_or("");
        if let Ok(d) = v.parse::<Decimal>() {
            out.push((COMMODITIES.iter().position(|x| *x == c).unwrap_or(999), d));
        }
    }
    out
}

fn strip_ansi(s: &str) -> String {
    let mut out = String::new();
    let mut it = s.chars().peekable();
    while let Some(c) = it.next() {
        if c == '\u{1b}' {
            // ESC [ ... letter
            for d in it.by_ref() {
                if d.is_ascii_alphabetic() {
                    break;
                }
            }
        } else {
            out.push(c);
        }
    }
    out
}

fn seq_term(s: &[(usize, Decimal)]) -> String {
    coq::list(s.iter().map(|(c, v)| format!("({}, {})", c, dec_term(v))))
}

fn account_id(s: &str) -> usize {
    ACCOUNTS.iter().position(|a| *a == s).unwrap_or(999)
}

/// split "Account name amount-text" where the account has no spaces in our generator
fn split_first_space(l: &str) -> (&str, &str) {
    match l.find(' ') {
        Some(i) => (&l[..i], &l[i + 1..]),
        None => (l, ""),
    }
}

/// an inline amount is either "0", "v C" or "( ... )": cut the first one off the front
fn take_inline(s: &str) -> (&str, &str) {
    let s = s.trim_start();
    if s.starts_with('(') {
        match s.find(')') {
            Some(i) => (&s[..=i], &s[i + 1..]),
            None => (s, ""),
        }
    } else if s.starts_with("0 ") || s == "0" {
        // "0" followed by the next amount, or "0 C"?  commodities never start with '(' or a digit
        let rest = &s[1..];
        let next = rest.trim_start();
        if next.is_empty() || next.starts_with('(') || next.starts_with('-') || next.chars().next().map(|c| c.is_ascii_digit()).unwrap_or(false) {
            ("0", rest)
        } else {
            // "0 USD ..."
            let mut it = next.splitn(2, ' ');
            let c = it.next().unwrap_or("");
            let after = it.next().unwrap_or("");
            (&s[..1 + (rest.len() - next.len()) + c.len()], after)
        }
    } else {
        // v C
        let mut parts = s.splitn(3, ' ');
        let v = parts.next().unwrap_or("");
        let c = parts.next().unwrap_or("");
        let rest = parts.next().unwrap_or("");
        (&s[..v.len() + 1 + c.len()], rest)
    }
}

pub fn run(o: &Opts) {
    let bin = std::env::var("OKV_OKANE_BIN").expect("OKV_OKANE_BIN");
    let mut st = Stats::new();
    let mut sh = Shards::new(&o.out, o.shards, &header("Classify_C13"));
    let n_runs = if o.thorough { 20 } else { 5 };
    st.rule = format!("generated ledgers biased to multi-commodity accounts, multi-commodity residuals and expression amounts; for each, `okane balance|register|accounts|format` (+ import of the repository's statement samples) run in {} fresh processes (fresh hash keys each); a case is one ledger with all its commands; non-trivial = some printed amount or error carried >= 2 commodities; distinct by ledger text", n_runs);
    st.assumptions.push("the clock is an input: no command that reads today's date is run without --now".into());
    let scratch = Scratch::new("c13");
    let (corpus, replay) = corpus_entries(&o.corpus, &o.extra);
    let mut r = Rng::new(o.seed, 113);
    let n = if replay { 0 } else if o.thorough { 600 } else { 110 };
    let mut ledgers: Vec<(Vec<Entry>, &str)> = corpus.into_iter().map(|e| (e, "corpus")).collect();
    for k in 0..n {
        let mut b = Bias::default_bias();
        b.max_txns = 6;
        b.expr_pct = 20;
        b.assert_pct = 5;
        b.wrong_assert_pct = 0;
        b.unbalanced_pct = if k % 3 == 0 { 70 } else { 5 };
        b.omit_pct = 45;
        ledgers.push((gen_ledger(&mut r, &b), "random"));
    }
    for (idx, (es, tag)) in ledgers.iter().enumerate() {
        let rd = render(es);
        let path = scratch.write(&format!("l{}.ledger", idx), &rd.text);
        let p = path.to_string_lossy().to_string();
        let mut runs_terms = Vec::new();
        let mut multi = false;
        let mut rep_runs = Vec::new();
        for cmd in ["balance", "register", "accounts", "format"] {
            let args = vec![cmd.to_string(), p.clone()];
            let mut seen: HashSet<(i32, String, String)> = HashSet::new();
            let mut first: Option<RunOut> = None;
            for _ in 0..n_runs {
                let out = run_bin(&bin, &args);
                seen.insert((out.code, out.stdout.clone(), out.stderr.clone()));
                if first.is_none() {
                    first = Some(out);
                }
            }
            let first = first.unwrap();
            st.count(&format!("cmd:{}:{}", cmd, if first.code == 0 { "ok" } else { "fail" }));
            if seen.len() > 1 {
                st.count("nondeterministic");
            }
            let out_term = if first.code == 0 && cmd == "balance" {
                let lines: Vec<String> = first
                    .stdout
                    .lines()
                    .map(|l| {
                        let (a, rest) = l.split_once(": ").unwrap_or((l, ""));
                        let s = parse_seq(rest);
                        if s.len() >= 2 {
                            multi = true;
                        }
                        format!("({}, {})", account_id(a), seq_term(&s))
                    })
                    .collect();
                format!("(OBalance {})", coq::list(lines))
            } else if first.code == 0 && cmd == "register" {
                let lines: Vec<String> = first
                    .stdout
                    .lines()
                    .map(|l| {
                        let (a, rest) = split_first_space(l);
                        let (x, rest2) = take_inline(rest);
                        let (t, _) = take_inline(rest2);
                        let (sx, stt) = (parse_seq(x), parse_seq(t));
                        if sx.len() >= 2 || stt.len() >= 2 {
                            multi = true;
                        }
                        format!("({}, {}, {})", account_id(a), seq_term(&sx), seq_term(&stt))
                    })
                    .collect();
                format!("(ORegister {})", coq::list(lines))
            } else if first.code != 0 && cmd == "balance" && first.stderr.contains("unbalanced postings: ") {
                let plain = strip_ansi(&first.stderr);
                let line = plain.lines().find(|l| l.contains("unbalanced postings: ")).unwrap_or("");
                let txt = line.split("unbalanced postings: ").nth(1).unwrap_or("");
                let s = parse_seq(txt);
                if s.len() >= 2 {
                    multi = true;
                }
                format!("(OUnbalanced {})", seq_term(&s))
            } else {
                "OOpaque".to_string()
            };
            runs_terms.push(format!("(R {} {} {})", seen.len(), coq::bool_(first.code == 0), out_term));
            rep_runs.push(json!({"cmd": cmd, "distinct_outputs": seen.len(), "exit": first.code,
                                 "stdout": first.stdout.chars().take(600).collect::<String>(),
                                 "stderr": first.stderr.chars().take(600).collect::<String>()}));
        }
        st.eval(&rd.text, multi);
        st.count(&format!("gen:{}", tag));
        let rep = json!({"property": "C13", "ledger": rd.text, "runs": rep_runs, "entries": serde_json::to_value(es).unwrap(),
                         "reproduce": format!("run each command {} times on the ledger and diff the outputs", n_runs)});
        if st.samples.len() < 3 {
            st.sample(rep.clone(), 3);
        }
        sh.push(format!("C {} {}", coq::list(es.iter().map(entry_term)), coq::list(runs_terms)), vec![rep]);
    }
    // import: the repository's own statement samples, N fresh processes each (no model: opaque)
    if !replay {
        let base = format!("{}/cli/tests/testdata/import", std::env::var("OKV_REPO").unwrap_or_else(|_| "/repo".to_string()));
        for f in ["csv_multi_currency.csv", "csv_template.csv", "index_amount.csv", "label_credit_debit.csv", "iso_camt.xml", "viseca.txt"] {
            let args = vec!["import".to_string(), "--config".to_string(), format!("{}/test_config.yml", base), format!("{}/{}", base, f)];
            let mut seen: HashSet<(i32, String, String)> = HashSet::new();
            let mut code = 0;
            for _ in 0..n_runs.max(8) {
                let out = run_bin(&bin, &args);
                code = out.code;
                seen.insert((out.code, out.stdout, out.stderr));
            }
            st.eval(&f.to_string(), true);
            st.count(&format!("cmd:import:{}", if code == 0 { "ok" } else { "fail" }));
            let rep = json!({"property": "C13", "import": f, "distinct_outputs": seen.len()});
            sh.push(format!("C [] [R {} {} OOpaque]", seen.len(), coq::bool_(code == 0)), vec![rep]);
        }
    }
    // import with generated configurations: rules whose matcher combines several fields, each
    // with named groups, so that any order dependence between fields would show
    if !replay {
        let n_imp = if o.thorough { 60 } else { 12 };
        for k in 0..n_imp {
            let pats_payee = ["Card (?P<code>\\d+) (?P<payee>.*)", "Card", "(?P<payee>Migros|SBB).*", "Card \\d+ (?P<payee>\\w+)"];
            let pats_cat = ["POS (?P<code>\\d+) (?P<payee>.*)", "POS", "(?P<code>\\d+)", "POS \\d+ (?P<payee>\\w+)"];
            let mut yml = String::from("path: stmt\nencoding: UTF-8\naccount: Assets:Bank\naccount_type: asset\ncommodity: CHF\nformat:\n  date: \"%Y-%m-%d\"\n  fields:\n    date: Date\n    payee: Description\n    category: Reference\n    amount: Amount\nrewrite:\n");
            let n_rules = 1 + r.below(3);
            for _ in 0..n_rules {
                yml.push_str("  - matcher:\n");
                let both = r.chance(2, 3);
                if both || r.chance(1, 2) {
                    yml.push_str(&format!("      payee: {}\n", r.pick(&pats_payee)));
                    if both {
                        yml.push_str(&format!("      category: {}\n", r.pick(&pats_cat)));
                    }
                } else {
                    yml.push_str(&format!("      category: {}\n", r.pick(&pats_cat)));
                }
                if r.chance(2, 3) {
                    yml.push_str(&format!("    account: Expenses:R{}\n", r.below(4)));
                }
                if r.chance(1, 3) {
                    yml.push_str("    pending: true\n");
                }
            }
            let csv = "Date,Description,Reference,Amount\n2024-04-02,Card 4711 Migros Zurich,POS 900123 MIGROS ZH,-45.80\n2024-04-03,Salary April,WIRE 77 ACME AG,5200.00\n2024-04-05,Card 4711 SBB Ticket Shop,POS 900456 SBB CFF FFS,-23.00\n2024-04-06,Card 12 Coop,OTHER 1 X,-3.00\n";
            let cfg = scratch.write(&format!("imp{}/config.yml", k), &yml);
            let src = scratch.write(&format!("imp{}/stmt.csv", k), csv);
            let args = vec!["import".to_string(), "--config".to_string(), cfg.to_string_lossy().to_string(), src.to_string_lossy().to_string()];
            let mut seen: HashSet<(i32, String, String)> = HashSet::new();
            let mut code = 0;
            for _ in 0..n_runs.max(10) {
                let out = run_bin(&bin, &args);
                code = out.code;
                seen.insert((out.code, out.stdout, out.stderr));
            }
            st.eval(&yml, true);
            st.count(&format!("cmd:import-generated:{}", if code == 0 { "ok" } else { "fail" }));
            let rep = json!({"property": "C13", "import_config": yml, "statement": csv, "distinct_outputs": seen.len(),
                             "reproduce": "okane import --config config.yml stmt.csv, repeated in fresh processes"});
            sh.push(format!("C [] [R {} {} OOpaque]", seen.len(), coq::bool_(code == 0)), vec![rep]);
        }
    }
    // names that differ only in letter case, or only in a trailing character: any
    // "normalising" sort key would tie them and fall back to hash order
    if !replay {
        let n_names = if o.thorough { 30 } else { 8 };
        let variants = [
            ["Expenses:Food", "Expenses:food", "expenses:Food", "EXPENSES:FOOD"],
            ["Assets:Bank", "Assets:bank", "Assets:Bank ", "Assets:BANK"],
            ["Income:Job", "income:job", "Income:JOB", "INCOME:Job"],
        ];
        for k in 0..n_names {
            let set = &variants[k % variants.len()];
            let mut names: Vec<String> = set.iter().map(|s| s.trim_end().to_string()).collect();
            names.dedup();
            r.shuffle(&mut names);
            let mut ledger = String::from("2020/01/05 open\n");
            for (i, n) in names.iter().enumerate() {
                ledger.push_str(&format!("    {}  {} USD\n", n, 1 + i + k));
                if i % 2 == 0 {
                    ledger.push_str(&format!("    {}  {} EUR\n", n, 2 + i));
                }
            }
            ledger.push_str("    Equity:Opening\n");
            let lp = scratch.write(&format!("names{}/l.ledger", k), &ledger);
            for cmd in ["accounts", "balance", "register"] {
                let args = vec![cmd.to_string(), lp.to_string_lossy().to_string()];
                let mut seen: HashSet<(i32, String, String)> = HashSet::new();
                let mut code = 0;
                for _ in 0..n_runs.max(12) {
                    let out = run_bin(&bin, &args);
                    code = out.code;
                    seen.insert((out.code, out.stdout, out.stderr));
                }
                st.eval(&(ledger.clone(), cmd), true);
                st.count(&format!("cmd:case-variants-{}:{}", cmd, if code == 0 { "ok" } else { "fail" }));
                let rep = json!({"property": "C13", "ledger": ledger, "args": args, "distinct_outputs": seen.len(),
                                 "reproduce": "run the command repeatedly in fresh processes and diff"});
                sh.push(format!("C [] [R {} {} OOpaque]", seen.len(), coq::bool_(code == 0)), vec![rep]);
            }
        }
    }
    // error paths and implied exchanges whose outcome must not depend on map order
    if !replay {
        let n_fix = if o.thorough { 24 } else { 8 };
        let comm = ["AAPL", "CHF", "EUR", "JPY", "USD"];
        for k in 0..n_fix {
            let a = comm[k % 5];
            let b = comm[(k + 1 + r.below(3) as usize) % 5];
            if a == b {
                continue;
            }
            let v1 = 1000 + r.below(900);
            let v2 = v1 + 50 + r.below(40) * 3 + 1; // ratio without a finite decimal expansion, usually
            let scenarios = [
                // several commodities that all cancel inside one posting expression (ill-typed)
                (format!("2020/01/05 t\n    Assets:Bank  (10 {a} - 10 {a} + 5 {b} - 5 {b})\n    Equity:Opening\n", a = a, b = b), vec!["register", "balance"], None),
                // implied exchange with a non-terminating ratio, then converted both ways
                (format!("2020/01/05 t\n    Assets:Bank  -{v1}.00 {a}\n    Assets:Cash  {v2}.00 {b}\n\n2020/01/06 u\n    Assets:Cash  4000 {a}\n    Equity:Opening\n", a = a, b = b, v1 = v1, v2 = v2), vec!["balance"], Some((a, b))),
                // three-commodity residual without an omitted amount
                (format!("2020/01/05 t\n    Assets:Bank  50 {a}\n    Assets:Cash  20 {b}\n    Income:Job  -60 {c}\n", a = a, b = b, c = comm[(k + 4) % 5]), vec!["balance", "register"], None),
            ];
            for (si, (ledger, cmds, conv)) in scenarios.iter().enumerate() {
                let lp = scratch.write(&format!("fix{}_{}/l.ledger", k, si), ledger);
                let mut argsets: Vec<Vec<String>> = cmds.iter().map(|c| vec![c.to_string(), lp.to_string_lossy().to_string()]).collect();
                if let Some((x, y)) = conv {
                    for t in [x, y] {
                        argsets.push(vec!["balance".to_string(), lp.to_string_lossy().to_string(), "-X".to_string(), t.to_string(), "--now".to_string(), "2020-02-01".to_string()]);
                    }
                }
                for args in argsets {
                    let mut seen: HashSet<(i32, String, String)> = HashSet::new();
                    let mut code = 0;
                    for _ in 0..n_runs.max(16) {
                        let out = run_bin(&bin, &args);
                        code = out.code;
                        seen.insert((out.code, out.stdout, out.stderr));
                    }
                    st.eval(&(ledger.clone(), args.clone()), true);
                    st.count(&format!("cmd:order-sensitive-scenario{}:{}", si, if code == 0 { "ok" } else { "fail" }));
                    let rep = json!({"property": "C13", "ledger": ledger, "args": args, "distinct_outputs": seen.len(),
                                     "reproduce": "run the command repeatedly in fresh processes and diff"});
                    sh.push(format!("C [] [R {} {} OOpaque]", seen.len(), coq::bool_(code == 0)), vec![rep]);
                }
            }
        }
    }
    // conversions: equally good chains with different rates, and several missing rates
    if !replay {
        let n_conv = if o.thorough { 40 } else { 10 };
        let comm = ["AAPL", "CHF", "EUR", "JPY", "USD"];
        for k in 0..n_conv {
            let a = comm[(k + r.below(5) as usize) % 5];
            let others: Vec<&str> = comm.iter().copied().filter(|c| *c != a).collect();
            let (m1, m2, t) = (others[0], others[1], others[2]);
            // a -> m1 -> t and a -> m2 -> t on the same day: a genuine tie with different products
            let db = format!(
                "P 2020/01/11 {a} {r1} {m1}\nP 2020/01/11 {m1} {r2} {t}\nP 2020/01/11 {a} {r3} {m2}\nP 2020/01/11 {m2} {r4} {t}\n",
                a = a, m1 = m1, m2 = m2, t = t, r1 = 80 + r.below(5), r2 = "1.25", r3 = 50 + r.below(5), r4 = 4
            );
            let ledger = format!(
                "2020/01/05 open\n    Assets:Bank  10 {a}\n    Assets:Cash  3 {m1}\n    Assets:Cash  7 {m2}\n    Liabilities:Card  -2 {m1}\n    Income:Job  1 {t}\n    Equity:Opening\n",
                a = a, m1 = m1, m2 = m2, t = t
            );
            let lp = scratch.write(&format!("conv{}/l.ledger", k), &ledger);
            let dbp = scratch.write(&format!("conv{}/prices.db", k), &db);
            for (tag, args) in [
                ("tie", vec!["balance".to_string(), lp.to_string_lossy().to_string(), "-X".to_string(), t.to_string(), "--now".to_string(), "2020-02-01".to_string(), "--price-db".to_string(), dbp.to_string_lossy().to_string()]),
                ("missing", vec!["balance".to_string(), lp.to_string_lossy().to_string(), "-X".to_string(), t.to_string(), "--now".to_string(), "2020-02-01".to_string()]),
                ("eval-tie", vec!["primitive".to_string(), "eval".to_string(), "--date".to_string(), "2020-02-01".to_string(), "-f".to_string(), lp.to_string_lossy().to_string(), "-X".to_string(), t.to_string(), "--price-db".to_string(), dbp.to_string_lossy().to_string(), format!("1 {}", a)]),
            ] {
                let mut seen: HashSet<(i32, String, String)> = HashSet::new();
                let mut code = 0;
                let mut first_err = String::new();
                for _ in 0..n_runs.max(12) {
                    let out = run_bin(&bin, &args);
                    code = out.code;
                    if first_err.is_empty() {
                        first_err = strip_ansi(&out.stderr).chars().take(200).collect();
                    }
                    seen.insert((out.code, out.stdout, out.stderr));
                }
                st.eval(&(ledger.clone(), db.clone(), tag), true);
                st.count(&format!("cmd:convert-{}:{}", tag, if code == 0 { "ok" } else { "fail" }));
                let rep = json!({"property": "C13", "ledger": ledger, "price_db": db, "args": args, "distinct_outputs": seen.len(), "stderr": first_err,
                                 "reproduce": "run the command repeatedly in fresh processes and diff"});
                sh.push(format!("C [] [R {} {} OOpaque]", seen.len(), coq::bool_(code == 0)), vec![rep]);
            }
        }
        // Camt053: one rule whose matcher has several capturing fields
        let base = format!("{}/cli/tests/testdata/import", std::env::var("OKV_REPO").unwrap_or_else(|_| "/repo".to_string()));
        if let Ok(xml) = std::fs::read_to_string(format!("{}/iso_camt.xml", base)) {
            let fields = ["creditor_name", "debtor_name", "ultimate_debtor_name", "additional_transaction_info", "remittance_unstructured_info", "additional_entry_info"];
            let n_camt = if o.thorough { 20 } else { 6 };
            for k in 0..n_camt {
                let mut fs: Vec<&str> = fields.to_vec();
                r.shuffle(&mut fs);
                fs.truncate(2 + r.below(2) as usize);
                let mut yml = String::from("path: iso_camt.xml\nencoding: UTF-8\naccount: Assets:Okane Bank\naccount_type: asset\noperator: Okane Bank (fee)\ncommodity: CHF\nrewrite:\n  - matcher:\n");
                for f in &fs {
                    yml.push_str(&format!("      {}: \"(?P<payee>.*)\"\n", f));
                }
                yml.push_str("    account: Expenses:Any\n");
                let cfg = scratch.write(&format!("camt{}/config.yml", k), &yml);
                let src = scratch.write(&format!("camt{}/iso_camt.xml", k), &xml);
                let args = vec!["import".to_string(), "--config".to_string(), cfg.to_string_lossy().to_string(), src.to_string_lossy().to_string()];
                let mut seen: HashSet<(i32, String, String)> = HashSet::new();
                let mut code = 0;
                for _ in 0..n_runs.max(12) {
                    let out = run_bin(&bin, &args);
                    code = out.code;
                    seen.insert((out.code, out.stdout, out.stderr));
                }
                st.eval(&yml, true);
                st.count(&format!("cmd:import-camt-multifield:{}", if code == 0 { "ok" } else { "fail" }));
                let rep = json!({"property": "C13", "import_config": yml, "statement": "cli/tests/testdata/import/iso_camt.xml", "distinct_outputs": seen.len(),
                                 "reproduce": "okane import --config config.yml iso_camt.xml, repeated in fresh processes"});
                sh.push(format!("C [] [R {} {} OOpaque]", seen.len(), coq::bool_(code == 0)), vec![rep]);
            }
        }
    }
    sh.finish(&st);
}
