(* A consistent single-currency statement is imported into a ledger that book-keeping accepts,
   and the account ends at the closing balance. *)
From Coq Require Import List NArith ZArith Bool QArith Qcanon Lia.
From Okv Require Import Base.Maps Base.Dec Model.Amount Model.Book Model.Lit Model.SingleEntry2
  Model.Camt Model.CamtBook Model.CamtSpec Proofs.CamtBasics Proofs.CamtImport Proofs.CamtBook_Maps
  Proofs.CamtBook_Txn.
Import ListNotations.
Open Scope Qc_scope.

(* ---- numerically equal Decimals denote the same rational ---- *)
Lemma pow10n_pos : forall k, Z.of_N (pow10n k) = Z.pos (pow10p k).
Proof.
  induction k as [|k IH]; [reflexivity|].
  cbn [pow10n pow10p]. rewrite N2Z.inj_mul, Pos2Z.inj_mul, IH. reflexivity.
Qed.

Lemma pow10p_add : forall a b, pow10p (a + b) = (pow10p a * pow10p b)%positive.
Proof.
  induction a as [|a IH]; intros b; [reflexivity|].
  cbn [Nat.add pow10p]. rewrite IH, Pos.mul_assoc. reflexivity.
Qed.

Lemma of_dec_scale : forall m s k, of_dec (m * Z.of_N (pow10n k)) (s + k) = of_dec m s.
Proof.
  intros m s k. unfold of_dec. apply Q2Qc_eq_iff. unfold Qeq. cbn [Qnum Qden].
  rewrite pow10p_add, Pos2Z.inj_mul, pow10n_pos. ring.
Qed.

Lemma d_value_scaled : forall x k,
  d_value x = of_dec (if neg x then - Z.of_N (mant x * pow10n k)%N else Z.of_N (mant x * pow10n k)%N)
                     (scale x + k).
Proof.
  intros x k. unfold d_value. rewrite <- (of_dec_scale _ (scale x) k). f_equal.
  destruct (neg x); rewrite N2Z.inj_mul; ring.
Qed.

Lemma d_eqb_value : forall a b, d_eqb a b = true -> d_value a = d_value b.
Proof.
  intros a b H. unfold d_eqb in H. cbv zeta in H.
  apply andb_true_iff in H. destruct H as [Hm Hs]. apply N.eqb_eq in Hm.
  rewrite (d_value_scaled a (Nat.max (scale a) (scale b) - scale a)).
  rewrite (d_value_scaled b (Nat.max (scale a) (scale b) - scale b)).
  replace (scale a + (Nat.max (scale a) (scale b) - scale a))%nat with (Nat.max (scale a) (scale b)) by lia.
  replace (scale b + (Nat.max (scale a) (scale b) - scale b))%nat with (Nat.max (scale a) (scale b)) by lia.
  rewrite <- Hm. apply orb_true_iff in Hs. destruct Hs as [Z|S].
  - apply N.eqb_eq in Z. rewrite Z. destruct (neg a), (neg b); reflexivity.
  - apply eqb_prop in S. rewrite S. reflexivity.
Qed.

Lemma d_value_zero : d_value d_zero = 0.
Proof. reflexivity. Qed.

(* ---- balances ---- *)
Lemma find_balance_find : forall bs code,
  find_balance bs code =
  option_map (fun b => to_data (b_amount b) (b_cd b)) (find (fun b => bal_code_eqb (b_code b) code) bs).
Proof.
  induction bs as [|b r IH]; intros code; [reflexivity|].
  cbn [find_balance find]. destruct (bal_code_eqb (b_code b) code); [reflexivity|apply IH].
Qed.

Lemma find_balance_of : forall st code b,
  balance_of st code = Some b ->
  find_balance (st_balances st) code = Some (to_data (b_amount b) (b_cd b)).
Proof. intros st code b H. rewrite find_balance_find. unfold balance_of in H. rewrite H. reflexivity. Qed.

Lemma balance_value_data : forall b, d_value (oa_value (to_data (b_amount b) (b_cd b))) = balance_value b.
Proof. intros b. apply to_data_value. Qed.

(* ---- charges ---- *)
Definition mk_charge (cfg : config) (cr : charge_record) : charge :=
  {| ch_payee := match cf_operator cfg with Some p => p | None => [] end;
     ch_amount := oa_neg (to_data (cr_amount cr) (cr_cd cr)) |}.

Lemma add_charges_app : forall cfg a b t,
  add_charges t cfg (a ++ b) =
  match add_charges t cfg a with inl t' => add_charges t' cfg b | inr e => inr e end.
Proof.
  intros cfg a b. induction a as [|cr a IH]; intros t; [reflexivity|].
  cbn [app add_charges]. destruct (d_is_zero _); [apply IH|].
  destruct (cf_operator cfg) as [p|]; [|reflexivity].
  destruct (negb (cr_included cr)).
  - destruct (try_add_charge_not_included t p _); [apply IH|reflexivity].
  - apply IH.
Qed.

Lemma add_charges_included : forall cfg rs t,
  Forall (fun cr => cr_included cr = true) (nonzero_charges rs) ->
  (nonzero_charges rs = [] \/ is_some (cf_operator cfg) = true) ->
  exists t', add_charges t cfg rs = inl t' /\
             x_charges t' = x_charges t ++ map (mk_charge cfg) (nonzero_charges rs) /\
             x_transferred t' = x_transferred t.
Proof.
  intros cfg rs. induction rs as [|cr rest IH]; intros t F O.
  - exists t. cbn. rewrite app_nil_r. auto.
  - unfold nonzero_charges, mk_charge in *. cbn [filter add_charges] in *.
    destruct (d_is_zero (xa_value (cr_amount cr))) eqn:Z; cbn [negb] in *.
    + apply IH; auto.
    + inversion F as [|x l Fi Fr]. subst.
      destruct O as [O|O]; [discriminate|].
      destruct (cf_operator cfg) as [p|]; [|discriminate].
      rewrite Fi. cbn [negb].
      destruct (IH (add_charge t p (oa_neg (to_data (cr_amount cr) (cr_cd cr)))) Fr (or_intror eq_refl))
        as (t' & E & C & T).
      exists t'. split; [exact E|]. split; [|exact T].
      rewrite C. cbn [add_charge push_charge x_charges map]. rewrite <- app_assoc. reflexivity.
Qed.

Lemma charges_ok_inv : forall cfg c0 rs, charges_ok cfg c0 rs = true ->
  Forall (fun cr => cr_included cr = true) (nonzero_charges rs) /\
  Forall (fun cr => xa_ccy (cr_amount cr) = c0) (nonzero_charges rs) /\
  (nonzero_charges rs = [] \/ is_some (cf_operator cfg) = true).
Proof.
  intros cfg c0 rs H. unfold charges_ok in H. apply andb_true_iff in H. destruct H as [H1 H2].
  rewrite forallb_forall in H1. split; [|split].
  - apply Forall_forall. intros x I. apply H1 in I. apply andb_true_iff in I. tauto.
  - apply Forall_forall. intros x I. apply H1 in I. apply andb_true_iff in I.
    apply str_eqb_eq. tauto.
  - destruct (nonzero_charges rs); [left; reflexivity|right; exact H2].
Qed.

(* ---- the counter amount when TxAmt is given ---- *)
Lemma amount_with_sign_value : forall trx a cd,
  neg (xa_value a) = false -> neg (xa_value trx) = false ->
  d_value (oa_value (amount_with_sign (to_data trx cd) (d_neg (oa_value (to_data a cd)))))
  = - signed cd (d_value (xa_value trx)).
Proof.
  intros trx a cd Ha Ht.
  destruct cd; unfold amount_with_sign, to_data, d_set_sign_positive, d_sign_positive; cbn [oa_value];
    unfold d_neg, d_value, signed; cbn [neg mant scale]; rewrite ?Ha, ?Ht; cbn [negb].
  - apply of_dec_opp.
  - rewrite Qcopp_involutive. reflexivity.
Qed.

(* ---- the transaction of a consistent unit ---- *)
Definition unit_transferred (u : unit_rec) : option oamount :=
  match u with
  | UEntry _ => None
  | UDetail _ d =>
      match td_details d with
      | Some ad => if xamount_eqb (td_amount d) (ad_amount ad) then None
                   else Some (to_data (ad_amount ad) (td_cd d))
      | None => None
      end
  end.

Lemma unit_txn_pre : forall cfg u, unit_no_exchange u = true ->
  exists t2, unit_txn cfg u = add_charges t2 cfg (unit_charges u) /\
             x_amount t2 = to_data (unit_amount u) (unit_cd u) /\
             x_dest t2 = f_account (unit_frag u) /\ x_balance t2 = None /\
             x_rates t2 = [] /\ x_charges t2 = [] /\ x_transferred t2 = unit_transferred u.
Proof.
  intros cfg [e|e d] X.
  - eexists. split; [reflexivity|].
    pose proof (base_txn_fields e (en_frag e) (to_data (en_amount e) (en_cd e)) (Some (entry_code e))) as B.
    cbv zeta in B. cbn [unit_amount unit_cd unit_frag unit_transferred]. tauto.
  - pose proof (base_txn_fields e (td_frag d) (to_data (td_amount d) (td_cd d)) (Some (detail_code d))) as B.
    cbv zeta in B. destruct B as (_ & _ & B3 & B4 & B5 & B6 & B7 & B8 & _).
    cbn [unit_txn unit_charges unit_amount unit_cd unit_frag unit_transferred].
    unfold detail_txn. cbn [unit_no_exchange] in X.
    destruct (td_details d) as [ad|].
    + destruct (ad_exchange ad); [discriminate|].
      destruct (xamount_eqb (td_amount d) (ad_amount ad)); cbn [negb].
      * eexists. split; [rewrite add_charges_app; reflexivity|]. tauto.
      * eexists. split; [rewrite add_charges_app; reflexivity|].
        cbn [set_transferred x_amount x_dest x_balance x_rates x_charges x_transferred]. tauto.
    + eexists. split; [rewrite add_charges_app; reflexivity|]. tauto.
Qed.

Lemma ch_val_mk : forall cfg cr, ch_val (mk_charge cfg cr) = charge_value cr.
Proof.
  intros cfg cr. unfold ch_val, mk_charge, charge_value. cbn [ch_amount oa_neg oa_value].
  rewrite d_value_neg. f_equal. apply to_data_value.
Qed.

Lemma unit_txn_consistent : forall cfg c0 u,
  unit_ok cfg c0 u = true ->
  exists t, unit_txn cfg u = inl t /\ val t = unit_value u /\
    forall (ia : str -> aid) acct v,
      match f_account (unit_frag u) with Some a => ia a <> ia acct | None => True end ->
      txn_ok ia acct c0 v t.
Proof.
  intros cfg c0 u H. unfold unit_ok in H.
  repeat (apply andb_true_iff in H; let K := fresh "K" in destruct H as [H K]).
  rename K into Keq, K0 into Kch, K1 into Kx, K2 into Ktn, K3 into Ktc, K4 into Kn.
  apply str_eqb_eq in H, Ktc. apply Qc_eq_bool_correct in Keq.
  unfold nonneg_amount in Kn, Ktn. apply negb_true_iff in Kn, Ktn.
  apply charges_ok_inv in Kch. destruct Kch as (Ci & Cc & Co).
  destruct (unit_txn_pre cfg u Kx) as (t2 & E & A2 & D2 & B2 & R2 & C2 & T2).
  destruct (add_charges_included cfg (unit_charges u) t2 Ci Co) as (t & Et & Ct & Tt).
  pose proof (add_charges_core _ _ _ _ Et) as [Cr Rt]. unfold core in Cr. inversion Cr as [[_c1 _c2 _c3 _c4 _c5 Cd _c7 Ca Cb]].
  rewrite C2 in Ct. cbn [app] in Ct.
  assert (V : val t = unit_value u).
  { unfold val. rewrite Ca, A2. apply to_data_value. }
  exists t. split; [congruence|]. split; [exact V|].
  intros ia acct v Hd.
  (* the counter amount *)
  assert (DV : oa_comm (dest_oamount t) = c0 /\
               d_value (oa_value (dest_oamount t)) = - signed (unit_cd u) (d_value (xa_value (unit_tx_amount u)))).
  { unfold dest_oamount. rewrite Tt, T2, Ca, A2.
    assert (SAME : oa_comm (oa_neg (to_data (unit_amount u) (unit_cd u))) = c0 /\
                   d_value (oa_value (oa_neg (to_data (unit_amount u) (unit_cd u)))) =
                   - signed (unit_cd u) (d_value (xa_value (unit_amount u)))).
    { split; [exact H|]. cbn [oa_neg oa_value]. rewrite d_value_neg. f_equal. apply to_data_value. }
    destruct u as [e|e d]; cbn [unit_transferred unit_tx_amount] in *; [exact SAME|].
    destruct (td_details d) as [ad|]; [|exact SAME].
    destruct (xamount_eqb (td_amount d) (ad_amount ad)) eqn:Q.
    - destruct SAME as [S1 S2]. split; [exact S1|]. rewrite S2.
      unfold xamount_eqb in Q. apply andb_true_iff in Q. destruct Q as [_ Q].
      apply d_eqb_value in Q. cbn [unit_amount]. rewrite Q. reflexivity.
    - split; [exact Ktc|]. apply amount_with_sign_value; assumption. }
  destruct DV as [DC DV].
  unfold txn_ok. split; [rewrite Ca, A2; exact H|]. split; [congruence|]. split; [exact DC|].
  split; [|split; [|split]].
  - rewrite Ct. apply Forall_forall. intros c I. apply in_map_iff in I. destruct I as (cr & Ec & I).
    subst c. cbn [mk_charge ch_amount oa_neg oa_comm]. rewrite Forall_forall in Cc. apply (Cc cr I).
  - rewrite V, DV, Ct, map_map.
    rewrite (map_ext _ charge_value (ch_val_mk cfg)).
    rewrite <- Keq. ring.
  - rewrite Cd, D2. exact Hd.
  - rewrite Cb, B2. exact I.
Qed.

(* ---- every unit yields a transaction: the import succeeds ---- *)
Lemma details_txns_total : forall cfg e ds,
  (forall d, In d ds -> exists t, detail_txn cfg e d = inl t) ->
  exists ts, details_txns cfg e ds = inl ts.
Proof.
  intros cfg e ds. induction ds as [|d r IH]; intros H.
  - exists []. reflexivity.
  - destruct (H d (or_introl eq_refl)) as (t & E).
    destruct IH as (ts & Es); [intros; apply H; right; assumption|].
    exists (t :: ts). cbn [details_txns]. rewrite E, Es. reflexivity.
Qed.

Lemma entry_txns_total : forall cfg e,
  (forall u, In u (entry_units e) -> exists t, unit_txn cfg u = inl t) ->
  exists ts, entry_txns cfg e = inl ts.
Proof.
  intros cfg e H. unfold entry_txns, entry_units in *. destruct (en_details e) as [|d r].
  - destruct (H (UEntry e) (or_introl eq_refl)) as (t & E). cbn [unit_txn] in E.
    rewrite E. eexists; reflexivity.
  - apply details_txns_total. intros d' I.
    apply (H (UDetail e d')). apply in_map. exact I.
Qed.

Lemma entries_txns_total : forall cfg es,
  (forall u, In u (flat_map entry_units es) -> exists t, unit_txn cfg u = inl t) ->
  exists ts, entries_txns cfg es = inl ts.
Proof.
  intros cfg es. induction es as [|e r IH]; intros H.
  - exists []. reflexivity.
  - cbn [flat_map] in H.
    destruct (entry_txns_total cfg e) as (t1 & E1); [intros; apply H; apply in_or_app; left; assumption|].
    destruct IH as (t2 & E2); [intros; apply H; apply in_or_app; right; assumption|].
    exists (t1 ++ t2). cbn [entries_txns]. rewrite E1, E2. reflexivity.
Qed.

(* ---- sums ---- *)
Lemma qsum_rev : forall l, qsum (rev l) = qsum l.
Proof.
  induction l as [|x l IH]; [reflexivity|].
  cbn [rev]. rewrite qsum_app, IH, !qsum_cons, qsum_nil. ring.
Qed.

Lemma batch_sum : forall e, batch_ok e = true -> qsum (map unit_value (entry_units e)) = entry_value e.
Proof.
  intros e H. unfold batch_ok, entry_units in *. destruct (en_details e) as [|d r].
  - cbn [map]. rewrite qsum_cons, qsum_nil. unfold unit_value, entry_value. cbn [unit_cd unit_amount]. ring.
  - apply Qc_eq_bool_correct in H. rewrite map_map. exact H.
Qed.

Lemma units_sum : forall es, (forall e, In e es -> batch_ok e = true) ->
  qsum (map unit_value (flat_map entry_units es)) = qsum (map entry_value es).
Proof.
  induction es as [|e r IH]; intros H; [reflexivity|].
  cbn [flat_map map]. rewrite map_app, qsum_app, qsum_cons, IH, batch_sum; auto.
  - apply H. left. reflexivity.
  - intros. apply H. right. assumption.
Qed.

Lemma stmt_units_sum : forall cfg st,
  forallb batch_ok (st_entries st) = true ->
  qsum (map unit_value (stmt_units cfg st)) = qsum (map entry_value (st_entries st)).
Proof.
  intros cfg st H. rewrite forallb_forall in H. unfold stmt_units. destruct (cf_new_to_old cfg).
  - rewrite units_sum.
    + rewrite map_rev, qsum_rev. reflexivity.
    + intros e I. apply H. apply in_rev. exact I.
  - apply units_sum. exact H.
Qed.

(* ---- the unit transactions run from any total ---- *)
Lemma units_run_ok : forall cfg c0 (ia : str -> aid) acct us ts,
  Forall2 (from_unit cfg) us ts ->
  (forall u, In u us -> unit_ok cfg c0 u = true) ->
  (forall u, In u us -> match f_account (unit_frag u) with Some a => ia a <> ia acct | None => True end) ->
  (forall v, run_ok ia acct c0 v ts) /\ qsum (map val ts) = qsum (map unit_value us).
Proof.
  intros cfg c0 ia acct us ts F. induction F as [|u t us ts R F IH]; intros Hok Hd.
  - split; [intros; exact I|reflexivity].
  - destruct IH as [IH1 IH2]; [intros; apply Hok; right; assumption|intros; apply Hd; right; assumption|].
    destruct (unit_txn_consistent cfg c0 u (Hok u (or_introl eq_refl))) as (t' & E & V & T).
    unfold from_unit in R. assert (t' = t) by congruence. subst t'.
    split.
    + intros v. cbn [run_ok]. split; [|apply IH1]. apply T. apply Hd. left. reflexivity.
    + cbn [map]. rewrite !qsum_cons, IH2, V. reflexivity.
Qed.

Lemma opening_val : forall st, qsum (map val (opening_of st)) = 0.
Proof.
  intros st. unfold opening_of. destruct (find_balance _ _); [|reflexivity].
  destruct (st_entries st); [reflexivity|].
  cbn [map]. rewrite qsum_cons, qsum_nil. unfold val. cbn [opening_txn set_balance set_dest txn_new x_amount oa_value].
  rewrite d_value_zero. ring.
Qed.

(* ---- the declarative theorem ---- *)
Theorem conserves : forall (ia : str -> aid) (ic : str -> cid) (fa : aid) cfg acct c0 st,
  consistent_b cfg c0 st = true ->
  fa <> ia acct ->
  (forall a, In a (counter_accounts cfg st) -> ia a <> ia acct) ->
  exists txns ob cb,
    import cfg [st] = inl txns /\
    balance_of st OPBD = Some ob /\ balance_of st CLBD = Some cb /\
    exists L n,
      process (ledger_of ia ic fa acct (find_balance (st_balances st) OPBD) txns) = (Ok L, n) /\
      bal_get (s_bal L) (ia acct) = a_remove_zeros [(ic c0, balance_value cb)].
Proof.
  intros ia ic fa cfg acct c0 st H Hfa Hca. unfold consistent_b in H.
  apply andb_true_iff in H. destruct H as [Hne H].
  destruct (balance_of st OPBD) as [ob|] eqn:OB; [|discriminate].
  destruct (balance_of st CLBD) as [cb|] eqn:CB; [|discriminate].
  repeat (apply andb_true_iff in H; let K := fresh "K" in destruct H as [H K]).
  rename K into Keq, K0 into Ku, K1 into Kb, K2 into Kcc.
  apply str_eqb_eq in H, Kcc. apply Qc_eq_bool_correct in Keq.
  assert (c0ne : c0 <> []) by (destruct c0; [discriminate|discriminate]).
  rewrite forallb_forall in Ku.
  pose proof (find_balance_of st OPBD ob OB) as FO.
  pose proof (find_balance_of st CLBD cb CB) as FC.
  set (obd := to_data (b_amount ob) (b_cd ob)) in *.
  set (cbd := to_data (b_amount cb) (b_cd cb)) in *.
  (* fixed counter accounts *)
  assert (Heq : ia s_equity_adjustments <> ia acct) by (apply Hca; cbn; tauto).
  assert (Hcm : ia s_expenses_commissions <> ia acct) by (apply Hca; cbn; tauto).
  assert (Hin : ia s_income_unknown <> ia acct) by (apply Hca; cbn; tauto).
  assert (Hex : ia s_expenses_unknown <> ia acct) by (apply Hca; cbn; tauto).
  assert (Hdest : forall u, In u (stmt_units cfg st) ->
                   match f_account (unit_frag u) with Some a => ia a <> ia acct | None => True end).
  { intros u Iu. destruct (f_account (unit_frag u)) as [a|] eqn:Fa; [|exact I].
    apply Hca. unfold counter_accounts. apply in_or_app. right.
    apply in_flat_map. exists u. split; [exact Iu|]. rewrite Fa. left. reflexivity. }
  (* the import succeeds *)
  destruct (entries_txns_total cfg (stmt_order cfg st)) as (ts & Ets).
  { intros u Iu. destruct (unit_txn_consistent cfg c0 u (Ku u Iu)) as (t & E & _). exists t. exact E. }
  pose proof (entries_txns_F2 _ _ _ Ets) as F2. fold (stmt_units cfg st) in F2.
  change (flat_map entry_units (stmt_order cfg st)) with (stmt_units cfg st) in F2.
  destruct (units_run_ok cfg c0 ia acct _ _ F2 Ku Hdest) as [Run Sum].
  pose proof (import_single_eq cfg st) as Imp. rewrite Ets, FC in Imp. cbn [last_bal] in Imp.
  exists (opening_of st ++ set_last_balance ts cbd), ob, cb.
  split; [exact Imp|]. split; [reflexivity|]. split; [reflexivity|].
  (* totals *)
  assert (OV : d_value (oa_value obd) = balance_value ob) by apply balance_value_data.
  assert (CV : d_value (oa_value cbd) = balance_value cb) by apply balance_value_data.
  assert (OC : oa_comm obd = c0) by exact H.
  assert (CC : oa_comm cbd = c0) by exact Kcc.
  assert (TOT : balance_value ob + qsum (map val ts) = balance_value cb).
  { rewrite Sum, stmt_units_sum by exact Kb. exact Keq. }
  rewrite FO.
  destruct (conserves_balanced ia ic acct c0 c0ne Hcm Hin Hex fa (Some obd)
              (opening_of st ++ set_last_balance ts cbd) Hfa OC) as (L & n & P & B).
  - rewrite OV. apply run_ok_app. split.
    + unfold opening_of. rewrite FO. destruct (st_entries st) as [|first rest]; [exact I|].
      cbn [run_ok]. split; [|exact I].
      unfold txn_ok, opening_txn, dest_oamount, val.
      cbn [set_balance set_dest txn_new x_amount x_rates x_transferred x_charges x_dest x_balance
           oa_comm oa_value oa_neg map].
      rewrite d_value_neg, d_value_zero, qsum_nil, OV.
      repeat split; auto. ring.
    + rewrite opening_val. apply run_ok_set_last; [apply Run|exact CC|].
      rewrite CV, <- TOT. ring.
  - exists L, n. split; [exact P|]. rewrite B. do 3 f_equal.
    rewrite OV, map_app, qsum_app, opening_val, val_set_last, <- TOT. ring.
Qed.
