(* The composed pipeline (Model/Pipeline.v run_files): never a hazard value (C06), the same
   report however the ledger is cut into files (C11), and errors placed at the entry that
   caused them in the file that contains it (C14). *)
From Coq Require Import List Arith NArith ZArith Bool QArith Qcanon Lia.
From Okv Require Import Base.Maps Base.Dec Model.Lit Model.Syntax Model.Comb Model.Glob Model.Load Model.LoadSpec
     Model.ParseLedger Model.Amount Model.Book Model.Query Model.Render Model.PriceDb Model.PriceHazard
     Model.Convert Model.Intern Model.Named Model.Lower Model.Display Model.RoundTripSpec
     Model.Pipeline Model.PipelineSpec
     Proofs.LoadProofs Proofs.ParseTotal Proofs.ParseLines Proofs.TotalReport Proofs.RoundTripSame
     Proofs.RoundTripLedger Proofs.PipelineLoad Proofs.PipelineLower.
Import ListNotations.

Lemma F2_length : forall (A B : Type) (R : A -> B -> Prop) l l', Forall2 R l l' -> length l = length l'.
Proof. intros A B R l l' H. induction H; [reflexivity|]. cbn [length]. rewrite IHForall2. reflexivity. Qed.

Lemma F2_in_l : forall (A B : Type) (R : A -> B -> Prop) l l', Forall2 R l l' ->
  forall x, In x l -> exists y, In y l' /\ R x y.
Proof.
  intros A B R l l' H. induction H as [|a b l l' Hab _ IH]; intros x Hx; [destruct Hx|].
  destruct Hx as [<-|Hx]; [exists b; split; [left; reflexivity|exact Hab]|].
  destruct (IH x Hx) as [y [Hy Ry]]. exists y. split; [right; exact Hy|exact Ry].
Qed.

(* ---------- lowering and booking, entry by entry ---------- *)

Lemma low_entries_length : forall es ta tc, length (snd (low_entries ta tc es)) = length es.
Proof.
  induction es as [|e r IH]; intros ta tc; [reflexivity|].
  cbn [low_entries]. destruct (low_entry ta tc e) as [[ta1 tc1] x].
  specialize (IH ta1 tc1). destruct (low_entries ta1 tc1 r) as [[ta2 tc2] y]. cbn [snd length] in *.
  rewrite IH. reflexivity.
Qed.

Lemma low_entries_firstn : forall k es ta tc,
  snd (low_entries ta tc (firstn k es)) = firstn k (snd (low_entries ta tc es)).
Proof.
  induction k as [|k IH]; intros es ta tc; [reflexivity|].
  destruct es as [|e r]; [reflexivity|].
  cbn [firstn low_entries]. destruct (low_entry ta tc e) as [[ta1 tc1] x].
  specialize (IH r ta1 tc1).
  destruct (low_entries ta1 tc1 (firstn k r)) as [[ta2 tc2] y].
  destruct (low_entries ta1 tc1 r) as [[ta3 tc3] z]. cbn [snd firstn] in *. rewrite IH. reflexivity.
Qed.

Lemma book_entries_eq : forall es, book_entries es = process_named (snd (low_entries [] [] es)).
Proof. intro es. unfold book_entries. destruct (low_entries [] [] es) as [[ta tc] nes]. reflexivity. Qed.

(* a failing run fails at the first entry that fails: everything before it is booked, and the
   run cut after it fails in the same way *)
Lemma process_named_from_err : forall es i0 st e i,
  process_named_from i0 st es = (NErr e, i) ->
  exists k, i = (i0 + k)%nat /\ (k < length es)%nat /\
    (exists st', process_named_from i0 st (firstn k es) = (NOk st', (i0 + k)%nat)) /\
    process_named_from i0 st (firstn (S k) es) = (NErr e, (i0 + k)%nat).
Proof.
  induction es as [|x r IH]; intros i0 st e i H; [inversion H|].
  cbn [process_named_from] in H. destruct (process_named_entry st x) as [st1|e1|] eqn:E.
  - destruct (IH _ _ _ _ H) as [k [Hi [Hk [[st' Ok] Er]]]].
    exists (S k). split; [lia|]. split; [cbn [length]; lia|]. split.
    + exists st'. cbn [firstn process_named_from]. rewrite E.
      replace (i0 + S k)%nat with (S i0 + k)%nat by lia. exact Ok.
    + change (firstn (S (S k)) (x :: r)) with (x :: firstn (S k) r). cbn [process_named_from]. rewrite E.
      replace (i0 + S k)%nat with (S i0 + k)%nat by lia. exact Er.
  - inversion H; subst. exists O. split; [lia|]. split; [cbn [length]; lia|]. split.
    + exists st. cbn [firstn process_named_from]. rewrite Nat.add_0_r. reflexivity.
    + cbn [firstn process_named_from]. rewrite E, Nat.add_0_r. reflexivity.
  - inversion H.
Qed.

Lemma process_named_err : forall es e i,
  process_named es = (NErr e, i) ->
  (i < length es)%nat /\
  (exists st', process_named (firstn i es) = (NOk st', i)) /\
  process_named (firstn (S i) es) = (NErr e, i).
Proof.
  intros es e i H. unfold process_named in *.
  destruct (process_named_from_err es O nstate0 e i H) as [k [Hi [Hk [Ok Er]]]].
  cbn in Hi. subst k. cbn [Nat.add] in Ok, Er. auto.
Qed.

Lemma loaded_entries_length : forall out, length (loaded_entries out) = length out.
Proof. intro out. unfold loaded_entries. apply map_length. Qed.

Lemma loaded_entries_firstn : forall k out, loaded_entries (firstn k out) = firstn k (loaded_entries out).
Proof. intros k out. unfold loaded_entries. symmetry. apply firstn_map. Qed.

(* ---------- C06: no hazard value ---------- *)

Lemma report_of_total : forall choose o tc st,
  exists q0, forall qfuel, (q0 <= qfuel)%nat -> forall x, report_of qfuel choose o tc st <> FrHazard x.
Proof.
  intros choose o tc st. unfold report_of. rewrite repository_chk_total.
  destruct (conversion_of o tc (n_com st)) as [cv|[]].
  - destruct (balance_query_total choose (repository (s_events (n_book st)) (ro_db o)) (n_book st) cv
                (ro_start o) (ro_end o)) as [q0 H].
    exists q0. intros qfuel L x. destruct (H qfuel L) as [[b B]|[e B]]; rewrite B; discriminate.
  - exists O. intros qfuel _ x. discriminate.
Qed.

Lemma run_loaded_total : forall choose o r,
  snd r <> TOutOfFuel -> (forall q, snd r <> THazard q) ->
  exists q0, forall qfuel, (q0 <= qfuel)%nat -> forall x, run_loaded qfuel choose o r <> FrHazard x.
Proof.
  intros choose o r NF NH. unfold run_loaded.
  pose proof (low_entries_length (loaded_entries (fst r)) [] []) as Len.
  destruct (low_entries [] [] (loaded_entries (fst r))) as [[ta tc] nes]. cbn [snd] in Len.
  pose proof (process_named_no_panic nes) as NP.
  destruct (process_named nes) as [[st|e|] i] eqn:P; cbn [fst] in NP; [| |congruence].
  - destruct (report_of_total choose o tc st) as [q0 H]. exists q0. intros qfuel L x.
    destruct (snd r) as [|e|p e|p|]; cbn [of_status].
    + apply H. exact L.
    + discriminate.
    + discriminate.
    + exfalso. apply (NH p). reflexivity.
    + exfalso. apply NF. reflexivity.
  - exists O. intros qfuel _ x. destruct (process_named_err nes e i P) as [Hi _].
    rewrite Len, loaded_entries_length in Hi.
    destruct (nth_error (fst r) i) as [l|] eqn:Nth; [discriminate|].
    apply nth_error_None in Nth. lia.
Qed.

Theorem files_load_terminates : forall fs root fuel,
  (length fs < fuel)%nat ->
  snd (load_texts fuel fs root) <> TOutOfFuel /\
  (forall p, snd (load_texts fuel fs root) <> THazard p) /\
  (forall fuel', (length fs < fuel')%nat -> load_texts fuel' fs root = load_texts fuel fs root).
Proof.
  intros fs root fuel B. split; [apply load_texts_fuel; exact B|]. split.
  - intro p. apply loadt_no_hazard.
  - intros fuel' B'. apply load_texts_stable; assumption.
Qed.

(* for every file system of texts and every root, with a loader budget beyond the number of
   files and a query budget beyond some bound: a result or an error *)
Theorem files_pipeline_total : forall choose o fs root,
  exists q0, forall lfuel qfuel, (length fs < lfuel)%nat -> (q0 <= qfuel)%nat ->
    forall x, run_files lfuel qfuel choose o fs root <> FrHazard x.
Proof.
  intros choose o fs root.
  destruct (run_loaded_total choose o (load_texts (S (length fs)) fs root)) as [q0 H].
  - apply load_texts_fuel. lia.
  - intro q. apply loadt_no_hazard.
  - exists q0. intros lfuel qfuel L Q x. unfold run_files.
    rewrite (load_texts_stable fs root lfuel (S (length fs))) by lia. apply H. exact Q.
Qed.

(* which of the outcomes it is *)
Theorem files_pipeline_outcomes : forall choose o fs root,
  exists q0, forall lfuel qfuel, (length fs < lfuel)%nat -> (q0 <= qfuel)%nat ->
    match run_files lfuel qfuel choose o fs root with FrHazard _ => False | _ => True end.
Proof.
  intros choose o fs root. destruct (files_pipeline_total choose o fs root) as [q0 H].
  exists q0. intros lfuel qfuel L Q. specialize (H lfuel qfuel L Q).
  destruct (run_files lfuel qfuel choose o fs root); try exact I. exfalso. eapply H. reflexivity.
Qed.

(* without -X no query budget is involved *)
Theorem files_pipeline_plain_total : forall choose o fs root lfuel qfuel x,
  (length fs < lfuel)%nat -> ro_exchange o = None -> run_files lfuel qfuel choose o fs root <> FrHazard x.
Proof.
  intros choose o fs root lfuel qfuel x L X. unfold run_files, run_loaded.
  pose proof (load_texts_fuel fs root lfuel L) as NF.
  assert (NH : forall q, snd (load_texts lfuel fs root) <> THazard q) by (intro q; apply loadt_no_hazard).
  set (r := load_texts lfuel fs root) in *.
  pose proof (low_entries_length (loaded_entries (fst r)) [] []) as Len.
  destruct (low_entries [] [] (loaded_entries (fst r))) as [[ta tc] nes]. cbn [snd] in Len.
  pose proof (process_named_no_panic nes) as NP.
  destruct (process_named nes) as [[st|e|] i] eqn:P; cbn [fst] in NP; [| |congruence].
  - destruct (snd r) as [|e|p e|p|]; cbn [of_status]; try discriminate.
    + unfold report_of. rewrite repository_chk_total. unfold conversion_of. rewrite X.
      pose proof (balance_query_nf qfuel choose (repository (s_events (n_book st)) (ro_db o)) (n_book st) None
                    (ro_start o) (ro_end o)) as Q.
      destruct (balance_query qfuel choose (repository (s_events (n_book st)) (ro_db o)) (n_book st) None
                  (ro_start o) (ro_end o)); try discriminate.
      exfalso. apply Q; [intros; discriminate|intros; discriminate|reflexivity].
    + exfalso. apply (NH p). reflexivity.
    + exfalso. apply NF. reflexivity.
  - destruct (process_named_err nes e i P) as [Hi _].
    rewrite Len, loaded_entries_length in Hi.
    destruct (nth_error (fst r) i) as [l|] eqn:Nth; [discriminate|].
    apply nth_error_None in Nth. lia.
Qed.

(* ---------- C11: cutting a ledger into files changes nothing ---------- *)

Lemma run_loaded_same : forall qfuel choose o out1 out2,
  same_meaning (loaded_entries out1) (loaded_entries out2) ->
  unplaced (run_loaded qfuel choose o (out1, TDone)) = unplaced (run_loaded qfuel choose o (out2, TDone)).
Proof.
  intros qfuel choose o out1 out2 S. unfold run_loaded. cbn [fst snd].
  rewrite (low_entries_same _ _ S [] []).
  assert (Len : length out1 = length out2).
  { rewrite <- (loaded_entries_length out1), <- (loaded_entries_length out2). eapply F2_length. exact S. }
  destruct (low_entries [] [] (loaded_entries out1)) as [[ta tc] nes].
  destruct (process_named nes) as [[st|e|] i]; [reflexivity| |reflexivity].
  destruct (nth_error out1 i) as [l1|] eqn:N1, (nth_error out2 i) as [l2|] eqn:N2; try reflexivity.
  - apply nth_error_None in N2. assert (i < length out1)%nat by (apply nth_error_Some; congruence). lia.
  - apply nth_error_None in N1. assert (i < length out2)%nat by (apply nth_error_Some; congruence). lia.
Qed.

(* two ways of cutting the same entries (up to the number-format flag a print - parse round
   trip may drop) into trees of text files give the same result: the same report, or the same
   book-keeping error on the entry with the same number in load order *)
Theorem split_texts_two_cuts : forall fs1 root1 L1 fs2 root2 L2,
  wf_tfs fs1 -> wf_tfs fs2 ->
  cut_text_of fs1 root1 L1 -> cut_text_of fs2 root2 L2 -> same_meaning L1 L2 ->
  forall f1 f2 qfuel choose o, (length fs1 < f1)%nat -> (length fs2 < f2)%nat ->
    unplaced (run_files f1 qfuel choose o fs1 root1) = unplaced (run_files f2 qfuel choose o fs2 root2).
Proof.
  intros fs1 root1 L1 fs2 root2 L2 W1 W2 C1 C2 S f1 f2 qfuel choose o B1 B2.
  destruct (cut_text_loads fs1 root1 L1 W1 C1 f1 B1) as [o1 [E1 M1]].
  destruct (cut_text_loads fs2 root2 L2 W2 C2 f2 B2) as [o2 [E2 M2]].
  unfold run_files. rewrite E1, E2. apply run_loaded_same. rewrite M1, M2. exact S.
Qed.

Lemma cut_text_entries_flat : forall fs cp es, no_includes es -> cut_text_entries fs cp es es.
Proof.
  intros fs cp. induction es as [|e r IH]; intro H; [constructor|].
  apply CTE_ent.
  - destruct (is_include_cases e) as [[w ->]|E]; [|exact E]. exfalso. apply (H w). left. reflexivity.
  - apply IH. intros w Hw. apply (H w). right. exact Hw.
Qed.

(* the uncut ledger — one text without includes — is a cut of its entries *)
Theorem uncut_text_is_cut : forall fs root text pes,
  In (canonicalize root, text) fs -> parse_ledger text = LOk pes -> no_includes (map e_entry pes) ->
  cut_text_of fs root (map e_entry pes).
Proof.
  intros fs root text pes Hin R NI. apply CT_file with (text := text) (pes := pes); [exact Hin|exact R|].
  apply cut_text_entries_flat. exact NI.
Qed.

(* a text cut at entry boundaries into included files: same result as the text in one file *)
Theorem split_texts_invariant : forall text pes root0 fs root L,
  parse_ledger text = LOk pes -> no_includes (map e_entry pes) ->
  wf_tfs fs -> cut_text_of fs root L -> same_meaning (map e_entry pes) L ->
  forall f0 f qfuel choose o, (1 < f0)%nat -> (length fs < f)%nat ->
    unplaced (run_files f0 qfuel choose o [(canonicalize root0, text)] root0) =
    unplaced (run_files f qfuel choose o fs root).
Proof.
  intros text pes root0 fs root L R NI W C S f0 f qfuel choose o B0 B.
  apply (split_texts_two_cuts [(canonicalize root0, text)] root0 (map e_entry pes) fs root L).
  - unfold wf_tfs. cbn. constructor; [intros []|constructor].
  - exact W.
  - apply uncut_text_is_cut with (text := text); [left; reflexivity|exact R|exact NI].
  - exact C.
  - exact S.
  - cbn [length]. exact B0.
  - exact B.
Qed.

(* the ledger given as entries, printed by `format` (C05_roundtrip): the printed text in one
   file against any cut whose files parse to the entries *)
Theorem split_formatted_invariant : forall w L root0 fs root L',
  wf_ledger L = true -> no_includes L ->
  wf_tfs fs -> cut_text_of fs root L' -> same_meaning L L' ->
  forall f0 f qfuel choose o, (1 < f0)%nat -> (length fs < f)%nat ->
    unplaced (run_files f0 qfuel choose o [(canonicalize root0, format_entries w L)] root0) =
    unplaced (run_files f qfuel choose o fs root).
Proof.
  intros w L root0 fs root L' WL NI W C S f0 f qfuel choose o B0 B.
  destruct (format_roundtrip w L WL) as [pes [R M]].
  apply (split_texts_invariant _ pes root0 fs root L' R); try assumption.
  - intros x Hx. apply same_meaning_sym in M.
    destruct (F2_in_l _ _ _ _ _ M _ Hx) as [y [Hy Sy]]. simpl in Sy. subst y. apply (NI x). exact Hy.
  - eapply same_meaning_trans; [apply same_meaning_sym; exact M|exact S].
Qed.

(* files that are PRINTED entry lists (`format`): the entries a file was printed from may be
   used in the place of what its text parses to — the cut is the same up to same_meaning.
   With CTL_cons / CTE_inc this builds the cut of a tree of printed files bottom-up. *)
Lemma cut_text_entries_same : forall fs cp es L, cut_text_entries fs cp es L ->
  forall es', same_meaning es es' -> exists L', cut_text_entries fs cp es' L' /\ same_meaning L L'.
Proof.
  intros fs cp es L H. induction H as [cp|cp e r L Ne Hr IH|cp w r ps L1 L2 S Hl Hr IH]; intros es' M.
  - inversion M; subst. exists []. split; constructor.
  - inversion M as [|x e' xs r' He Hm]; subst. destruct (IH r' Hm) as [L' [C' M']].
    exists (e' :: L'). split; [|constructor; assumption].
    apply CTE_ent; [|exact C'].
    destruct (is_include_cases e') as [[w E]|E]; [|exact E].
    apply (same_entry_include _ _ He w) in E. subst e. discriminate.
  - inversion M as [|x e' xs r' He Hm]; subst. simpl in He. subst e'.
    destruct (IH r' Hm) as [L' [C' M']].
    exists (L1 ++ L'). split; [apply CTE_inc with (ps := ps); assumption|].
    apply Forall2_app; [apply same_meaning_refl|exact M'].
Qed.

Theorem cut_text_printed_file : forall w fs p es L,
  wf_ledger es = true -> In (canonicalize p, format_entries w es) fs ->
  cut_text_entries fs (canonicalize p) es L ->
  exists L', cut_text_of fs p L' /\ same_meaning L L'.
Proof.
  intros w fs p es L WL Hin C. destruct (format_roundtrip w es WL) as [pes [R M]].
  destruct (cut_text_entries_same _ _ _ _ C _ M) as [L' [C' M']].
  exists L'. split; [|exact M']. apply CT_file with (text := format_entries w es) (pes := pes); assumption.
Qed.

(* cut_text_of is Model/LoadSpec.v's cut_of on the parsed file system, with the ids resolved *)
Theorem cut_text_is_cut : forall fs root L, wf_tfs fs -> cut_text_of fs root L ->
  exists out, cut_of (parse_fs fs) root (map snd out) /\ Forall2 (resolves fs) out L.
Proof.
  intros fs root L W C. destruct (proj1 (cut_text_expands_mut fs W) root L C) as [out [E F]].
  exists out. split; [|exact F]. apply (proj1 (expands_cut_mut (parse_fs fs))). exact E.
Qed.

(* ---------- C14: which file, which entry ---------- *)

Lemma parsed_of_result : forall text, parsed_of text = result_entries (parse_ledger text).
Proof. intro text. unfold parsed_of, result_entries. destruct (parse_ledger text); reflexivity. Qed.

Theorem path_is_containing_file : forall fuel fs root l,
  In l (fst (load_texts fuel fs root)) -> placed fs l.
Proof.
  intros fuel fs root l H. destruct (loadt_delivered fs fuel [] root l H) as [text [L [Nth NI]]].
  rewrite parsed_of_result in Nth.
  destruct (line_start_of_entry text (l_parsed l) (nth_error_In _ _ Nth)) as [pre [mid [post [E [Sp Ln]]]]].
  exists text, pre, mid, post. auto 10.
Qed.

(* a book-keeping error is reported with the path and ParsedContext of the first entry, in
   load order, whose booking fails *)
Theorem bookkeeping_error_entry : forall lfuel qfuel choose o fs root p sp ln e i,
  run_files lfuel qfuel choose o fs root = FrProcessError p sp ln e i ->
  let out := fst (load_texts lfuel fs root) in
  exists l, nth_error out i = Some l /\
    p = l_path l /\ sp = e_span (l_parsed l) /\ ln = e_line_start (l_parsed l) /\
    (exists st, book_entries (firstn i (loaded_entries out)) = (NOk st, i)) /\
    book_entries (firstn (S i) (loaded_entries out)) = (NErr e, i) /\
    placed fs l.
Proof.
  intros lfuel qfuel choose o fs root p sp ln e i H out. unfold run_files, run_loaded in H. fold out in H.
  pose proof (low_entries_firstn i (loaded_entries out) [] []) as Fi.
  pose proof (low_entries_firstn (S i) (loaded_entries out) [] []) as FS.
  rewrite !book_entries_eq, Fi, FS.
  destruct (low_entries [] [] (loaded_entries out)) as [[ta tc] nes]. cbn [snd] in *.
  destruct (process_named nes) as [[st|e0|] i0] eqn:P.
  - destruct (snd (load_texts lfuel fs root)); cbn [of_status] in H; try discriminate.
    unfold report_of in H. destruct (repository_chk _ _); [|discriminate].
    destruct (conversion_of _ _ _) as [cv|[]]; [|discriminate].
    destruct (balance_query _ _ _ _ _ _ _); discriminate.
  - destruct (nth_error out i0) as [l|] eqn:Nth; [|discriminate]. inversion H; subst.
    destruct (process_named_err nes e i P) as [_ [Ok Er]].
    exists l. repeat split; try assumption.
    apply (path_is_containing_file lfuel fs root l). eapply nth_error_In. exact Nth.
  - discriminate.
Qed.

(* a syntax error is reported with the path of the file whose text has it, after every entry
   delivered before it was booked *)
Theorem parse_error_file : forall lfuel qfuel choose o fs root p e,
  run_files lfuel qfuel choose o fs root = FrParseError p e ->
  (exists text es, tlookup p fs = Some text /\ parse_ledger text = LErr es e) /\
  snd (load_texts lfuel fs root) = TParse p e /\
  exists st n, book_entries (loaded_entries (fst (load_texts lfuel fs root))) = (NOk st, n).
Proof.
  intros lfuel qfuel choose o fs root p e H. unfold run_files, run_loaded in H.
  rewrite book_entries_eq.
  destruct (low_entries [] [] (loaded_entries (fst (load_texts lfuel fs root)))) as [[ta tc] nes]. cbn [snd].
  destruct (process_named nes) as [[st|e0|] i0] eqn:P.
  - pose proof (loadt_status fs lfuel [] root) as S. unfold load_texts in *.
    destruct (snd (loadt lfuel fs [] root)) as [|x|q x|q|]; cbn [of_status] in H; try discriminate.
    + unfold report_of in H. destruct (repository_chk _ _); [|discriminate].
      destruct (conversion_of _ _ _) as [cv|[]]; [|discriminate].
      destruct (balance_query _ _ _ _ _ _ _); discriminate.
    + inversion H; subst. split; [exact S|]. split; [reflexivity|]. exists st, i0. reflexivity.
  - destruct (nth_error _ i0); discriminate.
  - discriminate.
Qed.
