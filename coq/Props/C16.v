(* C16 — CSV import books each row with the right sign, amount and balance.  Theorems only.
   A row is first read into a `row_data` (read_row: FieldMap resolution of every configured
   column) and then built into a single-entry transaction (build_txn); ImportCmd prints
   `to_double_entry` of it on the configured account.  `re_captures` is the regex oracle. *)
From Coq Require Import List NArith ZArith Bool QArith Qcanon Sorted.
From Okv Require Import Base.Maps Base.Dec Model.Amount Model.ImpConfig Model.ImpExtract
     Model.ImpSingleEntry Model.ImpCsv Model.ImpBook
     Proofs.ImpExtractProofs Proofs.ImpBook_Process Proofs.ImpCsvProofs Proofs.ImpBook_Accepted.
From Okv Require Proofs.ImpExamples.   (* the hypotheses are satisfiable *)
From Okv Require Model.Book.
Import ListNotations.

(* the posting on the configured account carries the row's value in the row's commodity; the
   value is +credit when the credit column is not empty, else -debit; or the amount column,
   negated exactly for a liability account *)
Theorem C16_sign : forall P (re_captures : P -> str -> option captures) (cfg : entry P)
    (fm : field_map) (r : row) (d : row_data) (t : txn),
  read_row cfg fm r = IOk (Some d) -> build_txn re_captures cfg d = IOk t ->
  let src := src_posting t (e_account cfg) in
  In src (st_posts (to_double_entry t (e_account cfg)))
  /\ sp_account src = e_account cfg
  /\ sp_amount src = {| oa_value := rd_amount d; oa_commodity := rd_commodity d |}
  /\ (forall cf df, fm_value fm = CreditDebit cf df ->
        exists credit debit,
          resolve fm FCredit cf (row_fields r) = IOk (Some credit)
          /\ resolve fm FDebit df (row_fields r) = IOk (Some debit)
          /\ ((nonempty credit = true /\ str_to_comma_decimal credit = IOk (Some (rd_amount d)))
              \/ (credit = [] /\ nonempty debit = true
                  /\ exists v, str_to_comma_decimal debit = IOk (Some v) /\ rd_amount d = dec_opp v)))
  /\ (forall af, fm_value fm = AmountField af ->
        exists s v, resolve fm FAmount af (row_fields r) = IOk (Some s)
                    /\ str_to_comma_decimal s = IOk v
                    /\ rd_amount d = match e_account_type cfg with
                                     | Asset => or_zero v
                                     | Liability => dec_opp (or_zero v)
                                     end).
Proof.
  intros P re_captures cfg fm r d t Hr Hb src.
  destruct (read_row_inv _ _ _ _ Hr) as (_ & _ & Ha & _).
  destruct (build_txn_inv _ _ _ _ Hb) as (Hamt & _).
  split; [apply src_in_posts|]. split; [reflexivity|]. split; [exact Hamt|]. split.
  - intros cf df Hv. eapply fm_amount_credit_debit; eauto.
  - intros af Hv. eapply fm_amount_column; eauto.
Qed.
Print Assumptions C16_sign.

(* no conversion in force: the counter posting carries the opposite amount in the same
   commodity, and no posting has a cost *)
Theorem C16_counter_posting : forall P (re_captures : P -> str -> option captures) (cfg : entry P)
    (d : row_data) (t : txn),
  build_txn re_captures cfg d = IOk t -> row_conversion re_captures cfg d = None ->
  In (counter_posting t) (st_posts (to_double_entry t (e_account cfg)))
  /\ sp_amount (counter_posting t) = {| oa_value := dec_opp (rd_amount d); oa_commodity := rd_commodity d |}
  /\ forall p, In p (st_posts (to_double_entry t (e_account cfg))) -> sp_cost p = None.
Proof.
  intros P re_captures cfg d t Hb Hc.
  destruct (build_txn_inv _ _ _ _ Hb) as (Hamt & _ & _ & _ & _ & _ & _ & Hcv).
  unfold conversion_shape in Hcv. rewrite Hc in Hcv. destruct Hcv as [Htr Hr].
  split; [apply counter_in_posts|]. split.
  - rewrite counter_amount_plain by exact Htr. rewrite Hamt. reflexivity.
  - intros p Hp. eapply no_rates_no_cost; eauto.
Qed.
Print Assumptions C16_counter_posting.

(* a conversion in force: the counter posting carries the secondary amount (extracted, or
   computed as amount*rate / amount/rate by rate mode) in the secondary commodity with the sign
   opposite to the row amount; the rate is the cost of exactly the postings whose commodity is
   the priced one, in the other commodity *)
Theorem C16_conversion : forall P (re_captures : P -> str -> option captures) (cfg : entry P)
    (d : row_data) (t : txn) (cv : conv_spec),
  build_txn re_captures cfg d = IOk t -> row_conversion re_captures cfg d = Some cv ->
  exists rate sc tr,
    rd_rate d = Some rate
    /\ option_or (cv_commodity cv) (rd_secondary_commodity d) = Some sc
    /\ transferred_ok cv (rd_amount d) rate (rd_secondary_amount d) tr
    /\ sp_amount (counter_posting t)
       = {| oa_value := {| d_neg := negb (d_neg (rd_amount d)); d_mag := d_mag tr |}; oa_commodity := sc |}
    /\ forall p, In p (st_posts (to_double_entry t (e_account cfg))) ->
         sp_cost p = if str_eqb (priced_commodity cv (rd_commodity d) sc) (oa_commodity (sp_amount p))
                     then Some {| oa_value := rate; oa_commodity := pricing_commodity cv (rd_commodity d) sc |}
                     else None.
Proof.
  intros P re_captures cfg d t cv Hb Hc.
  destruct (build_txn_inv _ _ _ _ Hb) as (Hamt & _ & _ & _ & _ & _ & _ & Hcv).
  unfold conversion_shape in Hcv. rewrite Hc in Hcv.
  destruct Hcv as (rate & sc & tr & E1 & E2 & _ & E4 & E5 & E6).
  exists rate, sc, tr. repeat split; try assumption.
  - rewrite (counter_amount_converted _ _ E5), Hamt. reflexivity.
  - intros p Hp. rewrite (posting_cost_is _ _ _ Hp), E4. cbn [sget].
    destruct (str_eqb _ _); reflexivity.
Qed.
Print Assumptions C16_conversion.

(* rows come out oldest first under either row_order, given the file is in the declared order *)
Theorem C16_oldest_first : forall P (re_captures : P -> str -> option captures) (re_valid : P -> bool)
    (cfg : entry P) (header : list str) (rows : list row) (ts : list txn),
  import re_captures re_valid cfg header rows = IOk ts ->
  exists fm, fieldmap_new (fs_fields (e_format cfg)) header = IOk fm /\
    (match fs_row_order (e_format cfg) with
     | OldToNew => Sorted Z.le (live_dates cfg fm rows)
     | NewToOld => Sorted Z.ge (live_dates cfg fm rows)
     end -> Sorted Z.le (map t_date ts)).
Proof. intros. eapply oldest_first; eauto. Qed.
Print Assumptions C16_oldest_first.

(* the running-balance column becomes a balance assertion on the configured account's posting,
   in the row's commodity, and on no other posting *)
Theorem C16_balance_assertion : forall P (re_captures : P -> str -> option captures) (cfg : entry P)
    (fm : field_map) (r : row) (d : row_data) (t : txn),
  read_row cfg fm r = IOk (Some d) -> build_txn re_captures cfg d = IOk t ->
  fm_decimal fm FBalance (row_fields r) = IOk (rd_balance d)
  /\ sp_balance (src_posting t (e_account cfg))
     = option_map (fun b => {| oa_value := b; oa_commodity := rd_commodity d |}) (rd_balance d)
  /\ sp_balance (counter_posting t) = None
  /\ (forall c, sp_balance (charge_posting t c) = None)
  /\ forall p, In p (st_posts (to_double_entry t (e_account cfg))) ->
       p = src_posting t (e_account cfg) \/ p = counter_posting t
       \/ exists c, In c (t_charges t) /\ p = charge_posting t c.
Proof.
  intros P re_captures cfg fm r d t Hr Hb.
  destruct (read_row_inv _ _ _ _ Hr) as (_ & _ & _ & Hbal & _).
  destruct (build_txn_inv _ _ _ _ Hb) as (_ & Hb2 & _).
  split; [exact Hbal|]. split; [exact Hb2|]. split; [reflexivity|]. split; [reflexivity|].
  intros p Hp. apply in_posts. exact Hp.
Qed.
Print Assumptions C16_balance_assertion.

(* The composition with the book-keeping model, for any list of single-entry transactions ts in
   output order: if every printed transaction has non-empty commodity names, non-zero rates in
   a commodity other than the priced one, and balances (stxn_ok); its other postings are on
   accounts other than the configured one (elsewhere); and the running balance of the configured
   account, started from the opening balances b0, agrees with every balance a row states
   (consistent) -- then Model.Book.process accepts the funding transactions followed by the
   imported ones, and the account ends at the running balance (per commodity).
   The running balance is that of the booked amounts; for an asset account the booked amount is
   the statement's own amount (C16_sign), which is why the property speaks of asset accounts. *)
Theorem C16_statement_accepted : forall (aid_of : str -> aid) (cid_of : str -> cid)
    (acct equity : str) (ts : list txn) (b0 : list (str * dec)) (date0 : Z),
  aid_of equity <> aid_of acct ->
  Forall (fun cv => fst cv <> []) b0 ->
  Forall (fun t => stxn_ok aid_of cid_of (to_double_entry t acct) /\ elsewhere aid_of acct t) ts ->
  consistent cid_of (opening cid_of b0) ts ->
  exists L,
    fst (Book.process (book_entries aid_of cid_of
           (funding acct equity date0 b0 ++ map (fun t => to_double_entry t acct) ts))) = Book.Ok L
    /\ forall c, a_get (Book.bal_get (Book.s_bal L) (aid_of acct)) c
                 = final_run cid_of (opening cid_of b0) ts c.
Proof. intros. apply statement_accepted; assumption. Qed.
Print Assumptions C16_statement_accepted.

(* ... and where the last row states a balance, that is the final balance *)
Theorem C16_ends_at_last_balance : forall (cid_of : str -> cid) (ts : list txn) (run : cid -> Qc)
    (t : txn) (b : oamount),
  consistent cid_of run (ts ++ [t]) -> t_balance t = Some b ->
  final_run cid_of run (ts ++ [t]) (cid_of (oa_commodity b)) = dec_value (oa_value b).
Proof. intros. eapply consistent_last; eauto. Qed.
Print Assumptions C16_ends_at_last_balance.

(* for a CSV statement none of whose rows has a conversion or a charge, balancing is automatic:
   what import produced is accepted whenever the running balance is consistent *)
Theorem C16_statement_accepted_plain :
  forall (aid_of : str -> aid) (cid_of : str -> cid) (equity : str)
         P (re_captures : P -> str -> option captures) (re_valid : P -> bool)
         (cfg : entry P) (header : list str) (rows : list row) (ts : list txn)
         (b0 : list (str * dec)) (date0 : Z),
  aid_of equity <> aid_of (e_account cfg) ->
  import re_captures re_valid cfg header rows = IOk ts ->
  Forall (fun t => plain_txn t /\ elsewhere aid_of (e_account cfg) t) ts ->
  Forall (fun cv => fst cv <> []) b0 ->
  consistent cid_of (opening cid_of b0) ts ->
  exists L,
    fst (Book.process (book_entries aid_of cid_of
           (funding (e_account cfg) equity date0 b0
            ++ map (fun t => to_double_entry t (e_account cfg)) ts))) = Book.Ok L
    /\ forall c, a_get (Book.bal_get (Book.s_bal L) (aid_of (e_account cfg))) c
                 = final_run cid_of (opening cid_of b0) ts c.
Proof. intros. eapply statement_accepted_plain; eauto. Qed.
Print Assumptions C16_statement_accepted_plain.

(* Known finding C16-K1.  The balancing hypothesis of C16_statement_accepted (stxn_ok: the printed
   transaction sums to zero under the stated rate) cannot be dropped: the second row of the
   repository's own csv_multi_currency golden (23.45 CHF credited at 114.0500 JPY, the bank's
   rounded 2675 JPY extracted as the secondary amount) is import output, satisfies every other
   hypothesis with a consistent running balance, and is refused by the book-keeping. *)
Theorem C16_statement_accepted_refuted :
  exists (acct equity : str) (t : txn) (b0 : list (str * dec)),
    (exists (cfg : entry str) (d : row_data),
        build_txn Proofs.ImpExamples.lit_captures cfg d = IOk t /\ e_account cfg = acct
        /\ e_account_type cfg = Asset)
    /\ str_code equity <> str_code acct
    /\ Forall (fun cv => fst cv <> []) b0
    /\ Forall names_ok (st_posts (to_double_entry t acct))
    /\ Forall cost_ok (map (pp_of str_code str_code) (st_posts (to_double_entry t acct)))
    /\ elsewhere str_code acct t
    /\ consistent str_code (opening str_code b0) [t]
    /\ exists r,
         fst (Book.process (book_entries str_code str_code
                (funding acct equity (-1)%Z b0 ++ map (fun t => to_double_entry t acct) [t])))
         = Book.Err (Book.UnbalancedPostings r).
Proof.
  exists Proofs.ImpExamples.s_bank, Proofs.ImpExamples.s_equity, Proofs.ImpExamples.ex_rounded_txn,
         Proofs.ImpExamples.ex_rounded_opening.
  destruct Proofs.ImpExamples.ex_rounded_hyps as (H1 & H2 & H3 & H4 & H5 & H6).
  split; [exists Proofs.ImpExamples.ex_rounded_cfg, Proofs.ImpExamples.ex_rounded_row;
          split; [exact Proofs.ImpExamples.ex_rounded_built|split; reflexivity]|].
  repeat (split; [assumption|]). exact Proofs.ImpExamples.ex_rounded_refused.
Qed.
Print Assumptions C16_statement_accepted_refuted.
