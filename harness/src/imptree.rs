//! Observation of a syntax::plain::Transaction (what importers build, what parse_ledger reads
//! back) as plain data, its Coq term (constructors of Run/Classify_C18.v / Classify_C15.v) and JSON.
use crate::coq;
use okane_core::syntax::{self, expr, plain, pretty_decimal::Format};
use rust_decimal::Decimal;
use serde_json::json;

#[derive(Clone, Debug, PartialEq)]
pub struct DecObs {
    pub neg: bool,
    pub mant: u128,
    pub scale: u32,
    /// 0 None, 1 Plain, 2 Comma3Dot
    pub fmt: u8,
}

impl DecObs {
    pub fn of(d: &Decimal, fmt: u8) -> Self {
        DecObs { neg: d.is_sign_negative(), mant: d.mantissa().unsigned_abs(), scale: d.scale(), fmt }
    }
    pub fn text(&self) -> String {
        let digits = self.mant.to_string();
        let digits = if digits.len() <= self.scale as usize {
            format!("{}{}", "0".repeat(self.scale as usize + 1 - digits.len()), digits)
        } else {
            digits
        };
        let (ip, fp) = digits.split_at(digits.len() - self.scale as usize);
        format!("{}{}{}{}", if self.neg { "-" } else { "" }, ip, if self.scale > 0 { "." } else { "" }, fp)
    }
}

#[derive(Clone, Debug, PartialEq)]
pub struct AmtObs {
    pub v: DecObs,
    pub comm: String,
}

#[derive(Clone, Debug, PartialEq)]
pub enum MetaObs {
    Comment(String),
    KeyValue(String, String),
    KeyExpr(String, String),
    Tags(Vec<String>),
}

#[derive(Clone, Debug, PartialEq)]
pub struct PostObs {
    pub account: String,
    pub clear: u8, // 0 Uncleared 1 Cleared 2 Pending
    pub amount: Option<(AmtObs, Option<AmtObs>)>,
    pub balance: Option<AmtObs>,
    pub meta: Vec<MetaObs>,
}

#[derive(Clone, Debug, PartialEq)]
pub struct TxObs {
    pub date: (i32, u32, u32),
    pub edate: Option<(i32, u32, u32)>,
    pub clear: u8,
    pub code: Option<String>,
    pub payee: String,
    pub meta: Vec<MetaObs>,
    pub posts: Vec<PostObs>,
}

pub fn ymd(d: &chrono::NaiveDate) -> (i32, u32, u32) {
    use chrono::Datelike;
    (d.year(), d.month(), d.day())
}

fn clear_code(c: syntax::ClearState) -> u8 {
    match c {
        syntax::ClearState::Uncleared => 0,
        syntax::ClearState::Cleared => 1,
        syntax::ClearState::Pending => 2,
    }
}

fn amount_obs(a: &expr::Amount) -> AmtObs {
    let fmt = match a.value.format {
        None => 0,
        Some(Format::Plain) => 1,
        Some(Format::Comma3Dot) => 2,
        #[allow(unreachable_patterns)]
        Some(_) => 9,
    };
    AmtObs { v: DecObs::of(&a.value.value, fmt), comm: a.commodity.to_string() }
}

fn value_obs(v: &expr::ValueExpr) -> Result<AmtObs, String> {
    match v {
        expr::ValueExpr::Amount(a) => Ok(amount_obs(a)),
        expr::ValueExpr::Paren(e) => Err(format!("parenthesised expression {:?}", e)),
    }
}

fn meta_obs(m: &syntax::Metadata) -> MetaObs {
    match m {
        syntax::Metadata::Comment(s) => MetaObs::Comment(s.to_string()),
        syntax::Metadata::WordTags(ts) => MetaObs::Tags(ts.iter().map(|t| t.to_string()).collect()),
        syntax::Metadata::KeyValueTag { key, value } => match value {
            syntax::MetadataValue::Text(t) => MetaObs::KeyValue(key.to_string(), t.to_string()),
            syntax::MetadataValue::Expr(t) => MetaObs::KeyExpr(key.to_string(), t.to_string()),
        },
    }
}

/// Err: the tree has a construct outside the import shape (lot, total cost, expression)
pub fn tx_obs(t: &plain::Transaction) -> Result<TxObs, String> {
    let mut posts = Vec::new();
    for p in &t.posts {
        let amount = match &p.amount {
            None => None,
            Some(pa) => {
                if pa.lot.price.is_some() || pa.lot.date.is_some() || pa.lot.note.is_some() {
                    return Err(format!("lot {:?}", pa.lot));
                }
                let cost = match &pa.cost {
                    None => None,
                    Some(syntax::Exchange::Rate(v)) => Some(value_obs(v)?),
                    Some(syntax::Exchange::Total(v)) => return Err(format!("total cost {:?}", v)),
                };
                Some((value_obs(&pa.amount)?, cost))
            }
        };
        let balance = match &p.balance {
            None => None,
            Some(b) => Some(value_obs(b)?),
        };
        posts.push(PostObs {
            account: p.account.to_string(),
            clear: clear_code(p.clear_state),
            amount,
            balance,
            meta: p.metadata.iter().map(meta_obs).collect(),
        });
    }
    Ok(TxObs {
        date: ymd(&t.date),
        edate: t.effective_date.as_ref().map(ymd),
        clear: clear_code(t.clear_state),
        code: t.code.as_ref().map(|c| c.to_string()),
        payee: t.payee.to_string(),
        meta: t.metadata.iter().map(meta_obs).collect(),
        posts,
    })
}

// ---------- Coq terms ----------

pub fn str_term(s: &str) -> String {
    coq::n_list(s.chars().map(|c| c as u64))
}

pub fn ostr_term(s: &Option<String>) -> String {
    coq::opt(s.as_ref().map(|x| str_term(x)))
}

pub fn date_term(d: &(i32, u32, u32)) -> String {
    format!("(DT {} {} {})", d.0.max(0), d.1, d.2)
}

pub fn amt_term(a: &AmtObs) -> String {
    if a.v.fmt == 0 {
        format!("(SA {} {} {} {})", coq::bool_(a.v.neg), a.v.mant, a.v.scale, str_term(&a.comm))
    } else {
        format!("(SAF {} {} {} {} {})", coq::bool_(a.v.neg), a.v.mant, a.v.scale, a.v.fmt, str_term(&a.comm))
    }
}

fn clear_term(c: u8) -> &'static str {
    match c {
        0 => "Uncleared",
        1 => "Cleared",
        _ => "Pending",
    }
}

fn meta_term(m: &MetaObs) -> String {
    match m {
        MetaObs::Comment(s) => format!("(MComment {})", str_term(s)),
        MetaObs::KeyValue(k, v) => format!("(MKeyValue {} {})", str_term(k), str_term(v)),
        MetaObs::KeyExpr(k, v) => format!("(MKeyExpr {} {})", str_term(k), str_term(v)),
        MetaObs::Tags(ts) => format!("(MWordTags {})", coq::list(ts.iter().map(|t| str_term(t)))),
    }
}

pub fn post_term(p: &PostObs) -> String {
    format!(
        "(PO {} {} {} {} {})",
        str_term(&p.account),
        clear_term(p.clear),
        coq::opt(p.amount.as_ref().map(|(a, c)| format!("(PA {} {})", amt_term(a), coq::opt(c.as_ref().map(amt_term))))),
        coq::opt(p.balance.as_ref().map(amt_term)),
        coq::list(p.meta.iter().map(meta_term))
    )
}

pub fn tx_term(t: &TxObs) -> String {
    format!(
        "(TX {} {} {} {} {} {} {})",
        date_term(&t.date),
        coq::opt(t.edate.as_ref().map(date_term)),
        clear_term(t.clear),
        ostr_term(&t.code),
        str_term(&t.payee),
        coq::list(t.meta.iter().map(meta_term)),
        coq::list(t.posts.iter().map(post_term))
    )
}

// ---------- JSON (replay records, samples) ----------

fn amt_json(a: &AmtObs) -> serde_json::Value {
    json!(format!("{} {}", a.v.text(), a.comm))
}

pub fn tx_json(t: &TxObs) -> serde_json::Value {
    json!({
        "date": format!("{:04}/{:02}/{:02}", t.date.0, t.date.1, t.date.2),
        "effective_date": t.edate.map(|d| format!("{:04}/{:02}/{:02}", d.0, d.1, d.2)),
        "clear": clear_term(t.clear), "code": t.code, "payee": t.payee,
        "metadata": t.meta.iter().map(|m| format!("{:?}", m)).collect::<Vec<_>>(),
        "postings": t.posts.iter().map(|p| json!({
            "account": p.account, "clear": clear_term(p.clear),
            "amount": p.amount.as_ref().map(|(a, _)| amt_json(a)),
            "cost": p.amount.as_ref().and_then(|(_, c)| c.as_ref().map(amt_json)),
            "balance": p.balance.as_ref().map(amt_json),
            "metadata": p.meta.iter().map(|m| format!("{:?}", m)).collect::<Vec<_>>(),
        })).collect::<Vec<_>>(),
    })
}

// ---------- running an importer the way ImportCmd::run does ----------

pub struct Imported {
    pub account: String,
    pub precisions: Vec<(String, u8)>,
    /// tree built by to_double_entry, and its text as ImportCmd prints it (Display + '\n')
    pub txns: Vec<(Result<TxObs, String>, String)>,
}

pub enum ImportRun {
    Ok(Imported),
    /// ImportError of import() or to_double_entry(): (Display with the source chain, Debug)
    Err(String, String),
    /// the configuration could not be loaded / selected: a harness problem
    BadConfig(String),
    Panic(String),
}

fn err_chain(e: &dyn std::error::Error) -> String {
    let mut s = format!("{}", e);
    let mut cur = e.source();
    while let Some(src) = cur {
        s.push_str(&format!(": {}", src));
        cur = src.source();
    }
    s
}

pub fn run_import(input: &[u8], yaml: &str, path: &str, format: okane::import::Format) -> ImportRun {
    let r = std::panic::catch_unwind(|| {
        let set = match okane::import::config::load_from_yaml(yaml.as_bytes()) {
            Ok(s) => s,
            Err(e) => return ImportRun::BadConfig(err_chain(&e)),
        };
        let entry = match set.select(std::path::Path::new(path)) {
            Ok(Some(e)) => e,
            Ok(None) => return ImportRun::BadConfig("no configuration matches".into()),
            Err(e) => return ImportRun::BadConfig(err_chain(&e)),
        };
        let xacts = match okane::import::import(input, format, &entry) {
            Ok(x) => x,
            Err(e) => return ImportRun::Err(err_chain(&e), format!("{:?}", e)),
        };
        let ctx = syntax::display::DisplayContext {
            precisions: entry.format.commodity.iter().map(|(k, v)| (k.clone(), v.precision)).collect(),
        };
        let mut precisions: Vec<(String, u8)> = ctx.precisions.iter().map(|(k, v)| (k.clone(), *v)).collect();
        precisions.sort();
        let mut txns = Vec::new();
        for x in &xacts {
            let t: plain::Transaction = match x.to_double_entry(&entry.account) {
                Ok(t) => t,
                Err(e) => return ImportRun::Err(err_chain(&e), format!("{:?}", e)),
            };
            let text = format!("{}\n", ctx.as_display(&t));
            txns.push((tx_obs(&t), text));
        }
        ImportRun::Ok(Imported { account: entry.account.clone(), precisions, txns })
    });
    match r {
        Ok(x) => x,
        Err(p) => ImportRun::Panic(
            p.downcast_ref::<String>().cloned().or_else(|| p.downcast_ref::<&str>().map(|s| s.to_string())).unwrap_or_default(),
        ),
    }
}
