(* Lemmas about convert_amount (Model/PriceDb.v) and the converted reports (Model/Convert.v). *)
From Coq Require Import List NArith ZArith Bool QArith Qcanon Lia.
From Okv Require Import Base.Maps Base.Dec Model.Amount Model.Book Model.Query Model.PriceDb Model.Convert
     Model.ConvertSpec Proofs.PriceProofs.
Import ListNotations.
Open Scope Qc_scope.

Lemma convert_amount_empty : forall fuel choose recs target date,
  convert_amount fuel choose recs a_zero target date = COk a_zero.
Proof. reflexivity. Qed.

Section ConvertAmount.
  Variable fuel : nat.
  Variable choose : chooser.
  Variable recs : records.
  Variable target : cid.
  Variable date : Z.

  (* accumulators of convert_amount: empty or one entry in the target *)
  Definition st (a : amount) : Prop := a = [] \/ exists x, a = [(target, x)].

  Lemma a_add1_st : forall acc v, st acc -> a_add1 acc target v = [(target, a_get acc target + v)].
  Proof.
    intros acc v [->|[x ->]]; unfold a_add1, a_get; cbn [get].
    - cbn [app]. f_equal. f_equal. ring.
    - rewrite N.eqb_refl. cbn [set]. rewrite N.eqb_refl. reflexivity.
  Qed.

  Lemma convert_single_target : forall v, convert_single fuel choose recs target v target date = COk (target, v).
  Proof. intros. apply convert_single_identity. Qed.

  Lemma rate_of_target : forall t, rate_of t target target = Some 1.
  Proof. intros. unfold rate_of. rewrite N.eqb_refl. reflexivity. Qed.

  (* amounts wholly in the target commodity: no table is computed, whatever the fuel *)
  Lemma convert_from_all_target : forall a acc,
    st acc -> (forall c v, In (c, v) a -> c = target) ->
    convert_amount_from fuel choose recs acc a target date =
    COk (match a with
         | [] => acc
         | _ => [(target, a_get acc target + fold_right (fun cv s => snd cv + s) 0 a)]
         end).
  Proof.
    induction a as [|[c v] r IH]; intros acc Hst Hall; cbn [convert_amount_from]; [reflexivity|].
    assert (c = target) by (apply (Hall c v); left; reflexivity). subst c.
    rewrite convert_single_target. rewrite a_add1_st by assumption.
    rewrite IH; [|right; eexists; reflexivity|intros c' v' H'; apply (Hall c' v'); right; assumption].
    f_equal. destruct r as [|p r']; cbn [fold_right fst snd].
    - f_equal. f_equal. ring.
    - unfold a_get. cbn. rewrite N.eqb_refl. f_equal. f_equal. ring.
  Qed.

  Variable t : table.
  Hypothesis Ht : price_table fuel choose recs target date = PTDone t.

  Lemma convert_single_rate : forall c v,
    convert_single fuel choose recs c v target date =
    match rate_of t target c with
    | Some r => COk (target, v * r)
    | None => CErr (RateNotFound c v target date)
    end.
  Proof.
    intros c v. unfold convert_single, rate_of. destruct (c =? target)%N eqn:E.
    - apply N.eqb_eq in E. subst c. f_equal. f_equal. ring.
    - rewrite Ht. destruct (get c t) as [[d r]|]; reflexivity.
  Qed.

  Lemma convert_from_ok : forall a acc,
    st acc -> convertible t target a ->
    convert_amount_from fuel choose recs acc a target date =
    COk (match a with [] => acc | _ => [(target, a_get acc target + conv_value t target a)] end).
  Proof.
    induction a as [|[c v] r IH]; intros acc Hst Hc; cbn [convert_amount_from]; [reflexivity|].
    rewrite convert_single_rate. unfold conv_value. cbn [fold_right fst snd]. unfold rate_or0 at 1.
    destruct (rate_of t target c) as [rc|] eqn:Er; [|exfalso; apply (Hc c v); [left; reflexivity|assumption]].
    rewrite a_add1_st by assumption.
    rewrite IH; [|right; eexists; reflexivity|intros c' v' H'; apply (Hc c' v'); right; assumption].
    f_equal. destruct r as [|p r'].
    - cbn [fold_right]. f_equal. f_equal. ring.
    - unfold a_get at 1. cbn [get]. rewrite N.eqb_refl. f_equal. f_equal. unfold conv_value. ring.
  Qed.

  (* the first entry (in iteration order) without a rate is the error *)
  Lemma convert_from_err : forall a acc,
    st acc -> ~ convertible t target a ->
    exists c v, convert_amount_from fuel choose recs acc a target date = CErr (RateNotFound c v target date) /\
                In (c, v) a /\ rate_of t target c = None.
  Proof.
    induction a as [|[c v] r IH]; intros acc Hst Hn.
    - exfalso. apply Hn. intros c v [].
    - cbn [convert_amount_from]. rewrite convert_single_rate.
      destruct (rate_of t target c) as [rc|] eqn:Er.
      + rewrite a_add1_st by assumption.
        destruct (IH [(target, a_get acc target + v * rc)]) as (c' & v' & E & Hin & Hr).
        * right; eexists; reflexivity.
        * intro Hc. apply Hn. intros c' v' [X|X]; [inversion X; subst; congruence|apply (Hc c' v'); assumption].
        * exists c', v'. split; [assumption|]. split; [right; assumption|assumption].
      + exists c, v. split; [reflexivity|]. split; [left; reflexivity|assumption].
  Qed.

  Lemma convertible_dec : forall a, convertible t target a \/ ~ convertible t target a.
  Proof.
    induction a as [|[c v] r IH].
    - left. intros c v [].
    - destruct (rate_of t target c) as [rc|] eqn:Er.
      + destruct IH as [H|H].
        * left. intros c' v' [X|X]; [inversion X; subst; congruence|apply (H c' v'); assumption].
        * right. intro Hc. apply H. intros c' v' X. apply (Hc c' v'). right; assumption.
      + right. intro Hc. apply (Hc c v); [left; reflexivity|assumption].
  Qed.

  (* C10_convert_amount *)
  Lemma convert_amount_ok : forall a,
    convertible t target a -> convert_amount fuel choose recs a target date = COk (conv_result t target a).
  Proof.
    intros a Hc. unfold convert_amount. rewrite convert_from_ok; [|left; reflexivity|assumption].
    unfold conv_result. destruct a; [reflexivity|]. f_equal. f_equal. f_equal. unfold a_get, a_zero. cbn. ring.
  Qed.

  Lemma convert_amount_iff : forall a,
    (exists r, convert_amount fuel choose recs a target date = COk r) <-> convertible t target a.
  Proof.
    intros a. split.
    - intros [r Hr]. destruct (convertible_dec a) as [H|H]; [assumption|].
      destruct (convert_from_err a a_zero (or_introl eq_refl) H) as (c & v & E & _).
      unfold convert_amount in Hr. rewrite E in Hr. discriminate.
    - intros H. eexists. apply convert_amount_ok. assumption.
  Qed.

  Lemma convert_amount_result : forall a r,
    convert_amount fuel choose recs a target date = COk r ->
    r = conv_result t target a /\
    (forall c v, In (c, v) r -> c = target) /\
    a_get r target = conv_value t target a.
  Proof.
    intros a r Hr. assert (Hc : convertible t target a) by (apply convert_amount_iff; eexists; eassumption).
    rewrite (convert_amount_ok a Hc) in Hr. inversion Hr; subst r. split; [reflexivity|].
    unfold conv_result. destruct a as [|p a'].
    - split; [intros c v []|reflexivity].
    - split.
      + intros c v [E|[]]. inversion E; reflexivity.
      + unfold a_get. cbn [get]. rewrite N.eqb_refl. reflexivity.
  Qed.

  (* C10_fails_if_any_missing *)
  Lemma convert_amount_fails : forall a,
    (exists c v, In (c, v) a /\ rate_of t target c = None) ->
    exists c v, convert_amount fuel choose recs a target date = CErr (RateNotFound c v target date) /\
                In (c, v) a /\ c <> target /\ get c t = None.
  Proof.
    intros a (c0 & v0 & Hin0 & Hr0).
    assert (Hn : ~ convertible t target a) by (intro Hc; exact (Hc c0 v0 Hin0 Hr0)).
    destruct (convert_from_err a a_zero (or_introl eq_refl) Hn) as (c & v & E & Hin & Hr).
    exists c, v. split; [exact E|]. split; [assumption|].
    unfold rate_of in Hr. destruct (c =? target)%N eqn:Ec; [discriminate|].
    split; [intro X; subst c; rewrite N.eqb_refl in Ec; discriminate|].
    destruct (get c t); [discriminate|reflexivity].
  Qed.

  (* ---- linearity ---- *)
  Lemma conv_value_app : forall a b, conv_value t target (a ++ b) = conv_value t target a + conv_value t target b.
  Proof.
    induction a as [|p r IH]; intros b; unfold conv_value in *; cbn [fold_right app]; [ring|].
    rewrite IH. ring.
  Qed.

  Lemma conv_value_set : forall a c x y,
    get c a = Some x ->
    conv_value t target (set c y a) = conv_value t target a + (y - x) * rate_or0 t target c.
  Proof.
    induction a as [|[c' v'] r IH]; intros c x y G; cbn [get] in G; [discriminate|].
    cbn [set]. destruct (c' =? c)%N eqn:E.
    - apply N.eqb_eq in E. subst c'. inversion G; subst. unfold conv_value. cbn [fold_right fst snd]. ring.
    - unfold conv_value in *. cbn [fold_right fst snd]. rewrite (IH _ _ _ G). ring.
  Qed.

  Lemma conv_value_add1 : forall a c v,
    conv_value t target (a_add1 a c v) = conv_value t target a + v * rate_or0 t target c.
  Proof.
    intros a c v. unfold a_add1. destruct (get c a) as [x|] eqn:G.
    - rewrite (conv_value_set _ _ _ _ G). ring.
    - rewrite conv_value_app. unfold conv_value at 2. cbn [fold_right fst snd]. ring.
  Qed.

  Lemma conv_value_add : forall b a,
    conv_value t target (a_add a b) = conv_value t target a + conv_value t target b.
  Proof.
    unfold a_add. induction b as [|[c v] r IH]; intros a; cbn [fold_left fst snd].
    - unfold conv_value at 3. cbn. ring.
    - rewrite IH, conv_value_add1. unfold conv_value at 4. cbn [fold_right fst snd]. fold (conv_value t target r). ring.
  Qed.

  Lemma conv_value_scale : forall a k, conv_value t target (a_scale a k) = k * conv_value t target a.
  Proof.
    induction a as [|[c v] r IH]; intros k; unfold a_scale, conv_value in *; cbn [map fold_right fst snd]; [ring|].
    rewrite IH. ring.
  Qed.

  Lemma keys_a_add1 : forall a c v x, In x (keys (a_add1 a c v)) <-> x = c \/ In x (keys a).
  Proof.
    intros a c v x. unfold a_add1. destruct (get c a) as [y|] eqn:G.
    - rewrite keys_set_in. tauto.
    - unfold keys. rewrite map_app, in_app_iff. cbn. intuition congruence.
  Qed.

  Lemma convertible_keys : forall a, convertible t target a <-> forall c, In c (keys a) -> rate_of t target c <> None.
  Proof.
    intros a. unfold convertible, keys. split.
    - intros H c Hc. apply in_map_iff in Hc. destruct Hc as ([c' v] & <- & Hin). apply (H c' v). assumption.
    - intros H c v Hin. apply H. change c with (fst (c, v)). apply in_map. assumption.
  Qed.

  Lemma keys_a_add : forall b a x, In x (keys (a_add a b)) <-> In x (keys a) \/ In x (keys b).
  Proof.
    unfold a_add. induction b as [|[c v] r IH]; intros a x; cbn [fold_left fst snd].
    - cbn. intuition.
    - rewrite IH, keys_a_add1. cbn. intuition congruence.
  Qed.

  (* C10_linear *)
  Lemma convert_linear_add : forall a b ra rb,
    convert_amount fuel choose recs a target date = COk ra ->
    convert_amount fuel choose recs b target date = COk rb ->
    exists rab, convert_amount fuel choose recs (a_add a b) target date = COk rab /\
                a_get rab target = a_get ra target + a_get rb target /\
                (forall c v, In (c, v) rab -> c = target).
  Proof.
    intros a b ra rb Ha Hb.
    destruct (convert_amount_result _ _ Ha) as (_ & _ & Va).
    destruct (convert_amount_result _ _ Hb) as (_ & _ & Vb).
    assert (Hc : convertible t target (a_add a b)).
    { apply convertible_keys. intros c Hc. apply keys_a_add in Hc.
      destruct Hc as [Hc|Hc]; [apply (proj1 (convertible_keys a))|apply (proj1 (convertible_keys b))]; try assumption;
        apply convert_amount_iff; eexists; eassumption. }
    exists (conv_result t target (a_add a b)). split; [apply convert_amount_ok; assumption|].
    destruct (convert_amount_result _ _ (convert_amount_ok _ Hc)) as (_ & Hs & Vab).
    split; [|exact Hs]. rewrite Vab, Va, Vb. apply conv_value_add.
  Qed.

  Lemma convert_linear_scale : forall a k ra,
    convert_amount fuel choose recs a target date = COk ra ->
    exists r, convert_amount fuel choose recs (a_scale a k) target date = COk r /\
              a_get r target = k * a_get ra target.
  Proof.
    intros a k ra Ha. destruct (convert_amount_result _ _ Ha) as (_ & _ & Va).
    assert (Hc : convertible t target (a_scale a k)).
    { assert (Hca : convertible t target a) by (apply convert_amount_iff; eexists; eassumption).
      intros c v Hin. unfold a_scale in Hin. apply in_map_iff in Hin. destruct Hin as ([c' v'] & E & Hin).
      cbn [fst snd] in E. injection E as E1 E2. rewrite <- E1. apply (Hca c' v'). assumption. }
    exists (conv_result t target (a_scale a k)). split; [apply convert_amount_ok; assumption|].
    destruct (convert_amount_result _ _ (convert_amount_ok _ Hc)) as (_ & _ & V).
    rewrite V, Va. apply conv_value_scale.
  Qed.
End ConvertAmount.

(* ------------------------------------------------------------------ *)
(* converted reports                                                   *)
(* ------------------------------------------------------------------ *)
Lemma qc_zero_true : forall x, qc_zero x = true <-> x = 0.
Proof.
  intros x. unfold qc_zero. split; [apply Qc_eq_bool_correct|].
  intros ->. unfold Qc_eq_bool. destruct (Qc_eq_dec 0 0); [reflexivity|contradiction n; reflexivity].
Qed.

Lemma bal_get_set_same : forall (b : balance) a x, bal_get (set a x b) a = x.
Proof. intros. unfold bal_get. rewrite pget_set_same. reflexivity. Qed.
Lemma bal_get_set_other : forall (b : balance) a a' x, a <> a' -> bal_get (set a x b) a' = bal_get b a'.
Proof. intros. unfold bal_get. rewrite pget_set_other by assumption. reflexivity. Qed.

Lemma bal_get_round : forall f (b : balance) acct, bal_get (bal_round f b) acct = a_round f (bal_get b acct).
Proof.
  intros f b acct. unfold bal_get, bal_round. rewrite (get_map_snd (a_round f)).
  destruct (get acct b); reflexivity.
Qed.

Section Reports.
  Variable fuel : nat.
  Variable choose : chooser.
  Variable recs : records.
  Variable target : cid.

  Notation st := (st target).

  Lemma norm_add : forall s x,
    st x -> a_remove_zeros (a_add (norm_amt target s) x) = norm_amt target (s + a_get x target).
  Proof.
    intros s x Hx. unfold norm_amt at 1. destruct (qc_zero s) eqn:Zs.
    - apply qc_zero_true in Zs. subst s. destruct Hx as [->|[v ->]].
      + unfold a_add, a_get. cbn [fold_left get]. unfold a_remove_zeros, norm_amt. cbn [filter].
        replace (0 + 0) with 0 by ring. rewrite (proj2 (qc_zero_true 0) eq_refl). reflexivity.
      + unfold a_add, a_add1, a_get. cbn [fold_left fst snd get app]. rewrite N.eqb_refl.
        replace (0 + v) with v by ring. unfold a_remove_zeros, norm_amt. cbn [filter snd].
        destruct (qc_zero v); reflexivity.
    - destruct Hx as [->|[v ->]].
      + unfold a_add, a_get. cbn [fold_left get]. replace (s + 0) with s by ring.
        unfold a_remove_zeros, norm_amt. cbn [filter snd]. rewrite Zs. reflexivity.
      + unfold a_add, a_add1, a_get. cbn [fold_left fst snd get]. rewrite N.eqb_refl.
        cbn [set]. rewrite N.eqb_refl. unfold a_remove_zeros, norm_amt. cbn [filter snd].
        destruct (qc_zero (s + v)); reflexivity.
  Qed.

  Lemma bal_get_nil_norm : forall a : aid, bal_get [] a = norm_amt target 0.
  Proof.
    intros a. unfold bal_get, norm_amt. cbn [get]. rewrite (proj2 (qc_zero_true 0) eq_refl). reflexivity.
  Qed.

  Lemma conv_result_st : forall t a, st (conv_result t target a).
  Proof. intros t a. unfold conv_result. destruct a; [left; reflexivity|right; eexists; reflexivity]. Qed.

  Lemma a_get_conv_result : forall t a, a_get (conv_result t target a) target = conv_value t target a.
  Proof.
    intros t a. unfold conv_result. destruct a as [|p r]; [reflexivity|].
    unfold a_get. cbn [get]. rewrite N.eqb_refl. reflexivity.
  Qed.

  (* adding a converted amount to an account of a balance kept in normal form *)
  Lemma bal_add_norm : forall (b : balance) (f : aid -> Qc) a x,
    (forall acct, bal_get b acct = norm_amt target (f acct)) -> st x ->
    forall acct, bal_get (bal_add_amount b a x) acct =
                 norm_amt target (if (a =? acct)%N then f acct + a_get x target else f acct).
  Proof.
    intros b f a x Hb Hx acct. unfold bal_add_amount. destruct (a =? acct)%N eqn:E.
    - apply N.eqb_eq in E. subst acct. rewrite bal_get_set_same, Hb. apply norm_add. assumption.
    - assert (a <> acct) by (intro; subst; rewrite N.eqb_refl in E; discriminate).
      rewrite bal_get_set_other by assumption. apply Hb.
  Qed.

  (* ---- historical ---- *)
  Lemma refold_posts_hist : forall t date ps (b b' : balance) (f : aid -> Qc),
    price_table fuel choose recs target date = PTDone t ->
    refold_posts fuel choose recs (Some target) date ps b = COk b' ->
    (forall acct, bal_get b acct = norm_amt target (f acct)) ->
    (forall p, In p ps -> convertible t target (o_amount p)) /\
    forall acct, bal_get b' acct = norm_amt target (f acct + posts_sum t target ps acct).
  Proof.
    intros t date ps. induction ps as [|p r IH]; intros b b' f Ht H Hb; cbn [refold_posts] in H.
    - inversion H; subst. split; [intros p []|]. intros acct. rewrite Hb. cbn. f_equal. ring.
    - unfold cbind at 1 in H. unfold conv in H.
      destruct (convert_amount fuel choose recs (o_amount p) target date) as [x|e|] eqn:Ec; try discriminate.
      destruct (convert_amount_result _ _ _ _ _ _ Ht _ _ Ec) as (Ex & _ & _).
      assert (Hcp : convertible t target (o_amount p)).
      { apply (convert_amount_iff fuel choose recs target date t Ht). eexists; eassumption. }
      pose proof (bal_add_norm b f (o_account p) x Hb) as Hb1. subst x.
      specialize (Hb1 (conv_result_st t (o_amount p))).
      destruct (IH _ _ _ Ht H Hb1) as [Hc Hs]. split.
      + intros p' [<-|Hin]; [assumption|apply Hc; assumption].
      + intros acct. rewrite Hs. cbn [posts_sum fold_right]. fold (posts_sum t target r acct).
        rewrite a_get_conv_result. f_equal. destruct (o_account p =? acct)%N; ring.
  Qed.

  Lemma refold_txns_hist : forall (tbl : Z -> table) start end_ ts (b b' : balance) (f : aid -> Qc),
    (forall t, In t ts -> range_contains start end_ (o_date t) = true ->
               price_table fuel choose recs target (o_date t) = PTDone (tbl (o_date t))) ->
    refold_txns fuel choose recs (Some target) start end_ ts b = COk b' ->
    (forall acct, bal_get b acct = norm_amt target (f acct)) ->
    forall acct, bal_get b' acct = norm_amt target (f acct + hist_sum tbl target ts start end_ acct).
  Proof.
    intros tbl start end_ ts. induction ts as [|t r IH]; intros b b' f Ht H Hb acct; cbn [refold_txns] in H.
    - inversion H; subst. rewrite Hb. cbn. f_equal. ring.
    - cbn [hist_sum fold_right]. fold (hist_sum tbl target r start end_ acct).
      destruct (range_contains start end_ (o_date t)) eqn:R.
      + unfold cbind at 1 in H.
        destruct (refold_posts fuel choose recs (Some target) (o_date t) (o_posts t) b) as [b1|e|] eqn:E1; try discriminate.
        destruct (refold_posts_hist _ _ _ _ _ _ (Ht t (or_introl eq_refl) R) E1 Hb) as [_ Hb1].
        rewrite (IH b1 b' _ (fun t' Hin => Ht t' (or_intror Hin)) H Hb1). f_equal. ring.
      + apply (IH b b' f (fun t' Hin => Ht t' (or_intror Hin)) H Hb).
  Qed.

  (* C10_historical_report *)
  Lemma historical_report : forall (tbl : Z -> table) (s : bstate) start end_ b,
    (forall t, In t (s_txns s) -> range_contains start end_ (o_date t) = true ->
               price_table fuel choose recs target (o_date t) = PTDone (tbl (o_date t))) ->
    balance_query fuel choose recs s (Some {| cv_strategy := Historical; cv_target := target |}) start end_ = COk b ->
    forall acct, bal_get b acct =
                 a_round (s_fmt s) (norm_amt target (hist_sum tbl target (s_txns s) start end_ acct)).
  Proof.
    intros tbl s start end_ b Ht H acct. unfold balance_query, require_recompute, is_up_to_date in H.
    cbn [cv_strategy cv_target] in H. rewrite orb_true_r in H. cbn [negb] in H.
    unfold cbind in H.
    destruct (refold_txns fuel choose recs (Some target) start end_ (s_txns s) []) as [b0|e|] eqn:E; try discriminate.
    inversion H; subst b. rewrite bal_get_round. f_equal.
    rewrite (refold_txns_hist tbl start end_ (s_txns s) [] b0 (fun _ => 0) Ht E).
    - f_equal. ring.
    - apply bal_get_nil_norm.
  Qed.

  Lemma refold_posts_total : forall t date ps (b : balance),
    price_table fuel choose recs target date = PTDone t ->
    (exists b', refold_posts fuel choose recs (Some target) date ps b = COk b') \/
    (exists c v p, refold_posts fuel choose recs (Some target) date ps b = CErr (RateNotFound c v target date) /\
                   In p ps /\ In (c, v) (o_amount p) /\ c <> target /\ get c t = None).
  Proof.
    intros t date ps. induction ps as [|p r IH]; intros b Ht; cbn [refold_posts].
    - left. eexists. reflexivity.
    - unfold cbind at 1, conv. destruct (convertible_dec target t (o_amount p)) as [Hc|Hn].
      + rewrite (convert_amount_ok fuel choose recs target date t Ht _ Hc).
        destruct (IH (bal_add_amount b (o_account p) (conv_result t target (o_amount p))) Ht)
          as [[b' E]|(c & v & p' & E & Hin & X)].
        * left. exists b'. exact E.
        * right. exists c, v, p'. split; [exact E|]. split; [right; assumption|exact X].
      + assert (Hex : exists c v, In (c, v) (o_amount p) /\ rate_of t target c = None).
        { clear - Hn. induction (o_amount p) as [|[c v] r IH].
          - exfalso. apply Hn. intros c v [].
          - destruct (rate_of t target c) eqn:Er.
            + destruct IH as (c' & v' & Hin & Hr).
              * intro Hc. apply Hn. intros c' v' [X|X]; [inversion X; subst; congruence|apply (Hc c' v'); assumption].
              * exists c', v'. split; [right; assumption|assumption].
            + exists c, v. split; [left; reflexivity|assumption]. }
        destruct (convert_amount_fails fuel choose recs target date t Ht _ Hex) as (c & v & E & Hin & Hne & Hg).
        right. exists c, v, p. rewrite E. split; [reflexivity|]. split; [left; reflexivity|]. auto.
  Qed.

  (* C10_historical_ok_iff: the historical report exists exactly when every entry of every
     posting in range has a rate at its transaction date *)
  Lemma refold_txns_ok_iff : forall (tbl : Z -> table) start end_ ts (b : balance) (f : aid -> Qc),
    (forall t, In t ts -> range_contains start end_ (o_date t) = true ->
               price_table fuel choose recs target (o_date t) = PTDone (tbl (o_date t))) ->
    (forall acct, bal_get b acct = norm_amt target (f acct)) ->
    ((exists b', refold_txns fuel choose recs (Some target) start end_ ts b = COk b') <->
     (forall t p, In t ts -> range_contains start end_ (o_date t) = true -> In p (o_posts t) ->
                  convertible (tbl (o_date t)) target (o_amount p))).
  Proof.
    intros tbl start end_ ts. induction ts as [|t r IH]; intros b f Ht Hb; cbn [refold_txns].
    - split; [intros _ t p []|intros _; eexists; reflexivity].
    - destruct (range_contains start end_ (o_date t)) eqn:R.
      + pose proof (Ht t (or_introl eq_refl) R) as Htt. unfold cbind at 1.
        destruct (refold_posts fuel choose recs (Some target) (o_date t) (o_posts t) b) as [b1|e|] eqn:E1.
        * destruct (refold_posts_hist _ _ _ _ _ _ Htt E1 Hb) as [Hc1 Hb1].
          rewrite (IH b1 _ (fun t' Hin => Ht t' (or_intror Hin)) Hb1). split.
          -- intros H t' p [<-|Hin] R' Hp; [apply Hc1; assumption|apply (H t' p); assumption].
          -- intros H t' p Hin R' Hp. apply (H t' p); [right; assumption|assumption|assumption].
        * split; [intros [b' X]; discriminate|]. intros H. exfalso.
          destruct (refold_posts_total _ _ (o_posts t) b Htt) as [[b' X]|(c & v & p & X & Hin & Hcv & Hne & Hg)];
            [congruence|].
          apply (H t p (or_introl eq_refl) R Hin c v Hcv). unfold rate_of.
          destruct (c =? target)%N eqn:Ec; [apply N.eqb_eq in Ec; contradiction|]. rewrite Hg. reflexivity.
        * split; [intros [b' X]; discriminate|]. intros H. exfalso.
          destruct (refold_posts_total _ _ (o_posts t) b Htt) as [[b' X]|(c & v & p & X & _)]; congruence.
      + rewrite (IH b f (fun t' Hin => Ht t' (or_intror Hin)) Hb). split.
        * intros H t' p [<-|Hin] R' Hp; [congruence|apply (H t' p); assumption].
        * intros H t' p Hin R' Hp. apply (H t' p); [right; assumption|assumption|assumption].
  Qed.

  Lemma historical_ok_iff : forall (tbl : Z -> table) (s : bstate) start end_,
    (forall t, In t (s_txns s) -> range_contains start end_ (o_date t) = true ->
               price_table fuel choose recs target (o_date t) = PTDone (tbl (o_date t))) ->
    ((exists b, balance_query fuel choose recs s (Some {| cv_strategy := Historical; cv_target := target |}) start end_ = COk b)
     <-> (forall t p, In t (s_txns s) -> range_contains start end_ (o_date t) = true -> In p (o_posts t) ->
                      convertible (tbl (o_date t)) target (o_amount p))).
  Proof.
    intros tbl s start end_ Ht.
    rewrite <- (refold_txns_ok_iff tbl start end_ (s_txns s) [] (fun _ => 0) Ht bal_get_nil_norm).
    unfold balance_query, require_recompute, is_up_to_date. cbn [cv_strategy cv_target].
    rewrite orb_true_r. cbn [negb]. unfold cbind.
    destruct (refold_txns fuel choose recs (Some target) start end_ (s_txns s) []) as [b0|e|];
      split; intros [b H]; try discriminate; eexists; reflexivity.
  Qed.

  (* C10_no_drop_no_double: the historical sum is the sum over every (posting, entry) pair once *)
  Lemma entries_sum_app : forall tbl l1 l2 acct,
    entries_sum tbl target (l1 ++ l2) acct = entries_sum tbl target l1 acct + entries_sum tbl target l2 acct.
  Proof.
    intros tbl l1 l2 acct. unfold entries_sum.
    induction l1 as [|[[[d a] c] v] r IH]; cbn [app fold_right]; [ring|].
    rewrite IH. destruct (a =? acct)%N; ring.
  Qed.

  Lemma entries_of_amount : forall tbl d a amt acct,
    entries_sum tbl target (map (fun cv : cid * Qc => (d, a, fst cv, snd cv)) amt) acct =
    if (a =? acct)%N then conv_value (tbl d) target amt else 0.
  Proof.
    intros tbl d a amt acct. unfold entries_sum, conv_value.
    induction amt as [|[c v] r IH]; cbn [map fold_right fst snd].
    - destruct (a =? acct)%N; reflexivity.
    - rewrite IH. destruct (a =? acct)%N; ring.
  Qed.

  Lemma entries_of_posts : forall tbl d ps acct,
    entries_sum tbl target
      (flat_map (fun p => map (fun cv : cid * Qc => (d, o_account p, fst cv, snd cv)) (o_amount p)) ps) acct =
    posts_sum (tbl d) target ps acct.
  Proof.
    intros tbl d ps acct. induction ps as [|p r IH]; cbn [flat_map].
    - reflexivity.
    - rewrite entries_sum_app, entries_of_amount, IH. unfold posts_sum. cbn [fold_right].
      destruct (o_account p =? acct)%N; ring.
  Qed.

  Lemma hist_sum_entries : forall tbl ts start end_ acct,
    hist_sum tbl target ts start end_ acct = entries_sum tbl target (posting_entries ts start end_) acct.
  Proof.
    intros tbl ts start end_ acct. unfold posting_entries.
    induction ts as [|t r IH]; cbn [flat_map]; [reflexivity|].
    rewrite entries_sum_app, <- IH. unfold hist_sum. cbn [fold_right].
    destruct (range_contains start end_ (o_date t)).
    - rewrite entries_of_posts. reflexivity.
    - unfold entries_sum at 1. cbn [fold_right]. ring.
  Qed.

  (* ---- up-to-date ---- *)
  Lemma refold_posts_plain : forall date ps b,
    refold_posts fuel choose recs None date ps b =
    COk (fold_left (fun b p => bal_add_amount b (o_account p) (o_amount p)) ps b).
  Proof. intros date ps. induction ps as [|p r IH]; intros b; cbn; [reflexivity|apply IH]. Qed.

  Lemma refold_txns_plain : forall start end_ ts b,
    refold_txns fuel choose recs None start end_ ts b =
    COk (fold_left (fun b t => if range_contains start end_ (o_date t)
                               then fold_left (fun b p => bal_add_amount b (o_account p) (o_amount p)) (o_posts t) b
                               else b) ts b).
  Proof.
    intros start end_ ts. induction ts as [|t r IH]; intros b; cbn [refold_txns fold_left]; [reflexivity|].
    destruct (range_contains start end_ (o_date t)); [|apply IH].
    rewrite refold_posts_plain. cbn [cbind]. apply IH.
  Qed.

  Lemma convert_accounts_utd : forall t now (src acc acc' : balance) (f : aid -> Qc),
    price_table fuel choose recs target now = PTDone t ->
    convert_accounts fuel choose recs target now src acc = COk acc' ->
    (forall acct, bal_get acc acct = norm_amt target (f acct)) ->
    (forall a amt, In (a, amt) src -> convertible t target amt) /\
    forall acct, bal_get acc' acct = norm_amt target (f acct + utd_sum t target src acct).
  Proof.
    intros t now src. induction src as [|[a amt] r IH]; intros acc acc' f Ht H Hb; cbn [convert_accounts] in H.
    - inversion H; subst. split; [intros a amt []|]. intros acct. rewrite Hb. cbn. f_equal. ring.
    - unfold cbind at 1 in H. unfold conv in H.
      destruct (convert_amount fuel choose recs amt target now) as [x|e|] eqn:Ec; try discriminate.
      destruct (convert_amount_result _ _ _ _ _ _ Ht _ _ Ec) as (Ex & _ & _).
      assert (Hcp : convertible t target amt).
      { apply (convert_amount_iff fuel choose recs target now t Ht). eexists; eassumption. }
      pose proof (bal_add_norm acc f a x Hb) as Hb1. subst x.
      specialize (Hb1 (conv_result_st t amt)).
      destruct (IH _ _ _ Ht H Hb1) as [Hc Hs]. split.
      + intros a' amt' [E|Hin]; [inversion E; subst; assumption|eapply Hc; eassumption].
      + intros acct. rewrite Hs. cbn [utd_sum fold_right fst snd]. fold (utd_sum t target r acct).
        rewrite a_get_conv_result. f_equal. destruct (a =? acct)%N; ring.
  Qed.

  Lemma balance_query_utd_unfold : forall s now start end_,
    balance_query fuel choose recs s (Some {| cv_strategy := UpToDate now; cv_target := target |}) start end_ =
    cbind (convert_accounts fuel choose recs target now (utd_source s start end_) [])
          (fun converted => COk (bal_round (s_fmt s) converted)).
  Proof.
    intros s now start end_. unfold balance_query, require_recompute, is_up_to_date, utd_source.
    cbn [cv_strategy cv_target]. rewrite orb_false_r. destruct (range_bypass start end_); cbn [negb cbind].
    - reflexivity.
    - rewrite refold_txns_plain. cbn [cbind]. reflexivity.
  Qed.

  (* C10_up_to_date_report *)
  Lemma up_to_date_report : forall t (s : bstate) now start end_ b,
    price_table fuel choose recs target now = PTDone t ->
    balance_query fuel choose recs s (Some {| cv_strategy := UpToDate now; cv_target := target |}) start end_ = COk b ->
    forall acct, bal_get b acct =
                 a_round (s_fmt s) (norm_amt target (utd_sum t target (utd_source s start end_) acct)).
  Proof.
    intros t s now start end_ b Ht H acct. rewrite balance_query_utd_unfold in H. unfold cbind in H.
    destruct (convert_accounts fuel choose recs target now (utd_source s start end_) []) as [c0|e|] eqn:E; try discriminate.
    inversion H; subst b. rewrite bal_get_round. f_equal.
    destruct (convert_accounts_utd t now _ [] c0 (fun _ => 0) Ht E) as [_ Hs].
    - apply bal_get_nil_norm.
    - rewrite Hs. f_equal. ring.
  Qed.

  (* the report exists exactly when every amount it has to convert has a rate; otherwise the
     command fails naming a commodity without a chain *)
  Lemma convert_accounts_total : forall t now (src acc : balance),
    price_table fuel choose recs target now = PTDone t ->
    (exists acc', convert_accounts fuel choose recs target now src acc = COk acc') \/
    (exists c v a amt, convert_accounts fuel choose recs target now src acc = CErr (RateNotFound c v target now) /\
                       In (a, amt) src /\ In (c, v) amt /\ c <> target /\ get c t = None).
  Proof.
    intros t now src. induction src as [|[a amt] r IH]; intros acc Ht; cbn [convert_accounts].
    - left. eexists. reflexivity.
    - unfold cbind at 1, conv. destruct (convertible_dec target t amt) as [Hc|Hn].
      + rewrite (convert_amount_ok fuel choose recs target now t Ht amt Hc).
        destruct (IH (bal_add_amount acc a (conv_result t target amt)) Ht) as [[acc' E]|(c & v & a' & amt' & E & Hin & X)].
        * left. exists acc'. exact E.
        * right. exists c, v, a', amt'. split; [exact E|]. split; [right; assumption|exact X].
      + assert (Hex : exists c v, In (c, v) amt /\ rate_of t target c = None).
        { clear - Hn. induction amt as [|[c v] r IH].
          - exfalso. apply Hn. intros c v [].
          - destruct (rate_of t target c) eqn:Er.
            + destruct IH as (c' & v' & Hin & Hr).
              * intro Hc. apply Hn. intros c' v' [X|X]; [inversion X; subst; congruence|apply (Hc c' v'); assumption].
              * exists c', v'. split; [right; assumption|assumption].
            + exists c, v. split; [left; reflexivity|assumption]. }
        destruct (convert_amount_fails fuel choose recs target now t Ht amt Hex) as (c & v & E & Hin & Hne & Hg).
        right. exists c, v, a, amt. rewrite E. split; [reflexivity|]. split; [left; reflexivity|]. auto.
  Qed.

  (* C10_up_to_date_fails_iff *)
  Lemma up_to_date_ok_iff : forall t (s : bstate) now start end_,
    price_table fuel choose recs target now = PTDone t ->
    ((exists b, balance_query fuel choose recs s (Some {| cv_strategy := UpToDate now; cv_target := target |}) start end_ = COk b)
     <-> forall a amt, In (a, amt) (utd_source s start end_) -> convertible t target amt).
  Proof.
    intros t s now start end_ Ht. rewrite balance_query_utd_unfold. split.
    - intros [b H]. unfold cbind in H.
      destruct (convert_accounts fuel choose recs target now (utd_source s start end_) []) as [c0|e|] eqn:E; try discriminate.
      destruct (convert_accounts_utd t now _ [] c0 (fun _ => 0) Ht E) as [Hc _]; [|exact Hc].
      apply bal_get_nil_norm.
    - intros Hall. destruct (convert_accounts_total t now (utd_source s start end_) [] Ht)
        as [[acc' E]|(c & v & a & amt & E & Hin & Hcv & Hne & Hg)].
      + rewrite E. eexists. reflexivity.
      + exfalso. apply (Hall a amt Hin c v Hcv). unfold rate_of.
        destruct (c =? target)%N eqn:Ec; [apply N.eqb_eq in Ec; contradiction|]. rewrite Hg. reflexivity.
  Qed.

  Lemma up_to_date_never_out_of_fuel : forall t (s : bstate) now start end_,
    price_table fuel choose recs target now = PTDone t ->
    balance_query fuel choose recs s (Some {| cv_strategy := UpToDate now; cv_target := target |}) start end_ <> COutOfFuel.
  Proof.
    intros t s now start end_ Ht. rewrite balance_query_utd_unfold.
    destruct (convert_accounts_total t now (utd_source s start end_) [] Ht)
      as [[acc' E]|(c & v & a & amt & E & _)]; rewrite E; discriminate.
  Qed.
End Reports.

(* ---- the hypotheses are satisfiable; the witness of C10-F1 under the repaired code ---- *)
Definition ex_post (a : N) (amt : option vexpr) (cost : option exchange) : posting :=
  {| p_account := a; p_amount := amt; p_cost := cost; p_lot := None; p_balance := None |}.
(* commodity 0 (0 places), commodity 4 (2 places); 0 C0 @ 100 C4; twice 0.4 C0 into account 0 *)
Definition ex_entries : list entry :=
  [EFormat 0%N 0%nat; EFormat 4%N 2%nat;
   ETxn {| t_date := 1%Z;
           t_posts := [ex_post 2%N (Some (VAmt 0 (Some 0%N))) (Some (XRate (VAmt (of_dec 100 0) (Some 4%N))));
                       ex_post 2%N None None] |};
   ETxn {| t_date := 2%Z; t_posts := [ex_post 0%N (Some (VAmt (of_dec 4 1) (Some 0%N))) None; ex_post 2%N None None] |};
   ETxn {| t_date := 3%Z; t_posts := [ex_post 0%N (Some (VAmt (of_dec 4 1) (Some 0%N))) None; ex_post 2%N None None] |}].
Definition ex_state : bstate := match process ex_entries with (Ok s, _) => s | _ => bstate0 end.
Definition ex_recs : records := repository (s_events ex_state) [].

Example ex_table : exists t, price_table 16 choose_max ex_recs 4%N 10%Z = PTDone t.
Proof. eexists. vm_compute. reflexivity. Qed.

(* 0.4 + 0.4 at 100 over a date range is 80, not 100 *)
Example ex_ranged_up_to_date :
  match balance_query 16 choose_max ex_recs ex_state
                      (Some {| cv_strategy := UpToDate 10%Z; cv_target := 4%N |}) (Some 1%Z) (Some 30%Z) with
  | COk b => Qc_eq_bool (a_get (bal_get b 0%N) 4%N) (of_dec 80 0)
  | _ => false
  end = true.
Proof. vm_compute. reflexivity. Qed.

Example ex_missing_rate_fails :
  match balance_query 16 choose_max ex_recs ex_state
                      (Some {| cv_strategy := UpToDate 0%Z; cv_target := 4%N |}) None None with
  | CErr (RateNotFound c _ _ _) => (c =? 0)%N
  | _ => false
  end = true.
Proof. vm_compute. reflexivity. Qed.
