(* C13 vocabulary: "the same book-keeping state up to the iteration order of its HashMaps".
   Definitions only.  `map_equiv` (Proofs/MapsSort.v) and `bal_equiv` (Proofs/RenderProofs.v)
   say that two duplicate-free association lists hold the same entries; here they are lifted
   to stored postings, price events, errors, states and runs. *)
From Coq Require Import List NArith ZArith Bool QArith Qcanon.
From Okv Require Import Base.Maps Base.Dec Model.Amount Model.Book Model.Query Model.Render
     Model.PriceDb Model.PriceSpec
     Proofs.MapsSort Proofs.RenderProofs Proofs.PriceTable.
Import ListNotations.

(* values of the expression evaluator: numbers equal, commodity amounts the same map *)
Definition val_equiv (x y : evaluated) : Prop :=
  match x, y with
  | ENum a, ENum b => a = b
  | ECom a, ECom b => map_equiv a b
  | _, _ => False
  end.
(* fallible evaluator results: same error, or related values *)
Definition res_equiv {A B} (R : A -> B -> Prop) (x : A + eval_err) (y : B + eval_err) : Prop :=
  match x, y with
  | inl a, inl b => R a b
  | inr e, inr e' => e = e'
  | _, _ => False
  end.

(* a stored posting: same account, same converted amount, the amount the same map *)
Definition op_equiv (p p' : oposting) : Prop :=
  o_account p = o_account p' /\ map_equiv (o_amount p) (o_amount p') /\ o_converted p = o_converted p'.
(* a stored transaction: same date, postings related position by position *)
Definition otxn_equiv (t t' : otxn) : Prop :=
  o_date t = o_date t' /\ Forall2 op_equiv (o_posts t) (o_posts t').

(* the exchange implied by a two-commodity residual is recorded as (x, y) or as (y, x) depending on
   which entry of the residual map comes first (two different commodities); insert_price stores both
   directions either way *)
Definition ev_swap (e : price_event) : price_event :=
  {| e_source := e_source e; e_date := e_date e;
     e_xc := e_yc e; e_xv := e_yv e; e_yc := e_xc e; e_yv := e_xv e |}.
Definition ev_equiv (e e' : price_event) : Prop :=
  e' = e \/ (e' = ev_swap e /\ e_xc e <> e_yc e).
Definition oev_equiv (e e' : option price_event) : Prop :=
  match e, e' with Some x, Some y => ev_equiv x y | None, None => True | _, _ => False end.

Record st_equiv (s s' : bstate) : Prop := {
  se_bal : bal_equiv (s_bal s) (s_bal s');
  se_fmt : map_equiv (s_fmt s) (s_fmt s');
  se_events : Forall2 ev_equiv (s_events s) (s_events s');
  se_txns : Forall2 otxn_equiv (s_txns s) (s_txns s')
}.

(* errors: same kind, same indices, amount payloads the same maps *)
Definition err_equiv (e e' : bk_err) : Prop :=
  match e, e' with
  | UnbalancedPostings r, UnbalancedPostings r' => map_equiv r r'
  | BalanceAssertionFailure i c d, BalanceAssertionFailure i' c' d' =>
      i = i' /\ map_equiv c c' /\ map_equiv d d'
  | _, _ => e = e'
  end.

(* the error as printed: every amount payload in InlinePrintAmount order *)
Definition render_err (e : bk_err) : bk_err :=
  match e with
  | UnbalancedPostings r => UnbalancedPostings (render_amount r)
  | BalanceAssertionFailure i c d => BalanceAssertionFailure i (render_amount c) (render_amount d)
  | _ => e
  end.

(* outcomes related: both Ok with related values, both errors with equivalent errors, both Panic *)
Definition out_equiv {A B} (R : A -> B -> Prop) (x : outcome A) (y : outcome B) : Prop :=
  match x, y with
  | Ok a, Ok b => R a b
  | Err e, Err e' => err_equiv e e'
  | Panic, Panic => True
  | _, _ => False
  end.

(* the state of the posting loop *)
Definition loop_equiv (l l' : loop_st) : Prop :=
  bal_equiv (l_bal l) (l_bal l') /\ Forall2 op_equiv (l_posts l) (l_posts l') /\ l_unfilled l = l_unfilled l' /\
  map_equiv (l_residual l) (l_residual l') /\ l_events l = l_events l'.

(* result of process_posting *)
Definition pp_equiv (r r' : balance * option evaluated_posting * option price_event) : Prop :=
  bal_equiv (fst (fst r)) (fst (fst r')) /\ snd (fst r) = snd (fst r') /\ snd r = snd r'.

(* result of check_balance *)
Definition cb_equiv (r r' : list oposting * option price_event) : Prop :=
  Forall2 op_equiv (fst r) (fst r') /\ oev_equiv (snd r) (snd r').

(* result of process / process_from: the index reported is the same *)
Definition run_equiv (r r' : outcome bstate * nat) : Prop :=
  snd r = snd r' /\ out_equiv st_equiv (fst r) (fst r').

(* a run in which every HashMap may be re-ordered arbitrarily between two entries (a rehash, another
   process, another seed): after each entry the state is replaced by any equivalent one *)
Inductive run_any_order : nat -> bstate -> list entry -> outcome bstate * nat -> Prop :=
| rao_done i s : run_any_order i s [] (Ok s, i)
| rao_step i s e r s1 s2 res :
    process_entry s e = Ok s1 -> st_equiv s1 s2 -> run_any_order (S i) s2 r res ->
    run_any_order i s (e :: r) res
| rao_err i s e r x : process_entry s e = Err x -> run_any_order i s (e :: r) (Err x, i)
| rao_panic i s e r : process_entry s e = Panic -> run_any_order i s (e :: r) (Panic, i).

(* what `okane balance` / `okane register` print, and what a failing run prints *)
Definition stdout_balance (s : bstate) (start end_ : option Z) := render_balance (balance_report s start end_).
Definition stdout_register (s : bstate) (flt : option aid) := render_register (postings_of s flt).
Definition stderr_of (r : outcome bstate * nat) : option (bk_err * nat) :=
  match fst r with Err e => Some (render_err e, snd r) | _ => None end.

(* ---- the price repository: HashMap<price_with, HashMap<price_of, Entry>> in two iteration orders ---- *)
Definition rec_equiv (r r' : records) : Prop :=
  NoDup (keys r) /\ NoDup (keys r') /\
  forall w, match get w r, get w r' with
            | Some i, Some i' => map_equiv i i'
            | None, None => True
            | _, _ => False
            end.

(* the optimal chains from target to c as of `date` (least Distance) all give the same rate *)
Definition tie_free (recs : records) (date : Z) (target c : cid) : Prop :=
  forall r1 r2,
    In r1 (best_rates (out_edges recs date) (length (rec_comms recs)) target c) ->
    In r2 (best_rates (out_edges recs date) (length (rec_comms recs)) target c) -> r1 = r2.

(* ---- conversion of reports (Model/Convert.v) ---- *)
(* both conversions succeed with related results, or both fail (RateNotFound or fuel) *)
Definition conv_rel {A B} (R : A -> B -> Prop) (x : conv_outcome A) (y : conv_outcome B) : Prop :=
  match x, y with
  | COk a, COk b => R a b
  | COk _, _ | _, COk _ => False
  | _, _ => True
  end.
