(* C14 — diagnostics name the right file and line (spans and line numbers of the parser; the
   path and ParsedContext the composed loader hands to the callback; where run_files places a
   book-keeping error and a syntax error).
   Offsets are byte offsets into the UTF-8 text; utf8_len is the byte length of a list of
   Unicode scalar values; count_lf counts U+000A characters, count_nl counts bytes 10. *)
From Coq Require Import List NArith.
From Okv Require Import Model.Comb Model.ParseLedger Proofs.ParseLines
  Model.Syntax Model.Load Model.Named Model.Lower Model.Convert Model.Pipeline Model.PipelineSpec Proofs.PipelineProofs.
Import ListNotations.
Open Scope N_scope.

(* counting line feeds on bytes (what compute_line_number does) is counting them on
   characters: a byte 10 never occurs inside a multi-byte UTF-8 sequence *)
Theorem C14_lf_bytes : forall s, count_nl (utf8_encode s) = count_lf s.
Proof. exact count_nl_encode. Qed.
Print Assumptions C14_lf_bytes.

(* every entry the iterator yields (before the end or before the first error) spans exactly a
   slice [mid] of the text, and its line_start is 1 + the number of line feeds in what
   precedes it, whatever that is: blank lines, CRLF, multi-byte text, other entries *)
Theorem C14_line_start : forall s e, In e (result_entries (parse_ledger s)) ->
  exists pre mid post, s = pre ++ mid ++ post /\
    e_span e = (utf8_len pre, utf8_len pre + utf8_len mid) /\
    e_line_start e = 1 + count_lf pre.
Proof. exact line_start_of_entry. Qed.
Print Assumptions C14_line_start.

(* every tracked span (posting, account, amount, cost, lot price, balance) lies inside the
   span of its entry, and ParsedSpan::resolve (clip) rebases it without underflow *)
Theorem C14_spans_inside : forall s e p t,
  In e (result_entries (parse_ledger s)) -> In p (e_spans e) -> In t (spans_of p) ->
  aspan_in (e_span e) t /\
  clip (e_span e) t = Some (fst t - fst (e_span e), snd t - fst (e_span e)).
Proof. exact spans_inside_entry. Qed.
Print Assumptions C14_spans_inside.

(* a syntax error: the snippet is the text from a checkpoint [pre ++ .] of the original text,
   line_start is the line of that checkpoint, the error span lies inside the snippet, and the
   line a renderer shows for the error offset (line_start + line feeds before it in the
   snippet) is the line of that offset in the original text *)
Theorem C14_parse_error_lines : forall s es e, parse_ledger s = LErr es e ->
  exists pre rest, s = pre ++ rest /\
    pe_text_start e = utf8_len pre /\
    pe_line_start e = 1 + count_lf pre /\
    fst (pe_span e) <= snd (pe_span e) /\ snd (pe_span e) <= utf8_len rest /\
    pe_line_start e + count_nl (firstn (N.to_nat (fst (pe_span e))) (utf8_encode rest)) =
    1 + count_nl (firstn (N.to_nat (pe_text_start e + fst (pe_span e))) (utf8_encode s)).
Proof. exact parse_error_lines. Qed.
Print Assumptions C14_parse_error_lines.

(* the error span - the one character the renderer underlines - never reaches into the next line:
   for EVERY byte k of the span, the line a renderer shows for it (line_start + line feeds before
   it in the snippet) is the line of the offset where parsing stopped, in the original text.  Also
   when parsing stopped exactly at a line feed: the line feed is the whole span.  So the only
   line of the file a syntax diagnostic shows is the line where parsing stopped, whatever follows
   it (the next entry directly below, a comment, the end of the file). *)
Theorem C14_parse_error_span_one_line : forall s es e, parse_ledger s = LErr es e ->
  exists pre rest, s = pre ++ rest /\
    pe_text_start e = utf8_len pre /\
    forall k, fst (pe_span e) <= k -> k < snd (pe_span e) ->
      pe_line_start e + count_nl (firstn (N.to_nat k) (utf8_encode rest)) =
      1 + count_nl (firstn (N.to_nat (pe_text_start e + fst (pe_span e))) (utf8_encode s)).
Proof. exact parse_error_one_line. Qed.
Print Assumptions C14_parse_error_span_one_line.

(* ---------- the composed loader (Model/Pipeline.v) ---------- *)

(* Every entry the loader on a file system of texts hands to the callback - also before a
   failure, at any include depth, through literal and glob includes - carries the path of the
   file whose text contains it: that path is a file of the file system, the entry is the
   l_index-th entry the parser yields on THAT file's text (and never the include line itself:
   C11_include_never_delivered carried over), its span is exactly a slice [mid] of that text and
   its line_start is 1 + the line feeds before the slice (C14_line_start in that file).  So the
   file and line a diagnostic built from (path, ParsedContext) names is the containing file and
   the first line of the entry; lines inside the entry follow by C14_spans_inside. *)
Theorem C14_path_is_containing_file : forall fuel fs root l,
  In l (fst (load_texts fuel fs root)) ->
  exists text pre mid post,
    tlookup (l_path l) fs = Some text /\
    nth_error (result_entries (parse_ledger text)) (N.to_nat (l_index l)) = Some (l_parsed l) /\
    is_include (e_entry (l_parsed l)) = false /\
    text = pre ++ mid ++ post /\
    e_span (l_parsed l) = (utf8_len pre, utf8_len pre + utf8_len mid) /\
    e_line_start (l_parsed l) = 1 + count_lf pre.
Proof. exact path_is_containing_file. Qed.
Print Assumptions C14_path_is_containing_file.

(* When run_files fails with a book-keeping error, the reported path, entry span and line are
   those of the i-th delivered entry, where i is the first entry in load order whose booking
   fails: booking the first i delivered entries succeeds, booking one more fails with exactly
   that error; and that entry is placed as above (`placed` is the conclusion of
   C14_path_is_containing_file). *)
Theorem C14_bookkeeping_error_entry : forall lfuel qfuel choose o fs root p sp ln e i,
  run_files lfuel qfuel choose o fs root = FrProcessError p sp ln e i ->
  let out := fst (load_texts lfuel fs root) in
  exists l, nth_error out i = Some l /\
    p = l_path l /\ sp = e_span (l_parsed l) /\ ln = e_line_start (l_parsed l) /\
    (exists st, book_entries (firstn i (loaded_entries out)) = (NOk st, i)) /\
    book_entries (firstn (S i) (loaded_entries out)) = (NErr e, i) /\
    placed fs l.
Proof. exact bookkeeping_error_entry. Qed.
Print Assumptions C14_bookkeeping_error_entry.

(* When run_files fails with a syntax error, the reported path is the file whose text has that
   error (so C14_parse_error_lines speaks about that file's text), the load stopped there, and
   every entry delivered before it was booked without error. *)
Theorem C14_parse_error_file : forall lfuel qfuel choose o fs root p e,
  run_files lfuel qfuel choose o fs root = FrParseError p e ->
  (exists text es, tlookup p fs = Some text /\ parse_ledger text = LErr es e) /\
  snd (load_texts lfuel fs root) = TParse p e /\
  exists st n, book_entries (loaded_entries (fst (load_texts lfuel fs root))) = (NOk st, n).
Proof. exact parse_error_file. Qed.
Print Assumptions C14_parse_error_file.
