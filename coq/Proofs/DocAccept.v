(* Texts of the documented grammar (Model/DocGrammar.v, the covered constructs) are accepted
   by the parser model: parse_ledger returns LOk. *)
From Coq Require Import List NArith ZArith Bool Lia Arith.
From Okv Require Import Model.Lit Model.Syntax Model.Comb Model.ParseExpr Model.ParseMeta
  Model.ParsePosting Model.ParseTxn Model.ParseDirective Model.ParseLedger Model.DocGrammar
  Proofs.CombSpec Proofs.ParseSafe Proofs.ParseTotal.
Import ListNotations.
Open Scope N_scope.

(* ---- basic facts about scanning ---- *)
Definition starts_not (f : N -> bool) (k : list N) : Prop :=
  match k with [] => True | c :: _ => f c = false end.

Lemma all_app : forall f a b, all f (a ++ b) <-> all f a /\ all f b.
Proof. intros. unfold all. rewrite forallb_app, andb_true_iff. tauto. Qed.
Lemma all_cons : forall f c a, all f (c :: a) <-> f c = true /\ all f a.
Proof. intros. unfold all. simpl. rewrite andb_true_iff. tauto. Qed.

Lemma span_while_all : forall f a k, all f a -> starts_not f k -> span_while f (a ++ k) = (a, k).
Proof.
  induction a; intros k Ha Hk; simpl.
  - destruct k; [reflexivity |]. simpl in *. rewrite Hk. reflexivity.
  - apply all_cons in Ha. destruct Ha as [Hc Ha]. rewrite Hc. rewrite IHa by assumption. reflexivity.
Qed.

Lemma span_while_split : forall f x, exists a b, span_while f x = (a, b) /\ x = a ++ b /\ all f a /\ starts_not f b.
Proof.
  induction x; simpl.
  - exists [], []. repeat split.
  - destruct (f a) eqn:E.
    + destruct IHx as (p & q & E1 & E2 & E3 & E4). rewrite E1. exists (a :: p), q.
      repeat split; auto. { now subst. } { apply all_cons; auto. }
    + exists [], (a :: x). repeat split. simpl. exact E.
Qed.

Lemma literal_app : forall l r, literal l (l ++ r) = POk l r.
Proof.
  intros. unfold literal.
  assert (E : strip_prefix l (l ++ r) = Some r).
  { induction l; simpl; [reflexivity |]. rewrite N.eqb_refl. exact IHl. }
  rewrite E. reflexivity.
Qed.

(* what may follow a line: its line end and the rest k' of the text *)
Definition ends (k k' : list N) : Prop :=
  k = 10 :: k' \/ k = 13 :: 10 :: k' \/ (k = [] /\ k' = []).

Lemma ends_eol : forall e k', (e = Eof -> k' = []) -> ends (eol_text e ++ k') k'.
Proof. intros [] k' H; unfold ends; simpl; auto; right; right; rewrite H; auto. Qed.

Lemma ends_starts_not_text : forall k k', ends k k' -> starts_not no_new_line k.
Proof. intros k k' [-> | [-> | [-> _]]]; simpl; reflexivity. Qed.
Lemma ends_starts_not_sp : forall k k', ends k k' -> starts_not is_sp k.
Proof. intros k k' [-> | [-> | [-> _]]]; simpl; reflexivity. Qed.

Lemma till_line_ending_ok : forall t k k', text t -> ends k k' -> till_line_ending (t ++ k) = POk t k.
Proof.
  intros t k k' Ht Hk. unfold till_line_ending.
  rewrite (span_while_all (fun c => negb (is_nl c)) t k Ht (ends_starts_not_text _ _ Hk)).
  destruct Hk as [-> | [-> | [-> _]]]; reflexivity.
Qed.

Lemma line_ending_or_eof_ok : forall k k', ends k k' -> line_ending_or_eof k = POk tt k'.
Proof. intros k k' [-> | [-> | [-> ->]]]; reflexivity. Qed.

Lemma space1_ok : forall s k, sps1 s -> starts_not is_sp k -> space1 (s ++ k) = POk s k.
Proof.
  intros s k [Hne Hs] Hk. unfold space1, take_while1. rewrite (span_while_all is_sp s k Hs Hk).
  destruct s; [congruence | reflexivity].
Qed.
Lemma space0_ok : forall s k, sps0 s -> starts_not is_sp k -> space0 (s ++ k) = POk s k.
Proof.
  intros s k Hs Hk. unfold space0, take_while0. rewrite (span_while_all is_sp s k Hs Hk). reflexivity.
Qed.

(* blanks followed by arbitrary text: the run of blanks is extended by the blanks of the text *)
Lemma space1_text : forall s x k k', sps1 s -> text x -> ends k k' ->
  exists a b, space1 (s ++ x ++ k) = POk (s ++ a) (b ++ k) /\ x = a ++ b /\ text b.
Proof.
  intros s x k k' Hs Hx Hk.
  destruct (span_while_split is_sp x) as (a & b & _ & E2 & E3 & E4).
  exists a, b. subst x. apply all_app in Hx. destruct Hx as [_ Hb].
  repeat split; auto.
  replace (s ++ (a ++ b) ++ k) with ((s ++ a) ++ (b ++ k)) by (now rewrite !app_assoc).
  apply space1_ok.
  - destruct Hs as [Hne Hs]. split; [destruct s; [congruence | discriminate] | apply all_app; auto].
  - destruct b; [simpl; eapply ends_starts_not_sp; eauto | exact E4].
Qed.

Lemma bind_ok : forall A B (p : parser A) (k : A -> parser B) i a r,
  p i = POk a r -> bind p k i = k a r.
Proof. intros. unfold bind. rewrite H. reflexivity. Qed.

Ltac rw E := rewrite E; cbv beta iota.

(* ---- single-line directives ---- *)
Lemma include_ok : forall l k k', include_line l -> ends k k' ->
  exists e, include (l ++ k) = POk e k'.
Proof.
  intros l k k' Hl Hk. destruct Hl as [s path Hs Hne Hp].
  destruct (space1_text s path k k' Hs Hp Hk) as (a & b & E1 & E2 & Hb).
  unfold include, pmap, delimited, bind. rewrite <- !app_assoc.
  rw literal_app. rw E1. rw (till_line_ending_ok b k k' Hb Hk). rw (line_ending_or_eof_ok k k' Hk).
  unfold ret. eauto.
Qed.

Lemma starts_not_app_l : forall f a b, a <> [] -> starts_not f a -> starts_not f (a ++ b).
Proof. intros f [| c a] b H H1; [congruence | exact H1]. Qed.

Lemma kw_apply_ne : kw_apply <> []. Proof. discriminate. Qed.
Lemma kw_tag_ne : kw_tag <> []. Proof. discriminate. Qed.
Lemma kw_apply_not_sp : starts_not is_sp kw_apply. Proof. reflexivity. Qed.
Lemma kw_tag_not_sp : starts_not is_sp kw_tag. Proof. reflexivity. Qed.

Lemma end_apply_ok : forall l k k', end_apply_line l -> ends k k' ->
  end_apply_tag (l ++ k) = POk SEndApplyTag k'.
Proof.
  intros l k k' Hl Hk. destruct Hl as [s1 s2 s3 H1 H2 H3].
  unfold end_apply_tag, bind. rewrite <- !app_assoc.
  rw literal_app.
  rw (space1_ok s1 (kw_apply ++ s2 ++ kw_tag ++ s3 ++ k) H1 (starts_not_app_l _ _ _ kw_apply_ne kw_apply_not_sp)).
  rw literal_app.
  rw (space1_ok s2 (kw_tag ++ s3 ++ k) H2 (starts_not_app_l _ _ _ kw_tag_ne kw_tag_not_sp)).
  rw literal_app.
  rw (space0_ok s3 k H3 (ends_starts_not_sp _ _ Hk)).
  rw (line_ending_or_eof_ok k k' Hk). reflexivity.
Qed.

(* tag_key takes exactly a tag when what follows is a blank, a colon or the line end *)
Definition tag_stop (c : N) : bool := is_ascii_whitespace c || (c =? 58).
Lemma tag_key_ok : forall t x, tag t -> starts_not (fun c => negb (tag_stop c)) x -> tag_key (t ++ x) = POk t x.
Proof.
  intros t x [Hne Ht] Hx. unfold tag_key, take_till1, take_while1.
  assert (A : all (fun c => negb (tag_stop c)) t).
  { unfold all in *. rewrite forallb_forall in *. intros c Hc. specialize (Ht c Hc).
    unfold tag_char, tag_stop in *. rewrite <- negb_orb in Ht. exact Ht. }
  change (fun c : N => negb (is_ascii_whitespace c || (c =? 58))) with (fun c => negb (tag_stop c)).
  rewrite (span_while_all _ t x A Hx). destruct t; [congruence | reflexivity].
Qed.

Lemma ends_tag_stop : forall k k', ends k k' -> starts_not (fun c => negb (tag_stop c)) k.
Proof. intros k k' [-> | [-> | [-> _]]]; simpl; reflexivity. Qed.

Lemma sps_or_more_tag_stop : forall s x, sps0 s -> starts_not (fun c => negb (tag_stop c)) x ->
  starts_not (fun c => negb (tag_stop c)) (s ++ x).
Proof.
  intros [| c s] x Hs Hx; [exact Hx |]. apply all_cons in Hs. destruct Hs as [Hc _].
  simpl. unfold is_sp in Hc. unfold tag_stop, is_ascii_whitespace.
  destruct (N.eqb_spec c 32); [subst; reflexivity |].
  destruct (N.eqb_spec c 9); [subst; reflexivity | discriminate].
Qed.

Lemma metadata_value_ok : forall v k k', text v -> ends k k' ->
  exists mv, metadata_value (58 :: v ++ k) = POk mv k.
Proof.
  intros v k k' Hv Hk. unfold metadata_value, alt, pmap, preceded, bind.
  destruct v as [| c v'].
  - (* ":" then the line end *)
    simpl app.
    assert (E : literal [58; 58] (58 :: k) = PErr false 0 (58 :: k)).
    { unfold literal. simpl. destruct Hk as [-> | [-> | [-> _]]]; reflexivity. }
    rw E. simpl (chr 58 _). cbv beta iota.
    pose proof (till_line_ending_ok [] k k' Hv Hk) as T. simpl app in T.
    rw T. unfold ret. eauto.
  - destruct (N.eqb_spec c 58) as [-> | Hc].
    + (* "::" *)
      assert (E : literal [58; 58] (58 :: (58 :: v') ++ k) = POk [58; 58] (v' ++ k)) by reflexivity.
      rw E. apply all_cons in Hv. destruct Hv as [_ Hv].
      rw (till_line_ending_ok v' k k' Hv Hk). unfold ret. eauto.
    + assert (E : literal [58; 58] (58 :: (c :: v') ++ k) = PErr false 0 (58 :: (c :: v') ++ k)).
      { unfold literal. cbn [strip_prefix app]. rewrite N.eqb_refl. apply N.eqb_neq in Hc. rewrite N.eqb_sym in Hc. rewrite Hc. reflexivity. }
      rw E. simpl (chr 58 _). cbv beta iota.
      pose proof (till_line_ending_ok (c :: v') k k' Hv Hk) as T. simpl app in T.
      rw T. unfold ret. eauto.
Qed.

Lemma metadata_value_none : forall k k', ends k k' -> opt metadata_value k = POk None k.
Proof.
  intros k k' [-> | [-> | [-> _]]]; reflexivity.
Qed.

Lemma apply_tag_ok : forall l k k', apply_tag_line l -> ends k k' ->
  exists e, apply_tag (l ++ k) = POk e k'.
Proof.
  intros l k k' Hl Hk. unfold apply_tag, preceded, delimited, bind.
  destruct Hl as [s1 s2 t s3 H1 H2 Ht H3 | s1 s2 t s3 v H1 H2 Ht H3 Hv]; rewrite <- !app_assoc.
  - rw literal_app.
    rw (space1_ok s1 (kw_tag ++ s2 ++ t ++ s3 ++ k) H1 (starts_not_app_l _ _ _ kw_tag_ne kw_tag_not_sp)).
    rw literal_app.
    assert (Tns : starts_not is_sp (t ++ s3 ++ k)).
    { destruct Ht as [Hne Ht]. destruct t as [| c t]; [congruence |]. apply all_cons in Ht.
      destruct Ht as [Hc _]. simpl. unfold tag_char, is_ascii_whitespace in Hc. unfold is_sp.
      destruct (N.eqb_spec c 32); [subst; discriminate |]. destruct (N.eqb_spec c 9); [subst; discriminate | reflexivity]. }
    rw (space1_ok s2 (t ++ s3 ++ k) H2 Tns).
    rw (tag_key_ok t (s3 ++ k) Ht (sps_or_more_tag_stop s3 k H3 (ends_tag_stop _ _ Hk))).
    rw (space0_ok s3 k H3 (ends_starts_not_sp _ _ Hk)).
    rw (metadata_value_none k k' Hk).
    rw (line_ending_or_eof_ok k k' Hk). unfold ret. eauto.
  - rw literal_app.
    rw (space1_ok s1 (kw_tag ++ s2 ++ t ++ s3 ++ [58] ++ v ++ k) H1 (starts_not_app_l _ _ _ kw_tag_ne kw_tag_not_sp)).
    rw literal_app.
    assert (Tns : starts_not is_sp (t ++ s3 ++ [58] ++ v ++ k)).
    { destruct Ht as [Hne Ht]. destruct t as [| c t]; [congruence |]. apply all_cons in Ht.
      destruct Ht as [Hc _]. simpl. unfold tag_char, is_ascii_whitespace in Hc. unfold is_sp.
      destruct (N.eqb_spec c 32); [subst; discriminate |]. destruct (N.eqb_spec c 9); [subst; discriminate | reflexivity]. }
    rw (space1_ok s2 (t ++ s3 ++ [58] ++ v ++ k) H2 Tns).
    assert (Cst : starts_not (fun c => negb (tag_stop c)) ([58] ++ v ++ k)) by reflexivity.
    rw (tag_key_ok t (s3 ++ [58] ++ v ++ k) Ht (sps_or_more_tag_stop s3 _ H3 Cst)).
    rw (space0_ok s3 ([58] ++ v ++ k) H3 ltac:(reflexivity)).
    destruct (metadata_value_ok v k k' Hv Hk) as [mv Emv].
    assert (Eo : opt metadata_value ([58] ++ v ++ k) = POk (Some mv) k)
      by (unfold opt; simpl app; rewrite Emv; reflexivity).
    rw Eo. rw (line_ending_or_eof_ok k k' Hk). unfold ret. eauto.
Qed.

(* ---- lines with their ends ---- *)
Fixpoint well_ended (ls : lines) (K : list N) : Prop :=
  match ls with
  | [] => True
  | (_, e) :: r => (e = Eof -> render_lines r ++ K = []) /\ well_ended r K
  end.

Lemma render_cons : forall l e r, render_lines ((l, e) :: r) = l ++ eol_text e ++ render_lines r.
Proof. intros. unfold render_lines. simpl. now rewrite app_assoc. Qed.

Lemma line_ends : forall e r K, (e = Eof -> render_lines r ++ K = []) ->
  ends (eol_text e ++ render_lines r ++ K) (render_lines r ++ K).
Proof. intros. now apply ends_eol. Qed.

(* a class of characters that contains no line break, scanned at the start of a line *)
Lemma scan1_text : forall f c t k k', f c = true -> f 10 = false -> f 13 = false ->
  text t -> ends k k' ->
  exists a b, take_while1 f (c :: t ++ k) = POk (c :: a) (b ++ k) /\ t = a ++ b /\ text b.
Proof.
  intros f c t k k' Hc H10 H13 Ht Hk.
  destruct (span_while_split f t) as (a & b & _ & E2 & E3 & E4).
  exists a, b. subst t. apply all_app in Ht. destruct Ht as [_ Hb]. repeat split; auto.
  unfold take_while1.
  replace (c :: (a ++ b) ++ k) with ((c :: a) ++ (b ++ k)) by (simpl; now rewrite app_assoc).
  rewrite (span_while_all f (c :: a) (b ++ k)).
  - reflexivity.
  - apply all_cons; auto.
  - destruct b; [| exact E4]. simpl. destruct Hk as [-> | [-> | [-> _]]]; simpl; auto.
Qed.

Definition comment_line_p : parser (list N) :=
  delimited (take_while1 is_comment_prefix) till_line_ending line_ending_or_eof.

Lemma comment_line_ok : forall l k k', comment_line l -> ends k k' ->
  exists x, comment_line_p (l ++ k) = POk x k'.
Proof.
  intros l k k' Hl Hk. destruct Hl as [p t Hp Ht].
  destruct (scan1_text is_comment_prefix p t k k' Hp eq_refl eq_refl Ht Hk) as (a & b & E1 & E2 & Hb).
  unfold comment_line_p, delimited, bind. simpl app. rw E1.
  rw (till_line_ending_ok b k k' Hb Hk). rw (line_ending_or_eof_ok k k' Hk). unfold ret. eauto.
Qed.

Lemma length_render_cons : forall l e r K,
  (length (render_lines r ++ K) < length (render_lines ((l, e) :: r) ++ K) \/
   (l = [] /\ e = Eof))%nat.
Proof.
  intros. rewrite render_cons. rewrite !app_length.
  destruct l; [destruct e; simpl; auto; left; lia | left; simpl; lia].
Qed.

(* repeat(0.., line parser) over a block of lines that all match, stopping at K *)
Lemma many0_block : forall A (P : parser A) (good : list N -> Prop),
  (forall l k k', good l -> ends k k' -> exists x, P (l ++ k) = POk x k') ->
  (forall l, good l -> l <> []) ->
  forall fuel ls K,
    Forall (fun le => good (fst le)) ls -> well_ended ls K ->
    (exists lbl r, P K = PErr false lbl r) ->
    (length (render_lines ls ++ K) <= fuel)%nat ->
    exists x, many0 fuel P (render_lines ls ++ K) = POk x K.
Proof.
  intros A P good Hgood Hne fuel. induction fuel; intros ls K Hall Hwe HK Hlen.
  - destruct ls as [| [l e] r].
    + simpl. destruct HK as (lbl & r & E). rewrite E. eauto.
    + exfalso. inversion Hall; subst. simpl in H1. apply Hne in H1.
      rewrite render_cons, !app_length in Hlen. destruct l; [congruence | simpl in Hlen; lia].
  - destruct ls as [| [l e] r].
    + simpl. destruct HK as (lbl & r & E). rewrite E. eauto.
    + inversion Hall; subst. simpl in H1. destruct Hwe as [He Hwe].
      rewrite render_cons, <- !app_assoc.
      destruct (Hgood l _ _ H1 (line_ends e r K He)) as [x Ex].
      cbn [many0]. rewrite Ex.
      assert (Hc : consumed (l ++ eol_text e ++ render_lines r ++ K) (render_lines r ++ K) = true).
      { apply consumed_true. rewrite !app_length. apply Hne in H1. destruct l; [congruence | simpl; lia]. }
      rewrite Hc.
      assert (Hl' : (length (render_lines r ++ K) <= fuel)%nat).
      { rewrite render_cons, <- !app_assoc, !app_length in Hlen. rewrite !app_length.
        apply Hne in H1. destruct l; [congruence | simpl in Hlen; lia]. }
      destruct (IHfuel r K H2 Hwe HK Hl') as [y Ey]. rewrite Ey. eauto.
Qed.

Lemma comment_line_ne : forall l, comment_line l -> l <> [].
Proof. intros l []; discriminate. Qed.

(* what follows a maximal comment block: no comment prefix *)
Lemma comment_p_fails : forall K, starts_not is_comment_prefix K ->
  exists lbl r, comment_line_p K = PErr false lbl r.
Proof.
  intros K HK. unfold comment_line_p, delimited, bind, take_while1.
  destruct K as [| c K']; simpl; [eauto |]. simpl in HK. rewrite HK. eauto.
Qed.

Lemma top_comment_ok : forall fuel ls K,
  ls <> [] -> Forall (fun le => comment_line (fst le)) ls -> well_ended ls K ->
  starts_not is_comment_prefix K -> (length (render_lines ls ++ K) <= fuel)%nat ->
  exists e, top_comment fuel (render_lines ls ++ K) = POk e K.
Proof.
  intros fuel ls K Hne Hall Hwe HK Hlen.
  destruct ls as [| [l e] r]; [congruence |].
  inversion Hall; subst. simpl in H1. destruct Hwe as [He Hwe].
  unfold top_comment, multiline_text, pmap, many1, bind.
  fold comment_line_p.
  rewrite render_cons, <- !app_assoc.
  destruct (comment_line_ok l _ _ H1 (line_ends e r K He)) as [x Ex]. rw Ex.
  assert (Hl' : (length (render_lines r ++ K) <= fuel)%nat).
  { rewrite render_cons, <- !app_assoc, !app_length in Hlen. rewrite !app_length. lia. }
  destruct (many0_block _ comment_line_p comment_line comment_line_ok comment_line_ne
                        fuel r K H2 Hwe (comment_p_fails K HK) Hl') as [y Ey].
  rw Ey. unfold ret. eauto.
Qed.

(* ---- sub-directives of declarations ---- *)
Definition Pc : parser (list N) :=
  delimited (space1 ;;; take_while1 is_comment_prefix) till_line_ending line_ending_or_eof.
Definition Pn : parser (list N) :=
  delimited (space1 ;;; literal kw_note ;;; space1) till_line_ending line_ending_or_eof.

Lemma comment_prefix_facts : forall p, is_comment_prefix p = true ->
  is_sp p = false /\ p <> 110 /\ p <> 97 /\ p <> 102.
Proof.
  intros p H. unfold is_comment_prefix in H.
  repeat (apply orb_true_iff in H; destruct H as [H | H]);
    apply N.eqb_eq in H; subst; repeat split; discriminate.
Qed.

Lemma literal_fail : forall c l' d x, c <> d -> literal (c :: l') (d :: x) = PErr false 0 (d :: x).
Proof.
  intros. unfold literal. simpl. apply N.eqb_neq in H. rewrite H. reflexivity.
Qed.

Section Details.
Variable name : list N -> Prop.
Hypothesis name_text : forall a, name a -> text a.

Inductive kind := KComment | KNote | KAlias.
Definition line_kind (l : list N) (k : kind) : Prop :=
  match k with
  | KComment => exists s p t, l = s ++ p :: t /\ sps1 s /\ is_comment_prefix p = true /\ text t
  | KNote => exists s s' t, l = s ++ kw_note ++ s' ++ t /\ sps1 s /\ sps1 s' /\ text t
  | KAlias => exists s s' a, l = s ++ kw_alias ++ s' ++ a /\ sps1 s /\ sps1 s' /\ text a
  end.

Lemma detail_kind : forall l, detail_line name l -> exists k, line_kind l k.
Proof.
  intros l [s s' t H1 H2 H3 | s s' a H1 H2 H3 | s p t H1 H2 H3].
  - exists KNote. simpl. eauto 10.
  - exists KAlias. simpl. eauto 10.
  - exists KComment. simpl. eauto 10.
Qed.

Lemma detail_ne : forall l, detail_line name l -> l <> [].
Proof.
  intros l [s s' t [H1 _] _ _ | s s' a [H1 _] _ _ | s p t [H1 _] _ _]; destruct s; try congruence; discriminate.
Qed.

(* a detail line and each line parser: success on the whole line, or a backtracking failure *)
Lemma Pc_line : forall l k k', detail_line name l -> ends k k' ->
  (exists x, Pc (l ++ k) = POk x k') \/ (exists lbl r, Pc (l ++ k) = PErr false lbl r).
Proof.
  intros l k k' Hl Hk. unfold Pc, delimited, bind.
  destruct Hl as [s s' t H1 H2 H3 | s s' a H1 H2 H3 | s p t H1 H2 H3]; rewrite <- !app_assoc.
  - right. rw (space1_ok s (kw_note ++ s' ++ t ++ k) H1 ltac:(reflexivity)). simpl. eauto.
  - right. rw (space1_ok s (kw_alias ++ s' ++ a ++ k) H1 ltac:(reflexivity)). simpl. eauto.
  - left. destruct (comment_prefix_facts p H2) as (Q1 & _).
    simpl app. rw (space1_ok s (p :: t ++ k) H1 Q1).
    destruct (scan1_text is_comment_prefix p t k k' H2 eq_refl eq_refl H3 Hk) as (a & b & E1 & E2 & Hb).
    rw E1. rw (till_line_ending_ok b k k' Hb Hk). rw (line_ending_or_eof_ok k k' Hk). unfold ret. eauto.
Qed.

Lemma note_like_ok : forall kw s s' t k k',
  sps1 s -> sps1 s' -> text t -> ends k k' -> kw <> [] -> starts_not is_sp kw ->
  exists x, delimited (space1 ;;; literal kw ;;; space1) till_line_ending line_ending_or_eof
                      (s ++ kw ++ s' ++ t ++ k) = POk x k'.
Proof.
  intros kw s s' t k k' H1 H2 H3 Hk Hne Hns. unfold delimited, bind.
  rw (space1_ok s (kw ++ s' ++ t ++ k) H1 (starts_not_app_l _ _ _ Hne Hns)).
  rw literal_app.
  destruct (space1_text s' t k k' H2 H3 Hk) as (a & b & E1 & E2 & Hb).
  rw E1. rw (till_line_ending_ok b k k' Hb Hk). rw (line_ending_or_eof_ok k k' Hk). unfold ret. eauto.
Qed.

Lemma Pn_line : forall l k k', detail_line name l -> ends k k' ->
  (exists x, Pn (l ++ k) = POk x k') \/ (exists lbl r, Pn (l ++ k) = PErr false lbl r).
Proof.
  intros l k k' Hl Hk.
  destruct Hl as [s s' t H1 H2 H3 | s s' a H1 H2 H3 | s p t H1 H2 H3]; rewrite <- !app_assoc.
  - left. apply note_like_ok; auto; [discriminate | reflexivity].
  - right. unfold Pn, delimited, bind.
    rw (space1_ok s (kw_alias ++ s' ++ a ++ k) H1 ltac:(reflexivity)). simpl. eauto.
  - right. unfold Pn, delimited, bind. destruct (comment_prefix_facts p H2) as (Q1 & Q2 & _).
    simpl app. rw (space1_ok s (p :: t ++ k) H1 Q1).
    unfold kw_note. rw (literal_fail 110 [111; 116; 101] p (t ++ k) (not_eq_sym Q2)). eauto.
Qed.

(* what can follow the sub-directives: the end, a line that does not start with a blank, or a
   line of blanks *)
Definition not_detail (K : list N) : Prop :=
  starts_not is_sp K \/ exists s k k', K = s ++ k /\ sps1 s /\ ends k k'.

Lemma Pc_stop : forall K, not_detail K -> exists lbl r, Pc K = PErr false lbl r.
Proof.
  intros K [H | (s & k & k' & -> & Hs & Hk)]; unfold Pc, delimited, bind.
  - unfold space1, take_while1. destruct K as [| c K']; simpl; [eauto |]. simpl in H. rewrite H. eauto.
  - rw (space1_ok s k Hs (ends_starts_not_sp _ _ Hk)).
    destruct Hk as [-> | [-> | [-> _]]]; simpl; eauto.
Qed.
Lemma kw_stop : forall A kw (q : parser A) K, not_detail K -> kw <> [] -> (forall c, In c [10; 13] -> hd 0 kw <> c) ->
  exists lbl r, delimited (space1 ;;; literal kw ;;; space1) q line_ending_or_eof K = PErr false lbl r.
Proof.
  intros A kw q K [H | (s & k & k' & -> & Hs & Hk)] Hne Hhd; unfold delimited, bind.
  - unfold space1, take_while1. destruct K as [| c K']; simpl; [eauto |]. simpl in H. rewrite H. eauto.
  - rw (space1_ok s k Hs (ends_starts_not_sp _ _ Hk)).
    destruct kw as [| c0 kw']; [congruence |]. simpl in Hhd.
    destruct Hk as [-> | [-> | [-> _]]].
    + rw (literal_fail c0 kw' 10 k' (Hhd 10 ltac:(simpl; auto))). eauto.
    + rw (literal_fail c0 kw' 13 (10 :: k') (Hhd 13 ltac:(simpl; auto))). eauto.
    + unfold literal. simpl. eauto.
Qed.

(* repeat(0.., line parser) consumes some prefix of the block of sub-directive lines *)
Lemma many0_some : forall A (P : parser A),
  (forall l k k', detail_line name l -> ends k k' ->
     (exists x, P (l ++ k) = POk x k') \/ (exists lbl r, P (l ++ k) = PErr false lbl r)) ->
  forall fuel ds K,
    Forall (fun le => detail_line name (fst le)) ds -> well_ended ds K ->
    (exists lbl r, P K = PErr false lbl r) ->
    (length (render_lines ds ++ K) <= fuel)%nat ->
    exists x ds' pre, many0 fuel P (render_lines ds ++ K) = POk x (render_lines ds' ++ K) /\ ds = pre ++ ds'.
Proof.
  intros A P HP. induction fuel; intros ds K Hall Hwe HK Hlen.
  - destruct ds as [| [l e] r].
    + simpl. destruct HK as (lbl & r & E). rewrite E. exists [], [], []. auto.
    + exfalso. inversion Hall; subst. simpl in H1. apply detail_ne in H1.
      rewrite render_cons, !app_length in Hlen. destruct l; [congruence | simpl in Hlen; lia].
  - destruct ds as [| [l e] r].
    + simpl. destruct HK as (lbl & r & E). rewrite E. exists [], [], []. auto.
    + inversion Hall; subst. simpl in H1. destruct Hwe as [He Hwe].
      rewrite render_cons, <- !app_assoc.
      destruct (HP l _ _ H1 (line_ends e r K He)) as [[x Ex] | (lbl & r0 & Ex)].
      * cbn [many0]. rewrite Ex.
        assert (Hc : consumed (l ++ eol_text e ++ render_lines r ++ K) (render_lines r ++ K) = true).
        { apply consumed_true. rewrite !app_length. apply detail_ne in H1. destruct l; [congruence | simpl; lia]. }
        rewrite Hc.
        assert (Hl' : (length (render_lines r ++ K) <= fuel)%nat).
        { rewrite render_cons, <- !app_assoc, !app_length in Hlen. rewrite !app_length.
          apply detail_ne in H1. destruct l; [congruence | simpl in Hlen; lia]. }
        destruct (IHfuel r K H2 Hwe HK Hl') as (y & ds' & pre & Ey & Epre). rewrite Ey.
        exists (x :: y), ds', ((l, e) :: pre). split; [reflexivity | now rewrite Epre].
      * cbn [many0]. rewrite Ex. exists [], ((l, e) :: r), []. split; [| reflexivity].
        rewrite render_cons, <- !app_assoc. reflexivity.
Qed.
End Details.

Section Body.
Variable name : list N -> Prop.
Hypothesis name_text : forall a, name a -> text a.
Variable D : Type.
Variables mkc mkn : list N -> D.
Variable last : parser D.
(* the remaining alternatives read an alias line, and fail (backtracking) on what follows *)
Hypothesis last_alias : forall s s' a k k', sps1 s -> sps1 s' -> name a -> ends k k' ->
  exists x, last ((s ++ kw_alias ++ s' ++ a) ++ k) = POk x k'.
Hypothesis last_stop : forall K, not_detail K -> exists lbl r, last K = PErr false lbl r.

Definition body (fuel : nat) : parser D :=
  alt (pmap mkc (detail_comment fuel)) (alt (pmap mkn (detail_note fuel)) last).

Lemma detail_comment_unfold : forall fuel i,
  detail_comment fuel i = pmap (fun ls => concat (map (fun l => l ++ [10]) ls)) (many1 fuel Pc) i.
Proof. reflexivity. Qed.
Lemma detail_note_unfold : forall fuel i,
  detail_note fuel i = pmap (fun ls => concat (map (fun l => l ++ [10]) ls)) (many1 fuel Pn) i.
Proof. reflexivity. Qed.

Lemma many1_first_fails : forall A fuel (P : parser A) i lbl r,
  P i = PErr false lbl r -> many1 fuel P i = PErr false lbl r.
Proof. intros. unfold many1, bind. rewrite H. reflexivity. Qed.

Lemma body_step : forall fuel l e r K,
  detail_line name l -> Forall (fun le => detail_line name (fst le)) r ->
  well_ended ((l, e) :: r) K -> not_detail K ->
  (length (render_lines ((l, e) :: r) ++ K) <= fuel)%nat ->
  exists x ds' pre, body fuel (render_lines ((l, e) :: r) ++ K) = POk x (render_lines ds' ++ K) /\
                    r = pre ++ ds'.
Proof.
  intros fuel l e r K Hl Hr [He Hwe] HK Hlen.
  assert (Hl' : (length (render_lines r ++ K) <= fuel)%nat).
  { rewrite render_cons, <- !app_assoc, !app_length in Hlen. rewrite !app_length. lia. }
  pose proof (line_ends e r K He) as Hk.
  rewrite render_cons, <- !app_assoc.
  set (k := eol_text e ++ render_lines r ++ K) in *.
  set (k' := render_lines r ++ K) in *.
  unfold body, alt.
  destruct Hl as [s s' t H1 H2 H3 | s s' a H1 H2 H3 | s p t H1 H2 H3].
  - (* note *)
    assert (F1 : exists lbl r0, Pc ((s ++ kw_note ++ s' ++ t) ++ k) = PErr false lbl r0).
    { unfold Pc, delimited, bind. rewrite <- !app_assoc.
      rw (space1_ok s (kw_note ++ s' ++ t ++ k) H1 ltac:(reflexivity)). simpl. eauto. }
    destruct F1 as (lbl & r0 & F1).
    unfold pmap at 1. unfold bind at 1. rewrite detail_comment_unfold. unfold pmap at 1. unfold bind at 1.
    rewrite (many1_first_fails _ fuel Pc _ lbl r0 F1). cbv beta iota.
    unfold pmap at 1. unfold bind at 1. rewrite detail_note_unfold. unfold pmap at 1. unfold bind at 1.
    unfold many1 at 1. unfold bind at 1.
    assert (S1 : exists x, Pn ((s ++ kw_note ++ s' ++ t) ++ k) = POk x k').
    { rewrite <- !app_assoc. apply note_like_ok; auto; [discriminate | reflexivity]. }
    destruct S1 as [x S1]. rw S1. unfold bind at 1.
    destruct (many0_some name _ Pn (Pn_line name) fuel r K Hr Hwe
                (kw_stop _ kw_note _ K HK ltac:(discriminate) ltac:(simpl; intros c [<- | [<- | []]]; discriminate)) Hl')
      as (y & ds' & pre & Ey & Epre).
    unfold k'. rw Ey. unfold ret. eauto 10.
  - (* alias *)
    assert (F1 : exists lbl r0, Pc ((s ++ kw_alias ++ s' ++ a) ++ k) = PErr false lbl r0).
    { unfold Pc, delimited, bind. rewrite <- !app_assoc.
      rw (space1_ok s (kw_alias ++ s' ++ a ++ k) H1 ltac:(reflexivity)). simpl. eauto. }
    destruct F1 as (lbl & r0 & F1).
    assert (F2 : exists lbl r0, Pn ((s ++ kw_alias ++ s' ++ a) ++ k) = PErr false lbl r0).
    { unfold Pn, delimited, bind. rewrite <- !app_assoc.
      rw (space1_ok s (kw_alias ++ s' ++ a ++ k) H1 ltac:(reflexivity)). simpl. eauto. }
    destruct F2 as (lbl2 & r2 & F2).
    unfold pmap at 1. unfold bind at 1. rewrite detail_comment_unfold. unfold pmap at 1. unfold bind at 1.
    rewrite (many1_first_fails _ fuel Pc _ lbl r0 F1). cbv beta iota.
    unfold pmap at 1. unfold bind at 1. rewrite detail_note_unfold. unfold pmap at 1. unfold bind at 1.
    rewrite (many1_first_fails _ fuel Pn _ lbl2 r2 F2). cbv beta iota.
    destruct (last_alias s s' a k k' H1 H2 H3 Hk) as [x Ex]. rewrite Ex.
    exists x, r, []. auto.
  - (* comment *)
    destruct (comment_prefix_facts p H2) as (Q1 & _).
    assert (S1 : exists x, Pc ((s ++ p :: t) ++ k) = POk x k').
    { unfold Pc, delimited, bind. rewrite <- !app_assoc. simpl app.
      rw (space1_ok s (p :: t ++ k) H1 Q1).
      destruct (scan1_text is_comment_prefix p t k k' H2 eq_refl eq_refl H3 Hk) as (a & b & E1 & E2 & Hb).
      rw E1. rw (till_line_ending_ok b k k' Hb Hk). rw (line_ending_or_eof_ok k k' Hk). unfold ret. eauto. }
    destruct S1 as [x S1].
    unfold pmap at 1. unfold bind at 1. rewrite detail_comment_unfold. unfold pmap at 1. unfold bind at 1.
    unfold many1 at 1. unfold bind at 1. rw S1. unfold bind at 1.
    destruct (many0_some name _ Pc (Pc_line name) fuel r K Hr Hwe (Pc_stop K HK) Hl')
      as (y & ds' & pre & Ey & Epre).
    unfold k'. rw Ey. unfold ret. eauto 10.
Qed.

Lemma body_stop : forall fuel K, not_detail K -> exists lbl r, body fuel K = PErr false lbl r.
Proof.
  intros fuel K HK. unfold body, alt.
  destruct (Pc_stop K HK) as (l1 & r1 & E1).
  destruct (kw_stop _ kw_note till_line_ending K HK ltac:(discriminate)
                    ltac:(simpl; intros c [<- | [<- | []]]; discriminate)) as (l2 & r2 & E2).
  unfold pmap at 1. unfold bind at 1. rewrite detail_comment_unfold. unfold pmap at 1. unfold bind at 1.
  rewrite (many1_first_fails _ fuel Pc _ l1 r1 E1). cbv beta iota.
  unfold pmap at 1. unfold bind at 1. rewrite detail_note_unfold. unfold pmap at 1. unfold bind at 1.
  rewrite (many1_first_fails _ fuel Pn _ l2 r2 E2). cbv beta iota.
  apply last_stop. exact HK.
Qed.

Lemma Forall_app_r : forall A (P : A -> Prop) a b, Forall P (a ++ b) -> Forall P b.
Proof. intros. apply Forall_app in H. tauto. Qed.
Lemma well_ended_app_r : forall a b K, well_ended (a ++ b) K -> well_ended b K.
Proof. induction a as [| [l e] a]; simpl; intros; [assumption | destruct H; auto]. Qed.

Lemma render_app : forall a b, render_lines (a ++ b) = render_lines a ++ render_lines b.
Proof. intros. unfold render_lines. apply flat_map_app. Qed.

(* repeat(0.., body) reads the whole block of sub-directives *)
Lemma details_ok : forall fuel n f ds K,
  (length ds <= n)%nat ->
  Forall (fun le => detail_line name (fst le)) ds -> well_ended ds K -> not_detail K ->
  (length (render_lines ds ++ K) <= fuel)%nat -> (length (render_lines ds ++ K) <= f)%nat ->
  exists x, many0 f (body fuel) (render_lines ds ++ K) = POk x K.
Proof.
  intros fuel. induction n; intros f ds K Hn Hall Hwe HK Hlen Hf.
  - destruct ds; [| simpl in Hn; lia]. simpl.
    destruct (body_stop fuel K HK) as (l & r & E).
    destruct f; simpl; rewrite E; eauto.
  - destruct ds as [| [l e] r].
    + simpl. destruct (body_stop fuel K HK) as (l & r & E).
      destruct f; simpl; rewrite E; eauto.
    + inversion Hall; subst. simpl in H1.
      destruct (body_step fuel l e r K H1 H2 Hwe HK Hlen) as (x & ds' & pre & Ex & Epre).
      assert (Hds' : (length (render_lines ds' ++ K) < length (render_lines ((l, e) :: r) ++ K))%nat).
      { rewrite Epre, render_cons, render_app, !app_length.
        apply detail_ne in H1. destruct l; [congruence | simpl; lia]. }
      destruct f as [| f']; [lia |].
      cbn [many0]. rewrite Ex. rewrite consumed_true by exact Hds'.
      destruct Hwe as [_ Hwe]. rewrite Epre in Hwe, H2.
      assert (Hn' : (length ds' <= n)%nat).
      { simpl in Hn. rewrite Epre, app_length in Hn. lia. }
      destruct (IHn f' ds' K Hn' (Forall_app_r _ _ _ _ H2) (well_ended_app_r _ _ _ Hwe) HK
                    ltac:(lia) ltac:(lia)) as [y Ey].
      rewrite Ey. eauto.
Qed.
End Body.

(* ---- declarations ---- *)
Lemma sps_text : forall s, sps0 s -> text s.
Proof.
  intros s H. unfold sps0, text, all in *. rewrite forallb_forall in *. intros c Hc.
  specialize (H c Hc). unfold is_sp in H. unfold no_new_line, is_nl.
  destruct (N.eqb_spec c 32); [subst; reflexivity |]. destruct (N.eqb_spec c 9); [subst; reflexivity | discriminate].
Qed.
Lemma doc_account_text : forall a, doc_account a -> text a.
Proof.
  intros a (_ & H & _). unfold text, all in *. rewrite forallb_forall in *. intros c Hc.
  specialize (H c Hc). unfold no_sp, no_new_line in *.
  apply orb_true_iff in H. destruct H as [H | H].
  - apply andb_true_iff in H. tauto.
  - apply N.eqb_eq in H. subst. reflexivity.
Qed.
Lemma doc_commodity_text : forall a, doc_commodity a -> text a.
Proof.
  intros a (_ & H). unfold text, all in *. rewrite forallb_forall in *. intros c Hc.
  specialize (H c Hc). unfold no_new_line, is_nl.
  destruct (N.eqb_spec c 10); [subst; discriminate |]. destruct (N.eqb_spec c 13); [subst; discriminate | reflexivity].
Qed.

Lemma alias_last_ok : forall (name : list N -> Prop), (forall a, name a -> text a) ->
  forall s s' a k k', sps1 s -> sps1 s' -> name a -> ends k k' ->
  exists x, detail_alias ((s ++ kw_alias ++ s' ++ a) ++ k) = POk x k'.
Proof.
  intros name Hn s s' a k k' H1 H2 H3 Hk. unfold detail_alias, pmap. unfold bind at 1. rewrite <- !app_assoc.
  destruct (note_like_ok kw_alias s s' a k k' H1 H2 (Hn a H3) Hk ltac:(discriminate) ltac:(reflexivity)) as [x Ex].
  rw Ex. unfold ret. eauto.
Qed.
Lemma alias_stop : forall K, not_detail K -> exists lbl r, detail_alias K = PErr false lbl r.
Proof.
  intros K HK. unfold detail_alias, pmap. unfold bind at 1.
  destruct (kw_stop _ kw_alias till_line_ending K HK ltac:(discriminate)
                    ltac:(simpl; intros c [<- | [<- | []]]; discriminate)) as (l & r & E).
  rewrite E. eauto.
Qed.

Lemma head_ok : forall kw s a s' k k',
  sps1 s -> text a -> sps0 s' -> ends k k' ->
  exists x, delimited (literal kw ;;; space1) till_line_ending line_ending_or_eof
                      ((kw ++ s ++ a ++ s') ++ k) = POk x k'.
Proof.
  intros kw s a s' k k' H1 H2 H3 Hk. unfold delimited, bind. rewrite <- !app_assoc.
  rw literal_app.
  assert (T : text (a ++ s')) by (apply all_app; split; [exact H2 | now apply sps_text]).
  replace (s ++ a ++ s' ++ k) with (s ++ (a ++ s') ++ k) by (now rewrite <- !app_assoc).
  destruct (space1_text s (a ++ s') k k' H1 T Hk) as (x & b & E1 & E2 & Hb).
  rw E1. rw (till_line_ending_ok b k k' Hb Hk). rw (line_ending_or_eof_ok k k' Hk). unfold ret. eauto.
Qed.

Lemma account_declaration_ok : forall fuel l e ds K,
  account_head l -> Forall (fun le => detail_line doc_account (fst le)) ds ->
  well_ended ((l, e) :: ds) K -> not_detail K ->
  (length (render_lines ((l, e) :: ds) ++ K) <= fuel)%nat ->
  exists x, account_declaration fuel (render_lines ((l, e) :: ds) ++ K) = POk x K.
Proof.
  intros fuel l e ds K Hl Hds [He Hwe] HK Hlen.
  destruct Hl as [s a s' H1 H2 H3].
  unfold account_declaration. unfold bind at 1.
  rewrite render_cons, <- !app_assoc.
  pose proof (head_ok kw_account s a s' _ _ H1 (doc_account_text a H2) H3 (line_ends e ds K He)) as [x Ex].
  rewrite <- !app_assoc in Ex. rw Ex. unfold bind at 1.
  assert (Hl' : (length (render_lines ds ++ K) <= fuel)%nat).
  { rewrite render_cons, <- !app_assoc, !app_length in Hlen. rewrite !app_length. lia. }
  destruct (details_ok doc_account _ ADComment ADNote (pmap ADAlias detail_alias)
              ltac:(intros; destruct (alias_last_ok doc_account doc_account_text s0 s'0 a0 k k' H H0 H4 H5) as [y Ey];
                    unfold pmap, bind; rewrite Ey; unfold ret; eauto)
              ltac:(intros K0 HK0; destruct (alias_stop K0 HK0) as (lb & r0 & E0);
                    unfold pmap, bind; rewrite E0; eauto)
              fuel (length ds) fuel ds K (le_n _) Hds Hwe HK Hl' Hl') as [y Ey].
  unfold body in Ey.
  match goal with |- context [match ?t with POk _ _ => _ | _ => _ end] =>
    replace t with (@POk (list _) y K) by (symmetry; exact Ey) end.
  cbv beta iota. unfold ret. eauto.
Qed.

Lemma commodity_declaration_ok : forall fuel l e ds K,
  commodity_head l -> Forall (fun le => detail_line doc_commodity (fst le)) ds ->
  well_ended ((l, e) :: ds) K -> not_detail K ->
  (length (render_lines ((l, e) :: ds) ++ K) <= fuel)%nat ->
  exists x, commodity_declaration fuel (render_lines ((l, e) :: ds) ++ K) = POk x K.
Proof.
  intros fuel l e ds K Hl Hds [He Hwe] HK Hlen.
  destruct Hl as [s a s' H1 H2 H3].
  unfold commodity_declaration. unfold bind at 1.
  rewrite render_cons, <- !app_assoc.
  pose proof (head_ok kw_commodity s a s' _ _ H1 (doc_commodity_text a H2) H3 (line_ends e ds K He)) as [x Ex].
  rewrite <- !app_assoc in Ex. rw Ex. unfold bind at 1.
  assert (Hl' : (length (render_lines ds ++ K) <= fuel)%nat).
  { rewrite render_cons, <- !app_assoc, !app_length in Hlen. rewrite !app_length. lia. }
  destruct (details_ok doc_commodity _ CDComment CDNote
              (alt (pmap CDAlias detail_alias)
                   (pmap CDFormat (delimited (space1 ;;; literal kw_format ;;; space1) amount line_ending_or_eof)))
              ltac:(intros; destruct (alias_last_ok doc_commodity doc_commodity_text s0 s'0 a0 k k' H H0 H4 H5) as [y Ey];
                    unfold alt; unfold pmap at 1; unfold bind at 1; rewrite Ey; unfold ret; eauto)
              ltac:(intros K0 HK0; destruct (alias_stop K0 HK0) as (lb & r0 & E0);
                    destruct (kw_stop _ kw_format amount K0 HK0 ltac:(discriminate)
                                ltac:(simpl; intros c [<- | [<- | []]]; discriminate)) as (lb2 & r2 & E2);
                    unfold alt; unfold pmap at 1; unfold bind at 1; rewrite E0; cbv beta iota;
                    unfold pmap at 1; unfold bind at 1; rewrite E2; eauto)
              fuel (length ds) fuel ds K (le_n _) Hds Hwe HK Hl' Hl') as [y Ey].
  unfold body in Ey.
  match goal with |- context [match ?t with POk _ _ => _ | _ => _ end] =>
    replace t with (@POk (list _) y K) by (symmetry; exact Ey) end.
  cbv beta iota. unfold ret. eauto.
Qed.

(* ---- one directive at the top level ---- *)
Lemma eqb_false : forall a b : N, a <> b -> (a =? b) = false.
Proof. intros. now apply N.eqb_neq. Qed.

Lemma entry_comment : forall fuel ls K,
  ls <> [] -> Forall (fun le => comment_line (fst le)) ls -> well_ended ls K ->
  starts_not is_comment_prefix K -> (length (render_lines ls ++ K) <= fuel)%nat ->
  exists x, parse_ledger_entry fuel (render_lines ls ++ K) = POk x K.
Proof.
  intros fuel ls K Hne Hall Hwe HK Hlen.
  destruct (top_comment_ok fuel ls K Hne Hall Hwe HK Hlen) as [e Ee].
  destruct ls as [| [l eo] r]; [congruence |]. inversion Hall; subst. simpl in H1.
  destruct H1 as [p t Hp Ht]. rewrite render_cons in *. simpl app in *.
  destruct (comment_prefix_facts p Hp) as (_ & Q2 & Q3 & _).
  unfold parse_ledger_entry.
  assert (P97 : (p =? 97) = false) by (apply eqb_false; auto).
  assert (P99 : (p =? 99) = false).
  { unfold is_comment_prefix in Hp. destruct (N.eqb_spec p 99); [subst; discriminate | reflexivity]. }
  assert (P101 : (p =? 101) = false).
  { unfold is_comment_prefix in Hp. destruct (N.eqb_spec p 101); [subst; discriminate | reflexivity]. }
  assert (P105 : (p =? 105) = false).
  { unfold is_comment_prefix in Hp. destruct (N.eqb_spec p 105); [subst; discriminate | reflexivity]. }
  rewrite P97, P99, P101, P105, Hp. unfold pmap, bind. rewrite Ee. unfold ret. eauto.
Qed.

Lemma entry_include : forall fuel l e K,
  include_line l -> (e = Eof -> K = []) ->
  exists x, parse_ledger_entry fuel (render_lines [(l, e)] ++ K) = POk x K.
Proof.
  intros fuel l e K Hl He. rewrite render_cons. simpl (render_lines []). rewrite app_nil_r, <- app_assoc.
  destruct (include_ok l _ K Hl (ends_eol e K He)) as [x Ex].
  destruct Hl as [s path Hs Hne Hp]. rewrite <- !app_assoc in *.
  unfold parse_ledger_entry. unfold kw_include at 1. cbn [app]. cbn [N.eqb Pos.eqb].
  unfold pmap, bind.
  change (105 :: 110 :: 99 :: 108 :: 117 :: 100 :: 101 :: s ++ path ++ eol_text e ++ K)
    with (kw_include ++ s ++ path ++ eol_text e ++ K).
  rewrite Ex. unfold ret. eauto.
Qed.

Lemma entry_end_apply : forall fuel l e K,
  end_apply_line l -> (e = Eof -> K = []) ->
  exists x, parse_ledger_entry fuel (render_lines [(l, e)] ++ K) = POk x K.
Proof.
  intros fuel l e K Hl He. rewrite render_cons. simpl (render_lines []). rewrite app_nil_r, <- app_assoc.
  pose proof (end_apply_ok l _ K Hl (ends_eol e K He)) as Ex.
  destruct Hl as [s1 s2 s3 H1 H2 H3]. rewrite <- !app_assoc in *.
  unfold parse_ledger_entry. unfold kw_end at 1. cbn [app]. cbn [N.eqb Pos.eqb].
  unfold pmap. unfold bind at 1.
  change (101 :: 110 :: 100 :: s1 ++ kw_apply ++ s2 ++ kw_tag ++ s3 ++ eol_text e ++ K)
    with (kw_end ++ s1 ++ kw_apply ++ s2 ++ kw_tag ++ s3 ++ eol_text e ++ K).
  rewrite Ex. unfold ret. eauto.
Qed.

Lemma dispatch_a : forall fuel r,
  parse_ledger_entry fuel (97 :: r) =
  alt (preceded (peek (literal kw_account))
                (cut_err (pmap (fun e => (e, @nil posting_spans)) (account_declaration fuel))))
      (preceded (peek (literal kw_apply))
                (cut_err (pmap (fun e => (e, @nil posting_spans)) apply_tag))) (97 :: r).
Proof. reflexivity. Qed.
Lemma dispatch_c : forall fuel r,
  parse_ledger_entry fuel (99 :: r) = pmap (fun e => (e, @nil posting_spans)) (commodity_declaration fuel) (99 :: r).
Proof. reflexivity. Qed.

Lemma entry_apply : forall fuel l e K,
  apply_tag_line l -> (e = Eof -> K = []) ->
  exists x, parse_ledger_entry fuel (render_lines [(l, e)] ++ K) = POk x K.
Proof.
  intros fuel l e K Hl He. rewrite render_cons. simpl (render_lines []). rewrite app_nil_r, <- app_assoc.
  destruct (apply_tag_ok l _ K Hl (ends_eol e K He)) as [x Ex].
  assert (Hhd : exists t, l = kw_apply ++ t) by (destruct Hl; eauto).
  destruct Hhd as [t ->].
  set (I := (kw_apply ++ t) ++ eol_text e ++ K) in *.
  assert (HI : I = 97 :: 112 :: 112 :: 108 :: 121 :: t ++ eol_text e ++ K) by reflexivity.
  rewrite (dispatch_a fuel (112 :: 112 :: 108 :: 121 :: t ++ eol_text e ++ K) : parse_ledger_entry fuel I = _).
  rewrite <- HI.
  unfold alt.
  assert (F : preceded (peek (literal kw_account))
                (cut_err (pmap (fun e0 => (e0, @nil posting_spans)) (account_declaration fuel))) I =
              PErr false 0 I) by (rewrite HI; reflexivity).
  rewrite F. unfold preceded. unfold bind at 1.
  assert (P : peek (literal kw_apply) I = POk kw_apply I) by (rewrite HI; reflexivity).
  rewrite P. unfold cut_err, pmap. unfold bind at 1. rewrite Ex. unfold ret. eauto.
Qed.

Lemma entry_account : forall fuel l e ds K,
  account_head l -> Forall (fun le => detail_line doc_account (fst le)) ds ->
  well_ended ((l, e) :: ds) K -> not_detail K ->
  (length (render_lines ((l, e) :: ds) ++ K) <= fuel)%nat ->
  exists x, parse_ledger_entry fuel (render_lines ((l, e) :: ds) ++ K) = POk x K.
Proof.
  intros fuel l e ds K Hl Hds Hwe HK Hlen.
  destruct (account_declaration_ok fuel l e ds K Hl Hds Hwe HK Hlen) as [x Ex].
  assert (Hhd : exists t, l = kw_account ++ t) by (destruct Hl; eauto).
  destruct Hhd as [t ->]. rewrite render_cons in *. rewrite <- !app_assoc in *.
  set (I := kw_account ++ t ++ eol_text e ++ render_lines ds ++ K) in *.
  assert (HI : I = 97 :: 99 :: 99 :: 111 :: 117 :: 110 :: 116 :: t ++ eol_text e ++ render_lines ds ++ K)
    by reflexivity.
  rewrite (dispatch_a fuel (99 :: 99 :: 111 :: 117 :: 110 :: 116 :: t ++ eol_text e ++ render_lines ds ++ K)
           : parse_ledger_entry fuel I = _).
  rewrite <- HI.
  unfold alt, preceded. unfold bind at 1.
  assert (P : peek (literal kw_account) I = POk kw_account I) by (rewrite HI; reflexivity).
  rewrite P. unfold cut_err, pmap. unfold bind at 1. rewrite Ex. unfold ret. eauto.
Qed.

Lemma entry_commodity : forall fuel l e ds K,
  commodity_head l -> Forall (fun le => detail_line doc_commodity (fst le)) ds ->
  well_ended ((l, e) :: ds) K -> not_detail K ->
  (length (render_lines ((l, e) :: ds) ++ K) <= fuel)%nat ->
  exists x, parse_ledger_entry fuel (render_lines ((l, e) :: ds) ++ K) = POk x K.
Proof.
  intros fuel l e ds K Hl Hds Hwe HK Hlen.
  destruct (commodity_declaration_ok fuel l e ds K Hl Hds Hwe HK Hlen) as [x Ex].
  assert (Hhd : exists t, l = kw_commodity ++ t) by (destruct Hl; eauto).
  destruct Hhd as [t ->]. rewrite render_cons in *. rewrite <- !app_assoc in *.
  set (I := kw_commodity ++ t ++ eol_text e ++ render_lines ds ++ K) in *.
  assert (HI : I = 99 :: 111 :: 109 :: 109 :: 111 :: 100 :: 105 :: 116 :: 121 :: t ++ eol_text e ++ render_lines ds ++ K)
    by reflexivity.
  rewrite (dispatch_c fuel (111 :: 109 :: 109 :: 111 :: 100 :: 105 :: 116 :: 121 :: t ++ eol_text e ++ render_lines ds ++ K)
           : parse_ledger_entry fuel I = _).
  rewrite <- HI.
  unfold pmap. unfold bind at 1. rewrite Ex. unfold ret. eauto.
Qed.

(* ---- vertical space ---- *)
Definition vs_body : parser unit :=
  alt (void (take_while1 is_nl)) (void (terminated space1 (peek line_ending_or_eof))).

(* text made of line breaks and blanks, every run of blanks being followed by a line end
   (or by the end of the whole text B ++ R) *)
Inductive blank_text (R : list N) : list N -> Prop :=
| BT_nil : blank_text R []
| BT_nl : forall c B, is_nl c = true -> blank_text R B -> blank_text R (c :: B)
| BT_sp : forall s B k', sps1 s -> blank_text R B -> ends (B ++ R) k' -> blank_text R (s ++ B).

Definition solid (R : list N) : Prop :=
  match R with [] => True | c :: _ => is_sp c = false /\ is_nl c = false end.

Lemma strip_nl : forall R B, blank_text R B -> solid R ->
  exists Nl B', span_while is_nl (B ++ R) = (Nl, B' ++ R) /\ B = Nl ++ B' /\ blank_text R B'.
Proof.
  intros R B HB HR. induction HB.
  - exists [], []. simpl. split; [| split; [reflexivity | constructor]].
    destruct R as [| c t]; [reflexivity |]. simpl. destruct HR as [_ H]. rewrite H. reflexivity.
  - destruct IHHB as (Nl & B' & E1 & E2 & E3). exists (c :: Nl), B'. simpl. rewrite H, E1.
    split; [reflexivity | split; [now rewrite E2 | assumption]].
  - exists [], (s ++ B). split; [| split; [reflexivity | econstructor; eauto]].
    destruct H as [Hne Hs]. destruct s as [| c s]; [congruence |]. apply all_cons in Hs.
    destruct Hs as [Hc _]. simpl.
    assert (E : is_nl c = false).
    { unfold is_sp in Hc. unfold is_nl. destruct (N.eqb_spec c 32); [subst; reflexivity |].
      destruct (N.eqb_spec c 9); [subst; reflexivity | discriminate]. }
    rewrite E. reflexivity.
Qed.

Lemma sp_not_nl : forall c, is_sp c = true -> is_nl c = false.
Proof.
  intros c Hc. unfold is_sp in Hc. unfold is_nl. destruct (N.eqb_spec c 32); [subst; reflexivity |].
  destruct (N.eqb_spec c 9); [subst; reflexivity | discriminate].
Qed.

Lemma vs_ok : forall n B R fuel,
  (length B <= n)%nat -> blank_text R B -> solid R -> (length (B ++ R) <= fuel)%nat ->
  exists x, many0 fuel vs_body (B ++ R) = POk x R.
Proof.
  induction n; intros B R fuel Hn HB HR Hlen.
  - destruct B; [| simpl in Hn; lia]. simpl app.
    assert (E : exists l r, vs_body R = PErr false l r).
    { unfold vs_body, alt, void, bind, terminated, bind, take_while1, space1, take_while1.
      destruct R as [| c t]; simpl; [eauto |]. destruct HR as [H1 H2]. rewrite H2, H1. eauto. }
    destruct E as (l & r & E). destruct fuel; simpl; rewrite E; eauto.
  - inversion HB; subst.
    + simpl app.
      assert (E : exists l r, vs_body R = PErr false l r).
      { unfold vs_body, alt, void, bind, terminated, bind, take_while1, space1, take_while1.
        destruct R as [| c t]; simpl; [eauto |]. destruct HR as [H1 H2]. rewrite H2, H1. eauto. }
      destruct E as (l & r & E). destruct fuel; simpl; rewrite E; eauto.
    + (* a run of line breaks *)
      destruct (strip_nl R B0 H0 HR) as (Nl & B' & E1 & E2 & E3).
      assert (Ev : vs_body ((c :: B0) ++ R) = POk tt (B' ++ R)).
      { unfold vs_body, alt, void. unfold bind at 1. unfold take_while1. simpl. rewrite H, E1. reflexivity. }
      destruct fuel as [| f]; [simpl in Hlen; lia |].
      cbn [many0]. rewrite Ev.
      assert (Hc : consumed ((c :: B0) ++ R) (B' ++ R) = true).
      { apply consumed_true. rewrite E2. simpl. rewrite !app_length. lia. }
      rewrite Hc.
      assert (Hn' : (length B' <= n)%nat) by (simpl in Hn; rewrite E2, app_length in Hn; lia).
      assert (Hl' : (length (B' ++ R) <= f)%nat).
      { simpl in Hlen. rewrite E2 in Hlen. rewrite !app_length in *. lia. }
      destruct (IHn B' R f Hn' E3 HR Hl') as [y Ey]. rewrite Ey. eauto.
    + (* a run of blanks followed by a line end *)
      destruct H as [Hne Hs].
      assert (Ev : vs_body ((s ++ B0) ++ R) = POk tt (B0 ++ R)).
      { unfold vs_body, alt, void. unfold bind at 1. rewrite <- app_assoc.
        assert (F : take_while1 is_nl (s ++ B0 ++ R) = PErr false 0 (s ++ B0 ++ R)).
        { unfold take_while1. destruct s as [| c s]; [congruence |]. apply all_cons in Hs.
          destruct Hs as [Hc _]. simpl. rewrite (sp_not_nl c Hc). reflexivity. }
        rewrite F. unfold bind at 1. unfold terminated. unfold bind at 1.
        rw (space1_ok s (B0 ++ R) (conj Hne Hs) (ends_starts_not_sp _ _ H1)).
        unfold bind at 1. unfold peek. rw (line_ending_or_eof_ok _ _ H1). reflexivity. }
      destruct fuel as [| f].
      { rewrite !app_length in Hlen. destruct s; [congruence | simpl in Hlen; lia]. }
      cbn [many0]. rewrite Ev.
      assert (Hc : consumed ((s ++ B0) ++ R) (B0 ++ R) = true).
      { apply consumed_true. rewrite !app_length. destruct s; [congruence | simpl; lia]. }
      rewrite Hc.
      assert (Hn' : (length B0 <= n)%nat).
      { rewrite app_length in Hn. destruct s; [congruence | simpl in Hn; lia]. }
      assert (Hl' : (length (B0 ++ R) <= f)%nat).
      { rewrite !app_length in *. destruct s; [congruence | simpl in Hlen; lia]. }
      destruct (IHn B0 R f Hn' H0 HR Hl') as [y Ey]. rewrite Ey. eauto.
Qed.

Lemma vertical_space_ok : forall B R fuel,
  blank_text R B -> solid R -> (length (B ++ R) <= fuel)%nat ->
  vertical_space fuel (B ++ R) = POk tt R.
Proof.
  intros B R fuel HB HR Hlen.
  change (vertical_space fuel) with (void (many0 fuel vs_body)). unfold void at 1. unfold bind at 1.
  destruct (vs_ok (length B) B R fuel (le_n _) HB HR Hlen) as [x Ex]. rewrite Ex. reflexivity.
Qed.

Lemma blank_text_extend : forall R X B, blank_text (X ++ R) B -> blank_text R X -> blank_text R (B ++ X).
Proof.
  intros R X B HB HX. induction HB; simpl; auto.
  - constructor; auto.
  - rewrite <- app_assoc. econstructor; eauto. rewrite <- app_assoc. eassumption.
Qed.

Lemma blank_item_text : forall s e R, sps0 s -> (e = Eof -> R = []) -> blank_text R (s ++ eol_text e).
Proof.
  intros s e R Hs He.
  assert (T : blank_text R (eol_text e)).
  { destruct e; simpl; repeat constructor. }
  destruct s as [| c s']; [exact T |].
  apply (BT_sp R (c :: s') (eol_text e) R); [split; [discriminate | exact Hs] | exact T |].
  apply ends_eol. exact He.
Qed.

(* ---- the entry iterator over a sequence of parse steps ---- *)
Inductive steps (fuel : nat) : list N -> Prop :=
| steps_done : forall i, vertical_space fuel i = POk tt [] -> steps fuel i
| steps_entry : forall i r x r',
    vertical_space fuel i = POk tt r -> r <> [] -> suffix r i ->
    parse_ledger_entry fuel r = POk x r' -> suffix r' r -> (length r' < length r)%nat ->
    steps fuel r' -> steps fuel i.

Lemma steps_loop : forall s i, steps (length s) i -> forall n acc,
  suffix i s -> (length i < n)%nat ->
  exists es, entries_loop (length s) n (utf8_encode s) (utf8_len s) i acc = LOk es.
Proof.
  intros s i H. induction H; intros n acc Hs Hn.
  - destruct n; [lia |]. simpl. rewrite H. eauto.
  - destruct n; [lia |]. simpl. rewrite H.
    destruct r as [| c0 r0]; [congruence |].
    unfold with_span. rewrite H2. destruct x as [e sps].
    cbn [abs_span fst snd].
    destruct (compute_line_number_some s (utf8_len s - utf8_len (c0 :: r0))) as [ln ->]; [lia |].
    rewrite consumed_true by assumption.
    apply IHsteps.
    + eapply suffix_trans; [eassumption |]. eapply suffix_trans; eassumption.
    + apply suffix_length in H1. lia.
Qed.

(* ---- items ---- *)
Definition render_items (its : list item) : list N := render_lines (flat_map item_lines its).

Lemma eof_only_last_cons : forall l e r, r <> [] ->
  (eof_only_last ((l, e) :: r) <-> e <> Eof /\ eof_only_last r).
Proof. intros l e r H. destruct r as [| [l' e'] r']; [congruence |]. simpl. tauto. Qed.

Lemma eof_only_last_split : forall a b, eof_only_last (a ++ b) ->
  well_ended a (render_lines b) /\ eof_only_last b.
Proof.
  induction a as [| [l e] a IH]; intros b H; [split; [exact I | exact H] |].
  simpl app in H.
  assert (D : a ++ b = [] \/ a ++ b <> []) by (destruct (a ++ b); [left | right]; congruence).
  destruct D as [D | D].
  - apply app_eq_nil in D. destruct D; subst. simpl. repeat split; auto.
  - apply eof_only_last_cons in H; [| exact D]. destruct H as [He H].
    destruct (IH b H) as [H1 H2]. split; [| exact H2]. simpl. split; [| exact H1].
    intros ->. congruence.
Qed.

Ltac not_comment :=
  split; [reflexivity |]; split; [reflexivity |]; split; [reflexivity |]; split; [reflexivity |];
  split;
  [ let HC := fresh "HC" in intro HC; vm_compute in HC; discriminate HC
  | let HC := fresh "HC" in
    intro HC; simpl in HC; inversion HC; subst;
    match goal with Hp : is_comment_prefix _ = true |- _ => vm_compute in Hp; discriminate Hp end ].

Lemma directive_first : forall ls, directive ls ->
  exists l e r c t, ls = (l, e) :: r /\ l = c :: t /\ is_sp c = false /\ is_nl c = false /\
                    (is_comment_prefix c = true <-> is_comment_block ls).
Proof.
  intros ls H. destruct H.
  - destruct ls as [| [l e] r]; [congruence |]. inversion H0; subst. simpl in H3.
    destruct H3 as [p t Hp Ht]. exists (p :: t), e, r, p, t.
    destruct (comment_prefix_facts p Hp) as (Q & _).
    split; [reflexivity |]. split; [reflexivity |]. split; [exact Q |]. split.
    { unfold is_comment_prefix, is_nl in *. destruct (N.eqb_spec p 10); [subst; discriminate |].
      destruct (N.eqb_spec p 13); [subst; discriminate | reflexivity]. }
    split; [intros _; simpl; constructor; auto | intros _; exact Hp].
  - destruct H as [s path]. exists (kw_include ++ s ++ path), e, [], 105, ([110; 99; 108; 117; 100; 101] ++ s ++ path).
    not_comment.
  - destruct H as [s1 s2 s3]. eexists _, e, [], 101, _. not_comment.
  - assert (Hh : exists t, l = 97 :: t) by (destruct H; eexists; reflexivity).
    destruct Hh as [t ->]. exists (97 :: t), e, [], 97, t. not_comment.
  - destruct H as [s a s']. eexists _, e, ds, 97, _. not_comment.
  - destruct H as [s a s']. eexists _, e, ds, 99, _. not_comment.
Qed.

(* what the rendering of the following items looks like to the directive before them *)
Lemma follow_ok : forall its, items_ok its -> eof_only_last (flat_map item_lines its) ->
  not_detail (render_items its) /\
  (match its with Dir ls :: _ => ~ is_comment_block ls | _ => True end ->
   starts_not is_comment_prefix (render_items its)).
Proof.
  intros its Hok Heof. destruct its as [| [s e | ls] r].
  - split; [left; exact I | intros; exact I].
  - destruct Hok as [Hs Hok].
    assert (He : e = Eof -> render_items r = []).
    { destruct (eof_only_last_split [(s, e)] (flat_map item_lines r) Heof) as [[He _] _].
      intros E. specialize (He E). exact He. }
    change (render_items (Blank s e :: r)) with (render_lines ((s, e) :: flat_map item_lines r)).
    rewrite render_cons. fold (render_items r).
    destruct s as [| c s'].
    + cbn [app]. split.
      * left. destruct e; cbn [eol_text app starts_not]; auto. rewrite (He eq_refl). exact I.
      * intros _. destruct e; cbn [eol_text app starts_not]; auto. rewrite (He eq_refl). exact I.
    + split.
      * right. exists (c :: s'), (eol_text e ++ render_items r), (render_items r).
        split; [reflexivity |]. split; [split; [discriminate | exact Hs] |]. apply ends_eol. exact He.
      * intros _. apply all_cons in Hs. destruct Hs as [Hc _]. cbn [app starts_not].
        unfold is_sp in Hc. unfold is_comment_prefix.
        destruct (N.eqb_spec c 32); [subst; reflexivity |]. destruct (N.eqb_spec c 9); [subst; reflexivity | discriminate].
  - destruct Hok as (Hd & Hok & _).
    destruct (directive_first ls Hd) as (l & e & r0 & c & t & -> & -> & Q1 & Q2 & Q3).
    unfold render_items. simpl flat_map. rewrite render_cons. simpl app.
    split; [left; exact Q1 |].
    intros Hn. simpl. destruct (is_comment_prefix c) eqn:E; [| reflexivity].
    exfalso. apply Hn. apply Q3. reflexivity.
Qed.

Lemma render_items_cons_dir : forall ls r, render_items (Dir ls :: r) = render_lines ls ++ render_items r.
Proof. intros. unfold render_items. simpl. apply render_app. Qed.
Lemma render_items_cons_blank : forall s e r, render_items (Blank s e :: r) = (s ++ eol_text e) ++ render_items r.
Proof. intros. unfold render_items. simpl flat_map. rewrite render_cons. now rewrite app_assoc. Qed.

Lemma directive_entry : forall fuel ls K,
  directive ls -> well_ended ls K -> not_detail K ->
  (is_comment_block ls -> starts_not is_comment_prefix K) ->
  (length (render_lines ls ++ K) <= fuel)%nat ->
  exists x, parse_ledger_entry fuel (render_lines ls ++ K) = POk x K.
Proof.
  intros fuel ls K Hd Hwe HK HC Hlen. destruct Hd.
  - apply entry_comment; auto. apply HC. destruct ls as [| [l e] r]; [congruence |].
    inversion H0; subst. exact H3.
  - apply entry_include; auto. destruct Hwe as [He _]. intros E. specialize (He E). exact He.
  - apply entry_end_apply; auto. destruct Hwe as [He _]. intros E. specialize (He E). exact He.
  - apply entry_apply; auto. destruct Hwe as [He _]. intros E. specialize (He E). exact He.
  - apply entry_account; auto.
  - apply entry_commodity; auto.
Qed.

Lemma directive_length : forall ls K, directive ls -> (length K < length (render_lines ls ++ K))%nat.
Proof.
  intros ls K Hd. destruct (directive_first ls Hd) as (l & e & r & c & t & -> & -> & _).
  rewrite render_cons. simpl. rewrite !app_length. lia.
Qed.

Lemma suffix_app : forall a b, suffix b (a ++ b).
Proof. intros. now exists a. Qed.

Lemma items_steps : forall its fuel B,
  items_ok its -> eof_only_last (flat_map item_lines its) ->
  blank_text (render_items its) B ->
  (length (B ++ render_items its) <= fuel)%nat ->
  steps fuel (B ++ render_items its).
Proof.
  induction its as [| it r IH]; intros fuel B Hok Heof HB Hlen.
  - apply steps_done. unfold render_items in *. simpl in *.
    apply vertical_space_ok; auto; exact I.
  - destruct it as [s e | ls].
    + (* a blank line: it joins the blank text *)
      destruct Hok as [Hs Hok].
      destruct (eof_only_last_split [(s, e)] (flat_map item_lines r) Heof) as [[He _] Heof'].
      assert (He' : e = Eof -> render_items r = []) by (intros E; specialize (He E); exact He).
      rewrite render_items_cons_blank in *. rewrite app_assoc.
      apply IH; auto.
      * apply blank_text_extend; [exact HB |]. apply blank_item_text; auto.
      * rewrite <- app_assoc. exact Hlen.
    + destruct Hok as (Hd & Hok & Hmax).
      simpl flat_map in Heof.
      destruct (eof_only_last_split ls _ Heof) as [Hwe Heof'].
      destruct (follow_ok r Hok Heof') as [F1 F2].
      rewrite render_items_cons_dir in *.
      set (R := render_lines ls ++ render_items r) in *.
      assert (HR : solid R).
      { destruct (directive_first ls Hd) as (l & e & r0 & c & t & -> & -> & Q1 & Q2 & _).
        unfold R. rewrite render_cons. simpl. auto. }
      assert (HlenR : (length R <= fuel)%nat) by (rewrite app_length in Hlen; lia).
      destruct (directive_entry fuel ls (render_items r) Hd Hwe F1
                  ltac:(intros Hc; apply F2; specialize (Hmax Hc); destruct r as [| [|] ]; auto)
                  HlenR) as [x Ex].
      eapply (steps_entry fuel (B ++ R) R x (render_items r)).
      * apply vertical_space_ok; auto.
      * unfold R. destruct (directive_first ls Hd) as (l & e & r0 & c & t & -> & -> & _).
        rewrite render_cons. discriminate.
      * apply suffix_app.
      * exact Ex.
      * apply suffix_app.
      * apply directive_length. exact Hd.
      * apply (IH fuel [] Hok Heof' (BT_nil _)).
        simpl. unfold R in HlenR. rewrite app_length in HlenR. lia.
Qed.

Theorem doc_grammar_accepted : forall s, In_doc_grammar s -> exists es, parse_ledger s = LOk es.
Proof.
  intros s (its & Hok & Heof & ->). unfold parse_ledger.
  apply steps_loop; [| apply suffix_refl | lia].
  apply (items_steps its _ [] Hok Heof (BT_nil _)). simpl. fold (render_items its). lia.
Qed.
