(* C16_statement_accepted: the transactions an importer produces, translated to book-keeping
   entries after a funding transaction, are accepted by Model.Book.process, and the account ends
   at the statement's running balance.  By induction over the transactions (rows), using the
   lemmas of Proofs/ImpBook_Process.v only. *)
From Coq Require Import List NArith ZArith Bool QArith Qcanon Lia.
From Okv Require Import Base.Maps Base.Dec Model.Amount Model.ImpConfig Model.ImpExtract
     Model.ImpSingleEntry Model.ImpCsv Model.ImpBook
     Proofs.ImpBook_Maps Proofs.ImpBook_Process Proofs.ImpCsvProofs.
From Okv Require Model.Book.
Import ListNotations.
Open Scope Qc_scope.

Section Accepted.
  Variable aid_of : str -> aid.
  Variable cid_of : str -> cid.
  Variable acct : str.
  Let A := aid_of acct.

  Definition oa_pair (a : oamount) : cid * Qc := (cid_of (oa_commodity a), dec_value (oa_value a)).

  Definition pp_of (p : sposting) : pp :=
    {| pp_account := aid_of (sp_account p); pp_c := cid_of (oa_commodity (sp_amount p));
       pp_v := dec_value (oa_value (sp_amount p)); pp_cost := option_map oa_pair (sp_cost p);
       pp_bal := option_map oa_pair (sp_balance p) |}.

  (* printed commodities are not empty (an empty one prints a bare number) *)
  Definition oname_ok (a : option oamount) : Prop :=
    match a with Some x => oa_commodity x <> [] | None => True end.
  Definition names_ok (p : sposting) : Prop :=
    oa_commodity (sp_amount p) <> [] /\ oname_ok (sp_cost p) /\ oname_ok (sp_balance p).

  Lemma vamt_nonempty : forall a, oa_commodity a <> [] ->
    vamt cid_of a = VAmt (dec_value (oa_value a)) (Some (cid_of (oa_commodity a))).
  Proof. intros a H. unfold vamt. destruct (oa_commodity a); [congruence|reflexivity]. Qed.

  Lemma book_posting_plain : forall p, names_ok p -> book_posting aid_of cid_of p = to_posting (pp_of p).
  Proof.
    intros p (Ha & Hc & Hb). unfold book_posting, to_posting, pp_of. cbn [pp_account pp_c pp_v pp_cost pp_bal].
    rewrite vamt_nonempty by exact Ha. f_equal.
    - destruct (sp_cost p) as [c|]; cbn in *; [rewrite vamt_nonempty by exact Hc|]; reflexivity.
    - destruct (sp_balance p) as [b|]; cbn in *; [rewrite vamt_nonempty by exact Hb|]; reflexivity.
  Qed.

  Definition view (t : stxn) : Z * list pp := (st_date t, map pp_of (st_posts t)).

  Lemma book_txn_plain : forall t, Forall names_ok (st_posts t) ->
    book_txn aid_of cid_of t = to_txn (fst (view t)) (snd (view t)).
  Proof.
    intros t H. unfold book_txn, to_txn, view. cbn [fst snd]. f_equal.
    rewrite map_map. apply map_ext_in. intros p Hp. apply book_posting_plain.
    eapply Forall_forall in H; eauto.
  Qed.

  (* a printed transaction the book-keeping takes: names, rates, and it balances *)
  Definition stxn_ok (t : stxn) : Prop :=
    Forall names_ok (st_posts t) /\ Forall cost_ok (map pp_of (st_posts t))
    /\ a_is_zero (resid [] (map pp_of (st_posts t))) = true.

  Lemma book_entries_plain : forall ts, Forall stxn_ok ts ->
    book_entries aid_of cid_of ts = map (fun t => Book.ETxn (to_txn (fst t) (snd t))) (map view ts).
  Proof.
    intros ts H. unfold book_entries. rewrite map_map. apply map_ext_in. intros t Ht.
    f_equal. apply book_txn_plain. eapply Forall_forall in H; eauto. apply H.
  Qed.

  Theorem stxns_accepted : forall ts,
    Forall stxn_ok ts -> walks_ok A (fun _ => 0) (map view ts) ->
    exists L, fst (Book.process (book_entries aid_of cid_of ts)) = Book.Ok L
              /\ forall c, a_get (Book.bal_get (Book.s_bal L) A) c = walks_run A (fun _ => 0) (map view ts) c.
  Proof.
    intros ts Hok Hw. rewrite book_entries_plain by exact Hok.
    apply process_plain_account; [|exact Hw].
    apply Forall_forall. intros v Hv. apply in_map_iff in Hv. destruct Hv as (t & <- & Ht).
    eapply Forall_forall in Hok; eauto. destruct Hok as (_ & Hc & Hz). split; assumption.
  Qed.

  (* ---- walks over appended lists ---- *)
  Lemma walks_app : forall l1 l2 run,
    walks_run A run (l1 ++ l2) = walks_run A (walks_run A run l1) l2
    /\ (walks_ok A run (l1 ++ l2) <-> walks_ok A run l1 /\ walks_ok A (walks_run A run l1) l2).
  Proof.
    induction l1 as [|t r IH]; intros l2 run; cbn [app walks_run walks_ok].
    - tauto.
    - destruct (IH l2 (walk_run A run (snd t))) as [E1 E2]. split; [exact E1|]. rewrite E2. tauto.
  Qed.

  (* ---- the single-entry view of a transaction ---- *)
  Definition txn_step (run : cid -> Qc) (t : txn) : cid -> Qc :=
    let c := cid_of (oa_commodity (t_amount t)) in
    upd run c (run c + dec_value (oa_value (t_amount t))).
  Definition txn_assert (run : cid -> Qc) (t : txn) : Prop :=
    match t_balance t with
    | Some b => dec_value (oa_value b) = txn_step run t (cid_of (oa_commodity b))
    | None => True
    end.
  Fixpoint final_run (run : cid -> Qc) (ts : list txn) : cid -> Qc :=
    match ts with [] => run | t :: r => final_run (txn_step run t) r end.
  (* the statement's running balance agrees with every balance the rows state *)
  Fixpoint consistent (run : cid -> Qc) (ts : list txn) : Prop :=
    match ts with [] => True | t :: r => txn_assert run t /\ consistent (txn_step run t) r end.

  (* the other postings are on other accounts *)
  Definition elsewhere (t : txn) : Prop :=
    aid_of (sp_account (counter_posting t)) <> A /\ (t_charges t <> [] -> aid_of expenses_commissions <> A).

  Lemma walk_others : forall run ps,
    Forall (fun p => pp_account p <> A /\ pp_bal p = None) ps ->
    walk_run A run ps = run /\ walk_ok A run ps.
  Proof.
    induction ps as [|p r IH]; intros H; cbn [walk_run walk_ok]; [auto|].
    inversion H; subst. destruct H2 as [Ha Hb].
    destruct (pp_account p =? A)%N eqn:E; [apply N.eqb_eq in E; congruence|].
    destruct (IH H3). auto.
  Qed.

  Lemma walk_app : forall l1 l2 run,
    walk_run A run (l1 ++ l2) = walk_run A (walk_run A run l1) l2
    /\ (walk_ok A run (l1 ++ l2) <-> walk_ok A run l1 /\ walk_ok A (walk_run A run l1) l2).
  Proof.
    induction l1 as [|p r IH]; intros l2 run; cbn [app walk_run walk_ok].
    - tauto.
    - destruct (pp_account p =? A)%N.
      + destruct (IH l2 (upd run (pp_c p) (run (pp_c p) + pp_v p))) as [E1 E2]. split; [exact E1|].
        cbv zeta. rewrite E2. tauto.
      + destruct (IH l2 run) as [E1 E2]. split; [exact E1|]. rewrite E2. tauto.
  Qed.

  Lemma walk_src : forall run t,
    walk_run A run [pp_of (src_posting t acct)] = txn_step run t
    /\ (walk_ok A run [pp_of (src_posting t acct)] <-> txn_assert run t).
  Proof.
    intros run t. cbn [walk_run walk_ok pp_of src_posting pp_account sp_account pp_c pp_v pp_bal sp_amount sp_balance].
    fold A. rewrite N.eqb_refl. split; [reflexivity|].
    unfold txn_assert, txn_step. destruct (t_balance t) as [b|]; cbn [option_map oa_pair]; tauto.
  Qed.

  Lemma walk_double_entry : forall run t, elsewhere t ->
    walk_run A run (map pp_of (st_posts (to_double_entry t acct))) = txn_step run t
    /\ (walk_ok A run (map pp_of (st_posts (to_double_entry t acct))) <-> txn_assert run t).
  Proof.
    intros run t [Hc Hch]. rewrite posts_shape.
    assert (Hothers : forall run', walk_run A run' (map pp_of (map (charge_posting t) (t_charges t))) = run'
                                   /\ walk_ok A run' (map pp_of (map (charge_posting t) (t_charges t)))).
    { intros run'. apply walk_others. apply Forall_forall. intros p Hp.
      apply in_map_iff in Hp. destruct Hp as (q & <- & Hq). apply in_map_iff in Hq. destruct Hq as (c & <- & Hin).
      cbn. split; [|reflexivity]. apply Hch. intros E. rewrite E in Hin. destruct Hin. }
    assert (Hctr : forall run', walk_run A run' [pp_of (counter_posting t)] = run'
                                /\ walk_ok A run' [pp_of (counter_posting t)]).
    { intros run'. apply walk_others. constructor; [|constructor]. split; [exact Hc|reflexivity]. }
    destruct (walk_src run t) as [Hs1 Hs2].
    destruct (d_neg (oa_value (t_amount t))).
    - change (counter_posting t :: map (charge_posting t) (t_charges t) ++ [src_posting t acct])
        with ([counter_posting t] ++ map (charge_posting t) (t_charges t) ++ [src_posting t acct]).
      rewrite !map_app.
      destruct (walk_app (map pp_of [counter_posting t])
                         (map pp_of (map (charge_posting t) (t_charges t)) ++ map pp_of [src_posting t acct]) run) as [E1 E2].
      destruct (Hctr run) as [C1 C2]. cbn [map] in *. rewrite E1, E2, C1.
      destruct (walk_app (map pp_of (map (charge_posting t) (t_charges t))) [pp_of (src_posting t acct)] run) as [F1 F2].
      destruct (Hothers run) as [O1 O2]. rewrite F1, F2, O1. split; [exact Hs1|]. tauto.
    - change (src_posting t acct :: map (charge_posting t) (t_charges t) ++ [counter_posting t])
        with ([src_posting t acct] ++ map (charge_posting t) (t_charges t) ++ [counter_posting t]).
      rewrite !map_app.
      destruct (walk_app (map pp_of [src_posting t acct])
                         (map pp_of (map (charge_posting t) (t_charges t)) ++ map pp_of [counter_posting t]) run) as [E1 E2].
      cbn [map] in *. rewrite E1, E2, Hs1.
      destruct (walk_app (map pp_of (map (charge_posting t) (t_charges t))) [pp_of (counter_posting t)] (txn_step run t)) as [F1 F2].
      destruct (Hothers (txn_step run t)) as [O1 O2]. destruct (Hctr (txn_step run t)) as [C1 C2].
      rewrite F1, F2, O1, C1. split; [reflexivity|]. tauto.
  Qed.

  Lemma walks_txns : forall ts run, Forall elsewhere ts ->
    walks_run A run (map view (map (fun t => to_double_entry t acct) ts)) = final_run run ts
    /\ (walks_ok A run (map view (map (fun t => to_double_entry t acct) ts)) <-> consistent run ts).
  Proof.
    induction ts as [|t r IH]; intros run H; cbn [map walks_run walks_ok final_run consistent view fst snd].
    - tauto.
    - inversion H; subst. destruct (walk_double_entry run t H2) as [E1 E2].
      rewrite E1, E2. destruct (IH (txn_step run t) H3) as [F1 F2]. split; [exact F1|]. rewrite F2. tauto.
  Qed.

  (* ---- funding ---- *)
  Variable equity : str.
  Hypothesis equity_elsewhere : aid_of equity <> A.

  Definition fund_step (run : cid -> Qc) (cv : str * dec) : cid -> Qc :=
    upd run (cid_of (fst cv)) (run (cid_of (fst cv)) + dec_value (snd cv)).
  Definition opening (b0 : list (str * dec)) : cid -> Qc := fold_left fund_step b0 (fun _ => 0).

  Lemma walks_funding : forall date b0 run,
    walks_run A run (map view (funding acct equity date b0)) = fold_left fund_step b0 run
    /\ walks_ok A run (map view (funding acct equity date b0)).
  Proof.
    induction b0 as [|cv r IH]; intros run; cbn [funding map walks_run walks_ok fold_left]; [auto|].
    cbn [view fund_stxn st_posts st_date fst snd map pp_of sp_account sp_amount sp_balance sp_cost
         oa_commodity oa_value option_map walk_run walk_ok pp_account pp_c pp_v pp_bal].
    fold A. rewrite N.eqb_refl.
    destruct (aid_of equity =? A)%N eqn:E; [apply N.eqb_eq in E; congruence|].
    destruct (IH (fund_step run cv)) as [E1 E2]. unfold funding in E1, E2.
    split; [exact E1|]. cbv zeta. repeat split; auto.
  Qed.

  Lemma fund_stxn_ok : forall date cv, fst cv <> [] -> stxn_ok (fund_stxn acct equity date cv).
  Proof.
    intros date [c v] Hc. cbn [fst] in Hc. unfold stxn_ok, fund_stxn. cbn [st_posts fst snd].
    split; [|split].
    - repeat constructor; cbn; assumption.
    - repeat constructor.
    - unfold resid. cbn [map fold_left pp_of pp_delta pp_cost sp_cost option_map fst snd pp_c pp_v sp_amount
                             oa_commodity oa_value].
      unfold a_add1 at 2. cbn [get]. cbn [app]. unfold a_add1. cbn [get]. rewrite N.eqb_refl. cbn [set].
      rewrite N.eqb_refl. unfold a_is_zero. cbn [forallb snd]. rewrite dec_value_opp.
      rewrite andb_true_r. apply qc_zero_true. ring.
  Qed.

  (* ---- C16_statement_accepted, for any list of single-entry transactions ---- *)
  Theorem statement_accepted : forall (ts : list txn) (b0 : list (str * dec)) (date0 : Z),
    Forall (fun cv => fst cv <> []) b0 ->
    Forall (fun t => stxn_ok (to_double_entry t acct) /\ elsewhere t) ts ->
    consistent (opening b0) ts ->
    exists L,
      fst (Book.process (book_entries aid_of cid_of
             (funding acct equity date0 b0 ++ map (fun t => to_double_entry t acct) ts))) = Book.Ok L
      /\ forall c, a_get (Book.bal_get (Book.s_bal L) A) c = final_run (opening b0) ts c.
  Proof.
    intros ts b0 date0 Hb0 Hts Hcons.
    assert (Hok : Forall stxn_ok (funding acct equity date0 b0 ++ map (fun t => to_double_entry t acct) ts)).
    { apply Forall_app. split.
      - apply Forall_forall. intros t Ht. apply in_map_iff in Ht. destruct Ht as (cv & <- & Hcv).
        apply fund_stxn_ok. eapply Forall_forall in Hb0; eauto.
      - apply Forall_forall. intros t Ht. apply in_map_iff in Ht. destruct Ht as (t0 & <- & Ht0).
        eapply Forall_forall in Hts; eauto. apply Hts. }
    assert (Hels : Forall elsewhere ts) by (eapply Forall_impl; [|exact Hts]; cbn; tauto).
    destruct (walks_funding date0 b0 (fun _ => 0)) as [Hf1 Hf2].
    destruct (walks_txns ts (opening b0) Hels) as [Ht1 Ht2].
    destruct (walks_app (map view (funding acct equity date0 b0))
                        (map view (map (fun t => to_double_entry t acct) ts)) (fun _ => 0)) as [Ha1 Ha2].
    destruct (stxns_accepted _ Hok) as (L & HL & Hbal).
    - rewrite map_app. apply Ha2. split; [exact Hf2|]. rewrite Hf1. apply Ht2. exact Hcons.
    - exists L. split; [exact HL|]. intros c. rewrite Hbal, map_app, Ha1, Hf1. fold (opening b0). rewrite Ht1.
      reflexivity.
  Qed.

  (* when the last row states a balance, that is where the account ends *)
  Lemma consistent_last : forall ts run t b,
    consistent run (ts ++ [t]) -> t_balance t = Some b ->
    final_run run (ts ++ [t]) (cid_of (oa_commodity b)) = dec_value (oa_value b).
  Proof.
    induction ts as [|x r IH]; intros run t b H Hb; cbn [app consistent final_run] in *.
    - destruct H as [H _]. unfold txn_assert in H. rewrite Hb in H. symmetry. exact H.
    - destruct H as [_ H]. apply IH; assumption.
  Qed.

  (* ---- rows without conversion and without charge always balance ---- *)

  Lemma plain_txn_ok : forall t,
    t_transferred t = None -> t_rates t = [] -> t_charges t = [] ->
    oa_commodity (t_amount t) <> [] -> oname_ok (t_balance t) ->
    stxn_ok (to_double_entry t acct).
  Proof.
    intros t Htr Hr Hch Hc Hb. unfold stxn_ok. rewrite posts_shape, Hch. cbn [map app].
    assert (Hsrc : pp_of (src_posting t acct)
                   = {| pp_account := A; pp_c := cid_of (oa_commodity (t_amount t));
                        pp_v := dec_value (oa_value (t_amount t)); pp_cost := None;
                        pp_bal := option_map oa_pair (t_balance t) |}).
    { unfold pp_of, src_posting, posting_cost. cbn. rewrite Hr. reflexivity. }
    assert (Hctr : pp_of (counter_posting t)
                   = {| pp_account := aid_of (sp_account (counter_posting t));
                        pp_c := cid_of (oa_commodity (t_amount t));
                        pp_v := - dec_value (oa_value (t_amount t)); pp_cost := None; pp_bal := None |}).
    { unfold pp_of, counter_posting, dest_posting, dest_amount, posting_cost. rewrite Htr, Hr.
      cbn [sp_account sp_amount sp_cost sp_balance oa_opp oa_commodity oa_value sget option_map].
      rewrite dec_value_opp. reflexivity. }
    assert (Hn1 : names_ok (src_posting t acct)).
    { unfold names_ok, src_posting, posting_cost. cbn. rewrite Hr. cbn. auto. }
    assert (Hn2 : names_ok (counter_posting t)).
    { unfold names_ok, counter_posting, dest_posting, dest_amount, posting_cost. rewrite Htr, Hr.
      cbn [sp_amount sp_cost sp_balance oa_opp oa_commodity sget oname_ok]. auto. }
    assert (Hz : forall c v, a_is_zero (a_add1 (a_add1 [] c v) c (- v)) = true
                             /\ a_is_zero (a_add1 (a_add1 [] c (- v)) c v) = true).
    { intros c v. unfold a_add1 at 2 4. cbn [get app]. unfold a_add1. cbn [get]. rewrite N.eqb_refl. cbn [set].
      rewrite N.eqb_refl. unfold a_is_zero. cbn [forallb snd]. rewrite !andb_true_r.
      split; apply qc_zero_true; ring. }
    destruct (d_neg (oa_value (t_amount t))); cbn [map]; rewrite Hsrc, Hctr;
      (split; [constructor; [assumption|constructor; [assumption|constructor]]
              |split; [constructor; [exact I|constructor; [exact I|constructor]]|]]);
      unfold resid; cbn [fold_left pp_delta pp_cost pp_c pp_v fst snd]; apply Hz.
  Qed.

  (* what import produced from plain rows: every row without conversion and charge *)
  Definition plain_txn (t : txn) : Prop :=
    t_transferred t = None /\ t_rates t = [] /\ t_charges t = [] /\ oa_commodity (t_amount t) <> [].

  Theorem statement_accepted_plain :
    forall P (re_captures : P -> str -> option captures) (re_valid : P -> bool)
           (cfg : entry P) (header : list str) (rows : list row) (ts : list txn)
           (b0 : list (str * dec)) (date0 : Z),
    e_account cfg = acct ->
    import re_captures re_valid cfg header rows = IOk ts ->
    Forall (fun t => plain_txn t /\ elsewhere t) ts ->
    Forall (fun cv => fst cv <> []) b0 ->
    consistent (opening b0) ts ->
    exists L,
      fst (Book.process (book_entries aid_of cid_of
             (funding acct equity date0 b0 ++ map (fun t => to_double_entry t acct) ts))) = Book.Ok L
      /\ forall c, a_get (Book.bal_get (Book.s_bal L) A) c = final_run (opening b0) ts c.
  Proof.
    intros P re_captures re_valid cfg header rows ts b0 date0 Hacct Himp Hts Hb0 Hcons.
    apply statement_accepted; [exact Hb0| |exact Hcons].
    destruct (import_inv _ _ _ _ _ _ Himp) as (fm & ts0 & _ & Hrows & Hrev).
    apply Forall_forall. intros t Ht. pose proof Ht as Ht'.
    eapply Forall_forall in Ht'; [|exact Hts]. destruct Ht' as [(Htr & Hr & Hch & Hc) Hel].
    split; [|exact Hel]. apply plain_txn_ok; try assumption.
    assert (Hin0 : In t ts0).
    { rewrite Hrev in Ht. destruct (fs_row_order (e_format cfg)); [exact Ht|apply in_rev; exact Ht]. }
    destruct (import_rows_built _ _ _ _ _ _ Hrows Hin0) as (r & d & _ & _ & Hb).
    destruct (build_txn_inv _ _ _ _ Hb) as (Ha & Hbal & _).
    rewrite Hbal. rewrite Ha in Hc. cbn in Hc. destruct (rd_balance d); cbn; [exact Hc|exact I].
  Qed.
End Accepted.
