(* Lemmas about Model/ImpCsv.v and Model/ImpSingleEntry.v: what a CSV row becomes. *)
From Coq Require Import List NArith ZArith Bool QArith Qcanon Lia Sorted.
From Okv Require Import Base.Dec Model.Lit Model.ImpConfig Model.ImpExtract Model.ImpSingleEntry Model.ImpCsv.
Import ListNotations.

Ltac inv_step H :=
  match type of H with
  | ibind ?x _ = IOk _ => let E := fresh "E" in destruct x eqn:E; cbn [ibind] in H; try discriminate H
  | (if ?b then _ else _) = IOk _ => let E := fresh "E" in destruct b eqn:E; try discriminate H
  | match ?x with _ => _ end = IOk _ => let E := fresh "E" in destruct x eqn:E; try discriminate H
  end.
Ltac inv_all H := repeat inv_step H.

(* ---- numbers ---- *)
Lemma str_to_comma_decimal_nonempty : forall s v, nonempty s = true -> str_to_comma_decimal s = IOk v -> v <> None.
Proof.
  intros s v Hn H. destruct s; [discriminate|]. unfold str_to_comma_decimal in H.
  destruct (unary_amount (n :: s)); [injection H as <-; discriminate|discriminate].
Qed.

Lemma dec_value_opp : forall d, (dec_value (dec_opp d) = - dec_value d)%Qc.
Proof. intros [ng m]. unfold dec_value, dec_opp. cbn. destruct ng; cbn; ring. Qed.

Section Csv.
  Context {P : Type}.
  Variable re_captures : P -> str -> option captures.
  Variable re_valid : P -> bool.
  Notation read_row := (@read_row P).
  Notation build_txn := (build_txn re_captures).
  Notation base_txn := (base_txn re_captures).
  Notation row_conversion := (row_conversion re_captures).
  Notation row_fragment := (row_fragment re_captures).
  Notation import_row := (import_row re_captures).
  Notation import_rows := (import_rows re_captures).
  Notation import := (import re_captures re_valid).

  (* ---- C16_sign: which value is booked ---- *)
  Lemma fm_amount_credit_debit : forall fm at_ rec cf df a,
    fm_value fm = CreditDebit cf df -> fm_amount fm at_ rec = IOk a ->
    exists credit debit,
      resolve fm FCredit cf rec = IOk (Some credit) /\ resolve fm FDebit df rec = IOk (Some debit) /\
      ((nonempty credit = true /\ str_to_comma_decimal credit = IOk (Some a)) \/
       (credit = [] /\ nonempty debit = true /\
        exists v, str_to_comma_decimal debit = IOk (Some v) /\ a = dec_opp v)).
  Proof.
    intros fm at_ rec cf df a Hv H. unfold fm_amount in H. rewrite Hv in H.
    destruct (resolve fm FCredit cf rec) as [[credit|]|e|] eqn:Ec; cbn [ibind] in H; try discriminate.
    destruct (resolve fm FDebit df rec) as [[debit|]|e|] eqn:Ed; cbn [ibind] in H; try discriminate.
    exists credit, debit. repeat split; try reflexivity.
    destruct (nonempty credit) eqn:Nc.
    - left. split; [reflexivity|].
      destruct (str_to_comma_decimal credit) as [v|e|] eqn:Ev; cbn [ibind] in H; try discriminate.
      pose proof (str_to_comma_decimal_nonempty _ _ Nc Ev). destruct v; [|congruence].
      cbn in H. injection H as <-. reflexivity.
    - right. destruct credit; [|discriminate]. split; [reflexivity|].
      destruct (nonempty debit) eqn:Nd; [|discriminate]. split; [reflexivity|].
      destruct (str_to_comma_decimal debit) as [v|e|] eqn:Ev; cbn [ibind] in H; try discriminate.
      pose proof (str_to_comma_decimal_nonempty _ _ Nd Ev). destruct v as [v|]; [|congruence].
      cbn in H. injection H as <-. eauto.
  Qed.

  Lemma fm_amount_column : forall fm at_ rec af a,
    fm_value fm = AmountField af -> fm_amount fm at_ rec = IOk a ->
    exists s v, resolve fm FAmount af rec = IOk (Some s) /\ str_to_comma_decimal s = IOk v /\
                a = match at_ with Asset => or_zero v | Liability => dec_opp (or_zero v) end.
  Proof.
    intros fm at_ rec af a Hv H. unfold fm_amount in H. rewrite Hv in H.
    destruct (resolve fm FAmount af rec) as [[s|]|e|] eqn:Es; cbn [ibind] in H; try discriminate.
    destruct (str_to_comma_decimal s) as [v|e|] eqn:Ev; cbn [ibind] in H; try discriminate.
    injection H as <-. eauto.
  Qed.

  (* ---- what read_row reads ---- *)
  Lemma read_row_inv : forall (cfg : entry P) fm r d,
    read_row cfg fm r = IOk (Some d) ->
    row_date r = Some (rd_date d)
    /\ fm_extract fm FPayee (row_fields r) = IOk (Some (rd_payee d))
    /\ fm_amount fm (e_account_type cfg) (row_fields r) = IOk (rd_amount d)
    /\ fm_decimal fm FBalance (row_fields r) = IOk (rd_balance d)
    /\ fm_decimal fm FSecondaryAmount (row_fields r) = IOk (rd_secondary_amount d)
    /\ fm_extract fm FSecondaryCommodity (row_fields r) = IOk (rd_secondary_commodity d)
    /\ fm_decimal fm FRate (row_fields r) = IOk (rd_rate d)
    /\ (exists c0, fm_extract fm FCommodity (row_fields r) = IOk c0
                   /\ rd_commodity d = match c0 with Some c => c | None => cs_primary (e_commodity cfg) end).
  Proof.
    intros cfg fm r d H. unfold ImpCsv.read_row in H. inv_all H.
    injection H as <-. cbn. repeat split; eauto.
  Qed.

  (* ---- the transaction built from a row ---- *)
  Lemma base_txn_fields : forall (cfg : entry P) d,
    let t := base_txn cfg d in
    t_amount t = {| oa_value := rd_amount d; oa_commodity := rd_commodity d |}
    /\ t_balance t = option_map (fun b => {| oa_value := b; oa_commodity := rd_commodity d |}) (rd_balance d)
    /\ t_date t = rd_date d /\ t_transferred t = None /\ t_rates t = [] /\ t_charges t = []
    /\ t_dest t = g_account (row_fragment cfg d)
    /\ t_clear t = (if g_cleared (row_fragment cfg d) then None else Some Pending)
    /\ t_code t = option_map one_line (g_code (row_fragment cfg d)).
  Proof.
    intros cfg d. unfold ImpCsv.base_txn. destruct (rd_note d) as [n|]; [destruct (blank n)|];
      destruct (rd_balance d); cbn; repeat split; reflexivity.
  Qed.

  Definition charge_ok (d : row_data) (c : str * oamount) : Prop :=
    oa_commodity (snd c) = rd_commodity d /\ dec_is_zero (oa_value (snd c)) = false.

  Lemma with_charge_inv : forall (cfg : entry P) d t t',
    with_charge cfg d t = IOk t' ->
    t_amount t' = t_amount t /\ t_balance t' = t_balance t /\ t_date t' = t_date t
    /\ t_transferred t' = t_transferred t /\ t_rates t' = t_rates t /\ t_dest t' = t_dest t
    /\ t_clear t' = t_clear t /\ t_code t' = t_code t
    /\ (t_charges t' = t_charges t \/ exists c, charge_ok d c /\ t_charges t' = t_charges t ++ [c]).
  Proof.
    intros cfg d t t' H. unfold with_charge in H.
    destruct (rd_charge d) as [ch|]; [|injection H as <-; repeat split; auto].
    destruct (e_operator cfg) as [op|]; [|discriminate].
    destruct (str_to_comma_decimal ch) as [[v|]|e|]; cbn [ibind] in H; try discriminate;
      [|injection H as <-; repeat split; auto].
    destruct (dec_is_zero v) eqn:Ez; injection H as <-; cbn; repeat split; auto.
    right. eexists. split; [|reflexivity]. split; [reflexivity|exact Ez].
  Qed.

  Definition priced_commodity (cv : conv_spec) (commodity sc : str) : str :=
    match cv_rate cv with PriceOfPrimary => commodity | PriceOfSecondary => sc end.
  Definition pricing_commodity (cv : conv_spec) (commodity sc : str) : str :=
    match cv_rate cv with PriceOfPrimary => sc | PriceOfSecondary => commodity end.

  (* the secondary amount of a conversion, before its sign is set *)
  Definition transferred_ok (cv : conv_spec) (amount rate : dec) (sa : option dec) (tr : dec) : Prop :=
    match cv_amount cv with
    | Extract => sa = Some tr
    | Compute => match cv_rate cv with
                 | PriceOfPrimary => tr = dec_mul amount rate
                 | PriceOfSecondary => dec_div amount rate = Some tr
                 end
    end.

  Lemma apply_conversion_inv : forall cv amount commodity rate sa sc t t',
    t_rates t = [] ->
    apply_conversion cv amount commodity rate sa sc t = IOk t' ->
    exists r sc' tr,
      rate = Some r /\ option_or (cv_commodity cv) sc = Some sc'
      /\ str_eqb (pricing_commodity cv commodity sc') (priced_commodity cv commodity sc') = false
      /\ t_rates t' = [(priced_commodity cv commodity sc',
                        {| oa_value := r; oa_commodity := pricing_commodity cv commodity sc' |})]
      /\ t_transferred t' = Some {| oa_value := tr; oa_commodity := sc' |}
      /\ transferred_ok cv amount r sa tr
      /\ t_amount t' = t_amount t /\ t_balance t' = t_balance t /\ t_date t' = t_date t
      /\ t_charges t' = t_charges t /\ t_dest t' = t_dest t /\ t_clear t' = t_clear t
      /\ t_code t' = t_code t.
  Proof.
    intros cv amount commodity rate sa sc t t' Hr H. unfold apply_conversion in H.
    destruct rate as [r|]; [|discriminate].
    destruct (option_or (cv_commodity cv) sc) as [sc'|] eqn:Esc; [|discriminate].
    exists r, sc'. unfold priced_commodity, pricing_commodity, transferred_ok.
    destruct (cv_rate cv) eqn:Erate.
    - (* price of secondary *)
      destruct (dec_div amount r) as [q|] eqn:Eq; cbn [ibind] in H; [|discriminate].
      unfold add_rate in H. rewrite Hr in H. cbn [sget] in H.
      destruct (str_eqb commodity sc') eqn:Eeq; [discriminate|].
      destruct (cv_amount cv) eqn:Eam.
      + destruct sa as [v|]; cbn [ibind] in H; [|discriminate]. injection H as <-.
        exists v. cbn. repeat split; auto.
      + cbn [ibind] in H. injection H as <-. exists q. cbn. repeat split; auto.
    - (* price of primary *)
      cbn [ibind] in H. unfold add_rate in H. rewrite Hr in H. cbn [sget] in H.
      destruct (str_eqb sc' commodity) eqn:Eeq; [discriminate|].
      destruct (cv_amount cv) eqn:Eam.
      + destruct sa as [v|]; cbn [ibind] in H; [|discriminate]. injection H as <-.
        exists v. cbn. repeat split; auto.
      + cbn [ibind] in H. injection H as <-. eexists. cbn. repeat split; auto.
  Qed.

  Definition conversion_shape (cfg : entry P) (d : row_data) (t : txn) : Prop :=
    match row_conversion cfg d with
    | None => t_transferred t = None /\ t_rates t = []
    | Some cv =>
        exists rate sc tr,
          rd_rate d = Some rate /\ option_or (cv_commodity cv) (rd_secondary_commodity d) = Some sc
          /\ str_eqb (pricing_commodity cv (rd_commodity d) sc) (priced_commodity cv (rd_commodity d) sc) = false
          /\ t_rates t = [(priced_commodity cv (rd_commodity d) sc,
                           {| oa_value := rate; oa_commodity := pricing_commodity cv (rd_commodity d) sc |})]
          /\ t_transferred t = Some {| oa_value := tr; oa_commodity := sc |}
          /\ transferred_ok cv (rd_amount d) rate (rd_secondary_amount d) tr
    end.

  Lemma build_txn_inv : forall (cfg : entry P) d t,
    build_txn cfg d = IOk t ->
    t_amount t = {| oa_value := rd_amount d; oa_commodity := rd_commodity d |}
    /\ t_balance t = option_map (fun b => {| oa_value := b; oa_commodity := rd_commodity d |}) (rd_balance d)
    /\ t_date t = rd_date d
    /\ t_dest t = g_account (row_fragment cfg d)
    /\ t_clear t = (if g_cleared (row_fragment cfg d) then None else Some Pending)
    /\ t_code t = option_map one_line (g_code (row_fragment cfg d))
    /\ Forall (charge_ok d) (t_charges t)
    /\ conversion_shape cfg d t.
  Proof.
    intros cfg d t H. unfold ImpCsv.build_txn in H.
    destruct (with_charge cfg d (base_txn cfg d)) as [t3|e|] eqn:Ech; cbn [ibind] in H; try discriminate.
    destruct (base_txn_fields cfg d) as (Ba & Bb & Bd & Bt & Br & Bc & Bde & Bcl & Bco).
    destruct (with_charge_inv _ _ _ _ Ech) as (Ca & Cb & Cd & Ct & Cr & Cde & Ccl & Cco & Cch).
    assert (Hch : Forall (charge_ok d) (t_charges t3)).
    { destruct Cch as [E|(c & Hc & E)]; rewrite E, Bc; [constructor|]. cbn. constructor; [exact Hc|constructor]. }
    unfold conversion_shape. destruct (row_conversion cfg d) as [cv|] eqn:Ecv.
    - assert (Hr3 : t_rates t3 = []) by congruence.
      destruct (apply_conversion_inv _ _ _ _ _ _ _ _ Hr3 H)
        as (r & sc & tr & E1 & E2 & E3 & E4 & E5 & E6 & Ea & Eb & Ed & Ech' & Ede & Ecl & Eco).
      repeat split; try congruence.
      exists r, sc, tr. repeat split; assumption.
    - injection H as <-. repeat split; congruence.
  Qed.

  (* ---- the double entry ---- *)
  Lemma posts_shape : forall t src,
    st_posts (to_double_entry t src) =
    if d_neg (oa_value (t_amount t))
    then counter_posting t :: map (charge_posting t) (t_charges t) ++ [src_posting t src]
    else src_posting t src :: map (charge_posting t) (t_charges t) ++ [counter_posting t].
  Proof.
    intros t src. unfold to_double_entry, counter_posting. cbn [st_posts].
    destruct (d_neg (oa_value (t_amount t))); reflexivity.
  Qed.

  Lemma src_in_posts : forall t src, In (src_posting t src) (st_posts (to_double_entry t src)).
  Proof.
    intros. rewrite posts_shape. destruct (d_neg _); cbn; [right; apply in_or_app; right|]; left; reflexivity.
  Qed.

  Lemma in_posts : forall t src p, In p (st_posts (to_double_entry t src)) ->
    p = src_posting t src \/ p = counter_posting t \/ exists c, In c (t_charges t) /\ p = charge_posting t c.
  Proof.
    intros t src p H. rewrite posts_shape in H.
    destruct (d_neg _); cbn in H; destruct H as [<-|H]; auto; apply in_app_or in H;
      destruct H as [H|[<-|[]]]; auto; apply in_map_iff in H; destruct H as (c & <- & Hc); eauto.
  Qed.

  Lemma counter_amount_plain : forall t,
    t_transferred t = None -> sp_amount (counter_posting t) = oa_opp (t_amount t).
  Proof. intros t H. unfold counter_posting, dest_posting, dest_amount. cbn. rewrite H. reflexivity. Qed.

  Lemma counter_amount_converted : forall t tr,
    t_transferred t = Some tr ->
    sp_amount (counter_posting t)
    = {| oa_value := {| d_neg := negb (d_neg (oa_value (t_amount t))); d_mag := d_mag (oa_value tr) |};
         oa_commodity := oa_commodity tr |}.
  Proof.
    intros t tr H. unfold counter_posting, dest_posting, dest_amount. cbn. rewrite H.
    unfold dec_set_positive, dec_opp. cbn. rewrite negb_involutive. reflexivity.
  Qed.

  Lemma no_rates_no_cost : forall t src p, t_rates t = [] -> In p (st_posts (to_double_entry t src)) -> sp_cost p = None.
  Proof.
    intros t src p Hr H. apply in_posts in H.
    destruct H as [->|[->|(c & _ & ->)]]; unfold src_posting, counter_posting, dest_posting, charge_posting, posting_cost;
      cbn; rewrite Hr; reflexivity.
  Qed.

  Lemma posting_cost_is : forall t src p,
    In p (st_posts (to_double_entry t src)) -> sp_cost p = sget (oa_commodity (sp_amount p)) (t_rates t).
  Proof.
    intros t src p H. apply in_posts in H.
    destruct H as [->|[->|(c & _ & ->)]]; reflexivity.
  Qed.

  (* ---- rows to transactions, in order ---- *)
  Definition live_dates (cfg : entry P) (fm : field_map) (rows : list row) : list Z :=
    flat_map (fun r => match read_row cfg fm r with IOk (Some d) => [rd_date d] | _ => [] end) rows.

  Lemma import_rows_dates : forall (cfg : entry P) fm rows ts,
    import_rows cfg fm rows = IOk ts -> map t_date ts = live_dates cfg fm rows.
  Proof.
    induction rows as [|r rest IH]; intros ts H; cbn in H.
    - injection H as <-. reflexivity.
    - unfold ImpCsv.import_row in H.
      destruct (read_row cfg fm r) as [[d|]|e|] eqn:Er; cbn [ibind] in H; try discriminate.
      + destruct (build_txn cfg d) as [t|e|] eqn:Eb; cbn [ibind] in H; try discriminate.
        destruct (import_rows cfg fm rest) as [ts'|e|] eqn:Ei; cbn [ibind] in H; try discriminate.
        injection H as <-. cbn [map live_dates flat_map]. rewrite Er. cbn [app].
        destruct (build_txn_inv _ _ _ Eb) as (_ & _ & Hd & _). rewrite Hd. f_equal. apply IH. reflexivity.
      + destruct (import_rows cfg fm rest) as [ts'|e|] eqn:Ei; cbn [ibind] in H; try discriminate.
        injection H as <-. cbn [live_dates flat_map]. rewrite Er. cbn [app]. apply IH. reflexivity.
  Qed.

  (* every transaction of the output was built from a row that was read *)
  Lemma import_rows_built : forall (cfg : entry P) fm rows ts t,
    import_rows cfg fm rows = IOk ts -> In t ts ->
    exists r d, In r rows /\ read_row cfg fm r = IOk (Some d) /\ build_txn cfg d = IOk t.
  Proof.
    induction rows as [|r rest IH]; intros ts t H Hin; cbn in H.
    - injection H as <-. destruct Hin.
    - unfold ImpCsv.import_row in H.
      destruct (read_row cfg fm r) as [[d|]|e|] eqn:Er; cbn [ibind] in H; try discriminate.
      + destruct (build_txn cfg d) as [t1|e|] eqn:Eb; cbn [ibind] in H; try discriminate.
        destruct (import_rows cfg fm rest) as [ts'|e|] eqn:Ei; cbn [ibind] in H; try discriminate.
        injection H as <-. destruct Hin as [<-|Hin].
        * exists r, d. split; [left; reflexivity|auto].
        * destruct (IH _ _ eq_refl Hin) as (r' & d' & Hr & Hrest). exists r', d'. split; [right; exact Hr|exact Hrest].
      + destruct (import_rows cfg fm rest) as [ts'|e|] eqn:Ei; cbn [ibind] in H; try discriminate.
        injection H as <-. destruct (IH _ _ eq_refl Hin) as (r' & d' & Hr & Hrest).
        exists r', d'. split; [right; exact Hr|exact Hrest].
  Qed.

  Lemma import_inv : forall (cfg : entry P) header rows ts,
    import cfg header rows = IOk ts ->
    exists fm ts0, fieldmap_new (fs_fields (e_format cfg)) header = IOk fm
                   /\ import_rows cfg fm rows = IOk ts0
                   /\ ts = match fs_row_order (e_format cfg) with OldToNew => ts0 | NewToOld => rev ts0 end.
  Proof.
    intros cfg header rows ts H. unfold ImpCsv.import in H.
    destruct (fieldmap_new _ header) as [fm|e|] eqn:Ef; cbn [ibind] in H; try discriminate.
    destruct (negb _); [discriminate|].
    destruct (import_rows cfg fm rows) as [ts0|e|] eqn:Ei; cbn [ibind] in H; try discriminate.
    injection H as <-. eauto.
  Qed.

  Lemma sorted_ge_rev : forall l, Sorted Z.ge l -> Sorted Z.le (rev l).
  Proof.
    intros l H. apply Sorted_StronglySorted in H; [|intros x y z; lia].
    apply StronglySorted_Sorted.
    induction H as [|a l Hl IH Hall]; cbn; [constructor|].
    assert (Happ : forall l1, StronglySorted Z.le l1 -> Forall (fun x => (x <= a)%Z) l1 -> StronglySorted Z.le (l1 ++ [a])).
    { induction l1 as [|x l1 IH1]; intros Hs Hf; cbn; [repeat constructor|].
      inversion Hs; subst. inversion Hf; subst. constructor; [apply IH1; assumption|].
      apply Forall_app. split; [assumption|constructor; [assumption|constructor]]. }
    apply Happ; [exact IH|]. apply Forall_rev. eapply Forall_impl; [|exact Hall]. cbn. intros; lia.
  Qed.

  Lemma oldest_first : forall (cfg : entry P) header rows ts,
    import cfg header rows = IOk ts ->
    exists fm, fieldmap_new (fs_fields (e_format cfg)) header = IOk fm /\
      (match fs_row_order (e_format cfg) with
       | OldToNew => Sorted Z.le (live_dates cfg fm rows)
       | NewToOld => Sorted Z.ge (live_dates cfg fm rows)
       end -> Sorted Z.le (map t_date ts)).
  Proof.
    intros cfg header rows ts H. destruct (import_inv _ _ _ _ H) as (fm & ts0 & Hf & Hi & ->).
    exists fm. split; [exact Hf|]. pose proof (import_rows_dates _ _ _ _ Hi) as Hd.
    destruct (fs_row_order (e_format cfg)); intros Hs.
    - rewrite Hd. exact Hs.
    - rewrite map_rev, Hd. apply sorted_ge_rev. exact Hs.
  Qed.
End Csv.
