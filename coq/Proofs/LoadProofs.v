(* The loader model (Model/Load.v) against the specification (Model/LoadSpec.v). *)
From Coq Require Import List NArith Bool Lia Sorting.Sorted Sorting.Permutation.
From Okv Require Import Model.Glob Model.GlobSpec Model.Load Model.LoadSpec Proofs.GlobProofs Proofs.PathOrder.
Import ListNotations.
Open Scope N_scope.

(* ---------- finite map ---------- *)

Lemma lookup_in : forall fs p c, lookup p fs = Some c -> In (p, c) fs.
Proof.
  induction fs as [|[k c0] r IH]; intros p c H; cbn in H; [discriminate|].
  destruct (path_eqb k p) eqn:E.
  - apply path_eqb_eq in E. injection H as H. subst. left. reflexivity.
  - right. apply IH. exact H.
Qed.

Lemma in_lookup : forall fs p c, wf_fs fs -> In (p, c) fs -> lookup p fs = Some c.
Proof.
  induction fs as [|[k c0] r IH]; intros p c W H; [destruct H|].
  unfold wf_fs in W. cbn in W. inversion W as [|? ? Hn Hd]; subst. cbn.
  destruct H as [H|H].
  - injection H as H1 H2. subst. assert (E : path_eqb p p = true) by (apply path_eqb_eq; reflexivity).
    rewrite E. reflexivity.
  - destruct (path_eqb k p) eqn:E.
    + apply path_eqb_eq in E. subst k. exfalso. apply Hn. apply (in_map fst) in H. exact H.
    + apply IH; assumption.
Qed.

(* ---------- sequencing ---------- *)

Lemma then_done : forall o1 b, then_ (o1, Done) b = (o1 ++ fst b, snd b).
Proof. intros. reflexivity. Qed.

Lemma then_done_inv : forall a b out,
  then_ a b = (out, Done) ->
  exists o1 o2, a = (o1, Done) /\ b = (o2, Done) /\ out = o1 ++ o2.
Proof.
  intros [o1 s1] [o2 s2] out H. unfold then_ in H. cbn in H. destruct s1; try discriminate.
  - injection H as H1 H2. subst. exists o1, o2. auto.
Qed.

Lemma then_failed : forall a t e, then_ a (t, Failed e) = (fst (then_ a (t, Failed e)), snd (then_ a (t, Failed e))).
Proof. intros. destruct (then_ a (t, Failed e)). reflexivity. Qed.

Lemma then_not_done_r : forall a b, snd b <> Done -> snd (then_ a b) <> Done.
Proof. intros [o1 s1] [o2 s2] H. unfold then_. cbn in *. destruct s1; cbn; auto; discriminate. Qed.

Lemma then_in : forall a b x, In x (fst (then_ a b)) -> In x (fst a) \/ In x (fst b).
Proof.
  intros [o1 s1] [o2 s2] x H. unfold then_ in H. cbn in *. destruct s1; cbn in H; auto.
  apply in_app_or in H. exact H.
Qed.

Lemma then_assoc : forall a b c, then_ (then_ a b) c = then_ a (then_ b c).
Proof.
  intros [o1 s1] [o2 s2] [o3 s3]. unfold then_. cbn.
  destruct s1; cbn; auto. destruct s2; cbn; auto. rewrite app_assoc. reflexivity.
Qed.

Lemma load_entries_app : forall ld fs cp a b,
  load_entries ld fs cp (a ++ b) = then_ (load_entries ld fs cp a) (load_entries ld fs cp b).
Proof.
  induction a as [|e a IH]; intro b.
  - cbn. destruct (load_entries ld fs cp b). reflexivity.
  - cbn [app load_entries]. destruct e as [w|id].
    + destruct (include_targets fs cp w); [reflexivity|]. rewrite IH. rewrite then_assoc. reflexivity.
    + rewrite IH. rewrite then_assoc. reflexivity.
Qed.

(* ---------- which files an include stands for ---------- *)

Lemma glob_keys_in : forall fs ts k,
  In k (glob_keys fs ts) <-> In k (map fst fs) /\ gmatch true ts (path_string k).
Proof.
  intros. unfold glob_keys. rewrite filter_In. rewrite matches_with_iff. reflexivity.
Qed.

Lemma glob_keys_nodup : forall fs ts, wf_fs fs -> NoDup (glob_keys fs ts).
Proof. intros. unfold glob_keys. apply NoDup_filter. exact H. Qed.

Lemma targets_sound : forall fs cp w ps,
  wf_fs fs -> include_targets fs cp w = inr ps -> include_set fs cp w ps.
Proof.
  intros fs cp w ps W H. unfold include_targets in H.
  destruct (parent cp) as [dir|] eqn:Ep; [|discriminate].
  destruct (parse_pattern (path_string (canonicalize (join dir w)))) as [ts| |] eqn:Et; [|discriminate|discriminate].
  assert (T : target_tokens cp w = Some ts) by (unfold target_tokens; rewrite Ep, Et; reflexivity).
  remember (sort_paths (glob_keys fs ts)) as qs eqn:Eq.
  assert (ps = qs /\ qs <> []) as [E Ne].
  { destruct qs; [discriminate|]. injection H as H. split; [auto|discriminate]. }
  subst ps. clear H. split; [exact Ne|]. split.
  - subst qs. apply sort_sorted. apply glob_keys_nodup. exact W.
  - intro k. subst qs. rewrite sort_in. rewrite glob_keys_in. unfold matching. split.
    + intros [H1 H2]. exists ts. repeat split; assumption.
    + intros [ts' [H0 [H1 H2]]]. rewrite T in H0. injection H0 as H0. subst ts'. split; assumption.
Qed.

Lemma targets_complete : forall fs cp w ps,
  wf_fs fs -> include_set fs cp w ps -> include_targets fs cp w = inr ps.
Proof.
  intros fs cp w ps W [Ne [Hs He]].
  destruct ps as [|k0 ps0]; [contradiction|].
  destruct (proj1 (He k0) (or_introl eq_refl)) as [ts [T _]].
  assert (E : sort_paths (glob_keys fs ts) = k0 :: ps0).
  { apply sorted_unique.
    - apply sort_sorted. apply glob_keys_nodup. exact W.
    - exact Hs.
    - intro k. rewrite sort_in, glob_keys_in. rewrite He. unfold matching. split.
      + intros [H1 H2]. exists ts. repeat split; assumption.
      + intros [ts' [H0 [H1 H2]]]. rewrite T in H0. injection H0 as H0. subst ts'. split; assumption. }
  unfold include_targets. unfold target_tokens in T.
  destruct (parent cp) as [dir|]; [|discriminate].
  destruct (parse_pattern (path_string (canonicalize (join dir w)))) as [ts0| |]; try discriminate.
  injection T as T. subst ts0.
  rewrite E. reflexivity.
Qed.

Lemma filter_none : forall (A : Type) (f : A -> bool) l, (forall x, In x l -> f x = false) -> filter f l = [].
Proof.
  induction l as [|x l IH]; intro H; [reflexivity|]. cbn. rewrite (H x (or_introl eq_refl)).
  apply IH. intros y Hy. apply H. right. exact Hy.
Qed.

Lemma targets_empty : forall fs cp w ts,
  target_tokens cp w = Some ts ->
  (forall k, In k (map fst fs) -> ~ gmatch true ts (path_string k)) ->
  include_targets fs cp w = inl IONotFound.
Proof.
  intros fs cp w ts T H. unfold include_targets. unfold target_tokens in T.
  destruct (parent cp) as [dir|]; [|discriminate].
  destruct (parse_pattern (path_string (canonicalize (join dir w)))) as [ts0| |]; try discriminate.
  injection T as T. subst ts0.
  unfold glob_keys. rewrite filter_none; [reflexivity|].
  intros k Hk. destruct (matches_with ts (path_string k)) eqn:E; [|reflexivity].
  apply matches_with_iff in E. exfalso. exact (H k Hk E).
Qed.

(* ---------- soundness: what load delivers is an expansion ---------- *)

Section Sound.
  Variable fs : fsys.
  Hypothesis W : wf_fs fs.
  Variable ld : path -> run.
  Hypothesis LD : forall p out, ld p = (out, Done) -> expands fs p out.

  Lemma load_all_sound : forall ps out, load_all ld ps = (out, Done) -> expands_list fs ps out.
  Proof.
    induction ps as [|p ps IH]; intros out H.
    - cbn in H. injection H as H. subst. constructor.
    - cbn [load_all fold_right] in H. apply then_done_inv in H.
      destruct H as [o1 [o2 [H1 [H2 H3]]]]. subst out. constructor; [apply LD; exact H1|apply IH; exact H2].
  Qed.

  Lemma load_entries_sound : forall cp es out,
    load_entries ld fs cp es = (out, Done) -> expands_entries fs cp es out.
  Proof.
    induction es as [|e es IH]; intros out H.
    - cbn in H. injection H as H. subst. constructor.
    - destruct e as [w|id]; cbn [load_entries] in H.
      + destruct (include_targets fs cp w) as [err|ps] eqn:T; [discriminate|].
        apply then_done_inv in H. destruct H as [o1 [o2 [H1 [H2 H3]]]]. subst out.
        econstructor; [apply targets_sound; eauto|apply load_all_sound; exact H1|apply IH; exact H2].
      + apply then_done_inv in H. destruct H as [o1 [o2 [H1 [H2 H3]]]]. subst out.
        injection H1 as H1. subst o1. cbn. constructor. apply IH. exact H2.
  Qed.
End Sound.

Theorem load_sound : forall fs, wf_fs fs ->
  forall fuel p out, load fuel fs p = (out, Done) -> expands fs p out.
Proof.
  intros fs W. induction fuel as [|f IH]; intros p out H; [discriminate|].
  cbn [load] in H. destruct (lookup (canonicalize p) fs) as [content|] eqn:L; [|discriminate].
  econstructor; [apply lookup_in; exact L|].
  eapply load_entries_sound; eauto.
Qed.

(* ---------- completeness: every expansion is delivered, given enough fuel ---------- *)

Theorem load_complete_mut : forall fs, wf_fs fs ->
  (forall p out, expands fs p out ->
     exists n, forall f, (n <= f)%nat -> load f fs p = (out, Done)) /\
  (forall cp es out, expands_entries fs cp es out ->
     exists n, forall f, (n <= f)%nat -> load_entries (load f fs) fs cp es = (out, Done)) /\
  (forall ps out, expands_list fs ps out ->
     exists n, forall f, (n <= f)%nat -> load_all (load f fs) ps = (out, Done)).
Proof.
  intros fs W. apply expands_mutind.
  - (* Ex_file *)
    intros p content out Hin _ [n IH]. exists (S n). intros f Hf.
    destruct f as [|f']; [lia|]. cbn [load]. rewrite (in_lookup _ _ _ W Hin). apply IH. lia.
  - intros cp. exists O. intros. reflexivity.
  - intros cp id r out _ [n IH]. exists n. intros f Hf. cbn [load_entries]. rewrite (IH f Hf). reflexivity.
  - intros cp w r ps o1 o2 Hset _ [n1 IH1] _ [n2 IH2]. exists (Nat.max n1 n2). intros f Hf.
    cbn [load_entries]. rewrite (targets_complete _ _ _ _ W Hset).
    rewrite (IH1 f) by lia. rewrite (IH2 f) by lia. reflexivity.
  - exists O. intros. reflexivity.
  - intros p ps o1 o2 _ [n1 IH1] _ [n2 IH2]. exists (Nat.max n1 n2). intros f Hf.
    cbn [load_all fold_right]. fold (load_all (load f fs) ps).
    rewrite (IH1 f) by lia. rewrite (IH2 f) by lia. reflexivity.
Qed.

Theorem load_complete : forall fs, wf_fs fs ->
  forall p out, expands fs p out -> exists n, forall f, (n <= f)%nat -> load f fs p = (out, Done).
Proof. intros fs W. exact (proj1 (load_complete_mut fs W)). Qed.

(* load with enough fuel = expands *)
Theorem load_iff_expands : forall fs, wf_fs fs ->
  forall p out, (exists fuel, load fuel fs p = (out, Done)) <-> expands fs p out.
Proof.
  intros fs W p out. split.
  - intros [fuel H]. eapply load_sound; eauto.
  - intro H. destruct (load_complete fs W p out H) as [n Hn]. exists n. apply Hn. lia.
Qed.

(* the expansion is unique: loading is deterministic in the file system *)
Theorem expands_deterministic : forall fs, wf_fs fs ->
  forall p o1 o2, expands fs p o1 -> expands fs p o2 -> o1 = o2.
Proof.
  intros fs W p o1 o2 H1 H2.
  destruct (load_complete fs W p o1 H1) as [n1 L1]. destruct (load_complete fs W p o2 H2) as [n2 L2].
  pose proof (L1 (Nat.max n1 n2) ltac:(lia)) as E1. pose proof (L2 (Nat.max n1 n2) ltac:(lia)) as E2.
  congruence.
Qed.

(* ---------- the include line itself is never delivered ---------- *)

(* every delivered (path, id) is a non-include entry `Ent id` of the file at `path`; the trace has
   no room for an include, and nothing is attributed to a file that does not hold it *)
Definition delivered_ok (fs : fsys) (x : path * N) : Prop :=
  exists content, lookup (fst x) fs = Some content /\ In (Ent (snd x)) content.

Lemma load_all_delivered : forall fs (ld : path -> run) ps x,
  (forall p y, In y (fst (ld p)) -> delivered_ok fs y) ->
  In x (fst (load_all ld ps)) -> delivered_ok fs x.
Proof.
  induction ps as [|p ps IH]; intros x LD H; [destruct H|].
  cbn [load_all fold_right] in H. apply then_in in H. destruct H as [H|H]; [eapply LD; eauto|apply IH; auto].
Qed.

Lemma load_entries_delivered : forall fs (ld : path -> run) cp content es x,
  (forall p y, In y (fst (ld p)) -> delivered_ok fs y) ->
  lookup cp fs = Some content -> incl es content ->
  In x (fst (load_entries ld fs cp es)) -> delivered_ok fs x.
Proof.
  induction es as [|e es IH]; intros x LD L I H; [destruct H|].
  assert (I' : incl es content) by (intros y Hy; apply I; right; exact Hy).
  destruct e as [w|id]; cbn [load_entries] in H.
  - destruct (include_targets fs cp w); [destruct H|]. apply then_in in H. destruct H as [H|H].
    + eapply load_all_delivered; eauto.
    + apply IH; auto.
  - apply then_in in H. destruct H as [H|H].
    + destruct H as [H|[]]. subst x. exists content. split; [exact L|]. apply I. left. reflexivity.
    + apply IH; auto.
Qed.

Theorem include_never_delivered : forall fs fuel p x,
  In x (fst (load fuel fs p)) -> delivered_ok fs x.
Proof.
  intros fs. induction fuel as [|f IH]; intros p x H; [destruct H|].
  cbn [load] in H. destruct (lookup (canonicalize p) fs) as [content|] eqn:L; [|destruct H].
  eapply load_entries_delivered; eauto. apply incl_refl.
Qed.

(* the delivered ids, in order, are the Ent ids of the files in expansion order: an include
   contributes exactly what its files deliver and nothing of its own *)
Lemma expands_entries_no_inc_ids : forall fs cp es out,
  expands_entries fs cp es out -> (forall w, ~ In (Inc w) es) ->
  out = map (fun e => match e with Ent id => (cp, id) | Inc _ => (cp, 0) end) es.
Proof.
  intros fs cp es out H. induction H; intro N.
  - reflexivity.
  - cbn. f_equal. apply IHexpands_entries. intros w Hw. apply (N w). right. exact Hw.
  - exfalso. apply (N w). left. reflexivity.
Qed.

(* ---------- sorted visit ---------- *)

Theorem sorted_visit : forall fs cp w ps,
  wf_fs fs -> include_targets fs cp w = inr ps ->
  StronglySorted path_lt ps /\ (forall k, In k ps <-> matching fs cp w k) /\
  forall ld r, load_entries ld fs cp (Inc w :: r) = then_ (load_all ld ps) (load_entries ld fs cp r).
Proof.
  intros fs cp w ps W H. destruct (targets_sound _ _ _ _ W H) as [_ [S E]].
  split; [exact S|]. split; [exact E|]. intros ld r. cbn [load_entries]. rewrite H. reflexivity.
Qed.

(* the files of an include are loaded one after the other in that order *)
Lemma load_all_app_trace : forall (ld : path -> run) ps outs,
  Forall2 (fun p o => ld p = (o, Done)) ps outs -> load_all ld ps = (concat outs, Done).
Proof.
  intros ld ps outs H. induction H; [reflexivity|].
  cbn [load_all fold_right concat]. fold (load_all ld l). rewrite H, IHForall2. reflexivity.
Qed.

(* ---------- an include that matches nothing ---------- *)

Theorem empty_glob_is_error : forall fs cp w ts,
  target_tokens cp w = Some ts ->
  (forall k, In k (map fst fs) -> ~ gmatch true ts (path_string k)) ->
  forall ld pre post,
    (forall ps, include_targets fs cp w <> inr ps) /\
    load_entries ld fs cp (Inc w :: post) = ([], Failed IONotFound) /\
    snd (load_entries ld fs cp (pre ++ Inc w :: post)) <> Done /\
    (forall t, load_entries ld fs cp pre = (t, Done) ->
       load_entries ld fs cp (pre ++ Inc w :: post) = (t, Failed IONotFound)).
Proof.
  intros fs cp w ts T H ld pre post.
  pose proof (targets_empty fs cp w ts T H) as E.
  assert (L : load_entries ld fs cp (Inc w :: post) = ([], Failed IONotFound)).
  { cbn [load_entries]. rewrite E. reflexivity. }
  split; [intros ps C; congruence|]. split; [exact L|]. split.
  - rewrite load_entries_app. apply then_not_done_r. rewrite L. discriminate.
  - intros t Ht. rewrite load_entries_app, Ht, L. cbn. rewrite app_nil_r. reflexivity.
Qed.

Corollary empty_glob_no_expansion : forall fs cp w ts pre post out,
  wf_fs fs -> target_tokens cp w = Some ts ->
  (forall k, In k (map fst fs) -> ~ gmatch true ts (path_string k)) ->
  ~ expands_entries fs cp (pre ++ Inc w :: post) out.
Proof.
  intros fs cp w ts pre post out W T H X.
  destruct (proj1 (proj2 (load_complete_mut fs W)) _ _ _ X) as [n Hn].
  destruct (empty_glob_is_error fs cp w ts T H (load n fs) pre post) as [_ [_ [ND _]]].
  rewrite (Hn n (le_n n)) in ND. apply ND. reflexivity.
Qed.

(* ---------- an include whose pattern is invalid (a `[` that is never closed) ---------- *)

Theorem invalid_glob_is_error : forall fs cp dir w,
  parent cp = Some dir ->
  parse_pattern (path_string (canonicalize (join dir w))) = PatternError ->
  forall ld pre post,
    include_targets fs cp w = inl InvalidIncludeGlob /\
    load_entries ld fs cp (Inc w :: post) = ([], Failed InvalidIncludeGlob) /\
    snd (load_entries ld fs cp (pre ++ Inc w :: post)) <> Done /\
    (forall t, load_entries ld fs cp pre = (t, Done) ->
       load_entries ld fs cp (pre ++ Inc w :: post) = (t, Failed InvalidIncludeGlob)).
Proof.
  intros fs cp dir w Ep E ld pre post.
  assert (T : include_targets fs cp w = inl InvalidIncludeGlob).
  { unfold include_targets. rewrite Ep, E. reflexivity. }
  assert (L : load_entries ld fs cp (Inc w :: post) = ([], Failed InvalidIncludeGlob)).
  { cbn [load_entries]. rewrite T. reflexivity. }
  split; [exact T|]. split; [exact L|]. split.
  - rewrite load_entries_app. apply then_not_done_r. rewrite L. discriminate.
  - intros t Ht. rewrite load_entries_app, Ht, L. cbn. rewrite app_nil_r. reflexivity.
Qed.

(* such an include stands for nothing: no expansion *)
Corollary invalid_glob_no_expansion : forall fs cp dir w pre post out,
  wf_fs fs -> parent cp = Some dir ->
  parse_pattern (path_string (canonicalize (join dir w))) = PatternError ->
  ~ expands_entries fs cp (pre ++ Inc w :: post) out.
Proof.
  intros fs cp dir w pre post out W Ep E X.
  destruct (proj1 (proj2 (load_complete_mut fs W)) _ _ _ X) as [n Hn].
  destruct (invalid_glob_is_error fs cp dir w Ep E (load n fs) pre post) as [_ [_ [ND _]]].
  rewrite (Hn n (le_n n)) in ND. apply ND. reflexivity.
Qed.

(* ---------- cutting a ledger ---------- *)

Lemma cut_expands_mut : forall fs,
  (forall p L, cut_of fs p L -> exists out, expands fs p out /\ map snd out = L) /\
  (forall cp es L, cut_entries fs cp es L -> exists out, expands_entries fs cp es out /\ map snd out = L) /\
  (forall ps L, cut_list fs ps L -> exists out, expands_list fs ps out /\ map snd out = L).
Proof.
  intro fs. apply cut_mutind.
  - intros p content L Hin _ [out [E M]]. exists out. split; [econstructor; eauto|exact M].
  - intro cp. exists []. split; [constructor|reflexivity].
  - intros cp id r L _ [out [E M]]. exists ((cp, id) :: out). split; [constructor; exact E|cbn; rewrite M; reflexivity].
  - intros cp w r ps L1 L2 Hset _ [o1 [E1 M1]] _ [o2 [E2 M2]]. exists (o1 ++ o2). split.
    + econstructor; eauto.
    + rewrite map_app, M1, M2. reflexivity.
  - exists []. split; [constructor|reflexivity].
  - intros p ps L1 L2 _ [o1 [E1 M1]] _ [o2 [E2 M2]]. exists (o1 ++ o2). split.
    + constructor; auto.
    + rewrite map_app, M1, M2. reflexivity.
Qed.

Lemma expands_cut_mut : forall fs,
  (forall p out, expands fs p out -> cut_of fs p (map snd out)) /\
  (forall cp es out, expands_entries fs cp es out -> cut_entries fs cp es (map snd out)) /\
  (forall ps out, expands_list fs ps out -> cut_list fs ps (map snd out)).
Proof.
  intro fs. apply expands_mutind.
  - intros p content out Hin _ IH. econstructor; eauto.
  - intro cp. constructor.
  - intros cp id r out _ IH. cbn. constructor. exact IH.
  - intros cp w r ps o1 o2 Hset _ IH1 _ IH2. rewrite map_app. econstructor; eauto.
  - constructor.
  - intros p ps o1 o2 _ IH1 _ IH2. rewrite map_app. constructor; auto.
Qed.

(* loading the root of any cut of L delivers exactly L, in order *)
Theorem split_invariant : forall fs root L,
  wf_fs fs -> cut_of fs root L ->
  exists n, forall f, (n <= f)%nat ->
    exists out, load f fs root = (out, Done) /\ map snd out = L.
Proof.
  intros fs root L W C. destruct (proj1 (cut_expands_mut fs) _ _ C) as [out [E M]].
  destruct (load_complete fs W _ _ E) as [n Hn]. exists n. intros f Hf. exists out. split; [apply Hn; exact Hf|exact M].
Qed.

(* and only cuts of L load to L: a successful load is a cut of what it delivers *)
Theorem loaded_is_cut : forall fs root fuel out,
  wf_fs fs -> load fuel fs root = (out, Done) -> cut_of fs root (map snd out).
Proof. intros fs root fuel out W H. apply (proj1 (expands_cut_mut fs)). eapply load_sound; eauto. Qed.

(* the uncut ledger is the trivial cut *)
Lemma cut_entries_flat : forall fs cp L, cut_entries fs cp (map Ent L) L.
Proof. induction L; cbn; constructor. exact IHL. Qed.

Theorem uncut_is_cut : forall fs root L,
  In (canonicalize root, map Ent L) fs -> cut_of fs root L.
Proof. intros. econstructor; [exact H|apply cut_entries_flat]. Qed.
