(* Lowering (Model/Lower.v) does not look at the number-format flag: entries with the same
   meaning (Model/RoundTripSpec.v same_meaning, what a print - parse round trip preserves) are
   lowered to the same named entries with the same name tables. *)
From Coq Require Import List NArith ZArith Bool QArith Qcanon.
From Okv Require Import Base.Maps Base.Dec Model.Lit Model.Syntax Model.Amount Model.Book Model.Named
     Model.Lower Model.RoundTripSpec Proofs.RoundTripSame.
Import ListNotations.

Lemma low_dec_same : forall d d', same_num d d' -> low_dec d' = low_dec d.
Proof. intros d d' (M & S & Ng & _). unfold low_dec. rewrite M, S, Ng. reflexivity. Qed.

Lemma low_ve_same :
  (forall v v', same_v v v' -> forall tc, low_v tc v' = low_v tc v) /\
  (forall e e', same_e e e' -> forall tc, low_e tc e' = low_e tc e).
Proof.
  apply s_vexpr_expr_mind.
  - intros e IH v' H tc. destruct v' as [e'|a']; simpl in H; [|contradiction].
    cbn [low_v]. rewrite (IH e' H tc). reflexivity.
  - intros a v' H tc. destruct v' as [e'|a']; simpl in H; [contradiction|].
    destruct H as [Hn Hc]. cbn [low_v]. rewrite Hc, (low_dec_same _ _ Hn). reflexivity.
  - intros e IH e' H tc. destruct e' as [e1|op' l' r'|v']; simpl in H; try contradiction.
    cbn [low_e]. rewrite (IH e1 H tc). reflexivity.
  - intros op l IHl r IHr e' H tc. destruct e' as [e1|op' l' r'|v']; simpl in H; try contradiction.
    destruct H as (Hop & Hl & Hr). subst op'. cbn [low_e]. rewrite (IHl l' Hl tc).
    destruct (low_e tc l) as [t1 l1]. rewrite (IHr r' Hr t1). reflexivity.
  - intros v IH e' H tc. destruct e' as [e1|op' l' r'|v']; simpl in H; try contradiction.
    cbn [low_e]. rewrite (IH v' H tc). reflexivity.
Qed.

Lemma low_v_same : forall v v', same_v v v' -> forall tc, low_v tc v' = low_v tc v.
Proof. exact (proj1 low_ve_same). Qed.

Lemma low_ov_same : forall o o', same_opt same_v o o' -> forall tc, low_ov tc o' = low_ov tc o.
Proof.
  intros [v|] [v'|] H tc; simpl in H; try contradiction; [|reflexivity].
  cbn [low_ov]. rewrite (low_v_same v v' H tc). reflexivity.
Qed.

Lemma low_ox_same : forall o o', same_opt same_exchange o o' -> forall tc, low_ox tc o' = low_ox tc o.
Proof.
  intros [[v|v]|] [[v'|v']|] H tc; simpl in H; try contradiction; try reflexivity;
    cbn [low_ox]; rewrite (low_v_same v v' H tc); reflexivity.
Qed.

Lemma low_posting_same : forall p p', same_posting p p' ->
  forall ta tc, low_posting ta tc p' = low_posting ta tc p.
Proof.
  intros p p' (Ha & _ & Hm & Hb & _) ta tc. unfold low_posting. rewrite Ha.
  assert (A : same_opt same_v (option_map pa_amount (sp_amount p)) (option_map pa_amount (sp_amount p'))).
  { destruct (sp_amount p) as [x|], (sp_amount p') as [x'|]; simpl in Hm |- *; try contradiction; [|exact I].
    exact (proj1 Hm). }
  assert (C : same_opt same_exchange (match sp_amount p with Some pa => pa_cost pa | None => None end)
                                     (match sp_amount p' with Some pa => pa_cost pa | None => None end)).
  { destruct (sp_amount p) as [x|], (sp_amount p') as [x'|]; simpl in Hm |- *; try contradiction; [|exact I].
    exact (proj1 (proj2 Hm)). }
  assert (Lt : same_opt same_exchange
                 (match sp_amount p with Some pa => lot_price (pa_lot pa) | None => None end)
                 (match sp_amount p' with Some pa => lot_price (pa_lot pa) | None => None end)).
  { destruct (sp_amount p) as [x|], (sp_amount p') as [x'|]; simpl in Hm |- *; try contradiction; [|exact I].
    exact (proj1 (proj2 (proj2 Hm))). }
  destruct (intern ta (sp_account p)) as [ta' a].
  rewrite (low_ov_same _ _ A tc). destruct (low_ov tc (option_map pa_amount (sp_amount p))) as [t1 amt].
  rewrite (low_ox_same _ _ C t1). destruct (low_ox t1 _) as [t2 cost].
  rewrite (low_ox_same _ _ Lt t2). destruct (low_ox t2 _) as [t3 lot].
  rewrite (low_ov_same _ _ Hb t3). reflexivity.
Qed.

Lemma low_posts_same : forall ps ps', Forall2 same_posting ps ps' ->
  forall ta tc, low_posts ta tc ps' = low_posts ta tc ps.
Proof.
  intros ps ps' H. induction H as [|p p' ps ps' Hp _ IH]; intros ta tc; [reflexivity|].
  cbn [low_posts]. rewrite (low_posting_same p p' Hp ta tc).
  destruct (low_posting ta tc p) as [[ta1 tc1] q]. rewrite (IH ta1 tc1). reflexivity.
Qed.

Lemma commodity_aliases_same : forall ds ds', Forall2 same_commodity_detail ds ds' ->
  commodity_aliases ds' = commodity_aliases ds.
Proof.
  intros ds ds' H. induction H as [|d d' ds ds' Hd _ IH]; [reflexivity|].
  unfold commodity_aliases in *. cbn [flat_map]. rewrite IH. f_equal.
  destruct d, d'; simpl in Hd; try discriminate; try (inversion Hd; reflexivity); reflexivity.
Qed.

Lemma commodity_format_same : forall ds ds', Forall2 same_commodity_detail ds ds' ->
  commodity_format ds' = commodity_format ds.
Proof.
  intros ds ds' H. unfold commodity_format. generalize (@None nat).
  induction H as [|d d' ds ds' Hd _ IH]; intro acc; [reflexivity|].
  cbn [fold_left].
  assert (E : match d' with CDFormat a => Some (scale (sa_value a)) | _ => acc end =
              match d with CDFormat a => Some (scale (sa_value a)) | _ => acc end).
  { destruct d, d'; simpl in Hd; try discriminate; try reflexivity.
    destruct Hd as [(_ & S & _) _]. rewrite S. reflexivity. }
  rewrite E. apply IH.
Qed.

Lemma low_entry_same : forall e e', same_entry e e' -> forall ta tc, low_entry ta tc e' = low_entry ta tc e.
Proof.
  intros e e' H ta tc. destruct e as [t|s|k v| |w|n d|n d]; simpl in H;
    try (subst e'; reflexivity).
  - destruct e' as [t'|s|k v| |w|n d|n d]; try contradiction.
    destruct H as (Hd & _ & _ & _ & _ & Hp & _). cbn [low_entry]. rewrite Hd.
    rewrite (low_posts_same _ _ Hp ta tc). reflexivity.
  - destruct e' as [t'|s|k v| |w|n' d'|n' d']; try contradiction.
    destruct H as [-> Hd]. cbn [low_entry].
    rewrite (commodity_aliases_same _ _ Hd), (commodity_format_same _ _ Hd). reflexivity.
Qed.

Theorem low_entries_same : forall es es', same_meaning es es' ->
  forall ta tc, low_entries ta tc es' = low_entries ta tc es.
Proof.
  intros es es' H. induction H as [|e e' es es' He _ IH]; intros ta tc; [reflexivity|].
  cbn [low_entries]. rewrite (low_entry_same e e' He ta tc).
  destruct (low_entry ta tc e) as [[ta1 tc1] x]. rewrite (IH ta1 tc1). reflexivity.
Qed.

(* includes are the same on both sides *)
Lemma same_entry_include : forall e e', same_entry e e' ->
  forall w, e = SInclude w <-> e' = SInclude w.
Proof.
  intros e e' H w. destruct e as [t|s|k v| |w0|n d|n d]; simpl in H;
    try (subst e'; reflexivity).
  - destruct e'; try contradiction. split; discriminate.
  - destruct e'; try contradiction. split; discriminate.
Qed.
