(* Book-keeping over "simple" postings (a literal amount in one commodity, no cost, no lot, an
   optional balance assertion in the same commodity): what add_transaction does to one tracked
   account.  Maps / Amount facts first. *)
From Coq Require Import List NArith ZArith Bool QArith Qcanon Lia.
From Okv Require Import Base.Maps Base.Dec Model.Amount Model.Book.
Import ListNotations.
Open Scope Qc_scope.

(* ---- maps ---- *)
Lemma get_set_same : forall {V} k (v : V) m, get k (set k v m) = Some v.
Proof.
  intros V k v m. induction m as [|[k' v'] r IH]; simpl.
  - rewrite N.eqb_refl. reflexivity.
  - destruct (k' =? k)%N eqn:E; simpl.
    + rewrite N.eqb_refl. reflexivity.
    + rewrite E. exact IH.
Qed.

Lemma get_set_other : forall {V} k k' (v : V) m, k <> k' -> get k' (set k v m) = get k' m.
Proof.
  intros V k k' v m N. induction m as [|[k0 v0] r IH]; simpl.
  - destruct (k =? k')%N eqn:E; [apply N.eqb_eq in E; contradiction|reflexivity].
  - destruct (k0 =? k)%N eqn:E; simpl.
    + apply N.eqb_eq in E. subst k0.
      destruct (k =? k')%N eqn:E2; [apply N.eqb_eq in E2; contradiction|reflexivity].
    + destruct (k0 =? k')%N; auto.
Qed.

Lemma bal_get_set_same : forall b a x, bal_get (set a x b) a = x.
Proof. intros. unfold bal_get. rewrite get_set_same. reflexivity. Qed.

Lemma bal_get_set_other : forall b a a' x, a <> a' -> bal_get (set a x b) a' = bal_get b a'.
Proof. intros. unfold bal_get. rewrite get_set_other by auto. reflexivity. Qed.

(* ---- zero test ---- *)
Lemma qc_zero_true : forall x, qc_zero x = true -> x = 0.
Proof. intros x H. apply Qc_eq_bool_correct. exact H. Qed.

Lemma Qc_eq_bool_refl : forall x, Qc_eq_bool x x = true.
Proof. intros x. unfold Qc_eq_bool. destruct (Qc_eq_dec x x); congruence. Qed.

Lemma qc_zero_0 : qc_zero 0 = true.
Proof. apply Qc_eq_bool_refl. Qed.

Lemma qc_zero_false : forall x, x <> 0 -> qc_zero x = false.
Proof.
  intros x H. destruct (qc_zero x) eqn:E; [|reflexivity].
  apply qc_zero_true in E. contradiction.
Qed.

(* ---- the one-commodity amount with zero removed ---- *)
Definition rz (c : cid) (v : Qc) : amount := a_remove_zeros [(c, v)].

Lemma rz_zero : forall c, rz c 0 = [].
Proof. intros c. unfold rz. cbn [a_remove_zeros filter snd]. rewrite qc_zero_0. reflexivity. Qed.

Lemma rz_nonzero : forall c v, v <> 0 -> rz c v = [(c, v)].
Proof. intros c v H. unfold rz. cbn [a_remove_zeros filter snd]. rewrite qc_zero_false by auto. reflexivity. Qed.

Lemma rz_add : forall c v x, a_remove_zeros (a_add1 (rz c v) c x) = rz c (v + x).
Proof.
  intros c v x. destruct (Qc_eq_dec v 0) as [Z|NZ].
  - subst v. rewrite rz_zero. unfold a_add1. cbn [get app].
    replace (0 + x) with x by ring. reflexivity.
  - rewrite rz_nonzero by auto. unfold a_add1. cbn [get]. rewrite N.eqb_refl.
    cbn [set]. rewrite N.eqb_refl. reflexivity.
Qed.

Lemma a_get_rz : forall c v, a_get (rz c v) c = v.
Proof.
  intros c v. destruct (Qc_eq_dec v 0) as [Z|NZ].
  - subst v. rewrite rz_zero. reflexivity.
  - rewrite rz_nonzero by auto. unfold a_get. cbn [get]. rewrite N.eqb_refl. reflexivity.
Qed.

Lemma last_cons : forall {X} (l : list X) x d, last (x :: l) d = last l x.
Proof.
  intros X l. induction l as [|y l IH]; intros x d; [reflexivity|].
  change (last (x :: y :: l) d) with (last (y :: l) d). rewrite !IH. reflexivity.
Qed.

(* ---- simple postings ---- *)
Definition simple (a : aid) (c : cid) (q : Qc) (w : option Qc) : Book.posting :=
  {| p_account := a; p_amount := Some (VAmt q (Some c)); p_cost := None; p_lot := None;
     p_balance := option_map (fun w => VAmt w (Some c)) w |}.

Lemma eval_pa_single : forall q c, eval_pa (VAmt q (Some c)) = Ok (PSingle c q).
Proof. reflexivity. Qed.

Lemma process_posting_simple : forall b date i a c q w,
  let cur := a_remove_zeros (a_add1 (bal_get b a) c q) in
  match w with None => True | Some w => a_get cur c = w end ->
  process_posting b date i (simple a c q w) =
  Ok (set a cur b, Some {| ep_amount := PSingle c q; ep_converted := None; ep_delta := PSingle c q |}, None).
Proof.
  intros b date i a c q w cur H. unfold process_posting, simple.
  cbn [p_amount p_balance p_cost p_lot p_account]. rewrite eval_pa_single.
  cbn [bind]. unfold bal_add_pa. cbn [a_add_pa]. fold cur.
  destruct w as [w|]; cbn [option_map].
  - rewrite eval_pa_single. cbn [bind]. unfold assert_balance. rewrite H.
    replace (w - w) with 0 by ring. rewrite qc_zero_0. cbn [a_is_absolute_zero bind].
    reflexivity.
  - reflexivity.
Qed.

Lemma loop_step_simple : forall date st i a c q w,
  let cur := a_remove_zeros (a_add1 (bal_get (l_bal st) a) c q) in
  match w with None => True | Some w => a_get cur c = w end ->
  exists st', loop_step date (Ok st) (i, simple a c q w) = Ok st' /\
              l_bal st' = set a cur (l_bal st) /\ l_unfilled st' = l_unfilled st /\
              l_residual st' = a_add1 (l_residual st) c q.
Proof.
  intros date st i a c q w cur H. unfold loop_step. cbn [bind].
  rewrite process_posting_simple by exact H. cbn [bind].
  eexists. split; [reflexivity|]. cbn. repeat split.
Qed.

(* ---- a transaction of simple postings in commodity C, seen from account A ---- *)
Section Track.
  Variable A : aid.
  Variable C : cid.

  (* posts_ok v ps v' s: the postings move A from v to v', every assertion on A is met,
     no other account carries an assertion, and the amounts sum to s *)
  Inductive posts_ok : Qc -> list Book.posting -> Qc -> Qc -> Prop :=
  | po_nil : forall v, posts_ok v [] v 0
  | po_other : forall v B q r v' s,
      B <> A -> posts_ok v r v' s -> posts_ok v (simple B C q None :: r) v' (q + s)
  | po_mine : forall v q w r v' s,
      (w = None \/ w = Some (v + q)) -> posts_ok (v + q) r v' s ->
      posts_ok v (simple A C q w :: r) v' (q + s).

  Lemma posts_ok_app : forall v ps v' s qs v'' s',
    posts_ok v ps v' s -> posts_ok v' qs v'' s' -> posts_ok v (ps ++ qs) v'' (s + s').
  Proof.
    intros v ps v' s qs v'' s' H. induction H; intros K; cbn [app].
    - replace (0 + s') with s' by ring. exact K.
    - replace (q + s + s') with (q + (s + s')) by ring. apply po_other; auto.
    - replace (q + s + s') with (q + (s + s')) by ring. apply po_mine; auto.
  Qed.

  Definition res_ok (r : amount) (x : Qc) : Prop := (r = [] /\ x = 0) \/ r = [(C, x)].

  Lemma res_ok_add : forall r x q, res_ok r x -> res_ok (a_add1 r C q) (x + q).
  Proof.
    intros r x q [[R X]|R]; subst; right; unfold a_add1; cbn [get].
    - cbn [app]. replace (0 + q) with q by ring. reflexivity.
    - rewrite N.eqb_refl. cbn [set]. rewrite N.eqb_refl. reflexivity.
  Qed.

  Lemma fold_posts_ok : forall date v ps v' s,
    posts_ok v ps v' s ->
    forall st i x,
      bal_get (l_bal st) A = rz C v -> l_unfilled st = None -> res_ok (l_residual st) x ->
      exists st', fold_left (loop_step date) (enumerate i ps) (Ok st) = Ok st' /\
                  bal_get (l_bal st') A = rz C v' /\ l_unfilled st' = None /\
                  res_ok (l_residual st') (x + s).
  Proof.
    intros date v ps v' s H. induction H; intros st i x HB HU HR.
    - exists st. cbn. replace (x + 0) with x by ring. auto.
    - destruct (loop_step_simple date st i B C q None I) as (st1 & E & B1 & U1 & R1).
      cbn [enumerate fold_left]. rewrite E.
      destruct (IHposts_ok st1 (S i) (x + q)) as (st' & E' & B' & U' & R').
      + rewrite B1, bal_get_set_other by auto. exact HB.
      + congruence.
      + rewrite R1. apply res_ok_add. exact HR.
      + exists st'. replace (x + (q + s)) with (x + q + s) by ring. auto.
    - assert (HW : match w with None => True
                   | Some w => a_get (a_remove_zeros (a_add1 (bal_get (l_bal st) A) C q)) C = w end).
      { destruct H as [W|W]; subst w; [exact I|]. rewrite HB, rz_add, a_get_rz. reflexivity. }
      destruct (loop_step_simple date st i A C q w HW) as (st1 & E & B1 & U1 & R1).
      cbn [enumerate fold_left]. rewrite E.
      destruct (IHposts_ok st1 (S i) (x + q)) as (st' & E' & B' & U' & R').
      + rewrite B1, bal_get_set_same, HB, rz_add. reflexivity.
      + congruence.
      + rewrite R1. apply res_ok_add. exact HR.
      + exists st'. replace (x + (q + s)) with (x + q + s) by ring. auto.
  Qed.

  Lemma check_balance_zero : forall date posts r,
    res_ok r 0 -> check_balance [] date posts r = Ok (posts, None).
  Proof.
    intros date posts r [[R _]|R]; subst r; unfold check_balance.
    - reflexivity.
    - cbn [a_round map fst snd get a_is_zero forallb]. rewrite qc_zero_0. reflexivity.
  Qed.

  (* a balanced transaction of simple postings is accepted *)
  Lemma add_transaction_simple : forall s t v v',
    s_fmt s = [] -> bal_get (s_bal s) A = rz C v -> posts_ok v (t_posts t) v' 0 ->
    exists s', add_transaction s t = Ok s' /\ s_fmt s' = [] /\ bal_get (s_bal s') A = rz C v'.
  Proof.
    intros s t v v' F B P. unfold add_transaction.
    destruct (fold_posts_ok (t_date t) v (t_posts t) v' 0 P
                {| l_bal := s_bal s; l_posts := []; l_unfilled := None; l_residual := a_zero; l_events := [] |}
                0%nat 0) as (st' & E & B' & U' & R').
    - exact B.
    - reflexivity.
    - left. split; reflexivity.
    - rewrite E. cbn [bind]. rewrite U'. rewrite F.
      replace (0 + 0) with 0 in R' by ring.
      rewrite (check_balance_zero _ _ _ R'). cbn [bind].
      eexists. split; [reflexivity|]. cbn. split; [reflexivity|exact B'].
  Qed.

  (* a ledger of such transactions *)
  Fixpoint txns_ok (v : Qc) (ts : list (Book.txn * Qc)) : Prop :=
    match ts with
    | [] => True
    | (t, v') :: r => posts_ok v (t_posts t) v' 0 /\ txns_ok v' r
    end.

  Lemma process_from_simple : forall ts v s n,
    s_fmt s = [] -> bal_get (s_bal s) A = rz C v -> txns_ok v ts ->
    exists s' n', process_from n s (map (fun tv => ETxn (fst tv)) ts) = (Ok s', n') /\
                  s_fmt s' = [] /\ bal_get (s_bal s') A = rz C (last (map snd ts) v).
  Proof.
    induction ts as [|[t v1] r IH]; intros v s n F B H.
    - exists s, n. cbn. auto.
    - destruct H as [P H].
      destruct (add_transaction_simple s t v v1 F B P) as (s1 & E & F1 & B1).
      cbn [map fst process_from process_entry]. rewrite E.
      destruct (IH v1 s1 (S n) F1 B1 H) as (s' & n' & E' & F' & B').
      exists s', n'. split; [exact E'|]. split; [exact F'|].
      rewrite B'. f_equal. cbn [map snd]. rewrite last_cons. reflexivity.
  Qed.
End Track.
