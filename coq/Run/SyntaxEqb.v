(* Boolean comparison of syntax trees (Model/Syntax.v), parametrised by the comparison of
   numbers.  Evaluation glue for the classifiers. *)
From Coq Require Import List NArith ZArith Bool.
From Okv Require Import Model.Lit Model.LitSpec Model.Syntax.
Import ListNotations.
Open Scope N_scope.

Fixpoint str_eqb (a b : list N) : bool :=
  match a, b with
  | [], [] => true
  | x :: a', y :: b' => (x =? y) && str_eqb a' b'
  | _, _ => false
  end.

Definition opt_eqb {A} (f : A -> A -> bool) (a b : option A) : bool :=
  match a, b with
  | None, None => true
  | Some x, Some y => f x y
  | _, _ => false
  end.

Fixpoint list_eqb {A} (f : A -> A -> bool) (a b : list A) : bool :=
  match a, b with
  | [], [] => true
  | x :: a', y :: b' => f x y && list_eqb f a' b'
  | _, _ => false
  end.

Definition fmt_code (f : option fmt) : N :=
  match f with None => 0 | Some Plain => 1 | Some Comma3Dot => 2 end.

(* exact: sign, mantissa, scale, format *)
Definition pdec_exact (a b : pdec) : bool :=
  Bool.eqb (neg a) (neg b) && (mant a =? mant b) && Nat.eqb (scale a) (scale b) &&
  (fmt_code (pfmt a) =? fmt_code (pfmt b)).

(* C05's "same number": value, decimal places, and grouping style where there are thousands *)
Definition big (d : pdec) : bool := pow10_N (3 + scale d) <=? mant d.
Definition pdec_same (a b : pdec) : bool :=
  Bool.eqb (neg a) (neg b) && (mant a =? mant b) && Nat.eqb (scale a) (scale b) &&
  (negb (big a) || (fmt_code (pfmt a) =? fmt_code (pfmt b))).

Definition clear_eqb (a b : clear_state) : bool :=
  match a, b with
  | Uncleared, Uncleared | Cleared, Cleared | Pending, Pending => true
  | _, _ => false
  end.

Definition date_eqb (a b : date) : bool :=
  (d_year a =? d_year b)%Z && (d_month a =? d_month b) && (d_day a =? d_day b).

Definition binop_eqb (a b : s_binop) : bool :=
  match a, b with
  | SAdd, SAdd | SSub, SSub | SMul, SMul | SDiv, SDiv => true
  | _, _ => false
  end.

Section WithNum.
Variable peq : pdec -> pdec -> bool.

Definition amount_eqb (a b : s_amount) : bool :=
  peq (sa_value a) (sa_value b) && str_eqb (sa_commodity a) (sa_commodity b).

Fixpoint vexpr_eqb (a b : s_vexpr) : bool :=
  match a, b with
  | SParen x, SParen y => expr_eqb x y
  | SAmount x, SAmount y => amount_eqb x y
  | _, _ => false
  end
with expr_eqb (a b : s_expr) : bool :=
  match a, b with
  | SUnaryNeg x, SUnaryNeg y => expr_eqb x y
  | SBinary o l r, SBinary o' l' r' => binop_eqb o o' && expr_eqb l l' && expr_eqb r r'
  | SValue x, SValue y => vexpr_eqb x y
  | _, _ => false
  end.

Definition exchange_eqb (a b : s_exchange) : bool :=
  match a, b with
  | STotal x, STotal y => vexpr_eqb x y
  | SRate x, SRate y => vexpr_eqb x y
  | _, _ => false
  end.

Definition lot_eqb (a b : s_lot) : bool :=
  opt_eqb exchange_eqb (lot_price a) (lot_price b) && opt_eqb date_eqb (lot_date a) (lot_date b) &&
  opt_eqb str_eqb (lot_note a) (lot_note b).

Definition pamount_eqb (a b : s_posting_amount) : bool :=
  vexpr_eqb (pa_amount a) (pa_amount b) && opt_eqb exchange_eqb (pa_cost a) (pa_cost b) &&
  lot_eqb (pa_lot a) (pa_lot b).

Definition meta_value_eqb (a b : s_meta_value) : bool :=
  match a, b with
  | MText x, MText y => str_eqb x y
  | MExpr x, MExpr y => str_eqb x y
  | _, _ => false
  end.

Definition metadata_eqb (a b : s_metadata) : bool :=
  match a, b with
  | MComment x, MComment y => str_eqb x y
  | MWordTags x, MWordTags y => list_eqb str_eqb x y
  | MKeyValue k v, MKeyValue k' v' => str_eqb k k' && meta_value_eqb v v'
  | _, _ => false
  end.

Definition posting_eqb (a b : s_posting) : bool :=
  str_eqb (sp_account a) (sp_account b) && clear_eqb (sp_clear a) (sp_clear b) &&
  opt_eqb pamount_eqb (sp_amount a) (sp_amount b) && opt_eqb vexpr_eqb (sp_balance a) (sp_balance b) &&
  list_eqb metadata_eqb (sp_metadata a) (sp_metadata b).

Definition txn_eqb (a b : s_txn) : bool :=
  date_eqb (st_date a) (st_date b) && opt_eqb date_eqb (st_edate a) (st_edate b) &&
  clear_eqb (st_clear a) (st_clear b) && opt_eqb str_eqb (st_code a) (st_code b) &&
  str_eqb (st_payee a) (st_payee b) && list_eqb posting_eqb (st_posts a) (st_posts b) &&
  list_eqb metadata_eqb (st_metadata a) (st_metadata b).

Definition adetail_eqb (a b : s_account_detail) : bool :=
  match a, b with
  | ADComment x, ADComment y | ADNote x, ADNote y | ADAlias x, ADAlias y => str_eqb x y
  | _, _ => false
  end.

Definition cdetail_eqb (a b : s_commodity_detail) : bool :=
  match a, b with
  | CDComment x, CDComment y | CDNote x, CDNote y | CDAlias x, CDAlias y => str_eqb x y
  | CDFormat x, CDFormat y => amount_eqb x y
  | _, _ => false
  end.

Definition entry_eqb (a b : s_entry) : bool :=
  match a, b with
  | STxn x, STxn y => txn_eqb x y
  | SComment x, SComment y => str_eqb x y
  | SApplyTag k v, SApplyTag k' v' => str_eqb k k' && opt_eqb meta_value_eqb v v'
  | SEndApplyTag, SEndApplyTag => true
  | SInclude x, SInclude y => str_eqb x y
  | SAccount n d, SAccount n' d' => str_eqb n n' && list_eqb adetail_eqb d d'
  | SCommodity n d, SCommodity n' d' => str_eqb n n' && list_eqb cdetail_eqb d d'
  | _, _ => false
  end.
End WithNum.
