(* The book-keeping state with every map in key order: the order in which the repaired code
   walks them where the walk can end early with an error (convert_amount sorts the amount by
   commodity, 170c38c; Ledger::balance sorts the accounts of an up-to-date report, 0b7772d;
   transactions and their postings are Vecs in file order).  Names are order-preserving ids, so
   key order is name order.  Definitions only. *)
From Coq Require Import List NArith ZArith QArith Qcanon.
From Okv Require Import Base.Maps Model.Amount Model.Book Model.Query Model.Render Model.PriceDb Model.Convert.
Import ListNotations.

Definition canon_posting (p : oposting) : oposting :=
  {| o_account := o_account p; o_amount := sort_keys (o_amount p); o_converted := o_converted p |}.
Definition canon_txn (t : otxn) : otxn :=
  {| o_date := o_date t; o_posts := map canon_posting (o_posts t) |}.
Definition canon_txns (ts : list otxn) : list otxn := map canon_txn ts.

Definition canon_bal (b : balance) : balance := sort_keys (map (fun p => (fst p, sort_keys (snd p))) b).

Definition canon_state (s : bstate) : bstate :=
  {| s_bal := canon_bal (s_bal s); s_fmt := sort_keys (s_fmt s); s_events := s_events s;
     s_txns := canon_txns (s_txns s) |}.

(* Ledger::balance (Model/Convert.v balance_query) with each early-exit walk in key order.
   Historical: the stored postings in file order, each amount by commodity.  Up-to-date: the
   balance that is converted - the stored one, or the one re-folded for a date range - by
   account, each amount by commodity. *)
Definition balance_query_keyed (fuel : nat) (choose : chooser) (recs : records)
           (s : bstate) (cv : option conversion) (start end_ : option Z) : conv_outcome balance :=
  match cv with
  | Some {| cv_strategy := UpToDate now; cv_target := target |} =>
      cbind (if negb (require_recompute cv start end_) then COk (s_bal s)
             else refold_txns fuel choose recs None start end_ (s_txns s) [])
            (fun balance =>
               cbind (convert_accounts fuel choose recs target now (canon_bal balance) [])
                     (fun converted => COk (bal_round (s_fmt s) converted)))
  | _ => balance_query fuel choose recs (canon_state s) cv start end_
  end.

(* what `okane balance -X` shows: the printed lines, or the error *)
Definition conv_printed (x : conv_outcome balance) : conv_outcome (list (aid * list (cid * Qc))) :=
  match x with COk b => COk (render_balance b) | CErr e => CErr e | COutOfFuel => COutOfFuel end.
