//! Running the implementation in a child process: `okv __child <mode> <file> <start>` reads
//! hex-encoded inputs (one per line) from <file>, skips the first <start>, and prints one
//! observation line per input, flushing after each.  The parent enforces a per-case
//! deadline; a case that hangs or kills the child is recorded as Timeout / Abort(signal) and
//! the child is restarted after it.
use std::io::{BufRead, BufReader, Write};
use std::path::PathBuf;
use std::process::{Command, Stdio};
use std::sync::mpsc;
use std::time::Duration;

#[derive(Clone, Debug, PartialEq)]
pub enum ChildObs {
    Line(String),
    Timeout,
    Abort(i32),
}

fn hex(b: &[u8]) -> String {
    let mut s = String::with_capacity(b.len() * 2);
    for x in b {
        s.push_str(&format!("{:02x}", x));
    }
    s
}

fn unhex(s: &str) -> Vec<u8> {
    let b = s.as_bytes();
    (0..b.len() / 2)
        .map(|i| u8::from_str_radix(std::str::from_utf8(&b[2 * i..2 * i + 2]).unwrap(), 16).unwrap())
        .collect()
}

fn scratch_dir() -> PathBuf {
    let base = std::env::var("OKV_SCRATCH").unwrap_or_else(|_| ".build/scratch".to_string());
    let d = PathBuf::from(base);
    std::fs::create_dir_all(&d).unwrap();
    d
}

/// run `mode` over all inputs in child processes
pub fn run_batch(mode: &str, inputs: &[Vec<u8>], timeout_ms: u64) -> Vec<ChildObs> {
    static COUNTER: std::sync::atomic::AtomicUsize = std::sync::atomic::AtomicUsize::new(0);
    let k = COUNTER.fetch_add(1, std::sync::atomic::Ordering::SeqCst);
    let file = scratch_dir().join(format!("batch-{}-{}.txt", std::process::id(), k));
    {
        let mut f = std::io::BufWriter::new(std::fs::File::create(&file).unwrap());
        for i in inputs {
            writeln!(f, "{}", hex(i)).unwrap();
        }
    }
    let exe = std::env::current_exe().unwrap();
    let mut out: Vec<ChildObs> = Vec::with_capacity(inputs.len());
    while out.len() < inputs.len() {
        let mut child = Command::new(&exe)
            .arg("__child")
            .arg(mode)
            .arg(&file)
            .arg(out.len().to_string())
            .stdin(Stdio::null())
            .stdout(Stdio::piped())
            .stderr(Stdio::null())
            .env("RUST_BACKTRACE", "0")
            .env_remove("RUST_LOG")
            .spawn()
            .expect("spawn child");
        let stdout = child.stdout.take().unwrap();
        let (tx, rx) = mpsc::channel::<String>();
        let reader = std::thread::spawn(move || {
            let br = BufReader::new(stdout);
            for l in br.lines() {
                match l {
                    Ok(l) => {
                        if tx.send(l).is_err() {
                            break;
                        }
                    }
                    Err(_) => break,
                }
            }
        });
        loop {
            if out.len() >= inputs.len() {
                break;
            }
            match rx.recv_timeout(Duration::from_millis(timeout_ms)) {
                Ok(l) => out.push(ChildObs::Line(l)),
                Err(mpsc::RecvTimeoutError::Timeout) => {
                    let _ = child.kill();
                    let _ = child.wait();
                    out.push(ChildObs::Timeout);
                    break;
                }
                Err(mpsc::RecvTimeoutError::Disconnected) => {
                    // the child is gone before finishing: the current case killed it
                    let st = child.wait().ok();
                    let sig = st
                        .and_then(|s| {
                            use std::os::unix::process::ExitStatusExt;
                            s.signal().or(s.code().map(|c| 1000 + c))
                        })
                        .unwrap_or(-1);
                    out.push(ChildObs::Abort(sig));
                    break;
                }
            }
        }
        let _ = child.kill();
        let _ = child.wait();
        let _ = reader.join();
    }
    let _ = std::fs::remove_file(&file);
    out
}

/// child side: `f` maps one input to one observation line (no newlines)
pub fn child_main(args: &[String], f: &dyn Fn(&str, &[u8]) -> String) {
    let mode = &args[0];
    let file = &args[1];
    let start: usize = args[2].parse().unwrap();
    let text = std::fs::read_to_string(file).unwrap();
    let stdout = std::io::stdout();
    for (i, l) in text.lines().enumerate() {
        if i < start {
            continue;
        }
        let input = unhex(l);
        let o = f(mode, &input);
        let mut h = stdout.lock();
        writeln!(h, "{}", o.replace('\n', "\\n")).unwrap();
        h.flush().unwrap();
    }
}
