//! C07: numeric literals.  Implementation under test: PrettyDecimal::from_str + Display.
use crate::coq::{self, Shards, Stats};
use crate::prng::Rng;
use crate::Opts;
use okane_core::syntax::pretty_decimal::{Format, PrettyDecimal};
use serde_json::json;
use std::str::FromStr;

#[derive(Clone, Debug, PartialEq)]
pub enum Obs {
    Ok { neg: bool, mant: u128, scale: u32, fmt: u8, shown: String },
    Err { kind: u8, pos: u64, text: String },
    Panic,
}

fn last_int(s: &str) -> u64 {
    let mut digits = String::new();
    for ch in s.chars().rev() {
        if ch.is_ascii_digit() {
            digits.insert(0, ch);
        } else if !digits.is_empty() {
            break;
        }
    }
    digits.parse().unwrap_or(0)
}

pub fn observe(s: &str) -> Obs {
    let r = std::panic::catch_unwind(|| {
        let r = PrettyDecimal::from_str(s);
        match r {
            Ok(pd) => {
                let shown = pd.to_string();
                let v = pd.value;
                Obs::Ok {
                    neg: v.is_sign_negative(),
                    mant: v.mantissa().unsigned_abs(),
                    scale: v.scale(),
                    fmt: match pd.format {
                        None => 0,
                        Some(Format::Plain) => 1,
                        Some(Format::Comma3Dot) => 2,
                        #[allow(unreachable_patterns)]
                        Some(_) => 9,
                    },
                    shown,
                }
            }
            Err(e) => {
                let d = format!("{:?}", e);
                let name: String = d.chars().take_while(|c| c.is_alphanumeric()).collect();
                let (kind, pos) = match name.as_str() {
                    "UnexpectedChar" => (1, last_int(&d)),
                    "CommaRequired" => (2, last_int(&d)),
                    "IncompleteGroup" => (3, last_int(&d)),
                    "NoDigit" => (4, 0),
                    "InvalidDecimal" => (5, 0),
                    _ => (9, 0),
                };
                Obs::Err { kind, pos, text: d }
            }
        }
    });
    r.unwrap_or(Obs::Panic)
}

/// the PrettyDecimal the real parser reads when the literal stands in a syntactic position
fn observe_in_context(lit: &str, pos: usize) -> Obs {
    use okane_core::parse::{parse_ledger, ParseOptions};
    use okane_core::syntax::{self, expr::ValueExpr, plain};
    let text = match pos {
        0 => format!("2024/01/01 x\n    A  {} USD\n    B\n", lit),
        1 => format!("2024/01/01 x\n    A  1 USD @ {} EUR\n    B\n", lit),
        2 => format!("2024/01/01 x\n    A  1 USD @@ {} EUR\n    B\n", lit),
        3 => format!("2024/01/01 x\n    A  1 USD {{{} EUR}}\n    B\n", lit),
        4 => format!("2024/01/01 x\n    A  1 USD = {} USD\n    B\n", lit),
        5 => format!("2024/01/01 x\n    A  = {}\n    B\n", lit),
        6 => format!("commodity USD\n    format {} USD\n", lit),
        _ => format!("2024/01/01 x\n    A  ({} USD)\n    B\n", lit),
    };
    let r = std::panic::catch_unwind(|| {
        let opts = ParseOptions::default();
        let mut found: Option<okane_core::syntax::pretty_decimal::PrettyDecimal> = None;
        let mut n = 0;
        for item in parse_ledger::<plain::Ident>(&opts, &text) {
            let (_, e) = match item {
                Ok(x) => x,
                Err(e) => return Obs::Err { kind: 9, pos: 0, text: format!("{}", e).chars().take(80).collect() },
            };
            n += 1;
            fn lit_of(v: &ValueExpr) -> Option<okane_core::syntax::pretty_decimal::PrettyDecimal> {
                match v {
                    ValueExpr::Amount(a) => Some(a.value.clone()),
                    ValueExpr::Paren(okane_core::syntax::expr::Expr::Value(b)) => lit_of(b),
                    _ => None,
                }
            }
            fn exch(x: &syntax::Exchange) -> Option<okane_core::syntax::pretty_decimal::PrettyDecimal> {
                match x {
                    syntax::Exchange::Rate(v) | syntax::Exchange::Total(v) => lit_of(v),
                }
            }
            match &e {
                plain::LedgerEntry::Txn(t) => {
                    let p = &t.posts[0];
                    found = match pos {
                        0 | 7 => p.amount.as_ref().and_then(|a| lit_of(&a.amount)),
                        1 | 2 => p.amount.as_ref().and_then(|a| a.cost.as_ref()).and_then(exch),
                        3 => p.amount.as_ref().and_then(|a| a.lot.price.as_ref()).and_then(exch),
                        _ => p.balance.as_ref().and_then(lit_of),
                    };
                }
                plain::LedgerEntry::Commodity(c) => {
                    for d in &c.details {
                        if let syntax::CommodityDetail::Format(a) = d {
                            found = Some(a.value.clone());
                        }
                    }
                }
                _ => {}
            }
        }
        match found {
            Some(pd) if n == 1 => {
                let v = pd.value;
                Obs::Ok {
                    neg: v.is_sign_negative(),
                    mant: v.mantissa().unsigned_abs(),
                    scale: v.scale(),
                    fmt: match pd.format {
                        None => 0,
                        Some(Format::Plain) => 1,
                        Some(Format::Comma3Dot) => 2,
                        #[allow(unreachable_patterns)]
                        Some(_) => 9,
                    },
                    shown: pd.to_string(),
                }
            }
            _ => Obs::Err { kind: 8, pos: 0, text: "parsed, but the literal was not read as one number in that position".into() },
        }
    });
    r.unwrap_or(Obs::Panic)
}

const POSITIONS: [&str; 8] = ["amount", "cost@", "cost@@", "lot", "assertion", "assignment", "format", "paren"];

fn in_context(sh: &mut Shards, st: &mut Stats, s: &[u8]) {
    // only strings the tokenizer hands over whole: optional leading '-', then [0-9,.]+
    let body = if s.first() == Some(&b'-') { &s[1..] } else { s };
    if body.is_empty() || !body.iter().all(|c| c.is_ascii_digit() || *c == b',' || *c == b'.') {
        return;
    }
    let text = std::str::from_utf8(s).unwrap();
    for pos in 0..POSITIONS.len() {
        // a leading '-' inside parentheses is the unary operator, not part of the literal
        if pos == 7 && s.first() == Some(&b'-') {
            continue;
        }
        let o = observe_in_context(text, pos);
        st.eval(&(s.to_vec(), pos), nontrivial(s));
        st.count(&format!("position:{}", POSITIONS[pos]));
        let rep = json!({"property": "C07", "input": text, "position": POSITIONS[pos], "impl": obs_json(&o),
                         "reproduce": format!("parse a ledger with {:?} as {}", text, POSITIONS[pos])});
        sh.push(format!("InCtx {} ({})", coq::bytes_list(s), obs_term(&o)), vec![rep]);
    }
}

fn obs_term(o: &Obs) -> String {
    match o {
        Obs::Ok { neg, mant, scale, fmt, shown } => format!(
            "OOk {} {} {} {} {}",
            coq::bool_(*neg),
            mant,
            scale,
            fmt,
            coq::bytes_list(shown.as_bytes())
        ),
        Obs::Err { kind, pos, .. } => format!("OErr {} {}", kind, pos),
        Obs::Panic => "OPanic".to_string(),
    }
}

fn obs_json(o: &Obs) -> serde_json::Value {
    match o {
        Obs::Ok { neg, mant, scale, fmt, shown } => {
            let f = *["None", "Plain", "Comma3Dot"].get(*fmt as usize).unwrap_or(&"?");
            json!({"ok": {"neg": neg, "mantissa": mant.to_string(), "scale": scale, "format": f, "to_string": shown}})
        }
        Obs::Err { text, .. } => json!({ "err": text }),
        Obs::Panic => json!("panic"),
    }
}

fn nontrivial(s: &[u8]) -> bool {
    let digits = s.iter().filter(|c| c.is_ascii_digit()).count();
    (digits >= 1 && digits < s.len()) || digits > 28
}

fn replay(s: &[u8], o: &Obs) -> serde_json::Value {
    json!({"property": "C07", "input": String::from_utf8_lossy(s), "impl": obs_json(o),
           "reproduce": format!("PrettyDecimal::from_str({:?})", String::from_utf8_lossy(s))})
}

fn single(sh: &mut Shards, st: &mut Stats, s: &[u8], tag: &str) {
    let text = match std::str::from_utf8(s) {
        Ok(t) => t,
        Err(_) => return,
    };
    let o = observe(text);
    st.eval(&s.to_vec(), nontrivial(s));
    st.count(&format!("single:{}", tag));
    st.count(match &o {
        Obs::Ok { .. } => "impl:ok",
        Obs::Err { .. } => "impl:err",
        Obs::Panic => "impl:panic",
    });
    if st.samples.len() < 4 || (matches!(o, Obs::Ok { .. }) && st.samples.len() < 8) {
        st.sample(replay(s, &o), 8);
    }
    sh.push(
        format!("Single {} ({})", coq::bytes_list(s), obs_term(&o)),
        vec![replay(s, &o)],
    );
}

/// all strings over alpha of length n in the order of `strings` in Classify_C07.v
fn strings(alpha: &[u8], n: usize) -> Vec<Vec<u8>> {
    if n == 0 {
        return vec![vec![]];
    }
    let rest = strings(alpha, n - 1);
    let mut out = Vec::with_capacity(rest.len() * alpha.len());
    for c in alpha {
        for r in &rest {
            let mut v = Vec::with_capacity(n);
            v.push(*c);
            v.extend_from_slice(r);
            out.push(v);
        }
    }
    out
}

fn block(sh: &mut Shards, st: &mut Stats, alpha: &[u8], prefix: &[u8], n: usize) {
    let mut obs = Vec::new();
    let mut reps = Vec::new();
    for s in strings(alpha, n) {
        let mut full = prefix.to_vec();
        full.extend_from_slice(&s);
        let o = observe(std::str::from_utf8(&full).unwrap());
        st.eval(&full, nontrivial(&full));
        st.count(match &o {
            Obs::Ok { .. } => "impl:ok",
            Obs::Err { .. } => "impl:err",
            Obs::Panic => "impl:panic",
        });
        if matches!(o, Obs::Ok { .. }) && full.len() >= 4 {
            st.sample(replay(&full, &o), 8);
        }
        reps.push(replay(&full, &o));
        obs.push(format!("({})", obs_term(&o)));
    }
    st.add(&format!("exhaustive:alphabet{}:len{}", alpha.len(), prefix.len() + n), obs.len() as u64);
    sh.push(
        format!(
            "Block {} {} {} [{}]",
            coq::bytes_list(alpha),
            coq::bytes_list(prefix),
            n,
            obs.join(";")
        ),
        reps,
    );
}

fn exhaustive(sh: &mut Shards, st: &mut Stats, alpha: &[u8], maxlen: usize) {
    for len in 0..=maxlen {
        let plen = if len >= 6 { 3 } else if len >= 4 { 2 } else { 0 };
        for p in strings(alpha, plen) {
            block(sh, st, alpha, &p, len - plen);
        }
    }
}

fn digits(r: &mut Rng, n: usize) -> Vec<u8> {
    (0..n).map(|_| b'0' + r.below(10) as u8).collect()
}

/// well-formed-looking literals of every size, concentrated at 2^96 and 2^127
fn random_literal(r: &mut Rng) -> Vec<u8> {
    let mut s = Vec::new();
    if r.chance(1, 3) {
        s.push(b'-');
    }
    let boundary: [&str; 6] = [
        "79228162514264337593543950335",            // 2^96 - 1
        "79228162514264337593543950336",            // 2^96
        "170141183460469231731687303715884105727",  // 2^127 - 1
        "170141183460469231731687303715884105728",  // 2^127
        "340282366920938463463374607431768211455",  // 2^128 - 1
        "99999999999999999999999999999",
    ];
    let mut ds: Vec<u8> = match r.below(4) {
        0 => {
            let mut b = r.pick(&boundary).as_bytes().to_vec();
            // perturb the last few digits
            if r.chance(1, 2) {
                let k = b.len() - 1 - r.below(3) as usize;
                b[k] = b'0' + r.below(10) as u8;
            }
            if r.chance(1, 4) {
                b.push(b'0' + r.below(10) as u8);
            }
            b
        }
        1 => { let n = 1 + r.below(45) as usize; digits(r, n) }
        2 => { let n = 25 + r.below(8) as usize; digits(r, n) }
        _ => { let n = 1 + r.below(12) as usize; digits(r, n) }
    };
    if r.chance(1, 6) {
        let z = r.below(4) as usize;
        let mut zs = vec![b'0'; z];
        zs.extend(ds);
        ds = zs;
    }
    // choose a split into integer and fraction digits
    let frac = if r.chance(1, 2) { r.below(ds.len() as u64 + 1).min(32) as usize } else { 0 };
    let (ip, fp) = ds.split_at(ds.len() - frac);
    let grouped = r.chance(1, 2);
    if grouped && !ip.is_empty() {
        let first = ((ip.len() - 1) % 3) + 1;
        s.extend_from_slice(&ip[..first]);
        for ch in ip[first..].chunks(3) {
            s.push(b',');
            s.extend_from_slice(ch);
        }
    } else {
        s.extend_from_slice(ip);
    }
    if frac > 0 || r.chance(1, 10) {
        s.push(b'.');
        s.extend_from_slice(fp);
    }
    // occasional mutation: insert/delete/replace one symbol
    if r.chance(1, 4) && !s.is_empty() {
        let k = r.below(s.len() as u64) as usize;
        let sym = *r.pick(b"0123456789,.-");
        match r.below(3) {
            0 => s.insert(k, sym),
            1 => {
                s.remove(k);
            }
            _ => s[k] = sym,
        }
    }
    s
}

// ---- literals printed back in every syntactic position -------------------------------------
// Every place where display.rs writes back a number the parser read: posting amount, operands of
// value expressions (binary, unary, nested), lot price {..} / {{..}}, cost @ / @@, balance
// assertion and assignment, the `format` line of a commodity directive.  Printed through the
// three commands that print parsed entries: `format`, `primitive format`, `primitive flatten`
// (the last one also with the entry in an included file).

/// a literal for the print stream; `shape` is reported in the distribution
fn print_literal(r: &mut Rng, allow_neg: bool) -> (Vec<u8>, &'static str) {
    let mut s = Vec::new();
    if allow_neg && r.chance(1, 4) {
        s.push(b'-');
    }
    let group = |ip: &[u8], s: &mut Vec<u8>| {
        let first = ((ip.len() - 1) % 3) + 1;
        s.extend_from_slice(&ip[..first]);
        for ch in ip[first..].chunks(3) {
            s.push(b',');
            s.extend_from_slice(ch);
        }
    };
    let nonzero_lead = |r: &mut Rng, n: usize| {
        let mut d = digits(r, n);
        if d[0] == b'0' {
            d[0] = b'1' + r.below(9) as u8;
        }
        d
    };
    let frac = |r: &mut Rng, s: &mut Vec<u8>| {
        if r.chance(2, 3) {
            let m = if r.chance(1, 5) { 12 } else { 4 };
            let n = 1 + r.below(m) as usize;
            s.push(b'.');
            let mut f = digits(r, n);
            if r.chance(1, 3) {
                // trailing zeros are places too
                let k = f.len();
                f[k - 1] = b'0';
            }
            s.extend(f);
        }
    };
    let shape = match r.below(12) {
        0..=3 => {
            let m = if r.chance(1, 4) { 20 } else { 6 };
            let n = 4 + r.below(m) as usize;
            let ip = nonzero_lead(r, n);
            group(&ip, &mut s);
            frac(r, &mut s);
            "grouped"
        }
        4 | 5 => {
            let m = if r.chance(1, 4) { 20 } else { 6 };
            let n = 4 + r.below(m) as usize;
            s.extend(nonzero_lead(r, n));
            frac(r, &mut s);
            "plain>=1000"
        }
        6 | 7 => {
            let n = 1 + r.below(3) as usize;
            s.extend(nonzero_lead(r, n));
            frac(r, &mut s);
            "small"
        }
        8 => {
            s.extend_from_slice(*r.pick(&[&b"0"[..], b"0.00", b"0.0", b"0,000.05", b"0,012", b"000", b"0.10", b"1,000", b"1,000.00", b"999", b"1000"]));
            "boundary"
        }
        9 => {
            // exactly at the limits of a Decimal
            s.extend_from_slice(*r.pick(&[
                &b"79,228,162,514,264,337,593,543,950,335"[..],
                b"79228162514264337593543950335",
                b"7,922,816,251,426,433,759,354,395.0335",
                b"0.0000000000000000000000000001",
                b"79,228,162,514,264,337,593,543,950,336",
                b"0.00000000000000000000000000001",
            ]));
            "limit"
        }
        10 => {
            // leading zeros in front of a grouped or plain number
            s.push(b'0');
            let n = 3 + r.below(5) as usize;
            let ip = digits(r, n);
            if r.chance(1, 2) { group(&ip, &mut s) } else { s.extend(ip) }
            frac(r, &mut s);
            "leading-zero"
        }
        _ => {
            // a literal of the scanner stream (possibly malformed), without interior signs
            let mut l: Vec<u8> = random_literal(r).into_iter().filter(|c| *c != b'-').collect();
            if !l.iter().any(|c| c.is_ascii_digit()) {
                l.push(b'7');
            }
            s.extend(l);
            "scanner-stream"
        }
    };
    (s, shape)
}

struct PrintGen<'a> {
    r: &'a mut Rng,
    /// positions used by the text being built
    used: Vec<String>,
}

impl PrintGen<'_> {
    fn commodity(&mut self) -> &'static str {
        *self.r.pick(&["USD", "EUR", "JPY", "CHF", "Fund", "$", "\u{20ac}"])
    }
    fn lit(&mut self, allow_neg: bool, position: &str) -> String {
        let (l, shape) = print_literal(self.r, allow_neg);
        self.used.push(format!("{}", position));
        self.used.push(format!("shape:{}", shape));
        String::from_utf8(l).unwrap()
    }
    /// operand inside parentheses
    fn operand(&mut self, depth: usize, position: &str) -> String {
        match self.r.below(if depth >= 3 { 4 } else { 6 }) {
            0 | 1 => format!("{} {}", self.lit(false, position), self.commodity()),
            2 => self.lit(false, &format!("{}:bare", position)),
            3 => format!("-{} {}", self.lit(false, &format!("{}:negated", position)), self.commodity()),
            4 => format!("({})", self.expr(depth + 1, position)),
            _ => format!("-({})", self.expr(depth + 1, position)),
        }
    }
    fn expr(&mut self, depth: usize, position: &str) -> String {
        let n = 1 + self.r.below(3);
        let mut s = self.operand(depth, position);
        for _ in 1..n {
            let op = *self.r.pick(&["+", "-", "*", "/"]);
            s = format!("{} {} {}", s, op, self.operand(depth, position));
        }
        s
    }
    /// a value expression: an amount or a parenthesised expression
    fn vexpr(&mut self, allow_neg: bool, position: &str) -> String {
        if self.r.chance(2, 3) {
            format!("{} {}", self.lit(allow_neg, position), self.commodity())
        } else {
            let pos = format!("{}:expr", position);
            let e = self.expr(1, &pos);
            let pad = if self.r.chance(1, 4) { " " } else { "" };
            format!("({}{}{})", pad, e, pad)
        }
    }
    fn posting(&mut self) -> String {
        let acc = *self.r.pick(&["Assets:Bank", "Expenses:Food", "A", "Equity:Opening Balances", "Liabilities:Card:Visa Gold Extra Long Name Here"]);
        let mark = *self.r.pick(&["", "", "* ", "! "]);
        let mut s = format!("    {}{}", mark, acc);
        let kind = self.r.below(10);
        if kind == 0 {
            return s + "\n";
        }
        if kind == 1 {
            // assignment / assertion without an amount
            let v = if self.r.chance(1, 2) { self.lit(true, "assignment:bare") } else { self.vexpr(true, "assignment") };
            return format!("{}  = {}\n", s, v);
        }
        s.push_str("  ");
        s.push_str(&self.vexpr(true, "amount"));
        if self.r.chance(1, 3) {
            let total = self.r.chance(1, 3);
            let v = self.vexpr(true, if total { "lot{{}}" } else { "lot{}" });
            s.push_str(&if total { format!(" {{{{{}}}}}", v) } else { format!(" {{{}}}", v) });
            if self.r.chance(1, 3) {
                s.push_str(" [2024/01/02]");
            }
            if self.r.chance(1, 4) {
                s.push_str(" (lot note)");
            }
        }
        if self.r.chance(1, 3) {
            let total = self.r.chance(1, 3);
            let v = self.vexpr(true, if total { "cost@@" } else { "cost@" });
            s.push_str(&if total { format!(" @@ {}", v) } else { format!(" @ {}", v) });
        }
        if self.r.chance(1, 4) {
            let v = if self.r.chance(1, 4) { self.lit(true, "assertion:bare") } else { self.vexpr(true, "assertion") };
            s.push_str(&format!(" = {}", v));
        }
        s.push('\n');
        if self.r.chance(1, 8) {
            s.push_str("    ; note: on the posting\n");
        }
        s
    }
    fn txn(&mut self) -> String {
        let mut s = String::from("2024/08/10");
        if self.r.chance(1, 4) {
            s.push_str("=2024/08/12");
        }
        s.push_str(*self.r.pick(&[" ", " * ", " ! "]));
        if self.r.chance(1, 4) {
            s.push_str("(ref) ");
        }
        s.push_str(*self.r.pick(&["Grocery", "Broker buy", "x"]));
        s.push('\n');
        if self.r.chance(1, 8) {
            s.push_str("    ; :tag:\n");
        }
        for _ in 0..1 + self.r.below(3) {
            s.push_str(&self.posting());
        }
        s
    }
    fn commodity_directive(&mut self) -> String {
        let c = self.commodity();
        let mut s = format!("commodity {}\n", c);
        let n = self.r.below(4);
        let fmt_at = self.r.below(n + 1);
        for k in 0..=n {
            if k == fmt_at {
                let l = self.lit(true, "format");
                // the commodity written after the number is free text for the parser
                match self.r.below(8) {
                    0 => s.push_str(&format!("    format {}\n", l)),
                    1 => s.push_str(&format!("    format {} {}\n", l, self.commodity())),
                    _ => s.push_str(&format!("    format {} {}\n", l, c)),
                }
                if self.r.chance(1, 6) {
                    let l = self.lit(true, "format:second");
                    s.push_str(&format!("    format {} {}\n", l, c));
                }
            } else {
                s.push_str(*self.r.pick(&["    note a note\n", "    alias Other\n", "    ; comment\n"]));
            }
        }
        s
    }
    fn text(&mut self) -> String {
        let mut s = String::new();
        if self.r.chance(1, 6) {
            s.push_str("; top comment\n\n");
        }
        let m = if self.r.chance(1, 4) { 3 } else { 1 };
        let n = 1 + self.r.below(m);
        for k in 0..n {
            if k > 0 {
                s.push('\n');
            }
            if self.r.chance(1, 3) {
                s.push_str(&self.commodity_directive());
            } else {
                s.push_str(&self.txn());
            }
        }
        s
    }
}

#[derive(Clone, Debug)]
enum PObs {
    Text(String),
    Err(String),
    Panic,
}

const PRINT_COMMANDS: [&str; 4] = ["format", "primitive format", "primitive flatten", "primitive flatten (included file)"];

fn print_through(scratch: &crate::cli::Scratch, text: &str) -> Vec<PObs> {
    let main = scratch.write("c07/main.ledger", text);
    scratch.write("c07/sub/part.ledger", text);
    let root = scratch.write("c07/root.ledger", "include sub/*.ledger\n");
    let main = main.to_str().unwrap();
    let root = root.to_str().unwrap();
    let runs: [Vec<&str>; 4] = [
        vec!["format", main],
        vec!["primitive", "format", main],
        vec!["primitive", "flatten", main],
        vec!["primitive", "flatten", root],
    ];
    runs.iter()
        .map(|args| {
            let r = crate::cli::run(args);
            if r.panicked {
                PObs::Panic
            } else if r.ok {
                PObs::Text(r.stdout)
            } else {
                PObs::Err(r.stderr.chars().take(200).collect())
            }
        })
        .collect()
}

fn printed(sh: &mut Shards, st: &mut Stats, scratch: &crate::cli::Scratch, text: &str, used: &[String], tag: &str) {
    let obs = print_through(scratch, text);
    let mut terms = Vec::new();
    let mut reps = Vec::new();
    for (k, o) in obs.iter().enumerate() {
        st.eval(&(text.to_string(), k, "printed"), true);
        st.count(&format!("printed:{}:{}", tag, PRINT_COMMANDS[k]));
        st.count(match o {
            PObs::Text(_) => "printed:impl:ok",
            PObs::Err(_) => "printed:impl:err",
            PObs::Panic => "printed:impl:panic",
        });
        let (term, j) = match o {
            PObs::Text(t) => (format!("PText {}", coq::packed(t.as_bytes())), json!({ "printed": t })),
            PObs::Err(e) => ("PErr".to_string(), json!({ "err": e })),
            PObs::Panic => ("PPanic".to_string(), json!("panic")),
        };
        terms.push(format!("({})", term));
        reps.push(json!({"property": "C07", "input": text, "command": PRINT_COMMANDS[k], "impl": j,
                         "reproduce": format!("write the input to FILE and run `okane {} FILE`; compare every number with the one written", PRINT_COMMANDS[k].split(" (").next().unwrap())}));
    }
    for u in used {
        st.count(&format!("printed-position:{}", u));
    }
    if let Some(PObs::Text(t)) = obs.first() {
        if st.samples.len() < 12 && text.contains(',') {
            st.sample(json!({"property": "C07", "input": text, "command": "format", "printed": t}), 12);
        }
    }
    sh.push(format!("Printed {} [{}]", coq::packed(text.as_bytes()), terms.join(";")), reps);
}

pub fn run(o: &Opts) {
    let mut st = Stats::new();
    let mut sh = Shards::new(
        &o.out,
        o.shards,
        "From Coq Require Import List NArith Uint63.\nFrom Okv Require Import Run.Unpack Run.Classify_C07.\nImport ListNotations.\nOpen Scope N_scope.",
    );
    st.rule = "the scanner directly and in eight syntactic positions through the real parser (amount, @ cost, @@ cost, lot price, assertion, assignment, format directive, parenthesised); literals printed back (generated transactions and commodity directives with literals of every shape as amount, expression operand, lot price, cost, assertion, assignment, format line; every literal of the text compared with the literal at the same place of what `format`, `primitive format`, `primitive flatten` print); exhaustive strings over {0,1,2,9,',','.','-'} up to a bounded length (and over all 13 symbols in the thorough tier) + seeded random literals up to 45+ digits concentrated at 2^96/2^127 + corpus; a case is the input string; non-trivial = has a digit and a non-digit, or more than 28 digits; distinct by input bytes".to_string();
    st.assumptions.push("input to PrettyDecimal::from_str is valid UTF-8 over the ASCII symbols 0-9 , . - plus a few other bytes in the corpus".to_string());
    // 1. corpus (past findings first)
    let corpus = [
        "12,50", "1.2.3", "-", ".", "1.2,3", "1,", "1,234,56", "0,000.05", "", "-.", "1,23", "1,2345", "1,234.5",
        "-12,345.67", "0,012", ".5", "1.", "-0", "-0.00", "1234", "0123", "123", "a", "1a", "1 ", "1,234,567.890120",
        "9999999999999999999999999999999999999999", "99999999999999999999999999999999999999999999",
        "0.00000000000000000000000000001", "0.0000000000000000000000000001", "79228162514264337593543950335",
        "79228162514264337593543950336", "-79228162514264337593543950335", "7.9228162514264337593543950335",
        "79,228,162,514,264,337,593,543,950,335", "79,228,162,514,264,337,593,543,950,336", "１２", "1\u{00e9}",
        "--1", "1-", "1-2", "-1,234", "-,123", ",123", "1,,234", "1,234,", "1,234,5", "12,345,678", "123,456", "1234,567",
    ];
    for s in corpus {
        single(&mut sh, &mut st, s.as_bytes(), "corpus");
        in_context(&mut sh, &mut st, s.as_bytes());
    }
    if let Ok(rd) = std::fs::read_dir(&o.corpus) {
        let mut files: Vec<_> = rd.filter_map(|e| e.ok()).map(|e| e.path()).collect();
        files.sort();
        for p in files {
            if let Ok(text) = std::fs::read_to_string(&p) {
                if let Ok(v) = serde_json::from_str::<serde_json::Value>(&text) {
                    if let Some(i) = v.get("input").and_then(|x| x.as_str()) {
                        single(&mut sh, &mut st, i.as_bytes(), "corpus-file");
                    }
                }
            }
        }
    }
    // 2. exhaustive
    let small: &[u8] = b"0129,.-";
    exhaustive(&mut sh, &mut st, small, if o.thorough { 7 } else { 5 });
    if o.thorough {
        exhaustive(&mut sh, &mut st, b"0123456789,.-", 5);
    } else {
        exhaustive(&mut sh, &mut st, b"0123456789,.-", 3);
    }
    // 3. random
    let mut r = Rng::new(o.seed, 7);
    let n = if o.thorough { 60000 } else { 3000 };
    for k in 0..n {
        let s = random_literal(&mut r);
        single(&mut sh, &mut st, &s, "random");
        if k % 6 == 0 {
            in_context(&mut sh, &mut st, &s);
        }
    }
    // every syntactic position, exhaustively for short strings
    for len in 1..=(if o.thorough { 5 } else { 4 }) {
        for s in strings(b"0129,.", len) {
            in_context(&mut sh, &mut st, &s);
            let mut m = vec![b'-'];
            m.extend_from_slice(&s);
            if len <= 3 {
                in_context(&mut sh, &mut st, &m);
            }
        }
    }
    // 4. literals printed back: every position of display.rs through the three print commands
    let scratch = crate::cli::Scratch::new("c07");
    let fixed = [
        "commodity CHF\n    format 1,000.00 CHF\n",
        "commodity JPY\n    note yen\n    format -1,234,567 JPY\n    alias Yen\n",
        "2024/01/01 x\n    A  1,234.50 USD {1,000.10 EUR} [2024/01/02] @ 2,000.20 CHF = 12,345.00 USD\n    B\n",
        "2024/01/01 x\n    A  (1,000 * 2,000.00 USD - -3,000 USD) {{4,000 EUR}} @@ (5,000.0 EUR + 6,000 EUR)\n    B  = 7,000.000\n",
        "2024/01/01 x\n    A  1,2 USD\n    B\n",
    ];
    for t in fixed {
        printed(&mut sh, &mut st, &scratch, t, &[], "fixed");
    }
    let mut r = Rng::new(o.seed, 77);
    let n = if o.thorough { 12000 } else { 900 };
    for _ in 0..n {
        let mut g = PrintGen { r: &mut r, used: Vec::new() };
        let text = g.text();
        let used = g.used;
        printed(&mut sh, &mut st, &scratch, &text, &used, "generated");
    }
    sh.finish(&st);
}
