(* A tree in which nothing is printed with a `)` (RoundTripSpec.np_entry) is printed without
   a `)`: no41 of every printer piece of Model/Display.v, up to print_entry and format_entries. *)
From Coq Require Import List NArith ZArith Bool Lia Arith.
From Okv Require Import Model.Lit Model.LitSpec Model.Syntax Model.Comb Model.Display Model.RoundTripSpec Proofs.LitProofs Proofs.LitShow Proofs.LitShowGen.
Import ListNotations.
Open Scope N_scope.

(* ---- no41 on lists ---- *)
Lemma no41_app : forall a b, no41 (a ++ b) = no41 a && no41 b.
Proof. intros a b. unfold no41. apply forallb_app. Qed.

Lemma no41_cons : forall c s, no41 (c :: s) = negb (c =? 41) && no41 s.
Proof. reflexivity. Qed.

Lemma no41_Forall : forall l, Forall (fun c => c <> 41) l -> no41 l = true.
Proof.
  intros l H. induction H as [|c l Hc _ IH]; [reflexivity|].
  rewrite no41_cons, IH. apply N.eqb_neq in Hc. rewrite Hc. reflexivity.
Qed.

Lemma no41_rev : forall l, no41 (rev l) = no41 l.
Proof.
  induction l as [|c l IH]; [reflexivity|].
  cbn [rev]. rewrite no41_app, IH, !no41_cons. cbn [no41 forallb].
  rewrite andb_true_r. apply andb_comm.
Qed.

Lemma no41_repeat : forall c n, c <> 41 -> no41 (repeat c n) = true.
Proof.
  intros c n Hc. apply N.eqb_neq in Hc.
  induction n as [|n IH]; [reflexivity|]. cbn [repeat]. rewrite no41_cons, Hc, IH. reflexivity.
Qed.

Lemma no41_flat_map : forall A (f : A -> str) (g : A -> bool) l,
  (forall x, g x = true -> no41 (f x) = true) ->
  forallb g l = true -> no41 (flat_map f l) = true.
Proof.
  intros A f g l Hf. induction l as [|x l IH]; intros H; [reflexivity|].
  cbn [forallb] in H. apply andb_true_iff in H. destruct H as [Hx Hl].
  cbn [flat_map]. rewrite no41_app, (Hf x Hx), (IH Hl). reflexivity.
Qed.

Ltac hsplit :=
  repeat match goal with
         | H : _ && _ = true |- _ => apply andb_true_iff in H; destruct H
         end.

Ltac np :=
  rewrite ?no41_app;
  repeat match goal with |- _ && _ = true => apply andb_true_intro; split end;
  try reflexivity; auto.

Lemma spaces_no41 : forall n, no41 (spaces n) = true.
Proof. intros n. unfold spaces. apply no41_repeat. discriminate. Qed.

Lemma pad_left_no41 : forall w s, no41 s = true -> no41 (pad_left w s) = true.
Proof. intros w s H. unfold pad_left. np. apply spaces_no41. Qed.

(* ---- numbers ---- *)
Lemma numc_not41 : forall c, numc c = true -> c <> 41.
Proof. intros c H E. subst c. vm_compute in H. discriminate. Qed.

Lemma dig_not41 : forall c, dig c -> c <> 41.
Proof. intros c H E. subst c. vm_compute in H. discriminate. Qed.

Lemma show_no41 : forall d, no41 (show d) = true.
Proof.
  intros d. apply no41_Forall. pose proof (show_numc d) as H.
  eapply Forall_impl; [|exact H]. intros c Hc. apply numc_not41. exact Hc.
Qed.

Lemma dig_no41 : forall l, Forall dig l -> no41 l = true.
Proof.
  intros l H. apply no41_Forall. eapply Forall_impl; [|exact H]. exact dig_not41.
Qed.

Lemma pad_digits_no41 : forall k n, no41 (pad_zeros k (digits_of n)) = true.
Proof.
  intros k n. unfold pad_zeros. np.
  - apply no41_repeat. discriminate.
  - apply dig_no41, digits_of_dig.
Qed.

(* ---- dates ---- *)
Lemma fmt_year_no41 : forall y, no41 (fmt_year y) = true.
Proof.
  intros y. unfold fmt_year. destruct ((0 <=? y) && (y <? 10000))%Z.
  - apply pad_digits_no41.
  - np; [destruct (y <? 0)%Z; reflexivity|apply pad_digits_no41].
Qed.

Lemma fmt_two_no41 : forall n, no41 (fmt_two n) = true.
Proof. intros n. apply pad_digits_no41. Qed.

Lemma fmt_date_no41 : forall d, no41 (fmt_date d) = true.
Proof.
  intros d. unfold fmt_date. np; auto using fmt_year_no41, fmt_two_no41.
Qed.

(* ---- str::lines: the pieces are parts of the text ---- *)
Lemma split_incl_no41 : forall s, no41 s = true ->
  forallb (fun p : str * bool => no41 (fst p)) (split_incl s) = true.
Proof.
  induction s as [|c s IH]; intros H; [reflexivity|].
  rewrite no41_cons in H. apply andb_true_iff in H. destruct H as [Hc Hs].
  specialize (IH Hs). cbn [split_incl]. destruct (c =? 10).
  - cbn [forallb fst]. rewrite IH. reflexivity.
  - destruct (split_incl s) as [|[l b] t].
    + cbn [forallb fst]. rewrite no41_cons, Hc. reflexivity.
    + cbn [forallb fst] in *. rewrite no41_cons, Hc. exact IH.
Qed.

Lemma strip_cr_cases : forall l, strip_cr l = l \/ exists r, l = r ++ [13] /\ strip_cr l = r.
Proof.
  intros l. unfold strip_cr. destruct (rev l) as [|c r] eqn:E; [left; reflexivity|].
  destruct c as [|p]; [left; reflexivity|].
  destruct p as [p|p|]; try (left; reflexivity).
  destruct p as [p|p|]; try (left; reflexivity).
  destruct p as [p|p|]; try (left; reflexivity).
  destruct p as [p|p|]; try (left; reflexivity).
  right. exists (rev r). split; [|reflexivity].
  rewrite <- (rev_involutive l), E. reflexivity.
Qed.

Lemma strip_cr_no41 : forall l, no41 l = true -> no41 (strip_cr l) = true.
Proof.
  intros l H. destruct (strip_cr_cases l) as [E|(r & El & E)]; rewrite E; [exact H|].
  rewrite El, no41_app in H. apply andb_true_iff in H. tauto.
Qed.

Lemma str_lines_no41 : forall s, no41 s = true -> forallb no41 (str_lines s) = true.
Proof.
  intros s H. unfold str_lines. apply split_incl_no41 in H.
  induction (split_incl s) as [|[l b] t IH]; [reflexivity|].
  cbn [forallb fst] in H. apply andb_true_iff in H. destruct H as [Hl Ht].
  cbn [map forallb fst snd]. rewrite (IH Ht), andb_true_r.
  destruct b; [apply strip_cr_no41|]; exact Hl.
Qed.

Lemma line_wrap_no41 : forall prefix content,
  no41 prefix = true -> no41 content = true -> no41 (line_wrap prefix content) = true.
Proof.
  intros prefix content Hp Hc. unfold line_wrap.
  apply (no41_flat_map _ _ no41); [|apply str_lines_no41; exact Hc].
  intros l Hl. np.
Qed.

(* ---- amounts and expressions ---- *)
Lemma clear_no41 : forall c, no41 (print_clear_state c) = true.
Proof. intros [| |]; reflexivity. Qed.

Lemma fmt_amount_no41 : forall a, no41 (sa_commodity a) = true -> no41 (fst (fmt_amount a)) = true.
Proof.
  intros a H. unfold fmt_amount, rescale. destruct (sa_commodity a) as [|c r]; cbn [fst].
  - apply show_no41.
  - np. apply show_no41.
Qed.

Lemma show_vexpr_no41 : forall v, np_vexpr v = true -> no41 (show_vexpr v) = true.
Proof.
  intros [e|a] H; [discriminate|]. cbn [np_vexpr] in H.
  unfold show_vexpr. cbn [fmt_vexpr]. apply fmt_amount_no41. exact H.
Qed.

Lemma print_lot_no41 : forall l, np_lot l = true -> no41 (print_lot l) = true.
Proof.
  intros l H. unfold np_lot in H. hsplit. unfold print_lot.
  destruct (lot_note l); [discriminate|].
  np.
  - destruct (lot_price l) as [[e|e]|]; [| |reflexivity]; cbn [opt_all np_exchange] in *;
      np; apply show_vexpr_no41; assumption.
  - destruct (lot_date l); [|reflexivity]. np. apply fmt_date_no41.
Qed.

Lemma print_cost_no41 : forall c, opt_all np_exchange c = true -> no41 (print_cost c) = true.
Proof.
  intros [[v|v]|] H; [| |reflexivity]; cbn [opt_all np_exchange] in H; unfold print_cost;
    np; apply show_vexpr_no41; exact H.
Qed.

(* ---- metadata ---- *)
Lemma print_meta_value_no41 : forall v, np_meta_value v = true -> no41 (print_meta_value v) = true.
Proof. intros [s|s] H; cbn [np_meta_value] in H; unfold print_meta_value; np. Qed.

Lemma print_metadata_no41 : forall m, np_metadata m = true -> no41 (print_metadata m) = true.
Proof.
  intros [s|tags|k v] H; cbn [np_metadata] in H; unfold print_metadata.
  - exact H.
  - np. apply (no41_flat_map _ _ no41); [|exact H]. intros t Ht. np.
  - hsplit. np. apply print_meta_value_no41. assumption.
Qed.

Lemma meta_line_no41 : forall m, np_metadata m = true -> no41 (meta_line m) = true.
Proof. intros m H. unfold meta_line. np. apply print_metadata_no41. exact H. Qed.

Lemma meta_lines_no41 : forall ms, forallb np_metadata ms = true ->
  no41 (flat_map meta_line ms) = true.
Proof. intros ms H. apply (no41_flat_map _ _ np_metadata); [exact meta_line_no41|exact H]. Qed.

(* ---- postings and transactions ---- *)
Section WithWidth.
Variable w : str -> nat.

Lemma print_posting_amount_no41 : forall aw pa, np_posting_amount pa = true ->
  no41 (print_posting_amount aw pa) = true.
Proof.
  intros aw pa H. unfold np_posting_amount in H. hsplit. unfold print_posting_amount.
  change (fst (fmt_vexpr (pa_amount pa))) with (show_vexpr (pa_amount pa)).
  np.
  - apply spaces_no41.
  - apply show_vexpr_no41. assumption.
  - apply print_lot_no41. assumption.
  - apply print_cost_no41. assumption.
Qed.

Lemma print_posting_balance_no41 : forall p b, np_vexpr b = true ->
  no41 (print_posting_balance w p b) = true.
Proof.
  intros p b H. unfold print_posting_balance. np.
  - apply pad_left_no41. reflexivity.
  - apply show_vexpr_no41. exact H.
Qed.

Lemma posting_line_no41 : forall p, np_posting p = true -> no41 (posting_line w p) = true.
Proof.
  intros p H. unfold np_posting in H. hsplit. unfold posting_line. np.
  - apply clear_no41.
  - destruct (sp_amount p) as [pa|]; [|reflexivity].
    apply print_posting_amount_no41. assumption.
  - destruct (sp_balance p) as [b|]; [|reflexivity].
    apply print_posting_balance_no41. assumption.
Qed.

Lemma print_posting_no41 : forall p, np_posting p = true -> no41 (print_posting w p) = true.
Proof.
  intros p H. unfold print_posting. np.
  - apply posting_line_no41. exact H.
  - apply meta_lines_no41. unfold np_posting in H. hsplit. assumption.
Qed.

Lemma txn_header_no41 : forall t, np_txn t = true -> no41 (txn_header t) = true.
Proof.
  intros t H. unfold np_txn in H. hsplit. unfold txn_header.
  destruct (st_code t); [discriminate|]. np.
  - apply fmt_date_no41.
  - destruct (st_edate t); [|reflexivity]. np. apply fmt_date_no41.
  - apply clear_no41.
Qed.

Lemma print_txn_no41 : forall t, np_txn t = true -> no41 (print_txn w t) = true.
Proof.
  intros t H. unfold print_txn. np.
  - apply txn_header_no41. exact H.
  - apply meta_lines_no41. unfold np_txn in H. hsplit. assumption.
  - unfold np_txn in H. hsplit.
    apply (no41_flat_map _ _ np_posting); [exact print_posting_no41|assumption].
Qed.

End WithWidth.

(* ---- declarations ---- *)
Lemma print_account_detail_no41 : forall d, np_account_detail d = true ->
  no41 (print_account_detail d) = true.
Proof.
  intros [v|v|v] H; cbn [np_account_detail] in H; unfold print_account_detail.
  - apply line_wrap_no41; [reflexivity|exact H].
  - apply line_wrap_no41; [reflexivity|exact H].
  - np.
Qed.

Lemma print_commodity_detail_no41 : forall d, np_commodity_detail d = true ->
  no41 (print_commodity_detail d) = true.
Proof.
  intros [v|v|v|a] H; cbn [np_commodity_detail] in H; unfold print_commodity_detail.
  - apply line_wrap_no41; [reflexivity|exact H].
  - apply line_wrap_no41; [reflexivity|exact H].
  - np.
  - np. apply fmt_amount_no41. exact H.
Qed.

Theorem print_entry_no41 : forall w e, np_entry e = true -> no41 (print_entry w e) = true.
Proof.
  intros w [t|s|key value| |path|name ds|name ds] H; cbn [np_entry] in H; cbn [print_entry].
  - apply print_txn_no41. exact H.
  - apply line_wrap_no41; [reflexivity|exact H].
  - hsplit. np. destruct value as [v|]; [|reflexivity].
    apply print_meta_value_no41. assumption.
  - reflexivity.
  - np.
  - hsplit. np.
    apply (no41_flat_map _ _ np_account_detail); [exact print_account_detail_no41|assumption].
  - hsplit. np.
    apply (no41_flat_map _ _ np_commodity_detail); [exact print_commodity_detail_no41|assumption].
Qed.

Theorem format_entries_no41 : forall w es, forallb np_entry es = true ->
  no41 (format_entries w es) = true.
Proof.
  intros w es H. unfold format_entries.
  apply (no41_flat_map _ _ np_entry); [|exact H].
  intros e He. np. apply print_entry_no41. exact He.
Qed.

Print Assumptions format_entries_no41.
