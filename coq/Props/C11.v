(* C11 — includes expand in place, in order; splitting a ledger changes nothing.  Theorems only.
   Model: Model/Load.v (Loader::load_impl over an abstract file system), Model/Glob.v
   (glob::Pattern for literals, ? and * under okane's match options).
   Spec: Model/LoadSpec.v (expands, cut_of), Model/GlobSpec.v (gmatch). *)
From Coq Require Import List NArith Bool Sorting.Sorted.
From Okv Require Import Model.Glob Model.GlobSpec Model.Load Model.LoadSpec
  Proofs.GlobProofs Proofs.PathOrder Proofs.LoadProofs Proofs.LoadSplit Proofs.LoadCycle.
Import ListNotations.
Open Scope N_scope.

(* `loadc` is Loader::load_impl as it is, with its stack of files being loaded (the repair of the
   include-cycle defect F6); `load` is the same recursion without that check.  The theorems
   below are stated for `load`; C11_loader_agrees / C11_loader_iff_expands carry them over. *)

(* whatever a load delivers before ending normally is the expansion of the root *)
Theorem C11_load_sound : forall fs, wf_fs fs ->
  forall fuel p out, load fuel fs p = (out, Done) -> expands fs p out.
Proof. exact load_sound. Qed.
Print Assumptions C11_load_sound.

(* every expansion is what load delivers, from some fuel on (the fuel only bounds the include depth) *)
Theorem C11_load_complete : forall fs, wf_fs fs ->
  forall p out, expands fs p out -> exists n, forall f, (n <= f)%nat -> load f fs p = (out, Done).
Proof. exact load_complete. Qed.
Print Assumptions C11_load_complete.

Theorem C11_load_iff_expands : forall fs, wf_fs fs ->
  forall p out, (exists fuel, load fuel fs p = (out, Done)) <-> expands fs p out.
Proof. exact load_iff_expands. Qed.
Print Assumptions C11_load_iff_expands.

Theorem C11_expands_deterministic : forall fs, wf_fs fs ->
  forall p o1 o2, expands fs p o1 -> expands fs p o2 -> o1 = o2.
Proof. exact expands_deterministic. Qed.
Print Assumptions C11_expands_deterministic.

(* everything delivered — also before a failure — is a non-include entry of the file it is
   attributed to; the include line itself is never delivered *)
Theorem C11_include_never_delivered : forall fs fuel p x,
  In x (fst (load fuel fs p)) ->
  exists content, lookup (fst x) fs = Some content /\ In (Ent (snd x)) content.
Proof. exact include_never_delivered. Qed.
Print Assumptions C11_include_never_delivered.

(* the transcription of Pattern::matches_from decides the declarative match relation *)
Theorem C11_glob_decides : forall ts s, matches_with ts s = true <-> gmatch true ts s.
Proof. exact matches_with_iff. Qed.
Print Assumptions C11_glob_decides.

(* `*` and `?` never match "/": a matched path has exactly the pattern's literal separators *)
Theorem C11_glob_no_separator : forall ts s,
  matches_with ts s = true -> count_sep s = count_sep_tokens ts.
Proof. exact glob_no_separator. Qed.
Print Assumptions C11_glob_no_separator.

(* a dot at the start of a component is matched by a literal dot of the pattern, reached from
   the literal separator through stars that matched nothing: never by `?` or `*` *)
Theorem C11_glob_dotfiles : forall ts a b,
  matches_with ts (a ++ SLASH :: DOT :: b) = true ->
  exists ta stars tb, ts = ta ++ Char SLASH :: stars ++ Char DOT :: tb /\ all_seq stars /\
                      gmatch true ta a /\ gmatch false tb b.
Proof. exact glob_dotfiles. Qed.
Print Assumptions C11_glob_dotfiles.

Theorem C11_glob_dotfiles_start : forall ts b,
  matches_with ts (DOT :: b) = true ->
  exists stars tb, ts = stars ++ Char DOT :: tb /\ all_seq stars /\ gmatch false tb b.
Proof. exact glob_dotfiles_start. Qed.
Print Assumptions C11_glob_dotfiles_start.

(* known finding C11-K1: the in-memory file system lets "*.ledger" match a file named ".ledger"
   (the star matches nothing, the literal dot matches the leading dot); the real file system
   never lets a wildcard component match a dot-file.  Outside patterns with a star between a
   separator and a literal dot, a dot-file is only matched by a component that starts with a
   literal dot ... *)
Theorem C11_glob_dotfiles_component : forall ts a b,
  star_dot_free ts = true ->
  matches_with ts (a ++ SLASH :: DOT :: b) = true ->
  exists ta tb, ts = ta ++ Char SLASH :: Char DOT :: tb /\ gmatch true ta a /\ gmatch false tb b.
Proof. exact glob_dotfiles_component. Qed.
Print Assumptions C11_glob_dotfiles_component.

(* ... and inside them that is false *)
Theorem C11_glob_dotfiles_component_refuted :
  exists ts a b, parse_pattern [SLASH; 100; SLASH; STAR; DOT; 108] = Some ts /\
    matches_with ts (a ++ SLASH :: DOT :: b) = true /\
    ~ exists ta tb, ts = ta ++ Char SLASH :: Char DOT :: tb.
Proof. exact glob_dotfiles_component_refuted. Qed.
Print Assumptions C11_glob_dotfiles_component_refuted.

(* the files of an include are exactly the matching keys, visited in strictly increasing
   PathBuf (component-wise) order, one after the other *)
Theorem C11_sorted_visit : forall fs cp w ps,
  wf_fs fs -> include_targets fs cp w = inr ps ->
  StronglySorted path_lt ps /\ (forall k, In k ps <-> matching fs cp w k) /\
  forall ld r, load_entries ld fs cp (Inc w :: r) = then_ (load_all ld ps) (load_entries ld fs cp r).
Proof. exact sorted_visit. Qed.
Print Assumptions C11_sorted_visit.

(* component order is a strict total order, and differs from the byte order of the joined string *)
Theorem C11_path_order_total : forall a b, path_lt a b \/ a = b \/ path_lt b a.
Proof. exact path_lt_total. Qed.
Print Assumptions C11_path_order_total.

Theorem C11_path_order_not_string_order :
  path_cmp [[97]; [98]] [[97; 46; 120]] = Lt /\
  str_cmp (path_string [[97]; [98]]) (path_string [[97; 46; 120]]) = Gt.
Proof. exact component_order_vs_string_order. Qed.
Print Assumptions C11_path_order_not_string_order.

(* an include that matches no file ends the load with IO NotFound, after the entries before it *)
Theorem C11_empty_glob_is_error : forall fs cp w ts,
  target_tokens cp w = Some ts ->
  (forall k, In k (map fst fs) -> ~ gmatch true ts (path_string k)) ->
  forall ld pre post,
    (forall ps, include_targets fs cp w <> inr ps) /\
    load_entries ld fs cp (Inc w :: post) = ([], Failed IONotFound) /\
    snd (load_entries ld fs cp (pre ++ Inc w :: post)) <> Done /\
    (forall t, load_entries ld fs cp pre = (t, Done) ->
       load_entries ld fs cp (pre ++ Inc w :: post) = (t, Failed IONotFound)).
Proof. exact empty_glob_is_error. Qed.
Print Assumptions C11_empty_glob_is_error.

(* splitting: for every way of cutting the entry sequence L into a tree of files (cut_of:
   nested, through any written path, literal and glob includes alike), loading the root
   delivers exactly L, in order *)
Theorem C11_split_invariant : forall fs root L,
  wf_fs fs -> cut_of fs root L ->
  exists n, forall f, (n <= f)%nat ->
    exists out, load f fs root = (out, Done) /\ map snd out = L.
Proof. exact split_invariant. Qed.
Print Assumptions C11_split_invariant.

(* conversely a successful load is a cut of what it delivered, and the uncut ledger is a cut *)
Theorem C11_loaded_is_cut : forall fs root fuel out,
  wf_fs fs -> load fuel fs root = (out, Done) -> cut_of fs root (map snd out).
Proof. exact loaded_is_cut. Qed.
Print Assumptions C11_loaded_is_cut.

Theorem C11_uncut_is_cut : forall fs root L,
  In (canonicalize root, map Ent L) fs -> cut_of fs root L.
Proof. exact uncut_is_cut. Qed.
Print Assumptions C11_uncut_is_cut.

(* splitting step by step: moving a stretch B of the entries of the file p into a new file q and
   leaving `include w` in its place — w (literal or glob, through any directories) standing for
   exactly q, no older include matching q, the includes inside B keeping their meaning —
   delivers the same entries in the same order from every root.  (One new file per step; an
   include standing for several new files at once is covered by C11_split_invariant, whose
   cut_of treats literal and glob includes alike.) *)
Theorem C11_split_step : forall fs1 p q A B C w,
  wf_fs fs1 ->
  In (p, A ++ B ++ C) fs1 ->
  ~ In q (map fst fs1) ->
  canonicalize q = q ->
  include_targets (extract fs1 p q A C B w) p w = inr [q] ->
  (forall k content w' ts,
     In (k, content) fs1 -> In (Inc w') content -> target_tokens k w' = Some ts ->
     matches_with ts (path_string q) = false) ->
  (forall w', In (Inc w') B -> target_tokens q w' = target_tokens p w') ->
  forall root n out,
    load n fs1 root = (out, Done) ->
    exists N out', (forall m, (N <= m)%nat -> load m (extract fs1 p q A C B w) root = (out', Done)) /\
                   map snd out' = map snd out.
Proof. exact split_step. Qed.
Print Assumptions C11_split_step.

(* hence every tree obtained from the one-file ledger (C11_uncut_is_cut) by such steps is a cut of it *)
Theorem C11_cut_step : forall fs1 p q A B C w,
  wf_fs fs1 ->
  In (p, A ++ B ++ C) fs1 ->
  ~ In q (map fst fs1) ->
  canonicalize q = q ->
  include_targets (extract fs1 p q A C B w) p w = inr [q] ->
  (forall k content w' ts,
     In (k, content) fs1 -> In (Inc w') content -> target_tokens k w' = Some ts ->
     matches_with ts (path_string q) = false) ->
  (forall w', In (Inc w') B -> target_tokens q w' = target_tokens p w') ->
  forall root L, cut_of fs1 root L -> cut_of (extract fs1 p q A C B w) root L.
Proof. exact cut_step. Qed.
Print Assumptions C11_cut_step.

(* the loader with its cycle check: it never does more than the core ... *)
Theorem C11_loader_refines : forall fs n st p o,
  loadc n fs st p = (o, Done) -> load n fs p = (o, Done).
Proof. exact loadc_refines_load. Qed.
Print Assumptions C11_loader_refines.

(* ... and the check never fires on a load that ends normally *)
Theorem C11_loader_agrees : forall fs n p o,
  load n fs p = (o, Done) -> exists N, forall f, (N <= f)%nat -> loadc f fs [] p = (o, Done).
Proof. exact load_done_loadc. Qed.
Print Assumptions C11_loader_agrees.

Theorem C11_loader_iff_expands : forall fs, wf_fs fs ->
  forall p out, (exists fuel, loadc fuel fs [] p = (out, Done)) <-> expands fs p out.
Proof. exact loadc_iff_expands. Qed.
Print Assumptions C11_loader_iff_expands.

Theorem C11_loader_split_invariant : forall fs root L,
  wf_fs fs -> cut_of fs root L ->
  exists N, forall f, (N <= f)%nat -> exists out, loadc f fs [] root = (out, Done) /\ map snd out = L.
Proof. exact loadc_split_invariant. Qed.
Print Assumptions C11_loader_split_invariant.

(* including a file that is being loaded is an error (LoadError::IncludeCycle), not a recursion *)
Theorem C11_cycle_is_error : forall fs f st p,
  In (canonicalize p) st -> loadc (S f) fs st p = ([], Failed IncludeCycle).
Proof. exact cycle_is_error. Qed.
Print Assumptions C11_cycle_is_error.
