(* Correspondence classifier for C14: which file and which lines a diagnostic names.
   A case is the text of the file that contains the one invalid entry, where the harness put
   that entry (first/last line, index among the file's entries), and what the two legs showed:
   the Display chain of report::process on a FakeFileSystem, and `okane balance` stderr.
   Verdicts: 0 Agree | 1 ModelMismatch | 2 PropertyFail. *)
From Coq Require Import List NArith ZArith Bool.
From Okv Require Import Model.Lit Model.Syntax Model.Comb Model.ParseLedger.
Import ListNotations.
Open Scope N_scope.

Record diag := { d_named : bool;              (* a path is named *)
                 d_path_ok : bool;            (* every named path is the file with the bad entry *)
                 d_header : option (N * N);   (* line:col of the `-->` header *)
                 d_gutter : list N }.         (* line numbers shown in the gutter *)

Inductive fobs :=
| FAccepted | FPanic | FTimeout | FAbort
| FDiag (kind : N) (d : diag).               (* 1 LoadError::Parse, 2 ReportError::BookKeep, 0 other *)

Record case := { c_text : list N; c_kind : N; c_first : N; c_last : N; c_index : nat;
                 c_whole : bool;   (* the error kind annotates the whole entry, not a tracked span *)
                 c_fake : fobs; c_cli : fobs;
                 (* the built binary started in a chosen current directory with the root file named
                    by a relative path (one observation per spelling; [] = leg not run for the case);
                    d_path_ok there: the named path, resolved from that directory, IS the file *)
                 c_cmd : list fobs }.

Definition within (lo hi x : N) : bool := (lo <=? x) && (x <=? hi).

(* the property, on what was shown *)
Definition leg_spec (c : case) (f : fobs) : bool :=
  match f with
  | FDiag _ d =>
      d_named d && d_path_ok d &&
      forallb (within (c_first c) (c_last c)) (d_gutter d) &&
      match d_header d with Some (l, _) => within (c_first c) (c_last c) l | None => true end
  | _ => false
  end.
Definition spec_holds (c : case) : bool :=
  leg_spec c (c_fake c) && leg_spec c (c_cli c) && forallb (leg_spec c) (c_cmd c).

(* what the model says about the same file *)
Definition line_of (bs : list N) (pos : N) : N :=
  match compute_line_number bs pos with Some l => l | None => 0 end.

Definition tracked (p : pspans) : list span :=
  a_posting p :: a_account p ::
  (match a_amount p with Some t => [t] | None => [] end) ++
  (match a_cost p with Some t => [t] | None => [] end) ++
  (match a_lot_price p with Some t => [t] | None => [] end) ++
  (match a_balance p with Some t => [t] | None => [] end).

Definition leg_model (c : case) (f : fobs) : bool :=
  let bs := utf8_encode (c_text c) in
  match f with
  | FDiag k d =>
      match parse_ledger (c_text c) with
      | LErr es e =>
          (* a syntax error: the annotated line is the line of the offset where parsing stopped *)
          let stop := line_of bs (pe_text_start e + fst (pe_span e)) in
          (k =? 1) && (c_kind c =? 1) && Nat.eqb (length es) (c_index c) &&
          within (c_first c) (c_last c) stop &&
          forallb (within (pe_line_start e) stop) (d_gutter d) &&
          (match d_gutter d with [] => true | _ => existsb (N.eqb stop) (d_gutter d) end)
      | LOk es =>
          match nth_error es (c_index c) with
          | Some e =>
              let last := line_of bs (snd (e_span e) - 1) in
              (k =? 2) && (c_kind c =? 2) && (e_line_start e =? c_first c) && (last =? c_last c) &&
              forallb (within (e_line_start e) last) (d_gutter d) &&
              match d_header d with
              | Some (l, _) =>
                  (* the header names the line of the primary annotation: the start of the entry,
                     or the start of one of its tracked spans *)
                  if c_whole c then l =? e_line_start e
                  else existsb (fun p => existsb (fun t => l =? line_of bs (fst t)) (tracked p)) (e_spans e)
              | None => false
              end
          | None => false
          end
      | _ => false
      end
  | _ => false
  end.

Definition classify (c : case) : N :=
  if negb (spec_holds c) then 2
  else if leg_model c (c_fake c) && leg_model c (c_cli c) && forallb (leg_model c) (c_cmd c) then 0 else 1.

Definition verdicts (cs : list case) : list N := map classify cs.
