(* Evaluation lemmas for the parser combinators on a known prefix of the input: the toolbox of
   the C05 print-parse round trip (Proofs/RoundTrip*.v). *)
From Coq Require Import List NArith ZArith Bool Lia Arith.
From Okv Require Import Model.Lit Model.Syntax Model.Comb Model.ParseExpr Model.ParseMeta
  Model.Display Model.DocGrammar Model.RoundTripSpec Proofs.CombSpec Proofs.DocAccept.
Import ListNotations.
Open Scope N_scope.

(* ---- booleans on strings ---- *)
Lemma str_eqb_eq : forall a b, str_eqb a b = true <-> a = b.
Proof.
  induction a as [| x a IH]; destruct b as [| y b]; simpl; split; intros H; try discriminate; auto.
  - apply andb_true_iff in H. destruct H as [H1 H2]. apply N.eqb_eq in H1. apply IH in H2. now subst.
  - inversion H; subst. rewrite N.eqb_refl. simpl. now apply IH.
Qed.

Lemma all_forallb : forall f l, all f l <-> forallb f l = true.
Proof. intros; unfold all; tauto. Qed.

Lemma all_nil : forall f, all f []. Proof. reflexivity. Qed.

Lemma all_impl : forall (f g : N -> bool) l, (forall c, f c = true -> g c = true) -> all f l -> all g l.
Proof.
  intros f g l H. unfold all. rewrite !forallb_forall. intros A c Hc. auto.
Qed.

Lemma all_repeat : forall f c n, f c = true -> all f (repeat c n).
Proof. intros f c n H. induction n; simpl; [reflexivity |]. apply all_cons; auto. Qed.

Lemma starts_not_cons : forall f c k, f c = false -> starts_not f (c :: k).
Proof. intros; exact H. Qed.

Lemma starts_false_not : forall f s, starts f s = false -> starts_not f s.
Proof. intros f [| c s] H; [exact I | exact H]. Qed.

(* ---- blanks ---- *)
Lemma sp_spaces : forall n, all is_sp (spaces n).
Proof. intros; apply all_repeat; reflexivity. Qed.

Lemma skip_sp_all : forall s k, all is_sp s -> starts_not is_sp k -> skip_sp (s ++ k) = k.
Proof. intros s k Hs Hk. unfold skip_sp. rewrite (span_while_all _ _ _ Hs Hk). reflexivity. Qed.

Lemma skip_sp_id : forall k, starts_not is_sp k -> skip_sp k = k.
Proof. intros k Hk. apply (skip_sp_all [] k (all_nil _) Hk). Qed.

Lemma skip_sp_starts_not : forall k, starts_not is_sp (skip_sp k).
Proof.
  intros k. unfold skip_sp. destruct (span_while_split is_sp k) as (a & b & E & _ & _ & Hb).
  rewrite E. exact Hb.
Qed.

Lemma skip_sp_app : forall s k, all is_sp s -> skip_sp (s ++ k) = skip_sp k.
Proof.
  intros s k Hs. unfold skip_sp at 2.
  destruct (span_while_split is_sp k) as (a & b & E & -> & Ha & Hb). rewrite E. simpl snd.
  rewrite app_assoc. apply skip_sp_all; [apply all_app; auto | exact Hb].
Qed.

Lemma skip_sp_idem : forall k, skip_sp (skip_sp k) = skip_sp k.
Proof. intros; apply skip_sp_id, skip_sp_starts_not. Qed.

Lemma skip_sp_cons : forall k, skip_sp (32 :: k) = skip_sp k.
Proof. intros. apply (skip_sp_app [32] k). reflexivity. Qed.

Lemma skip_sp_spaces : forall n k, skip_sp (spaces n ++ k) = skip_sp k.
Proof. intros. apply skip_sp_app, sp_spaces. Qed.

Lemma skip_sp_suffix : forall k, suffix (skip_sp k) k.
Proof.
  intros k. unfold skip_sp. destruct (span_while_split is_sp k) as (a & b & E & -> & _ & _).
  rewrite E. now exists a.
Qed.

Lemma skip_sp_length : forall k, (length (skip_sp k) <= length k)%nat.
Proof. intros; apply suffix_length, skip_sp_suffix. Qed.

Lemma space0_skip : forall i, exists s, space0 i = POk s (skip_sp i).
Proof.
  intros i. unfold space0, take_while0, skip_sp. destruct (span_while is_sp i). eauto.
Qed.

Lemma space1_skip : forall s i, s <> [] -> all is_sp s -> exists s', space1 (s ++ i) = POk s' (skip_sp i).
Proof.
  intros s i Hne Hs. unfold space1, take_while1.
  destruct (span_while_split is_sp i) as (a & b & E & -> & Ha & Hb).
  unfold skip_sp. rewrite E. simpl snd. rewrite app_assoc.
  rewrite (span_while_all is_sp (s ++ a) b); [| apply all_app; auto | exact Hb].
  destruct s; [congruence |]. simpl. eauto.
Qed.

(* ---- single characters and literals ---- *)
Lemma chr_ok : forall c r, chr c (c :: r) = POk c r.
Proof. intros. unfold chr, one_of. rewrite N.eqb_refl. reflexivity. Qed.

Lemma chr_fail : forall c i, starts_not (N.eqb c) i -> chr c i = PErr false 0 i.
Proof.
  intros c [| d r] H; [reflexivity |]. unfold chr, one_of. simpl in H. rewrite H. reflexivity.
Qed.

Lemma one_of_ok : forall f c r, f c = true -> one_of f (c :: r) = POk c r.
Proof. intros. unfold one_of. rewrite H. reflexivity. Qed.

Lemma one_of_fail : forall f i, starts_not f i -> one_of f i = PErr false 0 i.
Proof. intros f [| d r] H; [reflexivity |]. unfold one_of. simpl in H. rewrite H. reflexivity. Qed.

Lemma literal_fail1 : forall c l i, starts_not (N.eqb c) i -> literal (c :: l) i = PErr false 0 i.
Proof.
  intros c l [| d r] H; [reflexivity |]. unfold literal. simpl in *. rewrite H. reflexivity.
Qed.

(* ---- scanning ---- *)
Lemma take_while0_ok : forall f a k, all f a -> starts_not f k -> take_while0 f (a ++ k) = POk a k.
Proof. intros. unfold take_while0. rewrite (span_while_all f a k); auto. Qed.

Lemma take_while1_ok : forall f a k, a <> [] -> all f a -> starts_not f k -> take_while1 f (a ++ k) = POk a k.
Proof.
  intros. unfold take_while1. rewrite (span_while_all f a k); auto. destruct a; [congruence | reflexivity].
Qed.

Lemma take_while1_fail : forall f i, starts_not f i -> take_while1 f i = PErr false 0 i.
Proof.
  intros f [| c r] H; [reflexivity |]. unfold take_while1. simpl in *. rewrite H. reflexivity.
Qed.

Lemma take_till0_ok : forall f a k, all (fun c => negb (f c)) a -> starts_not (fun c => negb (f c)) k ->
  take_till0 f (a ++ k) = POk a k.
Proof. intros. unfold take_till0. now apply take_while0_ok. Qed.

Lemma take_till1_ok : forall f a k, a <> [] -> all (fun c => negb (f c)) a ->
  starts_not (fun c => negb (f c)) k -> take_till1 f (a ++ k) = POk a k.
Proof. intros. unfold take_till1. now apply take_while1_ok. Qed.

Lemma take_till1_fail : forall f i, starts_not (fun c => negb (f c)) i -> take_till1 f i = PErr false 0 i.
Proof. intros. unfold take_till1. now apply take_while1_fail. Qed.

(* ---- decoration ---- *)
Lemma firstn_app_exact : forall (a k : list N), firstn (length (a ++ k) - length k) (a ++ k) = a.
Proof.
  intros. rewrite app_length. replace (length a + length k - length k)%nat with (length a + 0)%nat by lia.
  rewrite firstn_app_2. simpl. apply app_nil_r.
Qed.

Lemma taken_ok : forall A (p : parser A) a k x, p (a ++ k) = POk x k -> taken p (a ++ k) = POk a k.
Proof. intros. unfold taken. rewrite H. rewrite firstn_app_exact. reflexivity. Qed.

Lemma with_span_ok : forall A (p : parser A) i x r, p i = POk x r ->
  with_span p i = POk (x, (utf8_len i, utf8_len r)) r.
Proof. intros. unfold with_span. rewrite H. reflexivity. Qed.

Lemma opt_ok : forall A (p : parser A) i x r, p i = POk x r -> opt p i = POk (Some x) r.
Proof. intros. unfold opt. rewrite H. reflexivity. Qed.
Lemma opt_none : forall A (p : parser A) i l r, p i = PErr false l r -> opt p i = POk None i.
Proof. intros. unfold opt. rewrite H. reflexivity. Qed.

Lemma has_peek_true : forall A (p : parser A) i x r, p i = POk x r -> has_peek p i = POk true i.
Proof. intros. unfold has_peek, pmap, bind, peek, opt, ret. rewrite H. reflexivity. Qed.
Lemma has_peek_false : forall A (p : parser A) i l r, p i = PErr false l r -> has_peek p i = POk false i.
Proof. intros. unfold has_peek, pmap, bind, peek, opt, ret. rewrite H. reflexivity. Qed.

Lemma alt_l : forall A (p q : parser A) i x r, p i = POk x r -> alt p q i = POk x r.
Proof. intros. unfold alt. rewrite H. reflexivity. Qed.
Lemma alt_r : forall A (p q : parser A) i l r, p i = PErr false l r -> alt p q i = q i.
Proof. intros. unfold alt. rewrite H. reflexivity. Qed.

Lemma context_ok : forall A lbl (p : parser A) i x r, p i = POk x r -> context lbl p i = POk x r.
Proof. intros. unfold context. rewrite H. reflexivity. Qed.
Lemma cut_err_ok : forall A (p : parser A) i x r, p i = POk x r -> cut_err p i = POk x r.
Proof. intros. unfold cut_err. rewrite H. reflexivity. Qed.
Lemma pmap_ok : forall A B (f : A -> B) (p : parser A) i x r, p i = POk x r -> pmap f p i = POk (f x) r.
Proof. intros. unfold pmap, bind, ret. rewrite H. reflexivity. Qed.
Lemma pmap_err : forall A B (f : A -> B) (p : parser A) i c l r, p i = PErr c l r -> pmap f p i = PErr c l r.
Proof. intros. unfold pmap, bind. rewrite H. reflexivity. Qed.
Lemma bind_err : forall A B (p : parser A) (k : A -> parser B) i c l r,
  p i = PErr c l r -> bind p k i = PErr c l r.
Proof. intros. unfold bind. rewrite H. reflexivity. Qed.

(* ---- repetition ---- *)
Lemma many0_stop : forall A f (p : parser A) i l r, p i = PErr false l r -> many0 f p i = POk [] i.
Proof. intros. destruct f; simpl; rewrite H; reflexivity. Qed.

Lemma many0_step : forall A f (p : parser A) i a r l r',
  p i = POk a r -> (length r < length i)%nat -> many0 f p r = POk l r' ->
  many0 (S f) p i = POk (a :: l) r'.
Proof. intros. simpl. rewrite H. rewrite consumed_true by assumption. rewrite H1. reflexivity. Qed.

(* ---- line ends ---- *)
Lemma ends_lf : forall k, ends (10 :: k) k.
Proof. intros; left; reflexivity. Qed.

Lemma length_app_lt : forall (a k : list N), a <> [] -> (length k < length (a ++ k))%nat.
Proof. intros a k H. rewrite app_length. destruct a; [congruence | simpl; lia]. Qed.
