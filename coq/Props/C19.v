(* C19 — formatted postings are laid out in aligned columns.  Theorems only.
   Model: Model/Display.v (display.rs as repaired by the fix: commit for F11); vocabulary:
   Model/DisplaySpec.v.  `w` is the display-width oracle (unicode-width's width_cjk); every
   theorem holds for every oracle, `ascii_width_ok` is assumed only where it is written. *)
From Coq Require Import List NArith ZArith Bool Arith.
From Okv Require Import Model.Lit Model.Syntax Model.Display Model.DisplaySpec.
From Okv Require Import Proofs.DisplayExpr Proofs.DisplayLayout Proofs.DisplayLines Proofs.DisplayExamples.
Import ListNotations.
Open Scope N_scope.

(* A transaction whose single-line fields are single lines (txn_ok; the parser returns nothing
   else) prints as its header line followed by lines indented by exactly four spaces: a posting
   line continues with a non-space character, a metadata line with ";". *)
Theorem C19_indent : forall w t, txn_ok t = true ->
  print_txn w t = unlines (txn_lines w t) /\
  Forall proper_line (txn_lines w t) /\
  (forall p, In p (st_posts t) ->
     indent4_nonspace (posting_line w p) /\
     Forall indent4_semicolon (map meta_text (sp_metadata p))) /\
  Forall indent4_semicolon (map meta_text (st_metadata t)).
Proof. exact txn_indent. Qed.
Print Assumptions C19_indent.

(* Whatever follows the account on a posting line (amount, or "=" of a balance-only posting) is
   separated from it by at least two spaces — for every account width (F11 repaired). *)
Theorem C19_min_two_spaces : forall w p,
  (sp_amount p <> None \/ sp_balance p <> None) ->
  exists k c rest,
    posting_line w p = spaces 4 ++ mark p ++ sp_account p ++ spaces k ++ c :: rest /\
    (2 <= k)%nat /\ c <> 32.
Proof. exact min_two_spaces. Qed.
Print Assumptions C19_min_two_spaces.

(* The gap before the amount is get_column 48 (aw + al) 2, al being the length of the text up to
   the end of the number of the first commodity-bearing literal; when aw + al + 2 < 48 that number
   ends at display column 52. *)
Theorem C19_amount_column : forall w p pa,
  sp_amount p = Some pa ->
  let aw := account_width w p in
  let pre := vexpr_align_prefix (pa_amount pa) in
  let pad := get_column 48 (aw + length pre) 2 in
  (exists rest,
     posting_line w p = spaces 4 ++ mark p ++ sp_account p ++ spaces pad ++ pre ++ rest) /\
  pad = (if (aw + length pre + 2 <? 48)%nat then (48 - (aw + length pre))%nat else 2%nat) /\
  ((aw + length pre + 2 < 48)%nat -> (4 + aw + pad + length pre = 52)%nat) /\
  (ascii_width_ok w -> (aw + length pre + 2 < 48)%nat ->
     (4 + length (mark p) + w (sp_account p) + w (spaces pad ++ pre) = 52)%nat).
Proof. exact amount_column. Qed.
Print Assumptions C19_amount_column.

(* A posting with only a balance assertion: "=" is preceded by get_column (50 + trailing) aw 3 - 1
   spaces, trailing being the display width of the printed balance beyond its alignment point;
   when aw + 3 < 50 + trailing, "=" is at display column 54 + trailing. *)
Theorem C19_balance_only : forall w p b,
  sp_amount p = None -> sp_balance p = Some b ->
  let aw := account_width w p in
  let trailing := balance_trailing w b in
  let bp := get_column (50 + trailing) aw 3 in
  posting_line w p = spaces 4 ++ mark p ++ sp_account p ++ spaces (bp - 1) ++ [61; 32] ++ show_vexpr b /\
  bp = (if (aw + 3 <? 50 + trailing)%nat then (50 + trailing - aw)%nat else 3%nat) /\
  (2 <= bp - 1)%nat /\
  ((aw + 3 < 50 + trailing)%nat -> (4 + aw + (bp - 1) + 1 = 54 + trailing)%nat).
Proof. exact balance_only. Qed.
Print Assumptions C19_balance_only.

(* ... which is the column "=" has after an amount written as the same expression (no lot, no
   cost) in the regime where amounts are aligned. *)
Theorem C19_balance_only_matches_amount : forall w p pa b,
  sp_amount p = Some pa -> sp_balance p = Some b ->
  pa_cost pa = None -> pa_lot pa = no_lot ->
  let aw := account_width w p in
  let al := align_vexpr (pa_amount pa) in
  let pad := get_column 48 (aw + al) 2 in
  posting_line w p =
    spaces 4 ++ mark p ++ sp_account p ++ spaces pad ++ show_vexpr (pa_amount pa) ++
    [32; 61; 32] ++ show_vexpr b /\
  ((aw + al + 2 < 48)%nat -> balance_underflow w (pa_amount pa) = false ->
   (4 + aw + pad + w (show_vexpr (pa_amount pa)) + 2 = 54 + balance_trailing w (pa_amount pa))%nat).
Proof. exact balance_after_amount. Qed.
Print Assumptions C19_balance_only_matches_amount.

(* The alignment computed by fmt_with_alignment is the length of the text up to the end of the
   number of the first literal that carries a commodity (the whole text when none does); nothing
   but digits , . - + * / ( ) and spaces precedes that point. *)
Theorem C19_alignment_is_first_number : forall v,
  show_vexpr v = toks_text (toks_v v) /\
  align_vexpr v = length (vexpr_align_prefix v) /\
  (exists rest, show_vexpr v = vexpr_align_prefix v ++ rest) /\
  forallb expr_punct (vexpr_align_prefix v) = true /\
  (has_comm (toks_v v) = true ->
     exists pre a post, toks_v v = pre ++ TLit a :: post /\ has_comm pre = false /\
                        has_commodity a = true /\
                        vexpr_align_prefix v = toks_text pre ++ lit_number a) /\
  (has_comm (toks_v v) = false -> vexpr_align_prefix v = show_vexpr v).
Proof. exact alignment_is_first_number. Qed.
Print Assumptions C19_alignment_is_first_number.

(* The number part is ASCII: the oracle gives it its length. *)
Theorem C19_number_width : forall w d, ascii_width_ok w -> w (show d) = length (show d).
Proof. exact number_width. Qed.
Print Assumptions C19_number_width.

(* On printable ASCII the width subtraction of the balance column cannot underflow. *)
Theorem C19_ascii_no_underflow : forall w b,
  ascii_width_ok w -> printable_ascii (show_vexpr b) = true -> balance_underflow w b = false.
Proof. exact ascii_no_underflow. Qed.
Print Assumptions C19_ascii_no_underflow.

(* format: the text is the lines of every entry, each entry closed by one empty line; an entry
   has at least one line, its lines are proper (not empty, no line end inside), and its own text
   ends with a line end — so empty lines occur exactly once after every entry. *)
Theorem C19_one_blank_line : forall w es, forallb entry_ok es = true ->
  format_entries w es = unlines (flat_map (fun e => entry_lines w e ++ [[]]) es) /\
  Forall (fun e => entry_lines w e <> [] /\ Forall proper_line (entry_lines w e) /\
                   exists body, print_entry w e = body ++ [10]) es.
Proof. exact one_blank_line. Qed.
Print Assumptions C19_one_blank_line.

(* the lines of a text are determined by the text *)
Theorem C19_lines_unique : forall a b,
  Forall (fun l => one_line l = true) a -> Forall (fun l => one_line l = true) b ->
  unlines a = unlines b -> a = b.
Proof. exact unlines_inj. Qed.
Print Assumptions C19_lines_unique.

(* Every metadata of a transaction or of one of its postings is one line of the text:
   four spaces, "; " and the metadata. *)
Theorem C19_metadata_indent : forall w t m,
  (In m (st_metadata t) \/ exists p, In p (st_posts t) /\ In m (sp_metadata p)) ->
  In (meta_text m) (txn_lines w t) /\
  meta_text m = spaces 4 ++ [59; 32] ++ print_metadata m.
Proof. exact metadata_indent. Qed.
Print Assumptions C19_metadata_indent.
