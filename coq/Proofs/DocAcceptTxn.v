(* Texts of the documented grammar of transactions (Model/DocGrammarTxn.v) are accepted by the
   parser model.  Stage 1: value expressions.  Stage 2: posting lines with their metadata
   lines.  Stage 3: transactions.  Stage 4: whole files (parse_ledger returns LOk). *)
From Coq Require Import List NArith ZArith Bool Lia Arith ZifyBool ZifyN ZifyNat.
From Okv Require Import Model.Lit Model.LitSpec Model.Syntax Model.Comb Model.ParseExpr Model.ParseMeta
  Model.ParsePosting Model.ParseTxn Model.ParseDirective Model.ParseLedger Model.DocGrammar
  Model.RoundTripSpec Model.DocGrammarTxn
  Proofs.LitProofs Proofs.CombSpec Proofs.ParseExprErase Proofs.ParseSafe Proofs.ParseTotal Proofs.DocAccept
  Proofs.RoundTripBase Proofs.RoundTripNum Proofs.RoundTripExpr Proofs.RoundTripLot Proofs.RoundTripMeta
  Proofs.RoundTripPosting Proofs.RoundTripTxn.
Import ListNotations.
Open Scope N_scope.

(* ================================================================================== *)
(* Stage 1: value expressions                                                          *)
(* ================================================================================== *)

(* ---- character facts ---- *)
Lemma sp_cases : forall c, is_sp c = true -> c = 32 \/ c = 9.
Proof. intros c H. unfold is_sp in H. lia. Qed.

Lemma sp_not_decimal : forall c, is_sp c = true -> is_decimal_char c = false.
Proof. intros c H. destruct (sp_cases c H) as [-> | ->]; reflexivity. Qed.
Lemma sp_non_commodity : forall c, is_sp c = true -> is_non_commodity c = true.
Proof. intros c H. destruct (sp_cases c H) as [-> | ->]; reflexivity. Qed.

Lemma decimal_cases : forall c, is_decimal_char c = true -> (48 <= c <= 57) \/ c = 44 \/ c = 46.
Proof. intros c H. unfold is_decimal_char, Comb.is_digit in H. lia. Qed.

Lemma decimal_non_commodity : forall c, is_decimal_char c = true -> is_non_commodity c = true.
Proof.
  intros c H. destruct (decimal_cases c H) as [R | [-> | ->]]; [| reflexivity | reflexivity].
  assert (C : c = 48 \/ c = 49 \/ c = 50 \/ c = 51 \/ c = 52 \/ c = 53 \/ c = 54 \/ c = 55 \/ c = 56 \/ c = 57) by lia.
  repeat (destruct C as [-> | C]; [reflexivity |]). subst. reflexivity.
Qed.

Lemma commodity_not_decimal : forall c, commodity_char c = true -> is_decimal_char c = false.
Proof.
  intros c H. destruct (is_decimal_char c) eqn:E; [| reflexivity].
  unfold commodity_char in H. rewrite (decimal_non_commodity c E) in H. discriminate.
Qed.
Lemma commodity_not_sp : forall c, commodity_char c = true -> is_sp c = false.
Proof.
  intros c H. destruct (is_sp c) eqn:E; [| reflexivity].
  unfold commodity_char in H. rewrite (sp_non_commodity c E) in H. discriminate.
Qed.

(* the first character of a text *)
Definition head_in (f : N -> bool) (x : list N) : Prop := exists c r, x = c :: r /\ f c = true.

(* what an expression can start with: a digit , . - ( *)
Definition is_expr_head (c : N) : bool := is_decimal_char c || (c =? 45) || (c =? 40).

Lemma expr_head_cases : forall c, is_expr_head c = true ->
  (48 <= c <= 57) \/ c = 44 \/ c = 46 \/ c = 45 \/ c = 40.
Proof. intros c H. unfold is_expr_head, is_decimal_char, Comb.is_digit in H. lia. Qed.

Lemma expr_head_sp : forall c, is_expr_head c = true -> is_sp c = false.
Proof. intros c H. apply expr_head_cases in H. unfold is_sp. lia. Qed.

Lemma head_in_app : forall f x y, head_in f x -> head_in f (x ++ y).
Proof. intros f x y (c & r & -> & H). exists c, (r ++ y). split; [reflexivity | exact H]. Qed.

Lemma head_not_sp : forall x y, head_in is_expr_head x -> starts_not is_sp (x ++ y).
Proof. intros x y (c & r & -> & H). simpl. apply expr_head_sp. exact H. Qed.

(* ---- the shape of a numeric literal ---- *)
Lemma strip_shape : forall l ng body, strip l = (ng, body) -> l = (if ng then [45] else []) ++ body.
Proof.
  intros [| x r] ng body H; unfold strip in H.
  - inversion H; subst. reflexivity.
  - destruct (N.eqb_spec x 45) as [-> | Hx]; inversion H; subst; reflexivity.
Qed.

Lemma strip_no_minus : forall b, starts_not (N.eqb 45) b -> strip b = (false, b).
Proof.
  intros [| x r] H; [reflexivity |]. unfold starts_not in H. unfold strip. rewrite N.eqb_sym, H. reflexivity.
Qed.

Lemma Groups_shape : forall l gs r2, Groups l gs r2 -> exists g, l = g ++ r2 /\ all is_decimal_char g.
Proof.
  intros l gs r2 H. induction H as [l Hs | a b c r gs rest Ha Hb Hc HG (g & -> & Hg)].
  - exists []. split; reflexivity.
  - exists (44 :: a :: b :: c :: g). split; [reflexivity |].
    apply all_cons. split; [reflexivity |].
    change (a :: b :: c :: g) with ([a; b; c] ++ g). apply all_app. split; [| exact Hg].
    apply dig_dec. repeat constructor; assumption.
Qed.

Lemma tail_inv : forall ng ip gs r2 t, tail ng ip gs r2 = Some t ->
  l_neg t = ng /\
  (forall ng', tail ng' ip gs r2 =
               Some {| l_neg := ng'; l_int := l_int t; l_frac := l_frac t; l_grouped := l_grouped t |}) /\
  ((r2 = [] /\ ip <> []) \/ (exists fp, r2 = 46 :: fp /\ all is_decimal_char fp)).
Proof.
  intros ng ip gs [| x r3] t H; cbn [tail] in *.
  - destruct (nonempty ip) eqn:E; [| discriminate]. inversion H; subst. cbn.
    split; [reflexivity |]. split; [intros; reflexivity |]. left. split; [reflexivity |].
    destruct ip; [discriminate | discriminate].
  - destruct (N.eqb_spec x 46) as [-> | Hx]; [| discriminate].
    destruct (span_digits r3) as [fp r4] eqn:Ed. destruct r4; [| discriminate].
    destruct (nonempty (ip ++ fp)) eqn:E; [| discriminate]. inversion H; subst. cbn.
    split; [reflexivity |]. split; [intros; reflexivity |]. right.
    destruct (span_digits_spec _ _ _ Ed) as (E1 & E2 & _). rewrite app_nil_r in E1. subst r3.
    exists fp. split; [reflexivity | apply dig_dec; exact E2].
Qed.

Lemma decimal_not_minus : forall c, is_decimal_char c = true -> (45 =? c) = false.
Proof. intros c H. apply decimal_cases in H. lia. Qed.

Lemma lit_shape : forall l t, spec_scan l = Some t ->
  exists body, l = (if l_neg t then [45] else []) ++ body /\ head_in is_decimal_char body /\
               all is_decimal_char body /\
               spec_scan body = Some {| l_neg := false; l_int := l_int t; l_frac := l_frac t;
                                        l_grouped := l_grouped t |}.
Proof.
  intros l t H. pose proof H as H0. rewrite spec_scan_eq in H.
  destruct (strip l) as [ng body] eqn:Hs.
  destruct (span_digits body) as [g0 r1] eqn:Hd.
  destruct (if (1 <=? length g0)%nat && (length g0 <=? 3)%nat then groups r1 else ([], r1)) as [gs r2] eqn:Hg.
  destruct (tail_inv _ _ _ _ _ H) as (Hn & Hany & Hr2).
  destruct (span_digits_spec _ _ _ Hd) as (Eb & Dg0 & _).
  assert (G : exists g, r1 = g ++ r2 /\ all is_decimal_char g /\ (g0 = [] -> g = [] /\ gs = [])).
  { destruct ((1 <=? length g0)%nat && (length g0 <=? 3)%nat) eqn:C.
    - destruct (Groups_shape _ _ _ (groups_Groups _ _ _ Hg)) as (g & E & A). exists g.
      split; [exact E |]. split; [exact A |]. intros ->. simpl in C. discriminate.
    - inversion Hg; subst. exists []. split; [reflexivity |]. split; [reflexivity |]. auto. }
  destruct G as (g & Er1 & Ag & Hg0).
  assert (Ab : all is_decimal_char body).
  { rewrite Eb, Er1. apply all_app. split; [apply dig_dec; exact Dg0 |]. apply all_app. split; [exact Ag |].
    destruct Hr2 as [[-> _] | (fp & -> & Afp)]; [reflexivity |]. apply all_cons. split; [reflexivity | exact Afp]. }
  assert (Nb : body <> []).
  { rewrite Eb, Er1. destruct Hr2 as [[-> Hip] | (fp & -> & _)].
    - destruct g0 as [| c g0']; [| discriminate]. destruct (Hg0 eq_refl) as [-> ->]. simpl in Hip. congruence.
    - destruct g0; [destruct g |]; discriminate. }
  assert (Hb : head_in is_decimal_char body).
  { destruct body as [| c b']; [congruence |]. apply all_cons in Ab. exists c, b'. split; [reflexivity | tauto]. }
  exists body. rewrite Hn. split; [apply strip_shape; exact Hs |]. split; [exact Hb |]. split; [exact Ab |].
  rewrite spec_scan_eq.
  assert (S0 : strip body = (false, body)).
  { apply strip_no_minus. destruct Hb as (c & b' & -> & Hc). simpl. apply decimal_not_minus. exact Hc. }
  rewrite S0, Hd, Hg. apply Hany.
Qed.

Lemma doc_decimal_shape : forall l, doc_decimal l ->
  exists body, (l = body \/ l = 45 :: body) /\ head_in is_decimal_char body /\ all is_decimal_char body /\
               doc_decimal body.
Proof.
  intros l (t & Ht & Hf). destruct (lit_shape l t Ht) as (body & E & Hh & Ha & Hs).
  exists body. split; [destruct (l_neg t); [right | left]; exact E |]. split; [exact Hh |]. split; [exact Ha |].
  eexists. split; [exact Hs |]. exact Hf.
Qed.

Definition is_lit_head (c : N) : bool := is_decimal_char c || (c =? 45).

Lemma doc_decimal_head : forall l, doc_decimal l -> head_in is_lit_head l.
Proof.
  intros l H. destruct (doc_decimal_shape l H) as (body & [-> | ->] & (c & r & -> & Hc) & _).
  - exists c, r. split; [reflexivity |]. unfold is_lit_head. rewrite Hc. reflexivity.
  - exists 45, (c :: r). split; reflexivity.
Qed.

Lemma head_in_impl : forall (f g : N -> bool) x, (forall c, f c = true -> g c = true) -> head_in f x -> head_in g x.
Proof. intros f g x H (c & r & -> & Hc). exists c, r. split; [reflexivity | auto]. Qed.

Lemma lit_head_expr : forall c, is_lit_head c = true -> is_expr_head c = true.
Proof. intros c H. unfold is_expr_head. fold (is_lit_head c). rewrite H. reflexivity. Qed.
Lemma lit_head_not_paren : forall c, is_lit_head c = true -> (c =? 40) = false.
Proof. intros c H. unfold is_lit_head, is_decimal_char, Comb.is_digit in H. lia. Qed.

(* ---- the number token ---- *)
Lemma decimal_token_lit : forall l y, doc_decimal l -> starts_not is_decimal_char y ->
  decimal_token (l ++ y) = POk l y.
Proof.
  intros l y H Hy. destruct (doc_decimal_shape l H) as (body & El & (c & b' & Eb & Hc) & Ab & _).
  unfold decimal_token, try_map.
  assert (E : exists x, (opt (chr 45) ;;; take_while0 is_decimal_char) (l ++ y) = POk x y).
  { exists body. unfold bind. destruct El as [-> | ->].
    - assert (F : chr 45 (body ++ y) = PErr false 0 (body ++ y)).
      { apply chr_fail. rewrite Eb. simpl. apply decimal_not_minus. exact Hc. }
      rw (opt_none _ _ _ _ _ F). apply take_while0_ok; assumption.
    - cbn [app]. rw (opt_ok _ (chr 45) _ _ _ (chr_ok 45 (body ++ y))). apply take_while0_ok; assumption. }
  destruct E as [x E]. rewrite (taken_ok _ _ _ _ _ E).
  destruct l; [| reflexivity]. destruct El as [El | El]; [| discriminate]. subst body. discriminate.
Qed.

Lemma pretty_decimal_lit : forall l y, doc_decimal l -> starts_not is_decimal_char y ->
  exists d, pretty_decimal (l ++ y) = POk d y.
Proof.
  intros l y H Hy. pose proof (decimal_token_lit l y H Hy) as E. destruct H as (t & Ht & Hf).
  exists (pdec_of t). unfold pretty_decimal, try_map. rewrite E.
  rewrite (wf_accepted l t Ht), Hf. reflexivity.
Qed.

(* ---- what the parser leaves of the continuation ---- *)
Definition rest_ok (r k : list N) : Prop := r = k \/ r = skip_sp k.

Lemma rest_ok_skip : forall r k, rest_ok r k -> skip_sp r = skip_sp k.
Proof. intros r k [-> | ->]; [reflexivity | apply skip_sp_idem]. Qed.
Lemma rest_ok_len : forall r k, rest_ok r k -> (length (skip_sp k) <= length r)%nat.
Proof. intros r k [-> | ->]; [apply skip_sp_length | lia]. Qed.
Lemma rest_ok_nosp : forall r k, rest_ok r k -> starts_not is_sp k -> r = k.
Proof. intros r k [-> | ->] H; [reflexivity | apply skip_sp_id; exact H]. Qed.

(* ---- amount-expr ---- *)
Lemma amount_doc : forall x k, doc_amount x -> good_follow k ->
  exists a r, amount (x ++ k) = POk a r /\ rest_ok r k.
Proof.
  intros x k H (G1 & G2 & G3). destruct H as [l s c Hl Hs Hc].
  assert (F : starts_not is_decimal_char (s ++ c ++ k)).
  { destruct s as [| a s'].
    - destruct c as [| c0 c']; [exact G1 |]. apply all_cons in Hc. simpl. apply commodity_not_decimal. tauto.
    - apply all_cons in Hs. simpl. apply sp_not_decimal. tauto. }
  destruct (pretty_decimal_lit l (s ++ c ++ k) Hl F) as [d Ed].
  unfold amount, terminated, bind. rewrite <- !app_assoc. rw Ed.
  destruct (space0_skip (s ++ c ++ k)) as [s0 Es]. rw Es. unfold ret at 1. cbv beta iota.
  rewrite (skip_sp_app s (c ++ k) Hs).
  destruct c as [| c0 c'].
  - cbn [app]. unfold commodity. change (skip_sp k) with ([] ++ skip_sp k) at 1.
    rw (take_till0_ok is_non_commodity [] (skip_sp k) (all_nil _) G3).
    eexists _, _. split; [reflexivity |]. right. reflexivity.
  - assert (NS : starts_not is_sp ((c0 :: c') ++ k)).
    { apply all_cons in Hc. simpl. apply commodity_not_sp. tauto. }
    rewrite (skip_sp_id _ NS). unfold commodity.
    rw (take_till0_ok is_non_commodity (c0 :: c') k Hc G2).
    eexists _, _. split; [reflexivity |]. left. reflexivity.
Qed.

Lemma doc_amount_lit_head : forall x, doc_amount x -> head_in is_lit_head x.
Proof. intros x [l s c Hl _ _]. apply head_in_app. apply doc_decimal_head. exact Hl. Qed.
Lemma doc_amount_head : forall x, doc_amount x -> head_in is_expr_head x.
Proof. intros x H. exact (head_in_impl _ _ x lit_head_expr (doc_amount_lit_head x H)). Qed.

(* a value expression that starts with a minus sign is a negative literal: without the sign
   it is an amount-expr again *)
Lemma neg_amount : forall d h x', doc_value_expr d h (45 :: x') -> doc_amount x' /\ h = 1%nat.
Proof.
  intros d h x' H. remember (45 :: x') as x eqn:E.
  destruct H as [d x Ha | d h s1 x0 s2 H1 H2 H3]; [| discriminate]. split; [| reflexivity].
  destruct Ha as [l s c Hl Hs Hc].
  destruct (doc_decimal_shape l Hl) as (body & [-> | ->] & (c0 & b' & -> & Hc0) & _ & Hb).
  - cbn [app] in E. inversion E; subst. discriminate.
  - cbn [app] in E. inversion E; subst. change (c0 :: b' ++ s ++ c) with ((c0 :: b') ++ s ++ c).
    constructor; assumption.
Qed.

(* ---- continuations ---- *)
(* a continuation that starts with a character which ends any number / commodity and is not a
   blank (or is empty) *)
Definition stop_start (y : list N) : Prop :=
  match y with
  | [] => True
  | c :: _ => is_non_commodity c = true /\ is_decimal_char c = false /\ is_sp c = false
  end.

Lemma good_follow_sps : forall s y, sps0 s -> stop_start y -> good_follow (s ++ y).
Proof.
  intros s y Hs Hy.
  assert (Y : good_follow y).
  { destruct y as [| c y']; [repeat split |]. destruct Hy as (H1 & H2 & H3).
    unfold good_follow. rewrite skip_sp_id by exact H3. simpl. rewrite H1, H2. auto. }
  destruct s as [| a s']; [exact Y |]. pose proof Hs as Hs0. apply all_cons in Hs. destruct Hs as [Ha _].
  unfold good_follow. rewrite (skip_sp_app (a :: s') y Hs0). cbn [app]. simpl.
  rewrite (sp_not_decimal a Ha), (sp_non_commodity a Ha). destruct Y as (_ & _ & Y3). auto.
Qed.

Lemma skip_sps_stop : forall s y, sps0 s -> stop_start y -> skip_sp (s ++ y) = y.
Proof.
  intros s y Hs Hy. apply skip_sp_all; [exact Hs |]. destruct y as [| c y']; [exact I |]. simpl. apply Hy.
Qed.

(* ---- operators ---- *)
Lemma mul_op_char : forall op, mul_char op -> exists o, forall rest, mul_op (op :: rest) = POk o rest.
Proof. intros op [-> | ->]; eexists; intros; reflexivity. Qed.
Lemma add_op_char : forall op, add_char op -> exists o, forall rest, add_op (op :: rest) = POk o rest.
Proof. intros op [-> | ->]; eexists; intros; reflexivity. Qed.

Lemma op_stop : forall op x, mul_char op \/ add_char op -> stop_start (op :: x).
Proof. intros op x [[-> | ->] | [-> | ->]]; repeat split. Qed.

Lemma sep_ok2 : forall (opp : parser s_binop) o c s2 z i,
  opp (c :: s2 ++ z) = POk o (s2 ++ z) -> sps0 s2 -> starts_not is_sp z ->
  skip_sp i = c :: s2 ++ z -> sep opp i = POk o z.
Proof.
  intros opp o c s2 z i H Hs Hz Hi. unfold sep, delimited, bind. destruct (space0_skip i) as [s Es]. rewrite Es.
  rewrite Hi, H. rewrite (space0_ok s2 z Hs Hz). reflexivity.
Qed.

Notation HMAX := max_expr_height.

Section DocExpr.
Variable fuel : nat.

(* every statement also gives the height of the tree that is read: the index h *)
Definition Vd (d h : nat) (x : list N) : Prop := forall D k,
  (d <= D)%nat -> (h <= HMAX)%nat -> good_follow k -> (length x <= fuel)%nat ->
  exists v r, VE fuel D (x ++ k) = POk v r /\ rest_ok r k /\ vexpr_height v = h.

Definition Ud (d h : nat) (x : list N) : Prop := forall D k,
  (d <= D)%nat -> (h <= HMAX)%nat -> good_follow k -> (length x <= fuel)%nat ->
  exists e r, U fuel D (x ++ k) = POk e r /\ rest_ok r k /\ expr_height e = h.

Definition Mopen (d h : nat) (x : list N) : Prop := exists n, (n <= length x)%nat /\ forall D k f,
  (d <= D)%nat -> (h <= HMAX)%nat -> good_follow k -> (length x <= fuel)%nat ->
  exists e r, infixl_e (f + n) mul_op (U fuel D) (x ++ k)
              = chain_loop f mul_op (U fuel D) e r /\ rest_ok r k /\ expr_height e = h.

Definition Mok (d h : nat) (x : list N) : Prop := forall D k,
  (d <= D)%nat -> (h <= HMAX)%nat -> good_follow k -> no_mul k -> (length x <= fuel)%nat ->
  exists e r, M fuel D (x ++ k) = POk e r /\ rest_ok r k /\ expr_height e = h.

Definition Aopen (d h : nat) (x : list N) : Prop := exists n, (n <= length x)%nat /\ forall D k f,
  (d <= D)%nat -> (h <= HMAX)%nat -> good_follow k -> no_mul k -> (length x <= fuel)%nat ->
  exists e r, infixl_e (f + n) add_op (M fuel D) (x ++ k)
              = chain_loop f add_op (M fuel D) e r /\ rest_ok r k /\ expr_height e = h.

Definition Aok (d h : nat) (x : list N) : Prop := forall D k,
  (d <= D)%nat -> (h <= HMAX)%nat -> good_follow k -> no_mul k -> no_add k -> (length x <= fuel)%nat ->
  exists e r, A fuel D (x ++ k) = POk e r /\ rest_ok r k /\ expr_height e = h.

Lemma Mclose : forall d h x, Mopen d h x -> Mok d h x.
Proof.
  intros d h x (n & Hn & H) D k HD HH G NM L.
  destruct (H D k (fuel - n)%nat HD HH G L) as (e & r & E & R & T).
  exists e, r. split; [| split; [exact R | exact T]].
  unfold M.
  replace fuel with (fuel - n + n)%nat at 1 by lia. rewrite E.
  destruct (sep_fail mul_op r) as [r' Er].
  { rewrite (rest_ok_skip r k R). apply mul_op_fail. exact NM. }
  eapply loop_stop. exact Er.
Qed.

Lemma Aclose : forall d h x, Aopen d h x -> Aok d h x.
Proof.
  intros d h x (n & Hn & H) D k HD HH G NM NA L.
  destruct (H D k (fuel - n)%nat HD HH G NM L) as (e & r & E & R & T).
  exists e, r. split; [| split; [exact R | exact T]].
  unfold A.
  replace fuel with (fuel - n + n)%nat at 1 by lia. rewrite E.
  destruct (sep_fail add_op r) as [r' Er].
  { rewrite (rest_ok_skip r k R). apply add_op_fail. exact NA. }
  eapply loop_stop. exact Er.
Qed.

(* amount-expr *)
Lemma V_amount_doc : forall d x, doc_amount x -> Vd d 1 x.
Proof.
  intros d x H D k HD _ G L. destruct (amount_doc x k H G) as (a & r & E & R).
  exists (SAmount a), r. split; [| split; [exact R | reflexivity]].
  destruct (doc_amount_lit_head x H) as (c & x' & -> & Hc). cbn [app] in *.
  pose proof (lit_head_not_paren c Hc) as H40.
  rewrite (VE_amount fuel D c (x' ++ k) H40). apply pmap_ok. exact E.
Qed.

(* paren-expr *)
Lemma V_paren_doc : forall d h s1 x s2, sps0 s1 -> sps0 s2 -> Aok d h x -> head_in is_expr_head x ->
  Vd (S d) (S h) ([40] ++ s1 ++ x ++ s2 ++ [41]).
Proof.
  intros d h s1 x s2 H1 H2 Hx Hh D k HD HH G L.
  destruct D as [| D]; [lia |].
  assert (Lx : (length x <= fuel)%nat) by (rewrite !app_length in L; lia).
  assert (St : stop_start (41 :: k)) by (repeat split).
  assert (Sk : skip_sp (s2 ++ 41 :: k) = 41 :: k) by (apply skip_sps_stop; assumption).
  destruct (Hx D (s2 ++ 41 :: k) ltac:(lia) ltac:(lia) (good_follow_sps _ _ H2 St)
              ltac:(unfold no_mul; rewrite Sk; reflexivity)
              ltac:(unfold no_add; rewrite Sk; reflexivity) Lx) as (e & r & E & R & T).
  exists (SParen e), k. split; [| split; [left; reflexivity | cbn [vexpr_height]; rewrite T; reflexivity]].
  rewrite <- !app_assoc. cbn [app]. rewrite VE_paren.
  unfold paren_e, try_map, paren, delimited, bind. rw (chr_ok 40 (s1 ++ x ++ s2 ++ 41 :: k)).
  rw (space0_ok s1 (x ++ s2 ++ 41 :: k) H1 (head_not_sp x _ Hh)).
  rw E. destruct (space0_skip r) as [s0 Es]. rw Es. rewrite (rest_ok_skip _ _ R), Sk.
  unfold ret. cbv beta iota. rw (chr_ok 41 k).
  rewrite (fits_under_le (expr_height e)) by (rewrite T; exact HH). reflexivity.
Qed.

(* unary-expr *)
Lemma U_pos_doc : forall d h x, doc_value_expr d h x -> Vd d h x -> head_in is_expr_head x ->
  Ud d (neg_head x + h) x.
Proof.
  intros d h x H Hv (c & x' & -> & _) D k HD HH G L. cbn [neg_head] in *.
  destruct (N.eqb_spec c 45) as [-> | Hc].
  - (* a negative literal: the parser reads the sign as a negation *)
    destruct (neg_amount d h x' H) as [Ha ->].
    assert (Lx : (length x' <= fuel)%nat) by (simpl in L; lia).
    destruct (V_amount_doc d x' Ha D k HD ltac:(lia) G Lx) as (v & r & E & R & T).
    exists (SUnaryNeg (SValue v)), r. split; [| split; [exact R | cbn [expr_height]; rewrite T; reflexivity]].
    unfold U, unary_e. cbn [app]. rewrite N.eqb_refl.
    unfold negate_e, try_map, preceded, bind. rw (chr_ok 45 (x' ++ k)).
    fold (VE fuel D). rw E.
    rewrite (fits_under_le (vexpr_height v)) by (rewrite T; exact HH). reflexivity.
  - destruct (Hv D k HD ltac:(lia) G L) as (v & r & E & R & T).
    exists (SValue v), r. split; [| split; [exact R | exact T]].
    unfold U, unary_e. cbn [app]. apply N.eqb_neq in Hc. rewrite Hc.
    apply pmap_ok. exact E.
Qed.

Lemma U_neg_doc : forall d h x, Vd d h x -> Ud d (S h) (45 :: x).
Proof.
  intros d h x Hv D k HD HH G L. assert (Lx : (length x <= fuel)%nat) by (simpl in L; lia).
  destruct (Hv D k HD ltac:(lia) G Lx) as (v & r & E & R & T).
  exists (SUnaryNeg (SValue v)), r. split; [| split; [exact R | cbn [expr_height]; rewrite T; reflexivity]].
  unfold U, unary_e. cbn [app]. rewrite N.eqb_refl.
  unfold negate_e, try_map, preceded, bind. rw (chr_ok 45 (x ++ k)).
  fold (VE fuel D). rw E.
  rewrite (fits_under_le (vexpr_height v)) by (rewrite T; exact HH). reflexivity.
Qed.

(* one more operand of a chain *)
Lemma chain_more : forall (opp : parser s_binop) (p : nat -> parser s_expr) x s1 op s2 y n o,
  (forall rest, opp (op :: rest) = POk o rest) -> stop_start (op :: s2 ++ y) ->
  sps0 s1 -> sps0 s2 -> head_in is_expr_head y ->
  forall D k f e1 r1 b r,
    infixl_e (S f + n) opp (p D) (x ++ s1 ++ [op] ++ s2 ++ y ++ k)
      = chain_loop (S f) opp (p D) e1 r1 ->
    rest_ok r1 (s1 ++ [op] ++ s2 ++ y ++ k) ->
    p D (y ++ k) = POk b r ->
    fits_under (Nat.max (expr_height e1) (expr_height b)) = true ->
    infixl_e (f + S n) opp (p D) ((x ++ s1 ++ [op] ++ s2 ++ y) ++ k)
      = chain_loop f opp (p D) (SBinary o e1 b) r.
Proof.
  intros opp p x s1 op s2 y n o Hop Hst H1 H2 Hy D k f e1 r1 b r E1 R1 Eb Hfit.
  rewrite <- !app_assoc. replace (f + S n)%nat with (S f + n)%nat by lia. rewrite E1.
  assert (Sk : skip_sp (s1 ++ [op] ++ s2 ++ y ++ k) = op :: s2 ++ y ++ k).
  { cbn [app]. apply skip_sp_all; [exact H1 |]. simpl. apply Hst. }
  eapply loop_step; [| exact Eb | exact Hfit].
  apply (sep_ok2 opp o op s2 (y ++ k)); [apply Hop | exact H2 | apply head_not_sp; exact Hy |].
  rewrite (rest_ok_skip _ _ R1). exact Sk.
Qed.

Lemma op_follow : forall s1 op s2 y k, sps0 s1 -> mul_char op \/ add_char op ->
  good_follow (s1 ++ [op] ++ s2 ++ y ++ k) /\ skip_sp (s1 ++ [op] ++ s2 ++ y ++ k) = op :: s2 ++ y ++ k.
Proof.
  intros s1 op s2 y k H1 Hop. cbn [app].
  split; [apply good_follow_sps | apply skip_sps_stop]; auto using op_stop.
Qed.

Lemma M_more_doc : forall d h1 h2 x s1 op s2 y, Mopen d h1 x -> sps0 s1 -> mul_char op -> sps0 s2 ->
  Ud d h2 y -> head_in is_expr_head y -> Mopen d (S (Nat.max h1 h2)) (x ++ s1 ++ [op] ++ s2 ++ y).
Proof.
  intros d h1 h2 x s1 op s2 y (n & Hn & Hx) H1 Hop H2 Hy Hh.
  exists (S n). split; [rewrite !app_length; cbn [length]; lia |].
  intros D k f HD HH G L.
  assert (Lx : (length x <= fuel)%nat) by (rewrite !app_length in L; lia).
  assert (Ly : (length y <= fuel)%nat) by (rewrite !app_length in L; lia).
  destruct (Hy D k HD ltac:(lia) G Ly) as (b & r & Eb & Rb & Tb).
  destruct (op_follow s1 op s2 y k H1 (or_introl Hop)) as [G' _].
  destruct (Hx D _ (S f) HD ltac:(lia) G' Lx) as (e1 & r1 & E1 & R1 & T1).
  destruct (mul_op_char op Hop) as [o Ho].
  exists (SBinary o e1 b), r. split; [| split; [exact Rb | cbn [expr_height]; rewrite T1, Tb; reflexivity]].
  eapply (chain_more mul_op (U fuel)); eauto.
  - apply op_stop. left. exact Hop.
  - apply fits_under_le. rewrite T1, Tb. exact HH.
Qed.

Lemma A_more_doc : forall d h1 h2 x s1 op s2 y, Aopen d h1 x -> sps0 s1 -> add_char op -> sps0 s2 ->
  Mok d h2 y -> head_in is_expr_head y -> Aopen d (S (Nat.max h1 h2)) (x ++ s1 ++ [op] ++ s2 ++ y).
Proof.
  intros d h1 h2 x s1 op s2 y (n & Hn & Hx) H1 Hop H2 Hy Hh.
  exists (S n). split; [rewrite !app_length; cbn [length]; lia |].
  intros D k f HD HH G NM L.
  assert (Lx : (length x <= fuel)%nat) by (rewrite !app_length in L; lia).
  assert (Ly : (length y <= fuel)%nat) by (rewrite !app_length in L; lia).
  destruct (Hy D k HD ltac:(lia) G NM Ly) as (b & r & Eb & Rb & Tb).
  destruct (op_follow s1 op s2 y k H1 (or_intror Hop)) as [G' Sk].
  assert (NM' : no_mul (s1 ++ [op] ++ s2 ++ y ++ k)).
  { unfold no_mul. rewrite Sk. destruct Hop as [-> | ->]; reflexivity. }
  destruct (Hx D _ (S f) HD ltac:(lia) G' NM' Lx) as (e1 & r1 & E1 & R1 & T1).
  destruct (add_op_char op Hop) as [o Ho].
  exists (SBinary o e1 b), r. split; [| split; [exact Rb | cbn [expr_height]; rewrite T1, Tb; reflexivity]].
  eapply (chain_more add_op (M fuel)); eauto.
  - apply op_stop. right. exact Hop.
  - apply fits_under_le. rewrite T1, Tb. exact HH.
Qed.

Lemma M_one_doc : forall d h x, Ud d h x -> Mopen d h x.
Proof.
  intros d h x H. exists O. split; [lia |]. intros D k f HD HH G L.
  destruct (H D k HD HH G L) as (e & r & E & R & T). exists e, r. split; [| split; [exact R | exact T]].
  unfold infixl_e at 1. rewrite E, Nat.add_0_r. reflexivity.
Qed.

Lemma A_one_doc : forall d h x, Mok d h x -> Aopen d h x.
Proof.
  intros d h x H. exists O. split; [lia |]. intros D k f HD HH G NM L.
  destruct (H D k HD HH G NM L) as (e & r & E & R & T). exists e, r. split; [| split; [exact R | exact T]].
  unfold infixl_e at 1. rewrite E, Nat.add_0_r. reflexivity.
Qed.

End DocExpr.

Scheme dve_ind := Minimality for doc_value_expr Sort Prop
  with dadd_ind := Minimality for doc_add Sort Prop
  with dmul_ind := Minimality for doc_mul Sort Prop
  with dun_ind := Minimality for doc_unary Sort Prop.
Combined Scheme doc_expr_ind from dve_ind, dadd_ind, dmul_ind, dun_ind.

Lemma doc_expr_all : forall fuel,
  (forall d h x, doc_value_expr d h x -> Vd fuel d h x /\ head_in is_expr_head x) /\
  (forall d h x, doc_add d h x -> Aopen fuel d h x /\ head_in is_expr_head x) /\
  (forall d h x, doc_mul d h x -> Mopen fuel d h x /\ head_in is_expr_head x) /\
  (forall d h x, doc_unary d h x -> Ud fuel d h x /\ head_in is_expr_head x).
Proof.
  intros fuel. apply doc_expr_ind.
  - intros d x H. split; [apply V_amount_doc; exact H | apply doc_amount_head; exact H].
  - intros d h s1 x s2 H1 _ [Hx Hh] H2. split.
    + apply V_paren_doc; auto. apply Aclose. exact Hx.
    + exists 40, (s1 ++ x ++ s2 ++ [41]). split; reflexivity.
  - intros d h x _ [Hx Hh]. split; [| exact Hh]. apply A_one_doc. apply Mclose. exact Hx.
  - intros d h1 h2 x s1 op s2 y _ [Hx Hhx] H1 Hop H2 _ [Hy Hhy]. split; [| apply head_in_app; exact Hhx].
    apply A_more_doc; auto. apply Mclose. exact Hy.
  - intros d h x _ [Hx Hh]. split; [| exact Hh]. apply M_one_doc. exact Hx.
  - intros d h1 h2 x s1 op s2 y _ [Hx Hhx] H1 Hop H2 _ [Hy Hhy]. split; [| apply head_in_app; exact Hhx].
    apply M_more_doc; auto.
  - intros d h x H [Hx Hh]. split; [| exact Hh]. apply U_pos_doc; assumption.
  - intros d h x _ [Hx Hh]. split; [apply U_neg_doc; exact Hx |]. exists 45, x. split; reflexivity.
Qed.

Lemma doc_value_expr_head : forall d h x, doc_value_expr d h x -> head_in is_expr_head x.
Proof. intros d h x H. exact (proj2 (proj1 (doc_expr_all O) d h x H)). Qed.

(* Stage 1: a documented value expression, followed by a continuation that can not extend it,
   is read by value_expr; of the continuation the parser takes at most leading blanks (after a
   number without commodity); the tree that is read has the height of the derivation. *)
Theorem doc_value_expr_accepted : forall fuel d h x k,
  doc_value_expr d h x -> (d <= max_expr_depth)%nat -> (h <= max_expr_height)%nat ->
  good_follow k -> (length x <= fuel)%nat ->
  exists v r, value_expr fuel (x ++ k) = POk v r /\ (r = k \/ r = skip_sp k) /\ skip_sp r = skip_sp k /\
              vexpr_height v = h.
Proof.
  intros fuel d h x k H HD HH G L. rewrite value_expr_VE.
  destruct (proj1 (proj1 (doc_expr_all fuel) d h x H) max_expr_depth k HD HH G L) as (v & r & E & R & T).
  exists v, r. split; [exact E |]. split; [exact R |]. split; [apply rest_ok_skip; exact R | exact T].
Qed.


(* ================================================================================== *)
(* Stage 2: postings                                                                   *)
(* ================================================================================== *)

(* ---- continuations inside a posting line ---- *)
Lemma good_follow_skip : forall y, stop_start (skip_sp y) -> good_follow y.
Proof.
  intros y H. destruct (span_while_split is_sp y) as (a & b & E & -> & Ha & Hb).
  assert (S : skip_sp (a ++ b) = b) by (apply skip_sp_all; assumption). rewrite S in H.
  apply good_follow_sps; assumption.
Qed.

(* the rest of a posting line after the amount: a balance assertion or the line end *)
Definition line_tail (y : list N) : Prop :=
  match y with [] => True | c :: _ => c = 61 \/ c = 10 \/ c = 13 end.

Lemma ends_line_tail : forall k k', ends k k' -> line_tail k.
Proof. intros k k' [-> | [-> | [-> _]]]; simpl; auto. Qed.

Lemma line_tail_stop : forall y, line_tail y -> stop_start y.
Proof. intros [| c y] H; [exact I |]. destruct H as [-> | [-> | ->]]; repeat split. Qed.
Lemma line_tail_not_sp : forall y, line_tail y -> starts_not is_sp y.
Proof. intros [| c y] H; [exact I |]. destruct H as [-> | [-> | ->]]; reflexivity. Qed.
Lemma line_tail_not_open : forall y, line_tail y -> starts_not is_lot_open y.
Proof. intros [| c y] H; [exact I |]. destruct H as [-> | [-> | ->]]; reflexivity. Qed.
Lemma line_tail_not_at : forall y, line_tail y -> starts_not (N.eqb 64) y.
Proof. intros [| c y] H; [exact I |]. destruct H as [-> | [-> | ->]]; reflexivity. Qed.

Lemma vexpr_doc : forall fuel v k, doc_vexpr v -> good_follow k -> (length v <= fuel)%nat ->
  exists e r, value_expr fuel (v ++ k) = POk e r /\ rest_ok r k.
Proof.
  intros fuel v k (h & HH & H) G L.
  destruct (doc_value_expr_accepted fuel max_expr_depth h v k H (le_n _) HH G L) as (e & r & E & R & _).
  eauto.
Qed.

Lemma doc_vexpr_head : forall v, doc_vexpr v -> head_in is_expr_head v.
Proof. intros v (h & _ & H). exact (doc_value_expr_head _ _ _ H). Qed.

(* ---- dates ---- *)
Lemma digit1_ok : forall a k, a <> [] -> all Comb.is_digit a -> starts_not Comb.is_digit k ->
  digit1 (a ++ k) = POk a k.
Proof. intros. unfold digit1. apply take_while1_ok; assumption. Qed.

Lemma len_ne : forall (a : list N) n, (1 <= n)%nat -> (n <= length a)%nat -> a <> [].
Proof. intros a n H1 H2 ->. simpl in H2. lia. Qed.

Lemma date_with_doc : forall sep y m d k, date_sep sep -> y <> [] -> m <> [] -> d <> [] ->
  all Comb.is_digit y -> all Comb.is_digit m -> all Comb.is_digit d -> starts_not Comb.is_digit k ->
  date_with sep (y ++ [sep] ++ m ++ [sep] ++ d ++ k) = POk (y, m, d) k.
Proof.
  intros sep y m d k Hsep Ny Nm Nd Ay Am Ad Hk. unfold date_with, bind. cbn [app].
  assert (Hs : Comb.is_digit sep = false) by (destruct Hsep as [-> | ->]; reflexivity).
  rw (digit1_ok y (sep :: m ++ sep :: d ++ k) Ny Ay Hs). rw (chr_ok sep (m ++ sep :: d ++ k)).
  rw (digit1_ok m (sep :: d ++ k) Nm Am Hs). rw (chr_ok sep (d ++ k)).
  rw (digit1_ok d k Nd Ad Hk). reflexivity.
Qed.

Lemma date_doc : forall x k, doc_date x -> starts_not Comb.is_digit k ->
  exists dt, ParseExpr.date (x ++ k) = POk dt k.
Proof.
  intros x k H Hk. destruct H as [y sep m d Hsep Ay Ly Am Lm Ad Ld Hc].
  destruct (chrono_date y m d) as [dt |] eqn:Ec; [| congruence]. exists dt.
  assert (Ny : y <> []) by (apply (len_ne y 4); lia).
  assert (Nm : m <> []) by (apply (len_ne m 1); lia).
  assert (Nd : d <> []) by (apply (len_ne d 1); lia).
  assert (E : alt (date_with 47) (date_with 45) ((y ++ [sep] ++ m ++ [sep] ++ d) ++ k) = POk (y, m, d) k).
  { rewrite <- !app_assoc. destruct Hsep as [-> | ->].
    - apply alt_l. apply date_with_doc; auto. left; reflexivity.
    - assert (F : date_with 47 (y ++ [45] ++ m ++ [45] ++ d ++ k) = PErr false 0 (45 :: m ++ [45] ++ d ++ k)).
      { unfold date_with, bind. cbn [app].
        rw (digit1_ok y (45 :: m ++ 45 :: d ++ k) Ny Ay ltac:(reflexivity)). reflexivity. }
      rewrite (alt_r _ _ _ _ _ _ F). apply date_with_doc; auto. right; reflexivity. }
  unfold ParseExpr.date, try_map. rewrite E, Ec. reflexivity.
Qed.

Lemma doc_date_head : forall x, doc_date x -> head_in Comb.is_digit x.
Proof.
  intros x [y sep m d Hsep Ay Ly Am Lm Ad Ld Hc]. destruct y as [| c y']; [simpl in Ly; lia |].
  apply all_cons in Ay. exists c, (y' ++ [sep] ++ m ++ [sep] ++ d). split; [reflexivity | tauto].
Qed.

Lemma digit_not_sp : forall c, Comb.is_digit c = true -> is_sp c = false.
Proof. intros c H. unfold Comb.is_digit in H. unfold is_sp. lia. Qed.

(* ---- lot price ---- *)
Lemma close_brace_stop : forall x, stop_start (125 :: x).
Proof. intros; repeat split. Qed.

Lemma inner_vexpr : forall fuel v s2 c x, doc_vexpr v -> sps0 s2 -> stop_start (c :: x) -> (length v <= fuel)%nat ->
  exists e r, value_expr fuel (v ++ s2 ++ c :: x) = POk e r /\ skip_sp r = c :: x.
Proof.
  intros fuel v s2 c x Hv H2 Hst L.
  destruct (vexpr_doc fuel v (s2 ++ c :: x) Hv (good_follow_sps _ _ H2 Hst) L) as (e & r & E & R).
  exists e, r. split; [exact E |]. rewrite (rest_ok_skip _ _ R). apply skip_sps_stop; assumption.
Qed.

Lemma lot_amount_total_doc : forall fuel s1 v s2 k, sps0 s1 -> doc_vexpr v -> sps0 s2 -> (length v <= fuel)%nat ->
  exists x, lot_amount fuel ([123; 123] ++ s1 ++ v ++ s2 ++ [125; 125] ++ k) = POk x k.
Proof.
  intros fuel s1 v s2 k H1 Hv H2 L.
  destruct (inner_vexpr fuel v s2 125 (125 :: k) Hv H2 (close_brace_stop _) L) as (e & r & E & Sk).
  exists (STotal e). unfold lot_amount, bind.
  rw (has_peek_true _ _ _ _ _ (literal_app [123; 123] (s1 ++ v ++ s2 ++ [125; 125] ++ k))).
  apply pmap_ok. unfold delimited, bind. rw (literal_app [123; 123] (s1 ++ v ++ s2 ++ [125; 125] ++ k)).
  rw (space0_ok s1 (v ++ s2 ++ [125; 125] ++ k) H1 (head_not_sp v _ (doc_vexpr_head v Hv))).
  cbn [app] in *. rw E. destruct (space0_skip r) as [s0 Es]. rw Es. rewrite Sk.
  change (125 :: 125 :: k) with ([125; 125] ++ k). rw (literal_app [125; 125] k). reflexivity.
Qed.

Lemma not_brace_head : forall s1 v y, sps0 s1 -> head_in is_expr_head v -> starts_not (N.eqb 123) (s1 ++ v ++ y).
Proof.
  intros [| a s1] v y H1 (c & r & -> & Hc).
  - cbn [app]. unfold starts_not. apply expr_head_cases in Hc. lia.
  - apply all_cons in H1. destruct H1 as [Ha _]. simpl. destruct (sp_cases a Ha) as [-> | ->]; reflexivity.
Qed.

Lemma lot_amount_rate_doc : forall fuel s1 v s2 k, sps0 s1 -> doc_vexpr v -> sps0 s2 -> (length v <= fuel)%nat ->
  exists x, lot_amount fuel ([123] ++ s1 ++ v ++ s2 ++ [125] ++ k) = POk x k.
Proof.
  intros fuel s1 v s2 k H1 Hv H2 L.
  destruct (inner_vexpr fuel v s2 125 k Hv H2 (close_brace_stop _) L) as (e & r & E & Sk).
  exists (SRate e). unfold lot_amount, bind.
  assert (P : literal [123; 123] ([123] ++ s1 ++ v ++ s2 ++ [125] ++ k)
              = PErr false 0 ([123] ++ s1 ++ v ++ s2 ++ [125] ++ k)).
  { pose proof (not_brace_head s1 v (s2 ++ [125] ++ k) H1 (doc_vexpr_head v Hv)) as NB.
    unfold literal. cbn [app strip_prefix] in NB |- *. rewrite N.eqb_refl.
    destruct (s1 ++ v ++ s2 ++ 125 :: k) as [| c0 r0]; [reflexivity |]. unfold starts_not in NB. rewrite NB. reflexivity. }
  rw (has_peek_false _ _ _ _ _ P).
  apply pmap_ok. unfold delimited, bind. rw (literal_app [123] (s1 ++ v ++ s2 ++ [125] ++ k)).
  rw (space0_ok s1 (v ++ s2 ++ [125] ++ k) H1 (head_not_sp v _ (doc_vexpr_head v Hv))).
  cbn [app] in *. rw E. destruct (space0_skip r) as [s0 Es]. rw Es. rewrite Sk.
  change (125 :: k) with ([125] ++ k). rw (literal_app [125] k). reflexivity.
Qed.

(* ---- the lot loop ---- *)
Definition unset (kd : lot_kind) (lt : s_lot) : Prop :=
  match kd with
  | LkPrice => lot_price lt = None
  | LkDate => lot_date lt = None
  | LkNote => lot_note lt = None
  end.

Lemma lot_part_doc : forall kd x, doc_lot_part kd x -> forall fuel n lt psp y,
  unset kd lt -> (length x <= fuel)%nat ->
  exists lt' psp', lot_loop fuel (S n) lt psp (x ++ y) = lot_loop fuel n lt' psp' (skip_sp y) /\
                   (forall kd', kd' <> kd -> unset kd' lt -> unset kd' lt').
Proof.
  intros kd x H fuel n lt psp y Hu L.
  destruct H as [s1 v s2 H1 Hv H2 | s1 v s2 H1 Hv H2 | s1 dt s2 H1 Hd H2 | nt Hn].
  - assert (Lv : (length v <= fuel)%nat) by (rewrite !app_length in L; lia).
    destruct (lot_amount_total_doc fuel s1 v s2 y H1 Hv H2 Lv) as [pr E].
    rewrite <- !app_assoc. cbn [app] in *. rewrite (lot_loop_brace fuel n lt psp _ Hu). unfold bind.
    rw (with_span_ok _ _ _ _ _ E). destruct (space0_skip y) as [s0 Es]. rw Es. cbn [fst snd].
    eexists _, _. split; [reflexivity |]. intros [] Hne Hk; try congruence; exact Hk.
  - assert (Lv : (length v <= fuel)%nat) by (rewrite !app_length in L; lia).
    destruct (lot_amount_rate_doc fuel s1 v s2 y H1 Hv H2 Lv) as [pr E].
    rewrite <- !app_assoc. cbn [app] in *. rewrite (lot_loop_brace fuel n lt psp _ Hu). unfold bind.
    rw (with_span_ok _ _ _ _ _ E). destruct (space0_skip y) as [s0 Es]. rw Es. cbn [fst snd].
    eexists _, _. split; [reflexivity |]. intros [] Hne Hk; try congruence; exact Hk.
  - rewrite <- !app_assoc. cbn [app]. rewrite (lot_loop_bracket fuel n lt psp _ Hu).
    unfold bind, delimited, bind. rw (chr_ok 91 (s1 ++ dt ++ s2 ++ 93 :: y)).
    destruct (doc_date_head dt Hd) as (c0 & r0 & E0 & Hc0).
    assert (Dn : starts_not is_sp (dt ++ s2 ++ 93 :: y)).
    { rewrite E0. simpl. apply digit_not_sp. exact Hc0. }
    rw (space0_ok s1 (dt ++ s2 ++ 93 :: y) H1 Dn).
    assert (Fd : starts_not Comb.is_digit (s2 ++ 93 :: y)).
    { destruct s2 as [| a s2']; [reflexivity |]. apply all_cons in H2. destruct H2 as [Ha _].
      simpl. destruct (sp_cases a Ha) as [-> | ->]; reflexivity. }
    destruct (date_doc dt (s2 ++ 93 :: y) Hd Fd) as [d Ed]. rw Ed.
    rw (space0_ok s2 (93 :: y) H2 ltac:(reflexivity)). rw (chr_ok 93 y). unfold ret at 1. cbv beta iota.
    destruct (space0_skip y) as [s0 Es]. rw Es.
    eexists _, _. split; [reflexivity |]. intros [] Hne Hk; try congruence; exact Hk.
  - rewrite <- !app_assoc. cbn [app]. rewrite (lot_loop_paren fuel n lt psp _ Hu).
    unfold bind, paren, delimited, bind. rw (chr_ok 40 (nt ++ 41 :: y)).
    rw (take_till0_ok is_note_stop nt (41 :: y) Hn ltac:(reflexivity)). rw (chr_ok 41 y).
    unfold ret at 1. cbv beta iota. destruct (space0_skip y) as [s0 Es]. rw Es.
    eexists _, _. split; [reflexivity |]. intros [] Hne Hk; try congruence; exact Hk.
Qed.

Lemma lot_part_head : forall kd x, doc_lot_part kd x -> head_in is_lot_open x.
Proof. intros kd x []; eexists _, _; split; reflexivity. Qed.

Lemma lot_open_not_sp : forall c, is_lot_open c = true -> is_sp c = false.
Proof. intros c H. unfold is_lot_open in H. unfold is_sp. lia. Qed.

Lemma skip_head : forall f x y, (forall c, f c = true -> is_sp c = false) -> head_in f x -> skip_sp (x ++ y) = x ++ y.
Proof. intros f x y Hf (c & r & -> & Hc). apply skip_sp_id. simpl. auto. Qed.

Lemma lot_doc : forall fuel kds l, doc_lot kds l -> forall n lt psp k,
  (length kds < n)%nat -> (forall kd, In kd kds -> unset kd lt) ->
  starts_not is_lot_open (skip_sp k) -> (length l <= fuel)%nat ->
  exists lt' psp', lot_loop fuel n lt psp (skip_sp (l ++ k)) = POk (lt', psp') (skip_sp k).
Proof.
  intros fuel kds l H. induction H as [| kd kds x s r Hni Hp Hs Hl IH]; intros n lt psp k Hn Hu Hk L.
  - cbn [app]. destruct n as [| n]; [simpl in Hn; lia |]. eexists _, _. apply lot_loop_done. exact Hk.
  - destruct n as [| n]; [simpl in Hn; lia |]. rewrite <- !app_assoc.
    rewrite (skip_head is_lot_open x _ lot_open_not_sp (lot_part_head kd x Hp)).
    assert (Lx : (length x <= fuel)%nat) by (rewrite !app_length in L; lia).
    destruct (lot_part_doc kd x Hp fuel n lt psp (s ++ r ++ k) (Hu kd (or_introl eq_refl)) Lx)
      as (lt1 & psp1 & E1 & Hkeep).
    rewrite E1. rewrite (skip_sp_app s (r ++ k) Hs).
    apply IH.
    + simpl in Hn. lia.
    + intros kd' Hin. apply Hkeep; [intros ->; contradiction | apply Hu; right; exact Hin].
    + exact Hk.
    + rewrite !app_length in L. lia.
Qed.

Lemma lot_kinds_length : forall kds l, doc_lot kds l -> (length kds <= 3)%nat.
Proof.
  intros kds l H.
  assert (ND : NoDup kds) by (induction H; constructor; assumption).
  apply (NoDup_incl_length (l' := [LkPrice; LkDate; LkNote]) ND).
  intros [] _; simpl; auto.
Qed.

Lemma doc_lot_head : forall kds l, doc_lot kds l -> l = [] \/ head_in is_lot_open l.
Proof.
  intros kds l [| kd kds' x s r _ Hp _ _]; [left; reflexivity | right].
  apply head_in_app. exact (lot_part_head kd x Hp).
Qed.

(* ---- cost ---- *)
Lemma doc_cost_head : forall c, doc_cost c -> c = [] \/ head_in (N.eqb 64) c.
Proof. intros c [| s v _ _ | s v _ _]; [left; reflexivity | right | right]; eexists _, _; split; reflexivity. Qed.

Lemma not_at_head : forall s v y, sps0 s -> head_in is_expr_head v -> starts_not (N.eqb 64) (s ++ v ++ y).
Proof.
  intros [| a s1] v y H1 (c & r & -> & Hc).
  - cbn [app]. unfold starts_not. apply expr_head_cases in Hc. lia.
  - apply all_cons in H1. destruct H1 as [Ha _]. simpl. destruct (sp_cases a Ha) as [-> | ->]; reflexivity.
Qed.

Lemma cost_doc : forall fuel c k, doc_cost c -> good_follow k -> starts_not (N.eqb 64) (skip_sp k) ->
  (length c <= fuel)%nat ->
  exists c' r, cost_parser fuel (skip_sp (c ++ k)) = POk c' r /\ skip_sp r = skip_sp k.
Proof.
  intros fuel c k H G F L. destruct H as [| s v Hs Hv | s v Hs Hv].
  - exists None, (skip_sp k). split; [| apply skip_sp_idem]. cbn [app].
    unfold cost_parser, bind.
    rw (has_peek_false _ _ _ _ _ (chr_fail 64 (skip_sp k) F)).
    assert (P : literal [64; 64] (skip_sp k) = PErr false 0 (skip_sp k)) by (apply literal_fail1; exact F).
    rw (has_peek_false _ _ _ _ _ P). reflexivity.
  - assert (Lv : (length v <= fuel)%nat) by (rewrite !app_length in L; lia).
    destruct (vexpr_doc fuel v k Hv G Lv) as (e & r & E & R).
    rewrite <- !app_assoc. cbn [app]. rewrite skip_sp_id by reflexivity.
    eexists (Some (STotal e, _)), r. split; [| apply rest_ok_skip; exact R].
    unfold cost_parser, bind.
    rw (has_peek_true _ _ _ _ _ (chr_ok 64 (64 :: s ++ v ++ k))).
    assert (P : literal [64; 64] (64 :: 64 :: s ++ v ++ k) = POk [64; 64] (s ++ v ++ k)) by reflexivity.
    rw (has_peek_true _ _ _ _ _ P).
    unfold cond, cond_else. apply pmap_ok. apply with_span_ok.
    unfold total_cost. apply pmap_ok. unfold preceded, bind. rw P.
    rw (space0_ok s (v ++ k) Hs (head_not_sp v k (doc_vexpr_head v Hv))). exact E.
  - assert (Lv : (length v <= fuel)%nat) by (rewrite !app_length in L; lia).
    destruct (vexpr_doc fuel v k Hv G Lv) as (e & r & E & R).
    rewrite <- !app_assoc. cbn [app]. rewrite skip_sp_id by reflexivity.
    eexists (Some (SRate e, _)), r. split; [| apply rest_ok_skip; exact R].
    unfold cost_parser, bind.
    rw (has_peek_true _ _ _ _ _ (chr_ok 64 (s ++ v ++ k))).
    assert (P : literal [64; 64] (64 :: s ++ v ++ k) = PErr false 0 (64 :: s ++ v ++ k)).
    { pose proof (not_at_head s v k Hs (doc_vexpr_head v Hv)) as NA.
      unfold literal. cbn [strip_prefix]. rewrite N.eqb_refl.
      destruct (s ++ v ++ k) as [| c0 r0]; [reflexivity |]. unfold starts_not in NA. rewrite NA. reflexivity. }
    rw (has_peek_false _ _ _ _ _ P).
    unfold cond, cond_else. apply pmap_ok. apply with_span_ok.
    unfold rate_cost. apply pmap_ok. unfold preceded, bind.
    change (64 :: s ++ v ++ k) with ([64] ++ s ++ v ++ k). rw (literal_app [64] (s ++ v ++ k)).
    rw (space0_ok s (v ++ k) Hs (head_not_sp v k (doc_vexpr_head v Hv))). exact E.
Qed.

(* ---- posting-amount ---- *)
(* what follows the amount part: blanks, then a balance assertion or the line end *)
Definition tail_follow (k : list N) : Prop := line_tail (skip_sp k).

Lemma lot_open_stop : forall c x, is_lot_open c = true -> stop_start (c :: x).
Proof.
  intros c x H. unfold is_lot_open in H.
  assert (C : c = 40 \/ c = 91 \/ c = 123) by lia. destruct C as [-> | [-> | ->]]; repeat split.
Qed.

Lemma after_amount_stop : forall kds l c k, doc_lot kds l -> doc_cost c -> tail_follow k ->
  stop_start (skip_sp (l ++ c ++ k)).
Proof.
  intros kds l c k Hl Hc Hk.
  destruct (doc_lot_head kds l Hl) as [-> | Hh].
  - cbn [app]. destruct (doc_cost_head c Hc) as [-> | Hh].
    + cbn [app]. apply line_tail_stop. exact Hk.
    + rewrite (skip_head (N.eqb 64) c k); [| intros c0 E; apply N.eqb_eq in E; subst; reflexivity | exact Hh].
      destruct Hh as (c0 & r0 & -> & E0). apply N.eqb_eq in E0. subst. repeat split.
  - rewrite (skip_head is_lot_open l _ lot_open_not_sp Hh).
    destruct Hh as (c0 & r0 & -> & E0). apply lot_open_stop. exact E0.
Qed.

Lemma after_lot_no_open_doc : forall c k, doc_cost c -> tail_follow k ->
  starts_not is_lot_open (skip_sp (c ++ k)).
Proof.
  intros c k Hc Hk. destruct (doc_cost_head c Hc) as [-> | Hh].
  - cbn [app]. apply line_tail_not_open. exact Hk.
  - rewrite (skip_head (N.eqb 64) c k); [| intros c0 E; apply N.eqb_eq in E; subst; reflexivity | exact Hh].
    destruct Hh as (c0 & r0 & -> & E0). apply N.eqb_eq in E0. subst. reflexivity.
Qed.

Lemma posting_amount_doc : forall fuel a k, doc_posting_amount a -> tail_follow k -> (length a <= fuel)%nat ->
  exists pa sps r, posting_amount fuel (a ++ k) = POk (pa, sps) r /\ skip_sp r = skip_sp k.
Proof.
  intros fuel a k H Hk L. destruct H as [v s kds l c Hv Hs Hl Hc].
  rewrite !app_length in L.
  assert (G1 : good_follow (s ++ l ++ c ++ k)).
  { apply good_follow_skip. rewrite (skip_sp_app s _ Hs). eapply after_amount_stop; eauto. }
  destruct (vexpr_doc fuel v (s ++ l ++ c ++ k) Hv G1 ltac:(lia)) as (am & r1 & Ea & R1).
  pose proof (lot_kinds_length kds l Hl) as Lk.
  destruct (lot_doc fuel kds l Hl 4 {| lot_price := None; lot_date := None; lot_note := None |} None (c ++ k)
              ltac:(lia) ltac:(intros []; reflexivity) (after_lot_no_open_doc c k Hc Hk) ltac:(lia))
    as (lt & psp & El).
  assert (Gk : good_follow k) by (apply good_follow_skip, line_tail_stop; exact Hk).
  destruct (cost_doc fuel c k Hc Gk (line_tail_not_at _ Hk) ltac:(lia)) as (co & r & Ec & Sr).
  eexists _, _, r. split; [| exact Sr].
  unfold posting_amount. rewrite <- !app_assoc. unfold terminated, bind.
  rw (with_span_ok _ _ _ _ _ Ea).
  destruct (space0_skip r1) as [s1 Es1]. rw Es1. unfold ret at 1. cbv beta iota.
  rewrite (rest_ok_skip _ _ R1), (skip_sp_app s _ Hs).
  unfold lot, bind. destruct (space0_skip (skip_sp (l ++ c ++ k))) as [s2 Es2]. rw Es2. rewrite skip_sp_idem.
  rw El.
  unfold cost_parser in Ec. unfold bind in Ec.
  destruct (has_peek (chr 64) (skip_sp (c ++ k))) as [b1 q1 | | |]; try discriminate.
  destruct (has_peek (literal [64; 64]) q1) as [b2 q2 | | |]; try discriminate.
  rewrite Ec. reflexivity.
Qed.

(* ---- balance assertion ---- *)
Lemma ends_stop : forall k k', ends k k' -> stop_start k.
Proof. intros k k' H. apply line_tail_stop. eapply ends_line_tail; eauto. Qed.

Lemma balance_doc : forall fuel b k k', doc_balance b -> ends k k' -> (length b <= fuel)%nat ->
  exists o, bal_parser fuel (b ++ k) = POk o k.
Proof.
  intros fuel b k k' H Hk L. destruct H as [s v s' Hs Hv Hs'].
  assert (Lv : (length v <= fuel)%nat) by (rewrite !app_length in L; lia).
  assert (G : good_follow (s' ++ k)) by (apply good_follow_sps; [exact Hs' | eapply ends_stop; eauto]).
  destruct (vexpr_doc fuel v (s' ++ k) Hv G Lv) as (e & r & E & R).
  eexists (Some (e, _)). unfold bal_parser. eapply opt_ok. apply context_ok. apply with_span_ok.
  rewrite <- !app_assoc. cbn [app]. unfold delimited, bind. rw (chr_ok 61 (s ++ v ++ s' ++ k)).
  rw (space0_ok s (v ++ s' ++ k) Hs (head_not_sp v _ (doc_vexpr_head v Hv))). rw E.
  destruct (space0_skip r) as [s0 Es]. rw Es.
  rewrite (rest_ok_skip _ _ R), (skip_sps_stop s' k Hs' (ends_stop _ _ Hk)). reflexivity.
Qed.

Lemma balance_none : forall fuel k, starts_not (N.eqb 61) k -> bal_parser fuel k = POk None k.
Proof.
  intros fuel k H. unfold bal_parser. eapply opt_none.
  unfold context, with_span, delimited, bind. rewrite (chr_fail 61 k H). reflexivity.
Qed.

Lemma ends_not_eq : forall k k', ends k k' -> starts_not (N.eqb 61) k.
Proof. intros k k' [-> | [-> | [-> _]]]; reflexivity. Qed.

Lemma balance_any : forall fuel b k k', (b = [] \/ doc_balance b) -> ends k k' -> (length b <= fuel)%nat ->
  exists o, bal_parser fuel (b ++ k) = POk o k.
Proof.
  intros fuel b k k' [-> | H] Hk L.
  - exists None. apply balance_none. eapply ends_not_eq; eauto.
  - eapply balance_doc; eauto.
Qed.

(* ---- metadata ---- *)
Local Notation nts := (fun c : N => negb (is_tag_stop c)).

Lemma tag_wf : forall t, tag t -> wf_tag t = true.
Proof.
  intros t [Hne Ht]. unfold wf_tag. apply andb_true_iff. split; [destruct t; [congruence | reflexivity] |].
  apply (all_impl tag_char); [| exact Ht]. intros c Hc. unfold tag_char in Hc. unfold is_tag_stop.
  rewrite negb_orb. exact Hc.
Qed.

Lemma ends_nts : forall k k', ends k k' -> starts_not nts k.
Proof. intros k k' [-> | [-> | [-> _]]]; reflexivity. Qed.
Lemma ends_not_colon : forall k k', ends k k' -> starts_not (N.eqb 58) k.
Proof. intros k k' [-> | [-> | [-> _]]]; reflexivity. Qed.

Lemma tag_colon_ends : forall k k', ends k k' -> tag_colon k = PErr false 0 k.
Proof.
  intros k k' Hk. unfold tag_colon, terminated. apply bind_err. apply rm_tag_key_fail. eapply ends_nts; eauto.
Qed.

Lemma tags_loop_doc : forall ts f k k', Forall tag ts -> ends k k' ->
  (length (flat_map (fun t : list N => t ++ [58%N]) ts) <= f)%nat ->
  many0 f tag_colon (flat_map (fun t => t ++ [58]) ts ++ k) = POk ts k.
Proof.
  induction ts as [| t ts IH]; intros f k k' H Hk Hf.
  - apply (many0_stop _ f tag_colon k 0 k). eapply tag_colon_ends; eauto.
  - inversion H as [| ? ? Ht Hts]; subst.
    cbn [flat_map] in *. rewrite !app_length in Hf. cbn [length] in Hf.
    destruct f as [| f]; [lia |].
    rewrite <- !app_assoc. cbn [app].
    apply (many0_step _ f tag_colon _ t (flat_map (fun t0 => t0 ++ [58]) ts ++ k)).
    + apply tag_colon_ok. apply tag_wf. exact Ht.
    + rewrite (app_length t). cbn [length]. lia.
    + eapply IH; eauto. lia.
Qed.

(* the two earlier alternatives fail, without cut, on a comment *)
Lemma metadata_tags_fail_doc : forall fuel s k k', tags_like s = false -> ends k k' ->
  exists l r, metadata_tags fuel (s ++ k) = PErr false l r.
Proof.
  intros fuel s k k' H Hk. pose proof (ends_nts _ _ Hk) as Kn. pose proof (ends_not_colon _ _ Hk) as Kc.
  unfold metadata_tags, delimited, many1, terminated.
  destruct s as [| c s1].
  - do 2 eexists. apply pmap_err. apply bind_err. apply chr_fail. exact Kc.
  - destruct (N.eqb_spec 58 c) as [<- | Hc].
    + cbn [tags_like] in H.
      destruct (span_while_split nts s1) as (w & r & E & -> & Hw & Hr). rewrite E in H.
      unfold pmap, bind. cbn [app]. rw chr_ok. rewrite <- app_assoc.
      assert (F : starts_not nts (r ++ k)) by (apply rm_starts_not_app; assumption).
      destruct w as [| n w]; do 2 eexists.
      * cbn [app]. rw (rm_tag_key_fail _ F). reflexivity.
      * cbn [is_empty negb andb] in H.
        rw (rm_tag_key_ok (n :: w) (r ++ k) ltac:(discriminate) Hw F).
        assert (G : starts_not (N.eqb 58) (r ++ k)) by (apply rm_starts_false_app; assumption).
        rw (chr_fail 58 _ G). reflexivity.
    + do 2 eexists. apply pmap_err. apply bind_err. apply chr_fail.
      change ((58 =? c) = false). apply N.eqb_neq. exact Hc.
Qed.

Lemma metadata_kv_fail_doc : forall s k k', kv_like s = false -> ends k k' ->
  exists l r, metadata_kv (s ++ k) = PErr false l r.
Proof.
  intros s k k' H Hk. pose proof (ends_nts _ _ Hk) as Kn. pose proof (ends_not_colon _ _ Hk) as Kc.
  pose proof (ends_starts_not_sp _ _ Hk) as Ks.
  unfold kv_like in H.
  destruct (span_while_split nts s) as (w & r & E & -> & Hw & Hr). rewrite E in H.
  assert (F : starts_not nts (r ++ k)) by (apply rm_starts_not_app; assumption).
  unfold metadata_kv, terminated, bind. rewrite <- app_assoc.
  destruct w as [| n w]; do 2 eexists.
  - cbn [app]. rw (rm_tag_key_fail _ F). reflexivity.
  - cbn [is_empty negb andb] in H.
    rw (rm_tag_key_ok (n :: w) (r ++ k) ltac:(discriminate) Hw F).
    destruct (space0_skip (r ++ k)) as [s0 E0]. rw E0.
    assert (G : starts_not (N.eqb 58) (skip_sp (r ++ k))).
    { unfold skip_sp in *. destruct (span_while_split is_sp r) as (a & b & Eb & -> & Ha & Hb).
      rewrite Eb in H. cbn [snd] in H. rewrite <- app_assoc.
      rewrite (span_while_all is_sp a (b ++ k) Ha); [| apply rm_starts_not_app; assumption].
      cbn [snd]. apply rm_starts_false_app; assumption. }
    unfold ret. rw (metadata_value_fail _ G). reflexivity.
Qed.

Lemma tag_head : forall t, tag t -> exists c r, t = c :: r /\ is_sp c = false /\ (58 =? c) = false.
Proof.
  intros t [Hne Ht]. destruct t as [| c r]; [congruence |]. apply all_cons in Ht. destruct Ht as [Hc _].
  exists c, r. split; [reflexivity |]. unfold tag_char, is_ascii_whitespace in Hc. unfold is_sp. lia.
Qed.

Lemma meta_alternatives_doc : forall fuel b k k', doc_meta_body b -> ends k k' -> (length b <= fuel)%nat ->
  exists m, (space0 ;;; alt (metadata_tags fuel)
                          (alt metadata_kv (pmap (fun s => MComment (trim_end s)) till_line_ending)))
            (b ++ k) = POk m k.
Proof.
  intros fuel b k k' H Hk L. pose proof (ends_starts_not_sp _ _ Hk) as Ks.
  destruct H as [s1 key s2 v H1 Hkey H2 Hv | s1 ts H1 Hne Hts | s1 t H1 Ht Hsp Htl Hkl]; unfold bind.
  - (* key: value *)
    destruct (tag_head key Hkey) as (c0 & r0 & E0 & Hs0 & Hc0).
    rewrite <- !app_assoc.
    assert (Ns : starts_not is_sp (key ++ s2 ++ [58] ++ v ++ k)) by (rewrite E0; exact Hs0).
    rw (space0_ok s1 _ H1 Ns).
    assert (E1 : metadata_tags fuel (key ++ s2 ++ [58] ++ v ++ k) = PErr false 0 (key ++ s2 ++ [58] ++ v ++ k)).
    { unfold metadata_tags, delimited. apply pmap_err. apply bind_err. apply chr_fail. rewrite E0. exact Hc0. }
    rewrite (alt_r _ _ _ _ _ _ E1).
    destruct (metadata_value_ok v k k' Hv Hk) as [mv Emv].
    eexists. apply alt_l. unfold metadata_kv, terminated, bind.
    assert (Cst : starts_not (fun c => negb (tag_stop c)) ([58] ++ v ++ k)) by reflexivity.
    rw (tag_key_ok key (s2 ++ [58] ++ v ++ k) Hkey (sps_or_more_tag_stop s2 _ H2 Cst)).
    rw (space0_ok s2 ([58] ++ v ++ k) H2 ltac:(reflexivity)). unfold ret at 1. cbv beta iota.
    cbn [app]. rw Emv. reflexivity.
  - (* word tags *)
    destruct ts as [| t ts]; [congruence |]. inversion Hts as [| ? ? Ht Hts']; subst.
    rewrite <- !app_assoc.
    rw (space0_ok s1 ([58] ++ flat_map (fun t0 => t0 ++ [58]) (t :: ts) ++ k) H1 ltac:(reflexivity)).
    exists (MWordTags (t :: ts)). apply alt_l. unfold metadata_tags, delimited, many1.
    change (terminated tag_key (chr 58)) with tag_colon.
    unfold pmap, bind. cbn [flat_map app]. rw chr_ok. rewrite <- !app_assoc. cbn [app].
    rw (tag_colon_ok t (flat_map (fun t0 => t0 ++ [58]) ts ++ k) (tag_wf t Ht)).
    rewrite (tags_loop_doc ts fuel k k' Hts' Hk).
    + cbv beta iota. unfold ret at 1. cbv beta iota. rw (space0_none k Ks). reflexivity.
    + rewrite !app_length in L. cbn [flat_map length] in L. rewrite !app_length in L. lia.
  - (* comment *)
    assert (Ns : starts_not is_sp (t ++ k)) by (apply rm_starts_false_app; assumption).
    rewrite <- !app_assoc. rw (space0_ok s1 _ H1 Ns).
    destruct (metadata_tags_fail_doc fuel t k k' Htl Hk) as (l1 & r1 & E1). rewrite (alt_r _ _ _ _ _ _ E1).
    destruct (metadata_kv_fail_doc t k k' Hkl Hk) as (l2 & r2 & E2). rewrite (alt_r _ _ _ _ _ _ E2).
    rewrite (pmap_ok _ _ _ _ _ t k (till_line_ending_ok t k k' Ht Hk)). eauto.
Qed.

Lemma meta_line_doc : forall fuel l k k', doc_meta_line l -> (length l <= fuel)%nat -> ends k k' ->
  exists m, meta_item fuel (l ++ k) = POk m k'.
Proof.
  intros fuel l k k' H L Hk. destruct H as [s b Hs Hb].
  assert (Lb : (length b <= fuel)%nat) by (rewrite !app_length in L; lia).
  destruct (meta_alternatives_doc fuel b k k' Hb Hk Lb) as [m Em].
  exists m. unfold meta_item, preceded, bind. rewrite <- !app_assoc.
  rw (space1_ok s ([59] ++ b ++ k) Hs ltac:(reflexivity)).
  unfold line_metadata, delimited. unfold bind at 1. unfold bind at 1. cbn [app]. rw (chr_ok 59 (b ++ k)).
  unfold bind in Em. unfold bind at 1.
  destruct (space0 (b ++ k)) as [s0 q0 | | |]; try discriminate.
  unfold bind at 1. rw Em. unfold bind. rw (line_ending_or_eof_ok k k' Hk). reflexivity.
Qed.

(* what may follow a block of metadata lines: no indented `;` *)
Definition meta_stop (K : list N) : Prop := starts_not is_sp K \/ starts_not (N.eqb 59) (skip_sp K).

Lemma meta_item_stop_doc : forall fuel K, meta_stop K -> exists l r, meta_item fuel K = PErr false l r.
Proof.
  intros fuel K [H | H].
  - unfold meta_item, preceded, bind. rw (take_while1_fail is_sp K H : space1 K = _). eauto.
  - apply meta_item_stop. exact H.
Qed.

Lemma doc_meta_line_ne : forall l, doc_meta_line l -> l <> [].
Proof. intros l [s b [Hne _] _]. destruct s; [congruence | discriminate]. Qed.

Lemma line_length_le : forall (ls : lines) le, In le ls -> (length (fst le) <= length (render_lines ls))%nat.
Proof.
  induction ls as [| [l e] r IH]; intros le Hin; [destruct Hin |].
  rewrite render_cons, !app_length. destruct Hin as [<- | Hin]; [simpl; lia |].
  specialize (IH le Hin). lia.
Qed.

Lemma block_metadata_doc : forall fuel k ms K,
  ends k (render_lines ms ++ K) -> Forall (fun le => doc_meta_line (fst le)) ms -> well_ended ms K ->
  meta_stop K -> (length (render_lines ms ++ K) <= fuel)%nat ->
  exists mds, block_metadata fuel k = POk mds K.
Proof.
  intros fuel k ms K Hk Hms Hwe HK L.
  assert (M : exists mds, many0 fuel (meta_item fuel) (render_lines ms ++ K) = POk mds K).
  { apply (many0_block _ (meta_item fuel) (fun l => doc_meta_line l /\ (length l <= fuel)%nat)).
    - intros l k0 k0' [Hl Ll] Hk0. eapply meta_line_doc; eauto.
    - intros l [Hl _]. apply doc_meta_line_ne. exact Hl.
    - rewrite Forall_forall in *. intros le Hin. split; [apply Hms; exact Hin |].
      pose proof (line_length_le ms le Hin). rewrite app_length in L. lia.
    - exact Hwe.
    - apply meta_item_stop_doc. exact HK.
    - exact L. }
  destruct M as [mds M]. exists mds. unfold block_metadata.
  assert (F : match k with c :: _ => c =? 59 | [] => false end = false).
  { destruct Hk as [-> | [-> | [-> _]]]; reflexivity. }
  rewrite F. unfold preceded, bind. rw (line_ending_or_eof_ok k _ Hk). exact M.
Qed.

(* ---- clear mark ---- *)
Lemma clear_state_none : forall x, starts_not is_clear_mark x -> ParseMeta.clear_state x = POk Uncleared x.
Proof.
  intros x Hm. unfold ParseMeta.clear_state.
  assert (E : terminated (alt (chr 42 ;;; ret Cleared) (chr 33 ;;; ret Pending)) space0 x = PErr false 0 x).
  { unfold terminated, bind, alt.
    destruct x as [| c r]; [reflexivity |]. unfold starts_not, is_clear_mark in Hm.
    apply orb_false_iff in Hm. destruct Hm as [H1 H2].
    unfold chr, one_of. rewrite (N.eqb_sym 42 c), H1, (N.eqb_sym 33 c), H2. reflexivity. }
  rewrite (pmap_ok _ _ _ _ _ _ _ (opt_none _ _ _ _ _ E)). reflexivity.
Qed.

Lemma clear_state_mark : forall c i, clear_mark c ->
  exists st, ParseMeta.clear_state (c :: i) = POk st (skip_sp i).
Proof.
  intros c i Hc. destruct (space0_skip i) as [s Es]. unfold ParseMeta.clear_state.
  destruct Hc as [-> | ->].
  - assert (E : terminated (alt (chr 42 ;;; ret Cleared) (chr 33 ;;; ret Pending)) space0 (42 :: i)
                = POk Cleared (skip_sp i)).
    { unfold terminated, bind, alt. rewrite (chr_ok 42 i). unfold ret at 1. rewrite Es. reflexivity. }
    rewrite (pmap_ok _ _ _ _ _ _ _ (opt_ok _ _ _ _ _ E)). eauto.
  - assert (E : terminated (alt (chr 42 ;;; ret Cleared) (chr 33 ;;; ret Pending)) space0 (33 :: i)
                = POk Pending (skip_sp i)).
    { unfold terminated, bind, alt.
      assert (C : chr 42 (33 :: i) = PErr false 0 (33 :: i)) by reflexivity.
      rewrite C. rewrite (chr_ok 33 i). unfold ret at 1. rewrite Es. reflexivity. }
    rewrite (pmap_ok _ _ _ _ _ _ _ (opt_ok _ _ _ _ _ E)). eauto.
Qed.

Lemma clear_mark_not_sp : forall c, clear_mark c -> is_sp c = false.
Proof. intros c [-> | ->]; reflexivity. Qed.

(* ---- the value part of a posting line ---- *)
Lemma doc_posting_amount_head : forall a, doc_posting_amount a -> head_in is_expr_head a.
Proof. intros a [v s kds l c Hv _ _ _]. apply head_in_app. apply doc_vexpr_head. exact Hv. Qed.

Lemma doc_balance_head : forall b, doc_balance b -> exists r, b = 61 :: r.
Proof. intros b [s v s' _ _ _]. eexists. reflexivity. Qed.

Lemma bal_line_tail : forall b k k', (b = [] \/ doc_balance b) -> ends k k' ->
  skip_sp (b ++ k) = b ++ k /\ line_tail (b ++ k).
Proof.
  intros b k k' [-> | H] Hk.
  - cbn [app]. split; [apply skip_sp_id; eapply ends_starts_not_sp; eauto | eapply ends_line_tail; eauto].
  - destruct (doc_balance_head b H) as [r ->]. cbn [app]. split; [apply skip_sp_id; reflexivity | simpl; auto].
Qed.

Lemma pv_cases : forall pv k k', (pv = [] \/ doc_posting_value pv) -> ends k k' ->
  follow_account (pv ++ k) /\
  (skip_sp (pv ++ k) = k \/
   (exists b, doc_balance b /\ skip_sp (pv ++ k) = b ++ k /\ (length b <= length pv)%nat) \/
   (exists a s' b, doc_posting_amount a /\ sps0 s' /\ (b = [] \/ doc_balance b) /\
                   skip_sp (pv ++ k) = a ++ s' ++ b ++ k /\ (length a + length b <= length pv)%nat)).
Proof.
  intros pv k k' [-> | H] Hk.
  - cbn [app]. split.
    + destruct Hk as [-> | [-> | [-> _]]]; [right; right; reflexivity | right; right; reflexivity | left; reflexivity].
    + left. apply skip_sp_id. eapply ends_starts_not_sp; eauto.
  - destruct H as [g s pa b Hg Hs Hpa Hb]. split.
    + destruct Hg as [-> | ->]; [right; left; eexists; reflexivity | right; right; reflexivity].
    + assert (Gs : all is_sp g) by (destruct Hg as [-> | ->]; reflexivity).
      rewrite <- !app_assoc. rewrite (skip_sp_app g _ Gs), (skip_sp_app s _ Hs).
      destruct Hpa as [-> | (a & s' & Ha & Hs' & ->)].
      * cbn [app]. destruct (bal_line_tail b k k' Hb Hk) as [Sk _]. rewrite Sk.
        destruct Hb as [-> | Hb]; [left; reflexivity |]. right; left. exists b.
        split; [exact Hb |]. split; [reflexivity |]. rewrite !app_length. lia.
      * right; right. exists a, s', b. split; [exact Ha |]. split; [exact Hs' |]. split; [exact Hb |].
        rewrite <- !app_assoc. split; [| rewrite !app_length; lia].
        apply (skip_head is_expr_head a _ expr_head_sp (doc_posting_amount_head a Ha)).
Qed.

Lemma posting_amount_nil : forall fuel, opt (terminated (posting_amount fuel) space0) [] = POk None [].
Proof.
  intros. eapply opt_none. unfold terminated. apply bind_err. unfold posting_amount. apply bind_err.
  unfold terminated. apply bind_err. unfold with_span. reflexivity.
Qed.

Lemma peek_line_end : forall k k', ends k k' -> k <> [] -> has_peek line_ending_or_semi k = POk true k.
Proof.
  intros k k' [-> | [-> | [-> _]]] Hne; [| | congruence]; eapply has_peek_true; reflexivity.
Qed.

Lemma expr_head_not_les : forall c, is_expr_head c = true -> (c =? 10) || (c =? 13) || (c =? 59) = false.
Proof. intros c H. apply expr_head_cases in H. lia. Qed.

(* ---- the body of a posting ---- *)
Lemma posting_body_doc : forall fuel s0 cs a pv k k' mds K,
  sps0 s0 ->
  ((cs = [] /\ starts is_clear_mark a = false) \/ exists c s', clear_mark c /\ sps0 s' /\ cs = c :: s') ->
  wf_account a = true -> (pv = [] \/ doc_posting_value pv) ->
  ends k k' -> block_metadata fuel k = POk mds K -> (length (a ++ pv) <= fuel)%nat ->
  exists p sps, posting_body fuel (s0 ++ cs ++ a ++ pv ++ k) = POk (p, sps) K.
Proof.
  intros fuel s0 cs a pv k k' mds K Hs0 Hcs Ha Hpv Hk Em L.
  destruct (wf_account_parts a Ha) as (c0 & r0 & Ea & Hns & _ & _).
  destruct (nonstop_facts c0 Hns) as (Hsp0 & _ & _ & _).
  rewrite app_length in L.
  assert (As : forall y, starts_not is_sp (a ++ y)) by (intros y; rewrite Ea; exact Hsp0).
  assert (Cs : exists st, (preceded space0 ParseMeta.clear_state) (s0 ++ cs ++ a ++ pv ++ k)
                          = POk st (a ++ pv ++ k)).
  { unfold preceded, bind. destruct Hcs as [[-> Hm] | (c & s' & Hc & Hs' & ->)].
    - cbn [app]. rw (space0_ok s0 (a ++ pv ++ k) Hs0 (As _)). exists Uncleared. apply clear_state_none.
      rewrite Ea in *. cbn [app starts] in *. exact Hm.
    - rw (space0_ok s0 ((c :: s') ++ a ++ pv ++ k) Hs0 (clear_mark_not_sp c Hc)).
      destruct (clear_state_mark c (s' ++ a ++ pv ++ k) Hc) as [st E]. exists st. cbn [app]. rewrite E.
      f_equal. apply skip_sp_all; [exact Hs' | apply As]. }
  destruct Cs as [st Cs].
  destruct (pv_cases pv k k' Hpv Hk) as [FA Cases].
  destruct (posting_account_fmt fuel a (pv ++ k) Ha FA ltac:(lia)) as (asp & Eacc).
  unfold posting_body. rewrite (bind_ok _ _ _ _ _ _ _ Cs).
  rewrite (bind_ok _ _ _ _ _ _ _ (context_ok _ L_account _ _ _ _ Eacc)).
  destruct Cases as [-> | [(b & Hb & -> & Lb) | (a' & s' & b & Ha' & Hs' & Hb & -> & Lab)]].
  - (* no value *)
    destruct k as [| ck kr].
    + assert (Sh : has_peek line_ending_or_semi [] = POk false []) by (eapply has_peek_false; reflexivity).
      rewrite (bind_ok _ _ _ _ _ _ _ Sh). cbv iota.
      rewrite (bind_ok _ _ _ _ _ _ _ (context_ok _ L_amount _ _ _ _ (posting_amount_nil fuel))).
      fold (bal_parser fuel). rewrite (bind_ok _ _ _ _ _ _ _ (balance_none fuel [] I)).
      rewrite (bind_ok _ _ _ _ _ _ _ (context_ok _ L_post_meta _ _ _ _ Em)).
      eexists _, _. reflexivity.
    + rewrite (bind_ok _ _ _ _ _ _ _ (peek_line_end _ _ Hk ltac:(discriminate))). cbv iota.
      rewrite (bind_ok _ _ _ _ _ _ _ Em). eexists _, _. reflexivity.
  - (* a balance assertion only *)
    destruct (doc_balance_head b Hb) as [rb Erb].
    assert (Sh : has_peek line_ending_or_semi (b ++ k) = POk false (b ++ k)).
    { eapply has_peek_false. apply les_fail. rewrite Erb. reflexivity. }
    rewrite (bind_ok _ _ _ _ _ _ _ Sh). cbv iota.
    assert (Eam : opt (terminated (posting_amount fuel) space0) (b ++ k) = POk None (b ++ k)).
    { rewrite Erb. apply posting_amount_fail_eq. }
    rewrite (bind_ok _ _ _ _ _ _ _ (context_ok _ L_amount _ _ _ _ Eam)).
    destruct (balance_doc fuel b k k' Hb Hk ltac:(lia)) as [o Eb].
    fold (bal_parser fuel). rewrite (bind_ok _ _ _ _ _ _ _ Eb).
    rewrite (bind_ok _ _ _ _ _ _ _ (context_ok _ L_post_meta _ _ _ _ Em)).
    eexists _, _. reflexivity.
  - (* an amount *)
    destruct (doc_posting_amount_head a' Ha') as (ch & rh & Eh & Hh).
    assert (Sh : has_peek line_ending_or_semi (a' ++ s' ++ b ++ k) = POk false (a' ++ s' ++ b ++ k)).
    { eapply has_peek_false. apply les_fail. rewrite Eh. unfold starts_not. cbn [app].
      apply expr_head_not_les. exact Hh. }
    rewrite (bind_ok _ _ _ _ _ _ _ Sh). cbv iota.
    destruct (bal_line_tail b k k' Hb Hk) as [Sk Lt].
    assert (Tf : tail_follow (s' ++ b ++ k)).
    { unfold tail_follow. rewrite (skip_sp_app s' _ Hs'), Sk. exact Lt. }
    destruct (posting_amount_doc fuel a' (s' ++ b ++ k) Ha' Tf ltac:(lia)) as (pa & sps & r & Epa & Sr).
    assert (Eam : context L_amount (opt (terminated (posting_amount fuel) space0)) (a' ++ s' ++ b ++ k)
                  = POk (Some (pa, sps)) (b ++ k)).
    { apply context_ok. eapply opt_ok. unfold terminated. rewrite (bind_ok _ _ _ _ _ _ _ Epa).
      destruct (space0_skip r) as [s1 Es]. rewrite (bind_ok _ _ _ _ _ _ _ Es).
      rewrite Sr, (skip_sp_app s' _ Hs'), Sk. reflexivity. }
    rewrite (bind_ok _ _ _ _ _ _ _ Eam).
    destruct (balance_any fuel b k k' Hb Hk ltac:(lia)) as [o Eb].
    fold (bal_parser fuel). rewrite (bind_ok _ _ _ _ _ _ _ Eb).
    rewrite (bind_ok _ _ _ _ _ _ _ (context_ok _ L_post_meta _ _ _ _ Em)).
    eexists _, _. reflexivity.
Qed.

Lemma posting_of_body : forall fuel i x K, posting_body fuel i = POk x K ->
  exists p sps, posting fuel i = POk (p, sps) K.
Proof.
  intros fuel i [p [[[[a1 a2] a3] a4] a5]] K E. unfold posting.
  rewrite (pmap_ok _ _ _ _ _ _ _ (with_span_ok _ _ _ _ _ (context_ok _ L_posting _ _ _ _ E))).
  eexists _, _. reflexivity.
Qed.

Lemma posting_indent_doc : forall s c r, sps1 s -> is_sp c = false -> (c =? 10) = false -> (c =? 13) = false ->
  posting_indent (s ++ c :: r) = POk tt (c :: r).
Proof.
  intros s c r [Hne Hs] Hc H1 H2. unfold posting_indent, bind.
  rewrite (take_while1_ok is_sp s (c :: r) Hne Hs Hc).
  unfold pnot. rewrite (leof_fail c r H1 H2). reflexivity.
Qed.

Lemma posting_lines_facts : forall fuel l e ms K,
  Forall (fun le => doc_meta_line (fst le)) ms -> well_ended ((l, e) :: ms) K -> meta_stop K ->
  (length (render_lines ((l, e) :: ms) ++ K) <= fuel)%nat ->
  ends (eol_text e ++ render_lines ms ++ K) (render_lines ms ++ K) /\
  (exists mds, block_metadata fuel (eol_text e ++ render_lines ms ++ K) = POk mds K) /\
  (length l <= fuel)%nat.
Proof.
  intros fuel l e ms K Hms [He Hwe] HK L.
  pose proof (line_ends e ms K He) as Hk. rewrite render_cons, <- !app_assoc, !app_length in L.
  split; [exact Hk |]. split; [| lia].
  apply (block_metadata_doc fuel _ ms K Hk Hms Hwe HK). rewrite app_length. lia.
Qed.

(* Stage 2: a posting line of the documented grammar, its line end and its metadata lines are
   read by the posting parser, which stops in front of K (not an indented `;` line). *)
Theorem doc_posting_accepted : forall fuel l e ms K,
  doc_posting_line l -> Forall (fun le => doc_meta_line (fst le)) ms ->
  well_ended ((l, e) :: ms) K -> meta_stop K ->
  (length (render_lines ((l, e) :: ms) ++ K) <= fuel)%nat ->
  exists p sps, posting fuel (render_lines ((l, e) :: ms) ++ K) = POk (p, sps) K.
Proof.
  intros fuel l e ms K Hl Hms Hwe HK L.
  destruct (posting_lines_facts fuel l e ms K Hms Hwe HK L) as (Hk & [mds Em] & Ll).
  destruct Hl as [s cs a pv [_ Hs] Hcs Ha Hpv].
  rewrite render_cons, <- !app_assoc.
  assert (La : (length (a ++ pv) <= fuel)%nat) by (rewrite !app_length in *; lia).
  destruct (posting_body_doc fuel s cs a pv _ _ mds K Hs Hcs Ha Hpv Hk Em La) as (p & sps & E).
  eapply posting_of_body. exact E.
Qed.

(* the same, as the transaction parser reads it: indentation, then the posting under cut_err *)
Theorem doc_posting_item_accepted : forall fuel l e ms K,
  doc_posting_line l -> Forall (fun le => doc_meta_line (fst le)) ms ->
  well_ended ((l, e) :: ms) K -> meta_stop K ->
  (length (render_lines ((l, e) :: ms) ++ K) <= fuel)%nat ->
  exists p sps, posting_item fuel (render_lines ((l, e) :: ms) ++ K) = POk (p, sps) K.
Proof.
  intros fuel l e ms K Hl Hms Hwe HK L.
  destruct (posting_lines_facts fuel l e ms K Hms Hwe HK L) as (Hk & [mds Em] & Ll).
  destruct Hl as [s cs a pv Hs Hcs Ha Hpv].
  rewrite render_cons, <- !app_assoc.
  assert (La : (length (a ++ pv) <= fuel)%nat) by (rewrite !app_length in *; lia).
  destruct (posting_body_doc fuel [] cs a pv _ _ mds K (all_nil _) Hcs Ha Hpv Hk Em La) as (p & sps & E).
  cbn [app] in E. destruct (posting_of_body _ _ _ _ E) as (p' & sps' & E').
  exists p', sps'.
  (* the first character after the indentation *)
  destruct (wf_account_parts a Ha) as (c0 & r0 & Ea & Hns & _ & _).
  destruct (nonstop_facts c0 Hns) as (F1 & F2 & F3 & _).
  assert (Hd : exists c r, cs ++ a ++ pv ++ eol_text e ++ render_lines ms ++ K = c :: r /\
                           is_sp c = false /\ (c =? 10) = false /\ (c =? 13) = false).
  { destruct Hcs as [[-> _] | (c & s' & Hc & _ & ->)].
    - rewrite Ea. cbn [app]. eexists _, _. split; [reflexivity |]. auto.
    - cbn [app]. eexists _, _. split; [reflexivity |]. destruct Hc as [-> | ->]; auto. }
  destruct Hd as (c & r & Ey & Hc1 & Hc2 & Hc3).
  unfold posting_item, preceded. rewrite Ey in *.
  rewrite (bind_ok _ _ _ _ _ _ _ (posting_indent_doc s c r Hs Hc1 Hc2 Hc3)).
  apply cut_err_ok. exact E'.
Qed.


(* ================================================================================== *)
(* Stage 3: transactions                                                               *)
(* ================================================================================== *)

(* ---- blanks in front of a text ---- *)
Lemma skip_app_cases : forall p k,
  (skip_sp p = [] /\ skip_sp (p ++ k) = skip_sp k) \/
  (skip_sp p <> [] /\ skip_sp (p ++ k) = skip_sp p ++ k).
Proof.
  intros p k. destruct (span_while_split is_sp p) as (a & b & E & -> & Ha & Hb).
  assert (S : skip_sp (a ++ b) = b) by (apply skip_sp_all; assumption). rewrite S.
  destruct b as [| c b'].
  - left. split; [reflexivity |]. rewrite app_nil_r. apply skip_sp_app. exact Ha.
  - right. split; [discriminate |]. rewrite <- app_assoc. apply skip_sp_all; [exact Ha | exact Hb].
Qed.

Lemma skip_app_starts : forall f p k, starts f (skip_sp p) = false -> starts_not f (skip_sp k) ->
  starts_not f (skip_sp (p ++ k)).
Proof.
  intros f p k Hp Hk. destruct (skip_app_cases p k) as [[_ ->] | [Hne ->]]; [exact Hk |].
  destruct (skip_sp p) as [| c r]; [congruence |]. exact Hp.
Qed.

Lemma ends_skip : forall k k', ends k k' -> skip_sp k = k.
Proof. intros k k' H. apply skip_sp_id. eapply ends_starts_not_sp; eauto. Qed.

Lemma ends_not_mark : forall k k', ends k k' -> starts_not is_clear_mark k.
Proof. intros k k' [-> | [-> | [-> _]]]; reflexivity. Qed.
Lemma ends_not_paren : forall k k', ends k k' -> starts_not (N.eqb 40) k.
Proof. intros k k' [-> | [-> | [-> _]]]; reflexivity. Qed.
Lemma ends_payee_stop : forall k k', ends k k' -> starts_not (fun c => negb (is_payee_stop c)) k.
Proof. intros k k' [-> | [-> | [-> _]]]; reflexivity. Qed.
Lemma ends_not_digit : forall k k', ends k k' -> starts_not Comb.is_digit k.
Proof. intros k k' [-> | [-> | [-> _]]]; reflexivity. Qed.

(* ---- the note of a header: mark, code, payee ---- *)
Lemma code_none : forall x, starts_not (N.eqb 40) x -> opt (terminated paren_str space0) x = POk None x.
Proof.
  intros x H. eapply opt_none. unfold terminated. apply bind_err.
  unfold paren_str, paren, delimited. apply bind_err. apply chr_fail. exact H.
Qed.

Lemma code_some : forall t y, all code_char t ->
  exists c, opt (terminated paren_str space0) ([40] ++ t ++ [41] ++ y) = POk c (skip_sp y).
Proof.
  intros t y Ht. exists (Some t). eapply opt_ok.
  unfold terminated, bind, paren_str, paren, delimited, bind. cbn [app]. rw (chr_ok 40 (t ++ 41 :: y)).
  assert (T : take_till0 (N.eqb 41) (t ++ 41 :: y) = POk t (41 :: y)).
  { apply take_till0_ok; [| reflexivity]. apply (all_impl code_char); [| exact Ht].
    intros c Hc. unfold code_char in Hc. lia. }
  rw T. rw (chr_ok 41 y). unfold ret at 1. cbv beta iota.
  destruct (space0_skip y) as [s0 Es]. rw Es. reflexivity.
Qed.

Lemma payee_doc : forall p k k', all payee_char p -> ends k k' ->
  exists o, opt (pmap trim_end till_line_ending_or_semi) (skip_sp (p ++ k)) = POk o k.
Proof.
  intros p k k' Hp Hk. destruct (span_while_split is_sp p) as (a & b & E & -> & Ha & Hb).
  apply all_app in Hp. destruct Hp as [_ Hpb].
  rewrite <- app_assoc, (skip_sp_app a _ Ha).
  destruct b as [| c b'].
  - cbn [app]. rewrite (ends_skip _ _ Hk). exists None. eapply opt_none. apply pmap_err.
    unfold till_line_ending_or_semi. apply take_till1_fail. eapply ends_payee_stop; eauto.
  - rewrite (skip_sp_id ((c :: b') ++ k)) by exact Hb. eexists. eapply opt_ok.
    assert (T : till_line_ending_or_semi ((c :: b') ++ k) = POk (c :: b') k).
    { unfold till_line_ending_or_semi. apply take_till1_ok; [discriminate | exact Hpb |].
      eapply ends_payee_stop; eauto. }
    rewrite (pmap_ok _ _ trim_end _ _ _ _ T). reflexivity.
Qed.

Definition note_reads (X k : list N) : Prop :=
  exists st X1 code X2 payee,
    ParseMeta.clear_state X = POk st X1 /\
    opt (terminated paren_str space0) X1 = POk code X2 /\
    opt (pmap trim_end till_line_ending_or_semi) X2 = POk payee k.

Lemma note_none_doc : forall k k', ends k k' -> note_reads k k.
Proof.
  intros k k' Hk. exists Uncleared, k, None, k, None.
  split; [apply clear_state_none; eapply ends_not_mark; eauto |].
  split; [apply code_none; eapply ends_not_paren; eauto |].
  eapply opt_none. apply pmap_err. unfold till_line_ending_or_semi. apply take_till1_fail.
  eapply ends_payee_stop; eauto.
Qed.

Lemma note_doc : forall n k k', doc_note n -> ends k k' -> note_reads (skip_sp (n ++ k)) k.
Proof.
  intros n k k' H Hk. destruct H as [cs code p Hcs Hcode Hp H40 Hmark].
  rewrite <- !app_assoc.
  pose proof (ends_skip _ _ Hk) as Sk.
  (* after the mark *)
  assert (C1 : exists st, ParseMeta.clear_state (skip_sp (cs ++ code ++ p ++ k)) = POk st (skip_sp (code ++ p ++ k))).
  { destruct Hcs as [-> | (c & s' & Hc & Hs' & ->)].
    - cbn [app]. exists Uncleared. apply clear_state_none.
      destruct Hcode as [-> | (t & s'' & _ & _ & ->)].
      + cbn [app]. apply skip_app_starts; [apply Hmark; reflexivity |]. rewrite Sk. eapply ends_not_mark; eauto.
      + cbn [app]. rewrite skip_sp_id by reflexivity. reflexivity.
    - cbn [app]. rewrite skip_sp_id by (apply clear_mark_not_sp; exact Hc).
      destruct (clear_state_mark c (s' ++ code ++ p ++ k) Hc) as [st E]. exists st. rewrite E.
      rewrite (skip_sp_app s' _ Hs'). reflexivity. }
  destruct C1 as [st C1].
  assert (C2 : exists co, opt (terminated paren_str space0) (skip_sp (code ++ p ++ k)) = POk co (skip_sp (p ++ k))).
  { destruct Hcode as [-> | (t & s'' & Ht & Hs'' & ->)].
    - cbn [app]. exists None. apply code_none.
      apply skip_app_starts; [apply H40; reflexivity |]. rewrite Sk. eapply ends_not_paren; eauto.
    - rewrite <- !app_assoc. rewrite (skip_sp_id ([40] ++ _)) by reflexivity.
      destruct (code_some t (s'' ++ p ++ k) Ht) as [co E]. exists co. rewrite E.
      rewrite (skip_sp_app s'' _ Hs''). reflexivity. }
  destruct C2 as [co C2].
  destruct (payee_doc p k k' Hp Hk) as [o C3].
  exists st, (skip_sp (code ++ p ++ k)), co, (skip_sp (p ++ k)), o. auto.
Qed.

(* ---- what may follow the postings ---- *)
Lemma not_detail_posting_stop : forall fuel K, not_detail K -> posting_item fuel K = PErr false 0 K \/
  exists r, posting_item fuel K = PErr false 0 r.
Proof.
  intros fuel K [H | (s & k & k' & -> & Hs & Hk)].
  - left. unfold posting_item, preceded. apply bind_err. unfold posting_indent. apply bind_err.
    apply take_while1_fail. exact H.
  - right. exists k. unfold posting_item, preceded. apply bind_err. unfold posting_indent, bind.
    destruct Hs as [Hne Hs].
    rewrite (take_while1_ok is_sp s k Hne Hs (ends_starts_not_sp _ _ Hk)).
    unfold pnot. rewrite (line_ending_or_eof_ok k k' Hk). reflexivity.
Qed.

Lemma not_detail_meta_stop : forall K, not_detail K -> meta_stop K.
Proof.
  intros K [H | (s & k & k' & -> & [_ Hs] & Hk)]; [left; exact H | right].
  rewrite (skip_sp_app s k Hs), (ends_skip _ _ Hk). destruct Hk as [-> | [-> | [-> _]]]; reflexivity.
Qed.

(* a posting starts with an indented character that is not `;` *)
Lemma posting_meta_stop : forall p Y, doc_posting p -> meta_stop (render_lines p ++ Y).
Proof.
  intros p Y [l e ms Hl _]. right. rewrite render_cons, <- !app_assoc.
  destruct Hl as [s cs a pv [_ Hs] Hcs Ha _]. rewrite <- !app_assoc. rewrite (skip_sp_app s _ Hs).
  destruct (wf_account_parts a Ha) as (c0 & r0 & Ea & Hns & _ & _).
  destruct (nonstop_facts c0 Hns) as (F1 & _ & _ & _).
  assert (H59 : (59 =? c0) = false).
  { unfold nonstop in Hns. apply negb_true_iff in Hns. unfold is_account_stop in Hns. lia. }
  destruct Hcs as [[-> _] | (c & s' & Hc & _ & ->)].
  - rewrite Ea. cbn [app]. rewrite skip_sp_id by exact F1. exact H59.
  - cbn [app]. rewrite skip_sp_id by (apply clear_mark_not_sp; exact Hc). destruct Hc as [-> | ->]; reflexivity.
Qed.

Lemma well_ended_app : forall a b K, well_ended (a ++ b) K -> well_ended a (render_lines b ++ K) /\ well_ended b K.
Proof.
  induction a as [| [l e] a IH]; intros b K H; [split; [exact I | exact H] |].
  cbn [app well_ended] in *. destruct H as [He H]. destruct (IH b K H) as [H1 H2].
  split; [| exact H2]. split; [| exact H1]. intros E. specialize (He E).
  rewrite render_app, <- app_assoc in He. exact He.
Qed.

Lemma posting_length : forall p Y, doc_posting p -> (length Y < length (render_lines p ++ Y))%nat.
Proof.
  intros p Y [l e ms Hl _]. rewrite render_cons, <- !app_assoc.
  destruct Hl as [s cs a pv [Hne _] _ _ _]. rewrite !app_length. destruct s; [congruence | simpl; lia].
Qed.

Lemma postings_doc : forall fuel ps f K,
  Forall doc_posting ps -> well_ended (concat ps) K -> not_detail K ->
  (length (render_lines (concat ps) ++ K) <= f)%nat ->
  (length (render_lines (concat ps) ++ K) <= fuel)%nat ->
  exists xs, many0 f (posting_item fuel) (render_lines (concat ps) ++ K) = POk xs K.
Proof.
  intros fuel. induction ps as [| p ps IH]; intros f K Hps Hwe HK Lf Lfuel.
  - cbn [concat]. exists []. cbn [render_lines flat_map app].
    destruct (not_detail_posting_stop fuel K HK) as [E | [r E]]; eapply many0_stop; exact E.
  - inversion Hps as [| ? ? Hp Hps']; subst. cbn [concat] in *.
    rewrite render_app, <- app_assoc in *.
    destruct (well_ended_app _ _ _ Hwe) as [We1 We2].
    set (K1 := render_lines (concat ps) ++ K) in *.
    assert (MS : meta_stop K1).
    { destruct ps as [| p2 ps2].
      - unfold K1. cbn [concat render_lines flat_map app]. apply not_detail_meta_stop. exact HK.
      - inversion Hps' as [| ? ? Hp2 _]; subst. unfold K1. cbn [concat]. rewrite render_app, <- app_assoc.
        apply posting_meta_stop. exact Hp2. }
    pose proof (posting_length p K1 Hp) as Lp.
    destruct Hp as [l e ms Hl Hms].
    destruct (doc_posting_item_accepted fuel l e ms K1 Hl Hms We1 MS Lfuel) as (x & sps & E).
    destruct f as [| f]; [lia |].
    destruct (IH f K Hps' We2 HK ltac:(fold K1; lia) ltac:(fold K1; lia)) as [xs Exs].
    exists ((x, sps) :: xs). eapply many0_step; [exact E | exact Lp | exact Exs].
Qed.

(* ---- the transaction ---- *)
Lemma doc_note_or_none : forall nt k k',
  (nt = [] \/ exists s n, sps1 s /\ doc_note n /\ nt = s ++ n) -> ends k k' ->
  starts_not Comb.is_digit (nt ++ k) /\ starts_not (N.eqb 61) (nt ++ k) /\
  exists b o X, has_peek (alt line_ending_or_eof (void (chr 59))) (nt ++ k) = POk b (nt ++ k) /\
                cond (negb b) space1 (nt ++ k) = POk o X /\ note_reads X k.
Proof.
  intros nt k k' [-> | (s & n & Hs & Hn & ->)] Hk.
  - cbn [app]. split; [eapply ends_not_digit; eauto |]. split; [eapply ends_not_eq; eauto |].
    exists true, None, k. split.
    + eapply has_peek_true. apply alt_l. apply (line_ending_or_eof_ok k k' Hk).
    + split; [reflexivity | eapply note_none_doc; eauto].
  - destruct Hs as [Hne Hs]. destruct s as [| a s']; [congruence |].
    pose proof Hs as Hs0. apply all_cons in Hs. destruct Hs as [Ha _].
    rewrite <- app_assoc.
    split; [cbn [app]; unfold starts_not; destruct (sp_cases a Ha) as [-> | ->]; reflexivity |].
    split; [cbn [app]; unfold starts_not; destruct (sp_cases a Ha) as [-> | ->]; reflexivity |].
    destruct (space1_skip (a :: s') (n ++ k) ltac:(discriminate) Hs0) as [s1 E1].
    exists false, (Some s1), (skip_sp (n ++ k)). split.
    + eapply has_peek_false. cbn [app].
      assert (F : line_ending_or_eof (a :: s' ++ n ++ k) = PErr false 0 (a :: s' ++ n ++ k)).
      { apply leof_fail; destruct (sp_cases a Ha) as [-> | ->]; reflexivity. }
      rewrite (alt_r _ _ _ _ _ _ F). unfold void. apply bind_err. apply chr_fail.
      unfold starts_not. destruct (sp_cases a Ha) as [-> | ->]; reflexivity.
    + split; [unfold cond, negb; apply pmap_ok; exact E1 | eapply note_doc; eauto].
Qed.

(* Stage 3: a transaction of the documented grammar (its lines with their line ends) is read
   by the transaction parser, which stops in front of K: the end of the text, a line that does
   not start with a blank, or a line of blanks. *)
Theorem doc_transaction_accepted : forall fuel ls K,
  doc_transaction ls -> well_ended ls K -> not_detail K ->
  (length (render_lines ls ++ K) <= fuel)%nat ->
  exists t sps, transaction fuel (render_lines ls ++ K) = POk (t, sps) K.
Proof.
  intros fuel ls K H Hwe HK L. destruct H as [h e ms ps Hh Hms Hps].
  destruct Hwe as [He Hwe]. destruct (well_ended_app _ _ _ Hwe) as [We1 We2].
  pose proof (line_ends e (ms ++ concat ps) K He) as Hk.
  rewrite render_cons, <- !app_assoc in *. rewrite render_app, <- app_assoc in *.
  assert (Lk : (length (render_lines ms ++ render_lines (concat ps) ++ K) <= fuel)%nat)
    by (rewrite !app_length in *; lia).
  assert (Lp : (length (render_lines (concat ps) ++ K) <= fuel)%nat) by (rewrite !app_length in *; lia).
  set (KP := render_lines (concat ps) ++ K) in *.
  set (k := eol_text e ++ render_lines ms ++ KP) in *.
  (* metadata lines and postings *)
  assert (MS : meta_stop KP).
  { destruct ps as [| p2 ps2].
    - unfold KP. cbn [concat render_lines flat_map app]. apply not_detail_meta_stop. exact HK.
    - inversion Hps as [| ? ? Hp2 _]; subst. unfold KP. cbn [concat]. rewrite render_app, <- app_assoc.
      apply posting_meta_stop. exact Hp2. }
  destruct (block_metadata_doc fuel k ms KP Hk Hms We1 MS Lk) as [mds Em].
  destruct (postings_doc fuel ps fuel K Hps We2 HK Lp Lp) as [xs Eps]. fold KP in Eps.
  (* the header *)
  destruct Hh as [d ed nt Hd Hed Hnt]. rewrite <- !app_assoc.
  destruct (doc_note_or_none nt k _ Hnt Hk) as (Nd & Ne & b & o & X & Esh & Esp & st & X1 & co & X2 & pay & C1 & C2 & C3).
  assert (Ed : exists dt, context L_txn_date ParseExpr.date (d ++ ed ++ nt ++ k) = POk dt (ed ++ nt ++ k)).
  { destruct (date_doc d (ed ++ nt ++ k) Hd) as [dt E]; [| exists dt; apply context_ok; exact E].
    destruct Hed as [-> | (d2 & _ & ->)]; [exact Nd | reflexivity]. }
  destruct Ed as [dt Ed].
  assert (Eed : exists o2, opt (preceded (chr 61) ParseExpr.date) (ed ++ nt ++ k) = POk o2 (nt ++ k)).
  { destruct Hed as [-> | (d2 & Hd2 & ->)].
    - exists None. cbn [app]. eapply opt_none. unfold preceded. apply bind_err. apply chr_fail. exact Ne.
    - destruct (date_doc d2 (nt ++ k) Hd2 Nd) as [dt2 E2]. exists (Some dt2). cbn [app].
      eapply opt_ok. unfold preceded, bind. rw (chr_ok 61 (d2 ++ nt ++ k)). exact E2. }
  destruct Eed as [o2 Eed].
  unfold transaction.
  rewrite (bind_ok _ _ _ _ _ _ _ Ed). rewrite (bind_ok _ _ _ _ _ _ _ Eed).
  rewrite (bind_ok _ _ _ _ _ _ _ Esh). rewrite (bind_ok _ _ _ _ _ _ _ Esp).
  rewrite (bind_ok _ _ _ _ _ _ _ C1). rewrite (bind_ok _ _ _ _ _ _ _ C2).
  rewrite (bind_ok _ _ _ _ _ _ _ C3). rewrite (bind_ok _ _ _ _ _ _ _ Em).
  fold (posting_item fuel). rewrite (bind_ok _ _ _ _ _ _ _ Eps).
  eexists _, _. reflexivity.
Qed.


(* ================================================================================== *)
(* Stage 4: whole files                                                                *)
(* ================================================================================== *)
Lemma dispatch_digit : forall fuel c r, Comb.is_digit c = true ->
  parse_ledger_entry fuel (c :: r) = pmap (fun x => (STxn (fst x), snd x)) (transaction fuel) (c :: r).
Proof.
  intros fuel c r H. unfold parse_ledger_entry.
  assert (R : 48 <= c <= 57) by (unfold Comb.is_digit in H; lia).
  assert (E1 : (c =? 97) = false) by lia. assert (E2 : (c =? 99) = false) by lia.
  assert (E3 : (c =? 101) = false) by lia. assert (E4 : (c =? 105) = false) by lia.
  assert (E5 : is_comment_prefix c = false) by (unfold is_comment_prefix; lia).
  rewrite E1, E2, E3, E4, E5, H. reflexivity.
Qed.

Lemma doc_transaction_first : forall ls, doc_transaction ls ->
  exists l e r c t, ls = (l, e) :: r /\ l = c :: t /\ Comb.is_digit c = true.
Proof.
  intros ls [h e ms ps Hh _ _]. destruct Hh as [d ed nt Hd _ _].
  destruct (doc_date_head d Hd) as (c & t & -> & Hc).
  exists ((c :: t) ++ ed ++ nt), e, (ms ++ concat ps), c, (t ++ ed ++ nt). auto.
Qed.

Lemma digit_facts : forall c, Comb.is_digit c = true ->
  is_sp c = false /\ is_nl c = false /\ is_comment_prefix c = false.
Proof.
  intros c H. unfold Comb.is_digit in H. unfold is_sp, is_nl, is_comment_prefix. lia.
Qed.

Lemma directive2_first : forall ls, directive2 ls ->
  exists l e r c t, ls = (l, e) :: r /\ l = c :: t /\ is_sp c = false /\ is_nl c = false /\
                    (is_comment_prefix c = true <-> is_comment_block ls).
Proof.
  intros ls [H | H]; [apply directive_first; exact H |].
  destruct (doc_transaction_first ls H) as (l & e & r & c & t & -> & -> & Hc).
  destruct (digit_facts c Hc) as (F1 & F2 & F3).
  exists (c :: t), e, r, c, t. split; [reflexivity |]. split; [reflexivity |]. split; [exact F1 |].
  split; [exact F2 |]. split; [intros E; congruence |].
  intros HC. simpl in HC. inversion HC; subst. congruence.
Qed.

Lemma entry_transaction : forall fuel ls K,
  doc_transaction ls -> well_ended ls K -> not_detail K ->
  (length (render_lines ls ++ K) <= fuel)%nat ->
  exists x, parse_ledger_entry fuel (render_lines ls ++ K) = POk x K.
Proof.
  intros fuel ls K H Hwe HK L.
  destruct (doc_transaction_accepted fuel ls K H Hwe HK L) as (t & sps & E).
  destruct (doc_transaction_first ls H) as (l & e & r & c & t0 & -> & -> & Hc).
  rewrite render_cons in *. cbn [app] in *.
  rewrite (dispatch_digit fuel c _ Hc). rewrite (pmap_ok _ _ _ _ _ _ _ E). eauto.
Qed.

Lemma directive2_entry : forall fuel ls K,
  directive2 ls -> well_ended ls K -> not_detail K ->
  (is_comment_block ls -> starts_not is_comment_prefix K) ->
  (length (render_lines ls ++ K) <= fuel)%nat ->
  exists x, parse_ledger_entry fuel (render_lines ls ++ K) = POk x K.
Proof.
  intros fuel ls K [H | H] Hwe HK HC L; [apply directive_entry; assumption | apply entry_transaction; assumption].
Qed.

Lemma directive2_length : forall ls K, directive2 ls -> (length K < length (render_lines ls ++ K))%nat.
Proof.
  intros ls K Hd. destruct (directive2_first ls Hd) as (l & e & r & c & t & -> & -> & _).
  rewrite render_cons. simpl. rewrite !app_length. lia.
Qed.

(* what the rendering of the following items looks like to the directive before them *)
Lemma follow_ok2 : forall its, items_ok2 its -> eof_only_last (flat_map item_lines its) ->
  not_detail (render_items its) /\
  (match its with Dir ls :: _ => ~ is_comment_block ls | _ => True end ->
   starts_not is_comment_prefix (render_items its)).
Proof.
  intros its Hok Heof. destruct its as [| [s e | ls] r].
  - split; [left; exact I | intros; exact I].
  - destruct Hok as [Hs Hok].
    assert (He : e = Eof -> render_items r = []).
    { destruct (eof_only_last_split [(s, e)] (flat_map item_lines r) Heof) as [[He _] _].
      intros E. specialize (He E). exact He. }
    change (render_items (Blank s e :: r)) with (render_lines ((s, e) :: flat_map item_lines r)).
    rewrite render_cons. fold (render_items r).
    destruct s as [| c s'].
    + cbn [app]. split.
      * left. destruct e; cbn [eol_text app starts_not]; auto. rewrite (He eq_refl). exact I.
      * intros _. destruct e; cbn [eol_text app starts_not]; auto. rewrite (He eq_refl). exact I.
    + split.
      * right. exists (c :: s'), (eol_text e ++ render_items r), (render_items r).
        split; [reflexivity |]. split; [split; [discriminate | exact Hs] |]. apply ends_eol. exact He.
      * intros _. apply all_cons in Hs. destruct Hs as [Hc _]. cbn [app starts_not].
        destruct (sp_cases c Hc) as [-> | ->]; reflexivity.
  - destruct Hok as (Hd & Hok & _).
    destruct (directive2_first ls Hd) as (l & e & r0 & c & t & -> & -> & Q1 & Q2 & Q3).
    unfold render_items. simpl flat_map. rewrite render_cons. simpl app.
    split; [left; exact Q1 |].
    intros Hn. simpl. destruct (is_comment_prefix c) eqn:E; [| reflexivity].
    exfalso. apply Hn. apply Q3. reflexivity.
Qed.

Lemma items_steps2 : forall its fuel B,
  items_ok2 its -> eof_only_last (flat_map item_lines its) ->
  blank_text (render_items its) B ->
  (length (B ++ render_items its) <= fuel)%nat ->
  steps fuel (B ++ render_items its).
Proof.
  induction its as [| it r IH]; intros fuel B Hok Heof HB Hlen.
  - apply steps_done. unfold render_items in *. simpl in *.
    apply vertical_space_ok; auto; exact I.
  - destruct it as [s e | ls].
    + (* a blank line: it joins the blank text *)
      destruct Hok as [Hs Hok].
      destruct (eof_only_last_split [(s, e)] (flat_map item_lines r) Heof) as [[He _] Heof'].
      assert (He' : e = Eof -> render_items r = []) by (intros E; specialize (He E); exact He).
      rewrite render_items_cons_blank in *. rewrite app_assoc.
      apply IH; auto.
      * apply blank_text_extend; [exact HB |]. apply blank_item_text; auto.
      * rewrite <- app_assoc. exact Hlen.
    + destruct Hok as (Hd & Hok & Hmax).
      simpl flat_map in Heof.
      destruct (eof_only_last_split ls _ Heof) as [Hwe Heof'].
      destruct (follow_ok2 r Hok Heof') as [F1 F2].
      rewrite render_items_cons_dir in *.
      set (R := render_lines ls ++ render_items r) in *.
      assert (HR : solid R).
      { destruct (directive2_first ls Hd) as (l & e & r0 & c & t & -> & -> & Q1 & Q2 & _).
        unfold R. rewrite render_cons. simpl. auto. }
      assert (HlenR : (length R <= fuel)%nat) by (rewrite app_length in Hlen; lia).
      destruct (directive2_entry fuel ls (render_items r) Hd Hwe F1
                  ltac:(intros Hc; apply F2; specialize (Hmax Hc); destruct r as [| [|] ]; auto)
                  HlenR) as [x Ex].
      eapply (steps_entry fuel (B ++ R) R x (render_items r)).
      * apply vertical_space_ok; auto.
      * unfold R. destruct (directive2_first ls Hd) as (l & e & r0 & c & t & -> & -> & _).
        rewrite render_cons. discriminate.
      * apply suffix_app.
      * exact Ex.
      * apply suffix_app.
      * apply directive2_length. exact Hd.
      * apply (IH fuel [] Hok Heof' (BT_nil _)).
        simpl. unfold R in HlenR. rewrite app_length in HlenR. lia.
Qed.

(* Stage 4: every text of the documented grammar, transactions included, is accepted. *)
Theorem doc_grammar_txn_accepted : forall s, In_doc_grammar_txn s -> exists es, parse_ledger s = LOk es.
Proof.
  intros s (its & Hok & Heof & ->). unfold parse_ledger.
  apply steps_loop; [| apply suffix_refl | lia].
  apply (items_steps2 its _ [] Hok Heof (BT_nil _)). simpl. fold (render_items its). lia.
Qed.

(* the grammar of DocGrammar.v is the part without transactions *)
Lemma items_ok_ok2 : forall its, items_ok its -> items_ok2 its.
Proof.
  induction its as [| [s e | ls] r IH]; intros H; [exact I | |].
  - destruct H as [Hs H]. split; auto.
  - destruct H as (Hd & H & Hm). split; [left; exact Hd |]. split; auto.
Qed.

Lemma In_doc_grammar_txn_extends : forall s, In_doc_grammar s -> In_doc_grammar_txn s.
Proof. intros s (its & Hok & Heof & E). exists its. split; [apply items_ok_ok2; exact Hok | auto]. Qed.

(* ================================================================================== *)
(* Examples: the grammar is inhabited, and documented texts the parser rejects         *)
(* ================================================================================== *)
Module DocTxnExamples.

Ltac lit := (eexists; split; [vm_compute; reflexivity | vm_compute; reflexivity]).
Lemma mk_amount : forall d l s c, doc_decimal l -> sps0 s -> all commodity_char c ->
  doc_value_expr d 1 (l ++ s ++ c).
Proof. intros. apply DV_amount. constructor; assumption. Qed.
Lemma mk_vexpr : forall h x, (h <=? max_expr_height)%nat = true -> doc_value_expr max_expr_depth h x -> doc_vexpr x.
Proof. intros h x H1 H2. exists h. split; [apply Nat.leb_le; exact H1 | exact H2]. Qed.

Lemma ex_date1 : doc_date [50; 48; 50; 52; 47; 48; 49; 47; 48; 53].
Proof.
  apply (DDate [50; 48; 50; 52] 47 [48; 49] [48; 53]); try reflexivity;
    [left; reflexivity | simpl; lia | simpl; lia | vm_compute; discriminate].
Qed.
Lemma ex_date2 : doc_date [50; 48; 50; 52; 45; 49; 45; 54].
Proof.
  apply (DDate [50; 48; 50; 52] 45 [49] [54]); try reflexivity;
    [right; reflexivity | simpl; lia | simpl; lia | vm_compute; discriminate].
Qed.
Lemma ex_date3 : doc_date [50; 48; 50; 52; 47; 48; 49; 47; 48; 49].
Proof.
  apply (DDate [50; 48; 50; 52] 47 [48; 49] [48; 49]); try reflexivity;
    [left; reflexivity | simpl; lia | simpl; lia | vm_compute; discriminate].
Qed.

(* 10 USD ; 2 EUR ; 0 ; (1 + -2 * 3) *)
Lemma ex_v1 : doc_vexpr [49; 48; 32; 85; 83; 68].
Proof. apply (mk_vexpr 1); [reflexivity |]. apply (mk_amount _ [49; 48] [32] [85; 83; 68]); [lit | reflexivity | reflexivity]. Qed.
Lemma ex_v2 : doc_vexpr [50; 32; 69; 85; 82].
Proof. apply (mk_vexpr 1); [reflexivity |]. apply (mk_amount _ [50] [32] [69; 85; 82]); [lit | reflexivity | reflexivity]. Qed.
Lemma ex_v3 : doc_vexpr [48].
Proof. apply (mk_vexpr 1); [reflexivity |]. apply (mk_amount _ [48] [] []); [lit | reflexivity | reflexivity]. Qed.
(* of height 5: the literals 1, "-2" = 2, "-2 * 3" = 3, the sum 4, the parentheses 5 *)
Lemma ex_v4 : doc_vexpr [40; 49; 32; 43; 32; 45; 50; 32; 42; 32; 51; 41].
Proof.
  apply (mk_vexpr 5); [reflexivity |].
  apply (DV_paren 99 4 [] [49; 32; 43; 32; 45; 50; 32; 42; 32; 51] []); [reflexivity | | reflexivity].
  apply (DA_more 99 1 3 [49] [32] 43 [32] [45; 50; 32; 42; 32; 51]); [| reflexivity | left; reflexivity | reflexivity |].
  - apply DA_one, DM_one. apply (DU_pos 99 1 [49]). apply (mk_amount _ [49] [] []); [lit | reflexivity | reflexivity].
  - apply (DM_more 99 2 1 [45; 50] [32] 42 [32] [51]); [| reflexivity | left; reflexivity | reflexivity |].
    + apply DM_one. apply (DU_neg 99 1 [50]). apply (mk_amount _ [50] [] []); [lit | reflexivity | reflexivity].
    + apply (DU_pos 99 1 [51]). apply (mk_amount _ [51] [] []); [lit | reflexivity | reflexivity].
Qed.

(* 2024/01/05=2024-1-6 * (12) Shop *)
Lemma ex_header : doc_txn_header [50; 48; 50; 52; 47; 48; 49; 47; 48; 53; 61; 50; 48; 50; 52; 45; 49; 45; 54; 32; 42; 32; 40; 49; 50; 41; 32; 83; 104; 111; 112].
Proof.
  apply (DH [50; 48; 50; 52; 47; 48; 49; 47; 48; 53] [61; 50; 48; 50; 52; 45; 49; 45; 54] [32; 42; 32; 40; 49; 50; 41; 32; 83; 104; 111; 112]); [exact ex_date1 | right; eexists; split; [exact ex_date2 | reflexivity] |].
  right. exists [32], [42; 32; 40; 49; 50; 41; 32; 83; 104; 111; 112]. split; [split; [discriminate | reflexivity] |]. split; [| reflexivity].
  apply (DN [42; 32] [40; 49; 50; 41; 32] [83; 104; 111; 112]).
  - right. exists 42, [32]. split; [left; reflexivity |]. split; reflexivity.
  - right. exists [49; 50], [32]. split; [reflexivity |]. split; reflexivity.
  - reflexivity.
  - discriminate.
  - discriminate.
Qed.

(* "  ; :tag:"  "  ; k: v"  "  ; just a note" *)
Lemma ex_meta1 : doc_meta_line [32; 32; 59; 32; 58; 116; 97; 103; 58].
Proof.
  apply (ML [32; 32] [32; 58; 116; 97; 103; 58]); [split; [discriminate | reflexivity] |].
  apply (MB_tags [32] [[116; 97; 103]]); [reflexivity | discriminate |].
  constructor; [split; [discriminate | reflexivity] | constructor].
Qed.
Lemma ex_meta2 : doc_meta_line [32; 32; 59; 32; 107; 58; 32; 118].
Proof.
  apply (ML [32; 32] [32; 107; 58; 32; 118]); [split; [discriminate | reflexivity] |].
  apply (MB_kv [32] [107] [] [32; 118]); [reflexivity | split; [discriminate | reflexivity] | reflexivity | reflexivity].
Qed.
Lemma ex_meta3 : doc_meta_line [32; 32; 59; 32; 106; 117; 115; 116; 32; 97; 32; 110; 111; 116; 101].
Proof.
  apply (ML [32; 32] [32; 106; 117; 115; 116; 32; 97; 32; 110; 111; 116; 101]); [split; [discriminate | reflexivity] |].
  apply (MB_comment [32] [106; 117; 115; 116; 32; 97; 32; 110; 111; 116; 101]); reflexivity.
Qed.

(* "  Expenses:Food  10 USD {2 EUR} [2024/01/01] (n) @ 2 EUR = 0" *)
Lemma ex_posting1 : doc_posting_line [32; 32; 69; 120; 112; 101; 110; 115; 101; 115; 58; 70; 111; 111; 100; 32; 32; 49; 48; 32; 85; 83; 68; 32; 123; 50; 32; 69; 85; 82; 125; 32; 91; 50; 48; 50; 52; 47; 48; 49; 47; 48; 49; 93; 32; 40; 110; 41; 32; 64; 32; 50; 32; 69; 85; 82; 32; 61; 32; 48].
Proof.
  apply (DPL [32; 32] [] [69; 120; 112; 101; 110; 115; 101; 115; 58; 70; 111; 111; 100] [32; 32; 49; 48; 32; 85; 83; 68; 32; 123; 50; 32; 69; 85; 82; 125; 32; 91; 50; 48; 50; 52; 47; 48; 49; 47; 48; 49; 93; 32; 40; 110; 41; 32; 64; 32; 50; 32; 69; 85; 82; 32; 61; 32; 48]);
    [split; [discriminate | reflexivity] | left; split; reflexivity | reflexivity |].
  right. apply (DPV [32; 32] [] [49; 48; 32; 85; 83; 68; 32; 123; 50; 32; 69; 85; 82; 125; 32; 91; 50; 48; 50; 52; 47; 48; 49; 47; 48; 49; 93; 32; 40; 110; 41; 32; 64; 32; 50; 32; 69; 85; 82; 32] [61; 32; 48]); [left; reflexivity | reflexivity | |].
  - right. exists [49; 48; 32; 85; 83; 68; 32; 123; 50; 32; 69; 85; 82; 125; 32; 91; 50; 48; 50; 52; 47; 48; 49; 47; 48; 49; 93; 32; 40; 110; 41; 32; 64; 32; 50; 32; 69; 85; 82], [32]. split; [| split; reflexivity].
    apply (DPA [49; 48; 32; 85; 83; 68] [32] [LkPrice; LkDate; LkNote] [123; 50; 32; 69; 85; 82; 125; 32; 91; 50; 48; 50; 52; 47; 48; 49; 47; 48; 49; 93; 32; 40; 110; 41; 32] [64; 32; 50; 32; 69; 85; 82]); [exact ex_v1 | reflexivity | |].
    + apply (DL_cons LkPrice [LkDate; LkNote] [123; 50; 32; 69; 85; 82; 125] [32] [91; 50; 48; 50; 52; 47; 48; 49; 47; 48; 49; 93; 32; 40; 110; 41; 32]);
        [simpl; intuition discriminate | | reflexivity |].
      * apply (LP_rate [] [50; 32; 69; 85; 82] []); [reflexivity | exact ex_v2 | reflexivity].
      * apply (DL_cons LkDate [LkNote] [91; 50; 48; 50; 52; 47; 48; 49; 47; 48; 49; 93] [32] [40; 110; 41; 32]);
          [simpl; intuition discriminate | | reflexivity |].
        -- apply (LP_date [] [50; 48; 50; 52; 47; 48; 49; 47; 48; 49] []); [reflexivity | exact ex_date3 | reflexivity].
        -- apply (DL_cons LkNote [] [40; 110; 41] [32] []); [simpl; tauto | | reflexivity | constructor].
           apply (LP_note [110]). reflexivity.
    + apply (DC_rate [32] [50; 32; 69; 85; 82]); [reflexivity | exact ex_v2].
  - right. apply (DB [32] [48] []); [reflexivity | exact ex_v3 | reflexivity].
Qed.

(* "  ! Assets:Cash<TAB>= (1 + -2 * 3)" *)
Lemma ex_posting2 : doc_posting_line [32; 32; 33; 32; 65; 115; 115; 101; 116; 115; 58; 67; 97; 115; 104; 9; 61; 32; 40; 49; 32; 43; 32; 45; 50; 32; 42; 32; 51; 41].
Proof.
  apply (DPL [32; 32] [33; 32] [65; 115; 115; 101; 116; 115; 58; 67; 97; 115; 104] [9; 61; 32; 40; 49; 32; 43; 32; 45; 50; 32; 42; 32; 51; 41]); [split; [discriminate | reflexivity] | | reflexivity |].
  - right. exists 33, [32]. split; [right; reflexivity |]. split; reflexivity.
  - right. apply (DPV [9] [] [] [61; 32; 40; 49; 32; 43; 32; 45; 50; 32; 42; 32; 51; 41]); [right; reflexivity | reflexivity | left; reflexivity |].
    right. apply (DB [32] [40; 49; 32; 43; 32; 45; 50; 32; 42; 32; 51; 41] []); [reflexivity | exact ex_v4 | reflexivity].
Qed.

(* "  Equity" *)
Lemma ex_posting3 : doc_posting_line [32; 32; 69; 113; 117; 105; 116; 121].
Proof.
  apply (DPL [32; 32] [] [69; 113; 117; 105; 116; 121] []);
    [split; [discriminate | reflexivity] | left; split; reflexivity | reflexivity | left; reflexivity].
Qed.

Definition ex_txn : lines :=
  [([50; 48; 50; 52; 47; 48; 49; 47; 48; 53; 61; 50; 48; 50; 52; 45; 49; 45; 54; 32; 42; 32; 40; 49; 50; 41; 32; 83; 104; 111; 112], Lf); ([32; 32; 59; 32; 58; 116; 97; 103; 58], Lf); ([32; 32; 59; 32; 107; 58; 32; 118], Lf); ([32; 32; 59; 32; 106; 117; 115; 116; 32; 97; 32; 110; 111; 116; 101], Lf);
   ([32; 32; 69; 120; 112; 101; 110; 115; 101; 115; 58; 70; 111; 111; 100; 32; 32; 49; 48; 32; 85; 83; 68; 32; 123; 50; 32; 69; 85; 82; 125; 32; 91; 50; 48; 50; 52; 47; 48; 49; 47; 48; 49; 93; 32; 40; 110; 41; 32; 64; 32; 50; 32; 69; 85; 82; 32; 61; 32; 48], Lf); ([32; 32; 59; 32; 107; 58; 32; 118], Lf); ([32; 32; 33; 32; 65; 115; 115; 101; 116; 115; 58; 67; 97; 115; 104; 9; 61; 32; 40; 49; 32; 43; 32; 45; 50; 32; 42; 32; 51; 41], CrLf); ([32; 32; 69; 113; 117; 105; 116; 121], Lf)].

Lemma ex_transaction : doc_transaction ex_txn.
Proof.
  apply (DT [50; 48; 50; 52; 47; 48; 49; 47; 48; 53; 61; 50; 48; 50; 52; 45; 49; 45; 54; 32; 42; 32; 40; 49; 50; 41; 32; 83; 104; 111; 112] Lf [([32; 32; 59; 32; 58; 116; 97; 103; 58], Lf); ([32; 32; 59; 32; 107; 58; 32; 118], Lf); ([32; 32; 59; 32; 106; 117; 115; 116; 32; 97; 32; 110; 111; 116; 101], Lf)]
            [[([32; 32; 69; 120; 112; 101; 110; 115; 101; 115; 58; 70; 111; 111; 100; 32; 32; 49; 48; 32; 85; 83; 68; 32; 123; 50; 32; 69; 85; 82; 125; 32; 91; 50; 48; 50; 52; 47; 48; 49; 47; 48; 49; 93; 32; 40; 110; 41; 32; 64; 32; 50; 32; 69; 85; 82; 32; 61; 32; 48], Lf); ([32; 32; 59; 32; 107; 58; 32; 118], Lf)]; [([32; 32; 33; 32; 65; 115; 115; 101; 116; 115; 58; 67; 97; 115; 104; 9; 61; 32; 40; 49; 32; 43; 32; 45; 50; 32; 42; 32; 51; 41], CrLf)]; [([32; 32; 69; 113; 117; 105; 116; 121], Lf)]]).
  - exact ex_header.
  - repeat constructor; [exact ex_meta1 | exact ex_meta2 | exact ex_meta3].
  - repeat constructor; [exact ex_posting1 | exact ex_meta2 | exact ex_posting2 | exact ex_posting3].
Qed.

(* the transaction, a blank line, a top-level comment, an account declaration ending at <EOF> *)
Definition ex_items : list item :=
  [Dir ex_txn; Blank [] Lf; Dir [([59; 32; 116; 111; 112; 32; 99; 111; 109; 109; 101; 110; 116], Lf)];
   Dir [([97; 99; 99; 111; 117; 110; 116; 32; 65; 115; 115; 101; 116; 115; 58; 67; 97; 115; 104], Lf); ([32; 32; 110; 111; 116; 101; 32; 32; 116; 104; 101; 32; 119; 97; 108; 108; 101; 116], Eof)]].

Definition ex_text : list N := render_lines (flat_map item_lines ex_items).

Lemma ex_in_grammar : In_doc_grammar_txn ex_text.
Proof.
  exists ex_items. split; [| split; [| reflexivity]].
  - cbn [items_ok2 ex_items].
    split; [right; exact ex_transaction |]. split; [| intros _; exact I].
    split; [reflexivity |].
    split; [| split].
    + left. apply D_comment; [discriminate |]. apply Forall_cons; [| apply Forall_nil].
      apply (CL 59 [32; 116; 111; 112; 32; 99; 111; 109; 109; 101; 110; 116]); reflexivity.
    + split; [| split; [exact I | intros _; exact I]].
      left. apply (D_account [97; 99; 99; 111; 117; 110; 116; 32; 65; 115; 115; 101; 116; 115; 58; 67; 97; 115; 104] Lf [([32; 32; 110; 111; 116; 101; 32; 32; 116; 104; 101; 32; 119; 97; 108; 108; 101; 116], Eof)]).
      * apply (AH [32] [65; 115; 115; 101; 116; 115; 58; 67; 97; 115; 104] []); [split; [discriminate | reflexivity] | | reflexivity].
        split; [discriminate |]. split; [reflexivity | discriminate].
      * apply Forall_cons; [| apply Forall_nil]. apply (DNote doc_account [32; 32] [32; 32] [116; 104; 101; 32; 119; 97; 108; 108; 101; 116]);
          [split; [discriminate | reflexivity] | split; [discriminate | reflexivity] | reflexivity].
    + intros _ HC. cbn in HC. inversion HC. discriminate.
  - cbn. repeat split; discriminate.
Qed.

(* what the theorem says about it, and the parser model run on it *)
Example ex_accepted : exists es, parse_ledger ex_text = LOk es.
Proof. apply doc_grammar_txn_accepted. exact ex_in_grammar. Qed.
Example ex_three_entries : match parse_ledger ex_text with LOk es => length es = 3%nat | _ => False end.
Proof. vm_compute. reflexivity. Qed.

(* ---- documented texts that the parser model rejects; each class is excluded from the grammar by a
   choice listed at the top of Model/DocGrammarTxn.v ---- *)
(* account ::= no-sp (no-sp | " " no-sp)* with no-sp ::= [^ \t\r\n]: U+00A0 is a no-sp, so the posting
   line `  <U+00A0>` is documented; the parser rejects an account made of Unicode white space only
   (.verify(!x.trim().is_empty())).  Excluded by wf_account.
   2024/01/01\n  <U+00A0>\n *)
Definition finding_blank_account_text : list N :=
  [50; 48; 50; 52; 47; 48; 49; 47; 48; 49; 10; 32; 32; 160; 10].
Example finding_blank_account : exists e, parse_ledger finding_blank_account_text = LErr [] e /\ pe_label e = L_account /\ pe_span e = (13, 15).
Proof. eexists. split; [vm_compute; reflexivity | split; reflexivity]. Qed.
(* metadata-comment read as `any text`: `:a: hello` is neither key-value (a tag has no ":") nor
   tag-words ((tag ":")+ ends after `:a:`); the parser commits to tag-words after `:a:` and then
   wants the line end; the line is then taken for a posting.  Excluded by tags_like.
   2024/01/01\n ; :a: hello\n *)
Definition finding_tag_like_comment_text : list N :=
  [50; 48; 50; 52; 47; 48; 49; 47; 48; 49; 10; 32; 59; 32; 58; 97; 58; 32; 104; 101; 108; 108; 111; 10].
Example finding_tag_like_comment : exists e, parse_ledger finding_tag_like_comment_text = LErr [] e /\ pe_label e = L_account /\ pe_span e = (12, 13).
Proof. eexists. split; [vm_compute; reflexivity | split; reflexivity]. Qed.
(* posting-line ::= sp+ (clear-state sp* )? account: the account `*` (a no-sp) without clear-state is
   documented; the parser reads `*` as the clear-state and finds no account.  (An account like
   `*foo` is accepted, as the cleared account `foo`.)  Excluded: without a clear-state the account
   does not start with * or !.
   2024/01/01\n  *\n *)
Definition finding_mark_account_text : list N :=
  [50; 48; 50; 52; 47; 48; 49; 47; 48; 49; 10; 32; 32; 42; 10].
Example finding_mark_account : exists e, parse_ledger finding_mark_account_text = LErr [] e /\ pe_label e = L_account /\ pe_span e = (14, 15).
Proof. eexists. split; [vm_compute; reflexivity | split; reflexivity]. Qed.
(* payee ::= [^\r\n;]* may start with "(" : the code parser then runs over the following lines up
   to the next ")" ; here it swallows `account x` and leaves the sub-directive `  note  two
   blanks` to be read as a posting.  Excluded: without a code the payee does not start with "(".
   2024/01/01 (foo\naccount x)\n  note  two blanks\n *)
Definition finding_open_paren_payee_text : list N :=
  [50; 48; 50; 52; 47; 48; 49; 47; 48; 49; 32; 40; 102; 111; 111; 10; 97; 99; 99; 111; 117; 110; 116; 32; 120; 41; 10; 32; 32; 110; 111; 116; 101; 32; 32; 116; 119; 111; 32; 98; 108; 97; 110; 107; 115; 10].
Example finding_open_paren_payee : exists e, parse_ledger finding_open_paren_payee_text = LErr [] e /\ pe_label e = L_post_meta /\ pe_span e = (35, 36).
Proof. eexists. split; [vm_compute; reflexivity | split; reflexivity]. Qed.
(* date ::= <yyyy/mm/dd>: a day that does not exist is rejected (chrono).  Excluded by chrono_date.
   2024/02/30\n *)
Definition finding_calendar_text : list N :=
  [50; 48; 50; 52; 47; 48; 50; 47; 51; 48; 10].
Example finding_calendar : exists e, parse_ledger finding_calendar_text = LErr [] e /\ pe_label e = L_txn_date /\ pe_span e = (0, 1).
Proof. eexists. split; [vm_compute; reflexivity | split; reflexivity]. Qed.
(* comma-decimal ::= number+ ...: 2^96 does not fit the 96 bit mantissa.  Excluded by `fits`.
   2024/01/01\n a  79228162514264337593543950336\n *)
Definition finding_too_big_text : list N :=
  [50; 48; 50; 52; 47; 48; 49; 47; 48; 49; 10; 32; 97; 32; 32; 55; 57; 50; 50; 56; 49; 54; 50; 53; 49; 52; 50; 54; 52; 51; 51; 55; 53; 57; 51; 53; 52; 51; 57; 53; 48; 51; 51; 54; 10].
Example finding_too_big : exists e, parse_ledger finding_too_big_text = LErr [] e /\ pe_label e = L_post_meta /\ pe_span e = (15, 16).
Proof. eexists. split; [vm_compute; reflexivity | split; reflexivity]. Qed.
(* paren-expr nested 101 times (MAX_EXPR_DEPTH = 100, known finding F7); 100 levels are accepted.
   Excluded by the depth index of doc_value_expr. *)
Definition finding_depth_101_text : list N :=
  [50; 48; 50; 52; 47; 48; 49; 47; 48; 49; 10; 32; 97; 32; 32; 40; 40; 40; 40; 40; 40; 40; 40; 40; 40; 40; 40; 40; 40; 40; 40; 40; 40; 40; 40; 40; 40; 40; 40; 40; 40; 40; 40; 40; 40; 40; 40; 40; 40; 40; 40; 40; 40; 40; 40; 40; 40; 40; 40; 40; 40; 40; 40; 40; 40; 40; 40; 40; 40; 40; 40; 40; 40; 40; 40; 40; 40; 40; 40; 40; 40; 40; 40; 40; 40; 40; 40; 40; 40; 40; 40; 40; 40; 40; 40; 40; 40; 40; 40; 40; 40; 40; 40; 40; 40; 40; 40; 40; 40; 40; 40; 40; 40; 40; 40; 40; 49; 41; 41; 41; 41; 41; 41; 41; 41; 41; 41; 41; 41; 41; 41; 41; 41; 41; 41; 41; 41; 41; 41; 41; 41; 41; 41; 41; 41; 41; 41; 41; 41; 41; 41; 41; 41; 41; 41; 41; 41; 41; 41; 41; 41; 41; 41; 41; 41; 41; 41; 41; 41; 41; 41; 41; 41; 41; 41; 41; 41; 41; 41; 41; 41; 41; 41; 41; 41; 41; 41; 41; 41; 41; 41; 41; 41; 41; 41; 41; 41; 41; 41; 41; 41; 41; 41; 41; 41; 41; 41; 41; 41; 41; 41; 41; 41; 41; 41; 41; 41; 41; 10].
Example finding_depth_101 : exists e, parse_ledger finding_depth_101_text = LErr [] e /\ pe_label e = L_post_meta /\ pe_span e = (15, 16).
Proof. eexists. split; [vm_compute; reflexivity | split; reflexivity]. Qed.
(* the same shape with 100 levels is accepted *)
Example depth_100_accepted : exists es, parse_ledger
  [50; 48; 50; 52; 47; 48; 49; 47; 48; 49; 10; 32; 97; 32; 32; 40; 40; 40; 40; 40; 40; 40; 40; 40; 40; 40; 40; 40; 40; 40; 40; 40; 40; 40; 40; 40; 40; 40; 40; 40; 40; 40; 40; 40; 40; 40; 40; 40; 40; 40; 40; 40; 40; 40; 40; 40; 40; 40; 40; 40; 40; 40; 40; 40; 40; 40; 40; 40; 40; 40; 40; 40; 40; 40; 40; 40; 40; 40; 40; 40; 40; 40; 40; 40; 40; 40; 40; 40; 40; 40; 40; 40; 40; 40; 40; 40; 40; 40; 40; 40; 40; 40; 40; 40; 40; 40; 40; 40; 40; 40; 40; 40; 40; 40; 40; 49; 41; 41; 41; 41; 41; 41; 41; 41; 41; 41; 41; 41; 41; 41; 41; 41; 41; 41; 41; 41; 41; 41; 41; 41; 41; 41; 41; 41; 41; 41; 41; 41; 41; 41; 41; 41; 41; 41; 41; 41; 41; 41; 41; 41; 41; 41; 41; 41; 41; 41; 41; 41; 41; 41; 41; 41; 41; 41; 41; 41; 41; 41; 41; 41; 41; 41; 41; 41; 41; 41; 41; 41; 41; 41; 41; 41; 41; 41; 41; 41; 41; 41; 41; 41; 41; 41; 41; 41; 41; 41; 41; 41; 41; 41; 41; 41; 41; 41; 41; 41; 10] = LOk es.
Proof. eexists. vm_compute. reflexivity. Qed.

(* 256 numbers joined by "+" in parentheses make a tree of height 257 (MAX_EXPR_HEIGHT = 256,
   finding C06-F23: before the fix a chain of some ten thousand operators overflowed the stack);
   255 numbers are accepted.  Excluded by the height index of doc_value_expr. *)
Definition finding_height_257_text : list N :=
  [50; 48; 50; 52; 47; 48; 49; 47; 48; 49; 10; 32; 97; 32; 32; 40; 49; 43; 49; 43; 49; 43; 49; 43; 49; 43; 49; 43; 49; 43; 49; 43; 49; 43; 49; 43; 49; 43; 49; 43; 49; 43; 49; 43; 49; 43; 49; 43; 49; 43; 49; 43; 49; 43; 49; 43; 49; 43; 49; 43; 49; 43; 49; 43; 49; 43; 49; 43; 49; 43; 49; 43; 49; 43; 49; 43; 49; 43; 49; 43; 49; 43; 49; 43; 49; 43; 49; 43; 49; 43; 49; 43; 49; 43; 49; 43; 49; 43; 49; 43; 49; 43; 49; 43; 49; 43; 49; 43; 49; 43; 49; 43; 49; 43; 49; 43; 49; 43; 49; 43; 49; 43; 49; 43; 49; 43; 49; 43; 49; 43; 49; 43; 49; 43; 49; 43; 49; 43; 49; 43; 49; 43; 49; 43; 49; 43; 49; 43; 49; 43; 49; 43; 49; 43; 49; 43; 49; 43; 49; 43; 49; 43; 49; 43; 49; 43; 49; 43; 49; 43; 49; 43; 49; 43; 49; 43; 49; 43; 49; 43; 49; 43; 49; 43; 49; 43; 49; 43; 49; 43; 49; 43; 49; 43; 49; 43; 49; 43; 49; 43; 49; 43; 49; 43; 49; 43; 49; 43; 49; 43; 49; 43; 49; 43; 49; 43; 49; 43; 49; 43; 49; 43; 49; 43; 49; 43; 49; 43; 49; 43; 49; 43; 49; 43; 49; 43; 49; 43; 49; 43; 49; 43; 49; 43; 49; 43; 49; 43; 49; 43; 49; 43; 49; 43; 49; 43; 49; 43; 49; 43; 49; 43; 49; 43; 49; 43; 49; 43; 49; 43; 49; 43; 49; 43; 49; 43; 49; 43; 49; 43; 49; 43; 49; 43; 49; 43; 49; 43; 49; 43; 49; 43; 49; 43; 49; 43; 49; 43; 49; 43; 49; 43; 49; 43; 49; 43; 49; 43; 49; 43; 49; 43; 49; 43; 49; 43; 49; 43; 49; 43; 49; 43; 49; 43; 49; 43; 49; 43; 49; 43; 49; 43; 49; 43; 49; 43; 49; 43; 49; 43; 49; 43; 49; 43; 49; 43; 49; 43; 49; 43; 49; 43; 49; 43; 49; 43; 49; 43; 49; 43; 49; 43; 49; 43; 49; 43; 49; 43; 49; 43; 49; 43; 49; 43; 49; 43; 49; 43; 49; 43; 49; 43; 49; 43; 49; 43; 49; 43; 49; 43; 49; 43; 49; 43; 49; 43; 49; 43; 49; 43; 49; 43; 49; 43; 49; 43; 49; 43; 49; 43; 49; 43; 49; 43; 49; 43; 49; 43; 49; 43; 49; 43; 49; 43; 49; 43; 49; 43; 49; 43; 49; 43; 49; 43; 49; 43; 49; 43; 49; 43; 49; 43; 49; 43; 49; 43; 49; 43; 49; 43; 49; 43; 49; 43; 49; 43; 49; 43; 49; 43; 49; 43; 49; 43; 49; 43; 49; 43; 49; 43; 49; 43; 49; 43; 49; 43; 49; 43; 49; 43; 49; 43; 49; 43; 49; 43; 49; 43; 49; 43; 49; 43; 49; 43; 49; 43; 49; 43; 49; 43; 49; 43; 49; 43; 49; 43; 49; 43; 49; 43; 49; 43; 49; 43; 49; 43; 49; 43; 49; 43; 49; 43; 49; 43; 49; 43; 49; 41; 10].
Example finding_height_257 : exists e, parse_ledger finding_height_257_text = LErr [] e /\ pe_label e = L_post_meta /\ pe_span e = (15, 16).
Proof. eexists. split; [vm_compute; reflexivity | split; reflexivity]. Qed.
(* the same shape with 255 numbers is accepted *)
Example height_256_accepted : exists es, parse_ledger
  [50; 48; 50; 52; 47; 48; 49; 47; 48; 49; 10; 32; 97; 32; 32; 40; 49; 43; 49; 43; 49; 43; 49; 43; 49; 43; 49; 43; 49; 43; 49; 43; 49; 43; 49; 43; 49; 43; 49; 43; 49; 43; 49; 43; 49; 43; 49; 43; 49; 43; 49; 43; 49; 43; 49; 43; 49; 43; 49; 43; 49; 43; 49; 43; 49; 43; 49; 43; 49; 43; 49; 43; 49; 43; 49; 43; 49; 43; 49; 43; 49; 43; 49; 43; 49; 43; 49; 43; 49; 43; 49; 43; 49; 43; 49; 43; 49; 43; 49; 43; 49; 43; 49; 43; 49; 43; 49; 43; 49; 43; 49; 43; 49; 43; 49; 43; 49; 43; 49; 43; 49; 43; 49; 43; 49; 43; 49; 43; 49; 43; 49; 43; 49; 43; 49; 43; 49; 43; 49; 43; 49; 43; 49; 43; 49; 43; 49; 43; 49; 43; 49; 43; 49; 43; 49; 43; 49; 43; 49; 43; 49; 43; 49; 43; 49; 43; 49; 43; 49; 43; 49; 43; 49; 43; 49; 43; 49; 43; 49; 43; 49; 43; 49; 43; 49; 43; 49; 43; 49; 43; 49; 43; 49; 43; 49; 43; 49; 43; 49; 43; 49; 43; 49; 43; 49; 43; 49; 43; 49; 43; 49; 43; 49; 43; 49; 43; 49; 43; 49; 43; 49; 43; 49; 43; 49; 43; 49; 43; 49; 43; 49; 43; 49; 43; 49; 43; 49; 43; 49; 43; 49; 43; 49; 43; 49; 43; 49; 43; 49; 43; 49; 43; 49; 43; 49; 43; 49; 43; 49; 43; 49; 43; 49; 43; 49; 43; 49; 43; 49; 43; 49; 43; 49; 43; 49; 43; 49; 43; 49; 43; 49; 43; 49; 43; 49; 43; 49; 43; 49; 43; 49; 43; 49; 43; 49; 43; 49; 43; 49; 43; 49; 43; 49; 43; 49; 43; 49; 43; 49; 43; 49; 43; 49; 43; 49; 43; 49; 43; 49; 43; 49; 43; 49; 43; 49; 43; 49; 43; 49; 43; 49; 43; 49; 43; 49; 43; 49; 43; 49; 43; 49; 43; 49; 43; 49; 43; 49; 43; 49; 43; 49; 43; 49; 43; 49; 43; 49; 43; 49; 43; 49; 43; 49; 43; 49; 43; 49; 43; 49; 43; 49; 43; 49; 43; 49; 43; 49; 43; 49; 43; 49; 43; 49; 43; 49; 43; 49; 43; 49; 43; 49; 43; 49; 43; 49; 43; 49; 43; 49; 43; 49; 43; 49; 43; 49; 43; 49; 43; 49; 43; 49; 43; 49; 43; 49; 43; 49; 43; 49; 43; 49; 43; 49; 43; 49; 43; 49; 43; 49; 43; 49; 43; 49; 43; 49; 43; 49; 43; 49; 43; 49; 43; 49; 43; 49; 43; 49; 43; 49; 43; 49; 43; 49; 43; 49; 43; 49; 43; 49; 43; 49; 43; 49; 43; 49; 43; 49; 43; 49; 43; 49; 43; 49; 43; 49; 43; 49; 43; 49; 43; 49; 43; 49; 43; 49; 43; 49; 43; 49; 43; 49; 43; 49; 43; 49; 43; 49; 43; 49; 43; 49; 43; 49; 43; 49; 43; 49; 43; 49; 43; 49; 43; 49; 43; 49; 43; 49; 43; 49; 43; 49; 43; 49; 43; 49; 41; 10] = LOk es.
Proof. eexists. vm_compute. reflexivity. Qed.

End DocTxnExamples.

Print Assumptions doc_value_expr_accepted.
Print Assumptions doc_posting_accepted.
Print Assumptions doc_transaction_accepted.
Print Assumptions doc_grammar_txn_accepted.
