(* C05 round trip: the transaction (header, metadata, postings). *)
From Coq Require Import List NArith ZArith Bool Lia Arith.
From Okv Require Import Model.Lit Model.LitSpec Model.Syntax Model.Comb Model.ParseExpr Model.ParseMeta
  Model.ParsePosting Model.ParseTxn Model.Display Model.DocGrammar Model.RoundTripSpec
  Proofs.CombSpec Proofs.DocAccept Proofs.DisplayLayout Proofs.RoundTripBase Proofs.RoundTripNum
  Proofs.RoundTripExpr Proofs.RoundTripLot Proofs.RoundTripMeta Proofs.RoundTripPosting.
Import ListNotations.
Open Scope N_scope.

(* what may follow a transaction: not an indented line, not a `;` *)
Definition follow_txn (k : str) : Prop := starts_not (fun c => is_sp c || (c =? 59)) k.

Lemma follow_txn_block : forall k, follow_txn k -> follow_block k.
Proof.
  intros [| c r] H; [exact I |]. unfold follow_txn, starts_not in H. apply orb_false_iff in H.
  destruct H as [H1 H2]. unfold follow_block. rewrite skip_sp_id by exact H1.
  unfold starts_not. rewrite N.eqb_sym. exact H2.
Qed.

Definition posting_item (fuel : nat) : parser (s_posting * posting_spans) :=
  preceded posting_indent (cut_err (posting fuel)).

Lemma posting_item_stop : forall fuel k, follow_txn k -> posting_item fuel k = PErr false 0 k.
Proof.
  intros fuel k H. unfold posting_item, preceded. apply bind_err. unfold posting_indent. apply bind_err.
  apply take_while1_fail. destruct k as [| c r]; [exact I |]. unfold follow_txn, starts_not in *.
  apply orb_false_iff in H. tauto.
Qed.

(* a printed posting starts with four blanks and a character that is neither blank nor `;` *)
Lemma print_posting_head : forall w p, wf_posting p = true ->
  exists c r, print_posting w p = spaces 4 ++ c :: r /\ is_sp c = false /\ (c =? 59) = false.
Proof.
  intros w p W. destruct (posting_line_shape w p) as (n & m & _ & _ & _ & Shape).
  unfold wf_posting in W. rewrite !andb_true_iff in W. destruct W as [[[[Wa _] _] _] _].
  destruct (wf_account_parts _ Wa) as (c0 & r0 & Ea & Hc0 & _ & _).
  assert (H59 : (c0 =? 59) = false).
  { unfold nonstop in Hc0. apply negb_true_iff in Hc0. unfold is_account_stop in Hc0.
    repeat (apply orb_false_iff in Hc0; destruct Hc0 as [Hc0 ?]). assumption. }
  destruct (nonstop_facts c0 Hc0) as (F1 & _ & _ & _).
  unfold print_posting. rewrite Shape, Ea. rewrite <- !app_assoc.
  destruct (sp_clear p); cbn [print_clear_state app]; eexists _, _; (split; [reflexivity | auto]).
Qed.

Lemma print_posting_follow : forall w p x, wf_posting p = true -> follow_block (print_posting w p ++ x).
Proof.
  intros w p x W. destruct (print_posting_head w p W) as (c & r & E & Hs & H59).
  unfold follow_block. rewrite E, <- app_assoc, skip_sp_spaces. cbn [app].
  rewrite skip_sp_id by exact Hs. unfold starts_not. rewrite N.eqb_sym. exact H59.
Qed.

Lemma print_posting_length : forall w p, wf_posting p = true -> (5 <= length (print_posting w p))%nat.
Proof.
  intros w p W. destruct (print_posting_head w p W) as (c & r & E & _). rewrite E, app_length.
  cbn [length spaces repeat]. lia.
Qed.

Lemma posts_follow : forall w ps k, forallb wf_posting ps = true -> follow_txn k ->
  follow_block (flat_map (print_posting w) ps ++ k).
Proof.
  intros w [| p ps] k W F; [apply follow_txn_block; exact F |].
  cbn [flat_map forallb] in *. apply andb_true_iff in W. destruct W as [Wp _].
  rewrite <- app_assoc. apply print_posting_follow. exact Wp.
Qed.

Lemma posts_loop : forall w fuel ps f k, forallb wf_posting ps = true -> follow_txn k ->
  (length (flat_map (print_posting w) ps ++ k) <= f)%nat ->
  (length (flat_map (print_posting w) ps ++ k) <= fuel)%nat ->
  exists ps', many0 f (posting_item fuel) (flat_map (print_posting w) ps ++ k) = POk ps' k /\
              Forall2 same_posting ps (map fst ps').
Proof.
  intros w fuel. induction ps as [| p ps IH]; intros f k W F Lf Lfuel.
  - exists []. split; [| constructor]. cbn [flat_map app].
    eapply many0_stop. apply posting_item_stop. exact F.
  - cbn [flat_map forallb] in *. apply andb_true_iff in W. destruct W as [Wp Wps].
    rewrite <- app_assoc in *.
    destruct (posting_item_fmt w fuel p (flat_map (print_posting w) ps ++ k) Wp
                (posts_follow w ps k Wps F) Lfuel) as (p' & sps & E & Sp).
    pose proof (print_posting_length w p Wp) as L5.
    rewrite app_length in Lf, Lfuel.
    destruct f as [| f]; [lia |].
    destruct (IH f k Wps F ltac:(lia) ltac:(lia)) as (ps' & Eps & Sps).
    exists ((p', sps) :: ps'). split; [| constructor; assumption].
    eapply many0_step; [exact E | | exact Eps].
    rewrite (app_length (print_posting w p)). lia.
Qed.

(* ---- the header ---- *)
Definition code_text (c : option str) : str :=
  match c with Some c => [40] ++ c ++ [41; 32] | None => [] end.
Definition edate_text (e : option Syntax.date) : str :=
  match e with Some e => [61] ++ fmt_date e | None => [] end.

Lemma txn_header_parts : forall t,
  txn_header t = fmt_date (st_date t) ++ edate_text (st_edate t) ++ [32] ++
                 print_clear_state (st_clear t) ++ code_text (st_code t) ++ st_payee t.
Proof. reflexivity. Qed.

Lemma wf_payee_facts : forall cs code p, wf_payee cs code p = true ->
  all (fun c => negb (is_payee_stop c)) p /\ trim_end p = p /\ starts_not is_sp p /\
  (cs = Uncleared -> code = None -> starts_not is_clear_mark p).
Proof.
  intros cs code p H. unfold wf_payee in H. rewrite !andb_true_iff in H.
  destruct H as [[[H1 H2] H3] H5].
  split; [exact H1 |]. split; [apply str_eqb_eq; exact H2 |].
  split; [apply starts_false_not; apply negb_true_iff; exact H3 |].
  intros -> ->. apply starts_false_not. apply negb_true_iff. exact H5.
Qed.

(* the end of the header line: payee, then the line end *)
Lemma payee_fmt : forall p x, all (fun c => negb (is_payee_stop c)) p -> trim_end p = p ->
  opt (pmap trim_end till_line_ending_or_semi) (p ++ 10 :: x) =
  POk (match p with [] => None | _ => Some p end) (10 :: x).
Proof.
  intros p x Ha Ht. destruct p as [| c p'].
  - cbn [app]. eapply opt_none. apply pmap_err. unfold till_line_ending_or_semi.
    apply take_till1_fail. reflexivity.
  - eapply opt_ok.
    assert (E : till_line_ending_or_semi ((c :: p') ++ 10 :: x) = POk (c :: p') (10 :: x)).
    { unfold till_line_ending_or_semi. apply take_till1_ok; [discriminate | exact Ha | reflexivity]. }
    rewrite (pmap_ok _ _ trim_end _ _ _ _ E). rewrite Ht. reflexivity.
Qed.

Lemma no41_all : forall s, no41 s = true -> all (fun c => negb (N.eqb 41 c)) s.
Proof.
  intros s H. unfold all, no41 in *. rewrite forallb_forall in *. intros y Hy. specialize (H y Hy).
  rewrite N.eqb_sym. exact H.
Qed.

(* the code: present; absent in front of a payee that does not start with `(`; absent in front of
   a payee that starts with `(` when no `)` follows in the whole rest of the text *)
Lemma code_fmt : forall c p x, opt_all wf_code c = true -> starts_not is_sp (p ++ 10 :: x) ->
  (c = None -> starts (N.eqb 40) p = true -> no41 (p ++ 10 :: x) = true) ->
  opt (terminated paren_str space0) (code_text c ++ p ++ 10 :: x) = POk c (p ++ 10 :: x).
Proof.
  intros [c |] p x W Hs H40.
  - cbn [opt_all] in W. unfold code_text. rewrite <- !app_assoc. cbn [app].
    eapply opt_ok. unfold terminated, bind, paren_str, paren, delimited, bind.
    rw (chr_ok 40 (c ++ 41 :: 32 :: p ++ 10 :: x)).
    assert (T : take_till0 (N.eqb 41) (c ++ 41 :: 32 :: p ++ 10 :: x) = POk c (41 :: 32 :: p ++ 10 :: x)).
    { apply take_till0_ok; [| reflexivity]. apply no41_all. exact W. }
    rw T. rw (chr_ok 41 (32 :: p ++ 10 :: x)). unfold ret at 1. cbv beta iota.
    change (32 :: p ++ 10 :: x) with ([32] ++ p ++ 10 :: x).
    rw (space0_ok [32] (p ++ 10 :: x) ltac:(reflexivity) Hs). reflexivity.
  - cbn [code_text app].
    destruct (starts (N.eqb 40) p) eqn:E40.
    + (* the code parser runs to the end of the text and fails there *)
      eapply opt_none. unfold terminated. apply bind_err. unfold paren_str, paren, delimited.
      specialize (H40 eq_refl eq_refl).
      destruct p as [| c0 p']; [discriminate |]. cbn [starts] in E40. apply N.eqb_eq in E40. subst c0.
      cbn [app] in *. unfold bind. rw (chr_ok 40 (p' ++ 10 :: x)).
      assert (A : all (fun c => negb (N.eqb 41 c)) (p' ++ 10 :: x)).
      { apply no41_all. unfold no41 in *. cbn [forallb] in H40. apply andb_true_iff in H40. tauto. }
      pose proof (take_till0_ok (N.eqb 41) (p' ++ 10 :: x) [] A I) as T. rewrite app_nil_r in T.
      rw T. reflexivity.
    + eapply opt_none. unfold terminated. apply bind_err. unfold paren_str, paren, delimited.
      apply bind_err. apply chr_fail. destruct p as [| c0 p']; cbn [app]; [reflexivity |].
      cbn [starts] in E40. unfold starts_not. exact E40.
Qed.

Lemma fmt_date_head : forall d, wf_date d = true -> exists c r, fmt_date d = c :: r /\ Comb.is_digit c = true.
Proof.
  intros d W. rewrite (fmt_date_wf d W).
  pose proof (pad_digits_ne 4 (Z.to_N (d_year d))) as Ne.
  pose proof (pad_digits_all 4 (Z.to_N (d_year d))) as Al.
  destruct (pad_zeros 4 (digits_of (Z.to_N (d_year d)))) as [| c r]; [congruence |].
  apply all_cons in Al. destruct Al as [Hc _]. cbn [app]. eauto.
Qed.

Theorem transaction_fmt : forall w fuel t k, wf_txn t = true -> follow_txn k ->
  (open_paren_payee t = true -> no41 (print_txn w t ++ k) = true) ->
  (length (print_txn w t ++ k) <= fuel)%nat ->
  exists t' sps, transaction fuel (print_txn w t ++ k) = POk (t', sps) k /\ same_txn t t'.
Proof.
  intros w fuel [d ed cs code payee posts md] k W F OP L.
  unfold open_paren_payee in OP.
  unfold wf_txn in W. cbn [st_date st_edate st_clear st_code st_payee st_posts st_metadata] in W.
  rewrite !andb_true_iff in W. destruct W as [[[[[Wd We] Wc] Wp] Wm] Wps].
  destruct (wf_payee_facts _ _ _ Wp) as (Pa & Pt & Ps & Pm).
  unfold print_txn in *. rewrite txn_header_parts in *.
  cbn [st_date st_edate st_clear st_code st_payee st_posts st_metadata] in *.
  set (POSTS := flat_map (print_posting w) posts) in *.
  set (X := flat_map meta_line md ++ POSTS ++ k).
  assert (In : ((fmt_date d ++ edate_text ed ++ [32] ++ print_clear_state cs ++ code_text code ++ payee) ++
               [10] ++ flat_map meta_line md ++ POSTS) ++ k
             = fmt_date d ++ edate_text ed ++ 32 :: print_clear_state cs ++ code_text code ++ payee ++ 10 :: X).
  { unfold X. rewrite <- !app_assoc. reflexivity. }
  rewrite In in *. clear In.
  (* the tail: metadata and postings *)
  assert (Lx : (length (10%N :: X) <= fuel)%nat).
  { rewrite !app_length in L. cbn [length] in *. rewrite !app_length in L. cbn [length] in L. lia. }
  assert (Em : block_metadata fuel (10 :: X) = POk md (POSTS ++ k)).
  { unfold X. apply block_metadata_fmt; [exact Wm | apply posts_follow; assumption | exact Lx]. }
  assert (Lp : (length (POSTS ++ k) <= fuel)%nat).
  { unfold X in Lx. cbn [length] in Lx. rewrite app_length in Lx. lia. }
  destruct (posts_loop w fuel posts fuel k Wps F Lp Lp) as (ps' & Eps & Sps).
  fold POSTS in Eps. fold (posting_item fuel) in *.
  (* the payee and what precedes it *)
  assert (PNs : starts_not is_sp (payee ++ 10 :: X)).
  { destruct payee; [reflexivity | exact Ps]. }
  assert (P40' : code = None -> starts (N.eqb 40) payee = true -> no41 (payee ++ 10 :: X) = true).
  { intros E E40. subst code. specialize (OP E40). unfold no41 in *.
    rewrite !forallb_app in OP. cbn [forallb] in OP. rewrite !forallb_app in OP.
    rewrite !andb_true_iff in OP. rewrite forallb_app. cbn [forallb]. rewrite !andb_true_iff. tauto. }
  pose proof (code_fmt code payee X Wc PNs P40') as Ecode.
  pose proof (payee_fmt payee X Pa Pt) as Epayee.
  set (Z2 := code_text code ++ payee ++ 10 :: X) in *.
  assert (Z2s : starts_not is_sp Z2).
  { unfold Z2. destruct code; [reflexivity | exact PNs]. }
  assert (Ecs : ParseMeta.clear_state (print_clear_state cs ++ Z2) = POk cs Z2).
  { apply clear_state_fmt; [exact Z2s |]. destruct cs; [| exact I | exact I].
    unfold Z2. destruct code; [reflexivity |]. cbn [code_text app].
    specialize (Pm eq_refl eq_refl). destruct payee; [reflexivity | exact Pm]. }
  set (Z := print_clear_state cs ++ Z2) in *.
  assert (Zs : starts_not is_sp Z).
  { unfold Z. destruct cs; [exact Z2s | reflexivity | reflexivity]. }
  (* the dates *)
  assert (Ed : context L_txn_date ParseExpr.date (fmt_date d ++ edate_text ed ++ 32 :: Z)
               = POk d (edate_text ed ++ 32 :: Z)).
  { apply context_ok. apply date_fmt; [exact Wd |]. destruct ed; reflexivity. }
  assert (Eed : opt (preceded (chr 61) ParseExpr.date) (edate_text ed ++ 32 :: Z) = POk ed (32 :: Z)).
  { destruct ed as [e |].
    - cbn [opt_all] in We. unfold edate_text. rewrite <- app_assoc. cbn [app].
      eapply opt_ok. unfold preceded, bind. rw (chr_ok 61 (fmt_date e ++ 32 :: Z)).
      apply date_fmt; [exact We | reflexivity].
    - cbn [edate_text app]. eapply opt_none. unfold preceded. apply bind_err. reflexivity. }
  assert (Esh : has_peek (alt line_ending_or_eof (void (chr 59))) (32 :: Z) = POk false (32 :: Z)).
  { eapply has_peek_false. rewrite (alt_r _ _ _ _ _ _ (leof_fail 32 Z eq_refl eq_refl)). reflexivity. }
  assert (Esp : cond (negb false) space1 (32 :: Z) = POk (Some [32]) Z).
  { unfold cond, negb. apply pmap_ok. change (32 :: Z) with ([32] ++ Z).
    apply space1_ok; [split; [discriminate | reflexivity] | exact Zs]. }
  unfold transaction.
  rewrite (bind_ok _ _ _ _ _ _ _ Ed). rewrite (bind_ok _ _ _ _ _ _ _ Eed).
  rewrite (bind_ok _ _ _ _ _ _ _ Esh). rewrite (bind_ok _ _ _ _ _ _ _ Esp).
  rewrite (bind_ok _ _ _ _ _ _ _ Ecs). rewrite (bind_ok _ _ _ _ _ _ _ Ecode).
  rewrite (bind_ok _ _ _ _ _ _ _ Epayee). rewrite (bind_ok _ _ _ _ _ _ _ Em).
  fold (posting_item fuel). rewrite (bind_ok _ _ _ _ _ _ _ Eps).
  eexists _, _. split; [reflexivity |].
  unfold same_txn. cbn [st_date st_edate st_clear st_code st_payee st_posts st_metadata].
  repeat split; auto. destruct payee; reflexivity.
Qed.
