(* C06, loader: load_impl with its stack of files being loaded (Model/Load.v `loadc`) cannot
   recurse deeper than the number of files that exist.  The stack never holds a path twice
   (the cycle check) and holds only paths that were found in the file system, so its depth is
   at most the number of keys of the file system; fuel = that number + 1 is never exhausted. *)
From Coq Require Import List NArith Bool Lia.
From Okv Require Import Model.Glob Model.Load Proofs.PathOrder Proofs.LoadProofs Proofs.LoadSplit.
Import ListNotations.
Open Scope N_scope.

Lemma then_fuel : forall a b : run,
  snd a <> OutOfFuel -> snd b <> OutOfFuel -> snd (then_ a b) <> OutOfFuel.
Proof.
  intros [oa sa] [ob sb] Ha Hb. unfold then_. cbn [fst snd] in *.
  destruct sa; cbn [snd]; assumption.
Qed.

Lemma load_all_fuel : forall (ld : path -> run),
  (forall k, snd (ld k) <> OutOfFuel) -> forall ps, snd (load_all ld ps) <> OutOfFuel.
Proof.
  intros ld H. induction ps as [|k ps IH]; [cbn; discriminate|].
  cbn [load_all fold_right]. fold (load_all ld ps). apply then_fuel; [apply H|exact IH].
Qed.

Lemma load_entries_fuel : forall (ld : path -> run) fs cp,
  (forall k, snd (ld k) <> OutOfFuel) -> forall es, snd (load_entries ld fs cp es) <> OutOfFuel.
Proof.
  intros ld fs cp H. induction es as [|e es IH]; [cbn; discriminate|].
  destruct e as [w|id]; cbn [load_entries].
  - destruct (include_targets fs cp w) as [err|ps]; [cbn; discriminate|].
    apply then_fuel; [apply load_all_fuel; exact H|exact IH].
  - apply then_fuel; [cbn; discriminate|exact IH].
Qed.

(* the invariant of the include stack: no path twice, only files that exist *)
Definition stack_ok (fs : fsys) (st : list path) : Prop := NoDup st /\ incl st (map fst fs).

Lemma stack_depth_bounded : forall fs st, stack_ok fs st -> (length st <= length fs)%nat.
Proof.
  intros fs st [N I]. rewrite <- (map_length fst fs). apply NoDup_incl_length; assumption.
Qed.

(* what load_impl pushes keeps the invariant *)
Lemma stack_push_ok : forall fs st cp content,
  stack_ok fs st -> existsb (path_eqb cp) st = false -> lookup cp fs = Some content ->
  stack_ok fs (cp :: st).
Proof.
  intros fs st cp content [N I] E L. split.
  - constructor; [|exact N]. intro Hin.
    assert (X : existsb (path_eqb cp) st = true).
    { apply existsb_exists. exists cp. split; [exact Hin|apply path_eqb_eq; reflexivity]. }
    rewrite X in E. discriminate.
  - intros q [Hq|Hq]; [subst q; eapply lookup_some_key; exact L|apply I; exact Hq].
Qed.

Lemma loadc_fuel : forall fs fuel st p,
  stack_ok fs st -> (length fs < fuel + length st)%nat ->
  snd (loadc fuel fs st p) <> OutOfFuel.
Proof.
  intros fs. induction fuel as [|f IH]; intros st p S B.
  - pose proof (stack_depth_bounded fs st S). lia.
  - cbn [loadc]. destruct (existsb (path_eqb (canonicalize p)) st) eqn:E; [cbn; discriminate|].
    destruct (lookup (canonicalize p) fs) as [content|] eqn:L; [|cbn; discriminate].
    apply load_entries_fuel. intro k. apply IH.
    + eapply stack_push_ok; eassumption.
    + cbn [length]. lia.
Qed.

(* every load from the root, whatever the include graph: a result or an error, never the
   recursion budget, as soon as the fuel exceeds the number of files *)
Theorem load_terminates : forall fs root fuel,
  (length fs < fuel)%nat ->
  exists out, loadc fuel fs [] root = (out, Done) \/ exists e, loadc fuel fs [] root = (out, Failed e).
Proof.
  intros fs root fuel B.
  assert (H : snd (loadc fuel fs [] root) <> OutOfFuel).
  { apply loadc_fuel; [split; [constructor|intros q []]|cbn [length]; lia]. }
  destruct (loadc fuel fs [] root) as [out s]. exists out. cbn [snd] in H.
  destruct s as [|e|]; [left; reflexivity|right; exists e; reflexivity|congruence].
Qed.

(* the result does not depend on the fuel beyond that bound *)
Lemma load_all_ext : forall (ld ld' : path -> run), (forall k, ld k = ld' k) ->
  forall ps, load_all ld ps = load_all ld' ps.
Proof.
  intros ld ld' H. induction ps as [|k ps IH]; [reflexivity|].
  cbn [load_all fold_right]. fold (load_all ld ps). fold (load_all ld' ps). rewrite H, IH. reflexivity.
Qed.

Lemma load_entries_ext : forall (ld ld' : path -> run) fs cp, (forall k, ld k = ld' k) ->
  forall es, load_entries ld fs cp es = load_entries ld' fs cp es.
Proof.
  intros ld ld' fs cp H. induction es as [|e es IH]; [reflexivity|].
  destruct e as [w|id]; cbn [load_entries].
  - destruct (include_targets fs cp w) as [err|ps]; [reflexivity|].
    rewrite (load_all_ext ld ld' H), IH. reflexivity.
  - rewrite IH. reflexivity.
Qed.

Lemma loadc_fuel_irrelevant : forall fs f1 f2 st p,
  stack_ok fs st -> (length fs < f1 + length st)%nat -> (length fs < f2 + length st)%nat ->
  loadc f1 fs st p = loadc f2 fs st p.
Proof.
  intros fs. induction f1 as [|f1 IH]; intros f2 st p S B1 B2.
  - pose proof (stack_depth_bounded fs st S). lia.
  - destruct f2 as [|f2]; [pose proof (stack_depth_bounded fs st S); lia|].
    cbn [loadc]. destruct (existsb (path_eqb (canonicalize p)) st) eqn:E; [reflexivity|].
    destruct (lookup (canonicalize p) fs) as [content|] eqn:L; [|reflexivity].
    apply load_entries_ext. intro k. apply IH.
    + eapply stack_push_ok; eassumption.
    + cbn [length]. lia.
    + cbn [length]. lia.
Qed.

Theorem load_result_stable : forall fs root f1 f2,
  (length fs < f1)%nat -> (length fs < f2)%nat -> loadc f1 fs [] root = loadc f2 fs [] root.
Proof.
  intros. apply loadc_fuel_irrelevant; [split; [constructor|intros q []]|cbn [length]; lia|cbn [length]; lia].
Qed.

(* the bound is attained: a chain main -> a -> b needs the fuel 3 = number of files *)
Example chain_needs_all_fuel :
  let fs := [ ([[109]], [Inc [97]]); ([[97]], [Inc [98]]); ([[98]], [Ent 1]) ] in
  snd (loadc 2 fs [] [[109]]) = OutOfFuel /\ loadc 3 fs [] [[109]] = ([([[98]], 1)], Done).
Proof. split; vm_compute; reflexivity. Qed.

(* a two-file cycle on three files: an error, with the fuel of the bound *)
Example mutual_cycle_is_error :
  let fs := [ ([[109]], [Inc [97]]); ([[97]], [Ent 2; Inc [109]]) ] in
  loadc 3 fs [] [[109]] = ([([[97]], 2)], Failed IncludeCycle).
Proof. vm_compute. reflexivity. Qed.

Theorem include_stack_bounded : forall fs st,
  stack_ok fs st ->
  (length st <= length fs)%nat /\
  (forall cp content, existsb (path_eqb cp) st = false -> lookup cp fs = Some content ->
                      stack_ok fs (cp :: st)) /\
  (forall fuel p, (length fs < fuel + length st)%nat -> snd (loadc fuel fs st p) <> OutOfFuel).
Proof.
  intros fs st S. split; [exact (stack_depth_bounded fs st S)|]. split.
  - intros cp content E L. exact (stack_push_ok fs st cp content S E L).
  - intros fuel p B. exact (loadc_fuel fs fuel st p S B).
Qed.
