(* The hypotheses of C05_grammar_accepted_partial are satisfiable: a concrete text of the
   documented grammar (declaration with sub-directives, blank line with blanks, comment block,
   apply tag, include ended by the end of file). *)
From Coq Require Import List NArith Bool String Ascii.
From Okv Require Import Model.Comb Model.ParseDirective Model.ParseLedger Model.DocGrammar Proofs.DocAccept.
Import ListNotations.
Open Scope N_scope.

Fixpoint s2l (s : string) : list N :=
  match s with EmptyString => [] | String c r => N_of_ascii c :: s2l r end.

Definition ex_items : list item :=
  [ Dir [(kw_account ++ [32] ++ s2l "Assets:Bank" ++ [], Lf);
         ([32; 32] ++ kw_alias ++ [32] ++ s2l "Bank", CrLf);
         ([9] ++ 59 :: s2l " a comment", Lf)];
    Blank [32; 9] Lf;
    Dir [(59 :: s2l " top", Lf); (35 :: s2l "second", Lf)];
    Dir [(kw_apply ++ [32] ++ kw_tag ++ [32; 32] ++ s2l "k" ++ [] ++ [58] ++ s2l " v", Lf)];
    Blank [] Lf;
    Dir [(kw_include ++ [32] ++ s2l "other.ledger", Eof)] ].

Definition d1 : lines :=
  [(kw_account ++ [32] ++ s2l "Assets:Bank" ++ [], Lf);
   ([32; 32] ++ kw_alias ++ [32] ++ s2l "Bank", CrLf);
   ([9] ++ 59 :: s2l " a comment", Lf)].
Definition d2 : lines := [(59 :: s2l " top", Lf); (35 :: s2l "second", Lf)].
Definition d3 : lines := [(kw_apply ++ [32] ++ kw_tag ++ [32; 32] ++ s2l "k" ++ [] ++ [58] ++ s2l " v", Lf)].
Definition d4 : lines := [(kw_include ++ [32] ++ s2l "other.ledger", Eof)].

Ltac triv := repeat split; try reflexivity; try discriminate.

Example d1_ok : directive d1.
Proof.
  apply D_account.
  - apply (AH [32] (s2l "Assets:Bank") []); triv.
  - constructor; [| constructor; [| constructor]].
    + apply (DAlias doc_account [32; 32] [32] (s2l "Bank")); triv.
    + apply (DComment doc_account [9] 59 (s2l " a comment")); triv.
Qed.
Example d2_ok : directive d2.
Proof.
  apply D_comment; [discriminate |]. constructor; [| constructor; [| constructor]].
  - apply (CL 59 (s2l " top")); triv.
  - apply (CL 35 (s2l "second")); triv.
Qed.
Example d3_ok : directive d3.
Proof. apply D_apply. apply (AL_kv [32] [32; 32] (s2l "k") [] (s2l " v")); triv. Qed.
Example d4_ok : directive d4.
Proof. apply D_include. apply (IL [32] (s2l "other.ledger")); triv. Qed.

Example ex_in_doc_grammar : In_doc_grammar (render_lines (flat_map item_lines ex_items)).
Proof.
  exists ex_items. split; [| split; [| reflexivity]].
  - change ex_items with [Dir d1; Blank [32; 9] Lf; Dir d2; Dir d3; Blank [] Lf; Dir d4].
    cbn [items_ok].
    split; [exact d1_ok |]. split; [| intros _; exact I].
    split; [reflexivity |].
    split; [exact d2_ok |]. split; [| intros _ H; inversion H; discriminate].
    split; [exact d3_ok |]. split; [| intros H; inversion H; discriminate].
    split; [reflexivity |].
    split; [exact d4_ok |]. split; [exact I | intros _; exact I].
  - cbn. repeat split; discriminate.
Qed.

Example ex_accepted : exists es, parse_ledger (render_lines (flat_map item_lines ex_items)) = LOk es.
Proof. apply doc_grammar_accepted, ex_in_doc_grammar. Qed.
