(* C02 — balance assertions are enforced exactly and in file order.  Theorems only.
   Model: Model/Book.v (process_posting, assert_balance, add_transaction, process);
   vocabulary: Model/BookSpecB.v; proofs: Proofs/BookB_Inv.v, Proofs/BookB_Assert.v;
   non-vacuity: Proofs/BookB_Examples.v. *)
From Coq Require Import List NArith ZArith Bool QArith Qcanon.
From Okv Require Import Base.Maps Base.Dec Model.Amount Model.Book Model.Query Model.BookSpecB
     Proofs.BookB_Maps Proofs.BookB_Inv Proofs.BookB_Assert Proofs.BookB_Examples.
Import ListNotations.
Open Scope Qc_scope.

(* 1. The check itself.  A posting `acct  amt = X` is accepted only if, right after adding amt
   to the account, the balance `current` satisfies X: the commodity of X holds exactly X's
   value; for a bare `= 0` the account holds nothing at all.  Otherwise (when amount, cost and
   lot evaluate) the run fails with BalanceAssertionFailure pointing at this posting, carrying
   `current` and diff = X - current (resp. -current). *)
Theorem C02_assert_checked : forall b date i p sa bc expected,
  p_amount p = Some sa -> p_balance p = Some bc -> eval_pa bc = Ok expected ->
  (forall r, process_posting b date i p = Ok r ->
     exists amt, eval_pa sa = Ok amt /\
       let current := snd (bal_add_pa b (p_account p) amt) in
       fst (fst r) = fst (bal_add_pa b (p_account p) amt)
       /\ assert_balance current expected = []
       /\ holds expected (a_get current)
       /\ (expected = PZero -> current = []))
  /\ (forall amt cl, eval_pa sa = Ok amt -> eval_cost_lot amt p = Ok cl ->
       let current := snd (bal_add_pa b (p_account p) amt) in
       ~ holds expected (a_get current) ->
       process_posting b date i p = Err (BalanceAssertionFailure i current (assert_diff expected current))).
Proof. exact assert_checked. Qed.
Print Assumptions C02_assert_checked.

(* 2. Balances never carry a zero-valued entry (so `= 0` sees an empty account exactly when
   everything cancelled), and keys are distinct, in every reachable state. *)
Theorem C02_balance_no_zero_entries : forall s,
  reachable s ->
  NoDup (keys (s_bal s))
  /\ forall a x, In (a, x) (s_bal s) -> NoDup (keys x) /\ forall c v, In (c, v) x -> v <> 0.
Proof. exact balance_no_zero_entries. Qed.
Print Assumptions C02_balance_no_zero_entries.

(* 3. The live balance is the sum of the stored postings, for every reachable state. *)
Theorem C02_running_balance : forall s,
  reachable s -> forall a c, a_get (bal_get (s_bal s) a) c = sum_posts (all_postings s) a c.
Proof. exact running_balance. Qed.
Print Assumptions C02_running_balance.

(* 3a. In a transaction: when the assertion on posting i is checked, the live balance of its
   account is the sum over all earlier transactions, plus what the loop has stored for postings
   0..i-1 of this one (an omitted-amount posting holds [] there: loop invariant li_match), plus
   this posting's amount. *)
Theorem C02_live_balance_at_assertion : forall s t i st p sa amt,
  reachable s -> loop_upto s t i = Ok st -> nth_error (t_posts t) i = Some p ->
  p_amount p = Some sa -> eval_pa sa = Ok amt ->
  let current := snd (bal_add_pa (l_bal st) (p_account p) amt) in
  forall c, a_get current c =
            sum_posts (all_postings s) (p_account p) c
            + sum_posts (rev (l_posts st)) (p_account p) c + pa_get amt c.
Proof. intros s t i st p sa amt R. apply live_balance_at_assertion. now apply reachable_inv. Qed.
Print Assumptions C02_live_balance_at_assertion.

(* 3b. Read off the stored transaction: every assertion of an accepted transaction was true of
   the file-order running balance taken WITHOUT this transaction's omitted-amount postings. *)
Theorem C02_assertion_live : forall s t s' i p sa bc expected,
  reachable s -> add_transaction s t = Ok s' ->
  nth_error (t_posts t) i = Some p -> p_amount p = Some sa -> p_balance p = Some bc ->
  eval_pa bc = Ok expected ->
  exists ot, s_txns s' = s_txns s ++ [ot]
    /\ holds expected (running_live (all_postings s) (t_posts t) (o_posts ot) i (p_account p)).
Proof.
  intros s t s' i p sa bc expected R H Hn Hsa Hbc He.
  destruct (assertion_live _ _ _ _ _ _ _ _ (reachable_inv _ R) H Hn Hsa Hbc He) as (ot & H1 & _ & H2).
  exists ot. split; assumption.
Qed.
Print Assumptions C02_assertion_live.

(* 3c. The property, outside the known class C02-K1 (no omitted-amount posting on the same
   account earlier in the same transaction): in an accepted ledger every written `= X` was
   true after applying that posting and everything before it in file order. *)
Theorem C02_assertions_hold_outside_K1 : forall es es1 t es2 L n i p sa bc expected,
  process es = (Ok L, n) -> es = es1 ++ ETxn t :: es2 ->
  nth_error (t_posts t) i = Some p -> p_amount p = Some sa -> p_balance p = Some bc ->
  eval_pa bc = Ok expected -> known_class t i = false ->
  exists pre ot post,
    s_txns L = pre ++ ot :: post /\ length pre = count_txns es1
    /\ holds expected (running (flat_map o_posts pre) (o_posts ot) i (p_account p)).
Proof. exact assertions_hold_outside_K1. Qed.
Print Assumptions C02_assertions_hold_outside_K1.

(* Inside the class the statement is false of the model (and of the implementation):
   `A ; A 5 USD = 5 USD ; B 3 USD` is accepted although A stands at -3 USD. *)
Theorem C02_K1_refuted :
  exists es es1 t es2 L n i p sa bc expected,
    process es = (Ok L, n) /\ es = es1 ++ ETxn t :: es2
    /\ nth_error (t_posts t) i = Some p /\ p_amount p = Some sa /\ p_balance p = Some bc
    /\ eval_pa bc = Ok expected /\ known_class t i = true
    /\ ~ exists pre ot post,
           s_txns L = pre ++ ot :: post /\ length pre = count_txns es1
           /\ holds expected (running (flat_map o_posts pre) (o_posts ot) i (p_account p)).
Proof. exact K1_refuted. Qed.
Print Assumptions C02_K1_refuted.

(* 4. A rejected ledger: BalanceAssertionFailure i at entry k means entry k is a transaction,
   all earlier entries were accepted, its posting i carries an assertion that is false of the
   live balance `computed` (characterised as in 3a), and diff = X - computed. *)
Theorem C02_first_failure_reported : forall es i computed diff k,
  process es = (Err (BalanceAssertionFailure i computed diff), k) ->
  exists es1 t es2 s,
    es = es1 ++ ETxn t :: es2 /\ length es1 = k /\ process es1 = (Ok s, k)
    /\ exists st p sa bc amt expected,
         loop_upto s t i = Ok st /\ nth_error (t_posts t) i = Some p
         /\ p_amount p = Some sa /\ p_balance p = Some bc
         /\ eval_pa sa = Ok amt /\ eval_pa bc = Ok expected
         /\ computed = snd (bal_add_pa (l_bal st) (p_account p) amt)
         /\ diff = assert_diff expected computed
         /\ ~ holds expected (a_get computed)
         /\ forall c, a_get computed c =
                      sum_posts (all_postings s) (p_account p) c
                      + sum_posts (rev (l_posts st)) (p_account p) c + pa_get amt c.
Proof. exact first_failure_reported. Qed.
Print Assumptions C02_first_failure_reported.

(* 4a. Conversely: if the entries before a transaction are accepted, its postings before i are
   processed without error, and the assertion on posting i (whose amount, cost and lot
   evaluate) is false of the live balance, then the ledger is rejected at that entry with
   BalanceAssertionFailure pointing at posting i and carrying that balance. *)
Theorem C02_false_rejected : forall es1 t es2 s i st p sa bc amt cl expected,
  process es1 = (Ok s, length es1) ->
  loop_upto s t i = Ok st -> nth_error (t_posts t) i = Some p ->
  p_amount p = Some sa -> p_balance p = Some bc ->
  eval_pa sa = Ok amt -> eval_cost_lot amt p = Ok cl -> eval_pa bc = Ok expected ->
  let computed := snd (bal_add_pa (l_bal st) (p_account p) amt) in
  ~ holds expected (a_get computed) ->
  process (es1 ++ ETxn t :: es2)
  = (Err (BalanceAssertionFailure i computed (assert_diff expected computed)), length es1).
Proof. exact false_rejected. Qed.
Print Assumptions C02_false_rejected.
