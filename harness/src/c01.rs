//! C01: accepted transactions balance; unbalanced ones are rejected, not crashed on.
use crate::coq::{Shards, Stats};
use crate::ledger::*;
use crate::prng::Rng;
use crate::Opts;

fn nontrivial(_s: &Shape, o: &Obs) -> bool {
    // the deciding transaction reached check_balance or the deduction branch
    match o {
        Obs::Ok { .. } => true,
        Obs::Err { err, .. } => matches!(err, ErrObs::Unbalanced(_) | ErrObs::Undeducible(..) | ErrObs::Assertion { .. }),
        Obs::Panic(_) => true,
    }
}

fn lit(m: i64, scale: u32, c: usize) -> VE {
    VE::Amt(Lit { m, scale, comm: Some(c), grouped: false })
}

fn post(a: usize, amt: Option<VE>) -> Posting {
    Posting { account: a, amount: amt, cost: None, lot: None, balance: None }
}

/// residual shape x sign x rounding classes, enumerated
pub fn boundary_cases() -> Vec<Vec<Entry>> {
    let mut out = Vec::new();
    let vals: [(i64, u32); 9] = [(0, 0), (5, 0), (-5, 0), (3, 0), (5, 3), (-5, 3), (15, 3), (25, 3), (4, 3)];
    // two postings in two commodities: every sign/zero combination
    for (m1, s1) in vals {
        for (m2, s2) in vals {
            for fmt in [None, Some(2u32)] {
                let mut es = Vec::new();
                if let Some(dp) = fmt {
                    es.push(Entry::Format(4, dp, FmtLit::default()));
                    es.push(Entry::Format(2, dp, FmtLit::default()));
                }
                es.push(Entry::Txn(Txn { effective: None, date: 10, posts: vec![post(0, Some(lit(m1, s1, 4))), post(1, Some(lit(m2, s2, 2)))], head: Head::default() }));
                out.push(es);
            }
        }
    }
    // one commodity: sums at the rounding boundary
    for (m1, s1) in vals {
        for fmt in [None, Some(2u32), Some(0)] {
            let mut es = Vec::new();
            if let Some(dp) = fmt {
                es.push(Entry::Format(4, dp, FmtLit::default()));
            }
            es.push(Entry::Txn(Txn { effective: None, date: 10, posts: vec![post(0, Some(lit(1000, 2, 4))), post(1, Some(lit(-1000 + m1 * if s1 == 0 { 100 } else { 1 }, if s1 == 0 { 2 } else { 3 }, 4)))], head: Head::default() }));
            out.push(es);
        }
    }
    // three commodities
    for a in [0i64, 5, -5] {
        for b in [0i64, 5, -5] {
            for c in [0i64, 7, -7] {
                out.push(vec![Entry::Txn(Txn { effective: None, date: 10, posts: vec![post(0, Some(lit(a, 0, 4))), post(1, Some(lit(b, 0, 2))), post(2, Some(lit(c, 0, 1)))], head: Head::default() })]);
            }
        }
    }
    // zero amounts with cost / total cost / lot
    for m in [0i64, 5, -5] {
        for total in [false, true] {
            for cm in [0i64, 2, -2] {
                let x = if total { Exch::Total(lit(cm, 0, 2)) } else { Exch::Rate(lit(cm, 0, 2)) };
                let mut p = post(0, Some(lit(m, 0, 4)));
                p.cost = Some(x.clone());
                out.push(vec![Entry::Txn(Txn { effective: None, date: 10, posts: vec![p.clone(), post(1, None)], head: Head::default() })]);
                let mut q = post(0, Some(lit(m, 0, 4)));
                q.lot = Some(x);
                out.push(vec![Entry::Txn(Txn { effective: None, date: 10, posts: vec![q, post(1, Some(lit(-m * cm, 0, 2)))], head: Head::default() })]);
            }
        }
    }
    // a bare `0` with a cost / total cost / lot (ZeroAmountWithExchange), first and later posting
    for total in [false, true] {
        for as_lot in [false, true] {
            for at in [0usize, 2] {
                let x = if total { Exch::Total(lit(2, 0, 2)) } else { Exch::Rate(lit(2, 0, 2)) };
                let mut z = post(0, Some(VE::Amt(Lit { m: 0, scale: 0, comm: None, grouped: false })));
                if as_lot {
                    z.lot = Some(x);
                } else {
                    z.cost = Some(x);
                }
                let mut posts = vec![post(1, Some(lit(5, 0, 4))), post(2, Some(lit(-5, 0, 4)))];
                posts.insert(at, z);
                out.push(vec![Entry::Txn(Txn { effective: None, date: 10, posts, head: Head::default() })]);
            }
        }
    }
    // two residual commodities of extreme magnitude (each value, and their quotient, representable)
    for (m1, s1, m2, s2) in [
        (1_000_000_000_000_000i64, 0u32, 2_000_000_000_000_000i64, 0u32),
        (1, 15, 2, 15),
        (5_000_000_000_000_000, 0, 25, 1),
        (1, 12, 4_000_000_000_000, 0),
    ] {
        for (sg1, sg2) in [(1i64, 1i64), (1, -1), (-1, 1), (-1, -1)] {
            out.push(vec![Entry::Txn(Txn { effective: None, date: 10, posts: vec![post(0, Some(lit(sg1 * m1, s1, 4))), post(1, Some(lit(sg2 * m2, s2, 2)))], head: Head::default() })]);
        }
    }
    // multi-commodity cost expression
    {
        let cost = VE::Paren(Box::new(Ex::Bin(
            Op::Add,
            Box::new(Ex::Val(Box::new(lit(1, 0, 4)))),
            Box::new(Ex::Val(Box::new(lit(2, 0, 2)))),
        )));
        let mut p = post(0, Some(lit(1, 0, 0)));
        p.cost = Some(Exch::Rate(cost));
        out.push(vec![Entry::Txn(Txn { effective: None, date: 10, posts: vec![p, post(1, None)], head: Head::default() })]);
    }
    // every member of the set in its own header shape and sample-number shape
    for (n, es) in out.iter_mut().enumerate() {
        vary_shapes_nth(es, n);
    }
    out
}

pub fn run(o: &Opts) {
    let mut st = Stats::new();
    let mut sh = Shards::new(&o.out, o.shards, &header("Classify_C01"));
    st.rule = "ledger text generated from a tree (1-5 transactions of 1-6 postings; explicit/omitted/assigned amounts; 1-3 of 5 commodities; zero and negative values; @/@@ costs; {}/{{}} lots, one in eight written with a minus sign; parenthesised expressions, about one term in eight divided by a number without a finite reciprocal (3, 6, 7, 9, 11, 12, 13, 0.3, 0.07, 15, 21, 1.4) with the dividend - a literal, `term * d`, or a sum - an exact multiple of it (counted as cases_with:exact_division_by_number_without_finite_reciprocal); format declarations; sums on half-unit rounding boundaries) plus an enumerated boundary set (residual shape x sign x rounding); run through report::process on a FakeFileSystem; three ledgers in four are written with text outside ASCII that the book-keeping never reads (payees, codes, comment lines under the header and under postings, trailing comments, comment entries; two-, three- and four-byte characters, double-width and combining ones) and/or with account names outside ASCII; every rejected ledger's error is rendered as the user sees it (Display of ReportError) and read back - title, `--> line:col`, the lines of the excerpt, every labelled marker - and must name the entry (and posting) the model says fails: diag:* counts; non-trivial = the deciding transaction reached check_balance or amount deduction; distinct by ledger text".into();
    st.rule = format!("{}; {}", st.rule, TEXT_SHAPES_RULE);
    st.assumptions.push("no total price (@@, {{}}) on an amount that is a zero produced by an expression (rust_decimal keeps a sign bit on zero that the exact-rational model does not represent)".into());
    st.assumptions.push("literal mantissas below 10^7 with scale <= 3, products of at most three factors, quotients exact by construction: every intermediate Decimal is exact".into());
    st.assumptions.push(format!("errors are rendered by annotate-snippets' plain renderer on a terminal of {} columns, so that no excerpt line is cut (a line beyond {} columns would be counted as diag:excerpt_cut_not_read)", crate::diag::TERM_WIDTH, crate::diag::MAX_LINE_COLS));
    let (corpus, replay) = corpus_entries(&o.corpus, &o.extra);
    let decos = corpus_decos(&o.corpus, &o.extra);
    for (k, es) in corpus.iter().enumerate() {
        emit_ledger_case(&mut sh, &mut st, "C01", es, decos.get(k).unwrap_or(&Deco::default()), &nontrivial, "corpus");
    }
    if !replay {
        // the text the book-keeping never reads: its own stream, so that the ledgers stay those of the seed
        let mut rd = Rng::new(o.seed, 1101);
        for mut es in boundary_cases() {
            let deco = decorate(&mut rd, &mut es);
            emit_ledger_case(&mut sh, &mut st, "C01", &es, &deco, &nontrivial, "boundary");
        }
        let mut r = Rng::new(o.seed, 101);
        let n = if o.thorough { 40000 } else { 2500 };
        let mut b = Bias::default_bias();
        b.neg_exch_pct = 12; // `@@ -1,000 USD`: a total only follows the sign of the amount
        for k in 0..n {
            if k % 4 == 0 {
                b.unbalanced_pct = 60;
                b.assert_pct = 5;
            } else {
                b = Bias::default_bias();
                b.wrong_assert_pct = 3;
                b.neg_exch_pct = 12;
            }
            let mut es = gen_ledger(&mut r, &b);
            let deco = decorate(&mut rd, &mut es);
            emit_ledger_case(&mut sh, &mut st, "C01", &es, &deco, &nontrivial, "random");
        }
    }
    sh.finish(&st);
}
