(* C13: import rewrite rules.  A FieldMatcher is a HashMap from field to pattern; its entries are
   tried one after the other, each seeing the fragment left by the previous ones.  For the CSV
   importer (csv_like, Model/OrderImpSpec.v) only the payee matcher reads or writes the fragment, so
   the result does not depend on the order of the entries. *)
From Coq Require Import List NArith Bool Permutation.
From Okv Require Import Model.ImpConfig Model.ImpExtract Model.OrderImpSpec.
Import ListNotations.

Section S.
  Context {P R : Type}.
  Variable matches : rewrite_field * P -> R -> frag -> option captures.
  Hypothesis csv : csv_like matches.

  Lemma frag_add_nothing f : frag_add_matched f no_captures = f.
  Proof. destruct f; reflexivity. Qed.

  (* a non-payee matcher is a filter on the record *)
  Lemma non_payee_step fld p e f l : is_payee fld = false ->
    and_extract matches ((fld, p) :: l) f e =
    match matches (fld, p) e frag0 with None => None | Some _ => and_extract matches l f e end.
  Proof.
    intros H. cbn [and_extract]. destruct (csv fld p e f H) as [A B]. rewrite <- (A frag0).
    destruct (matches (fld, p) e f) as [c|] eqn:E; [|reflexivity].
    rewrite (B c eq_refl), frag_add_nothing. reflexivity.
  Qed.

  Lemma and_extract_swap x y l f e : fst x <> fst y ->
    and_extract matches (x :: y :: l) f e = and_extract matches (y :: x :: l) f e.
  Proof.
    intros Hne. destruct x as [fx px], y as [fy py]. cbn [fst] in Hne.
    destruct (is_payee fx) eqn:Ex.
    - destruct (is_payee fy) eqn:Ey.
      + exfalso. apply Hne. destruct fx; try discriminate Ex. destruct fy; try discriminate Ey. reflexivity.
      + rewrite (non_payee_step fy py e f _ Ey). cbn [and_extract].
        destruct (matches (fx, px) e f) as [c|]; [|destruct (matches (fy, py) e frag0); reflexivity].
        change (match matches (fy, py) e (frag_add_matched f c) with
                | Some c0 => and_extract matches l (frag_add_matched (frag_add_matched f c) c0) e
                | None => None end)
          with (and_extract matches ((fy, py) :: l) (frag_add_matched f c) e).
        apply non_payee_step, Ey.
    - rewrite (non_payee_step fx px e f _ Ex).
      change (and_extract matches ((fy, py) :: (fx, px) :: l) f e)
        with (match matches (fy, py) e f with
              | Some c => and_extract matches ((fx, px) :: l) (frag_add_matched f c) e
              | None => None end).
      destruct (matches (fy, py) e f) as [c|] eqn:Ey.
      + rewrite (non_payee_step fx px e _ l Ex). cbn [and_extract]. rewrite Ey. reflexivity.
      + cbn [and_extract]. rewrite Ey. destruct (matches (fx, px) e frag0); reflexivity.
  Qed.

  Theorem and_extract_perm ms ms' : Permutation ms ms' -> NoDup (map fst ms) ->
    forall f e, and_extract matches ms f e = and_extract matches ms' f e.
  Proof.
    induction 1 as [|x l l' HP IH|x y l|l1 l2 l3 HP1 IH1 HP2 IH2]; intros ND f e.
    - reflexivity.
    - cbn [map] in ND. inversion ND as [|? ? _ ND']; subst. cbn [and_extract].
      destruct (matches x e f); [apply IH, ND'|reflexivity].
    - symmetry. apply and_extract_swap. cbn [map] in ND. inversion ND as [|? ? Hni _]; subst.
      intros E. apply Hni. left. exact E.
    - rewrite (IH1 ND). apply IH2. eapply Permutation_NoDup; [apply Permutation_map; exact HP1|exact ND].
  Qed.

  (* hence for a whole rule set when each AND-list is re-ordered *)
  Lemma or_extract_perm os os' : Forall2 (fun a a' => Permutation a a' /\ NoDup (map fst a)) os os' ->
    forall f e, or_extract matches os f e = or_extract matches os' f e.
  Proof.
    induction 1 as [|a a' r r' [HP ND] _ IH]; intros f e; cbn [or_extract]; [reflexivity|].
    rewrite (and_extract_perm a a' HP ND f e), IH. reflexivity.
  Qed.
End S.

(* the hypothesis is satisfiable, and needed: with a matcher that captures from two fields the order matters *)
Module Examples.
  (* patterns are (answer when the record's category is 1, captured payee) *)
  Definition m_csv (m : rewrite_field * (bool * option str)) (e : N) (f : frag) : option captures :=
    match fst m with
    | RPayee => match g_payee f with
                | Some _ => Some {| m_payee := snd (snd m); m_code := None |}
                | None => if fst (snd m) then Some {| m_payee := snd (snd m); m_code := None |} else None
                end
    | _ => if fst (snd m) && (e =? 1)%N then Some no_captures else None
    end.

  Example m_csv_is_csv_like : csv_like m_csv.
  Proof.
    intros fld p e f H. destruct fld; try discriminate H; unfold m_csv; cbn [fst];
      (split; [reflexivity|]); intros c; destruct (fst (snd (_, p)) && (e =? 1)%N); intros X; inversion X; reflexivity.
  Qed.

  (* camt-like: every field may capture a payee; later captures override earlier ones *)
  Definition m_any (m : rewrite_field * option str) (e : N) (f : frag) : option captures :=
    Some {| m_payee := snd m; m_code := None |}.
  Example order_matters_without_csv_like :
    and_extract m_any [(RCreditorName, Some [1%N]); (RDebtorName, Some [2%N])] frag0 0%N <>
    and_extract m_any [(RDebtorName, Some [2%N]); (RCreditorName, Some [1%N])] frag0 0%N.
  Proof. cbv. discriminate. Qed.
End Examples.
