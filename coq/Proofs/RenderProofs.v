From Coq Require Import List NArith ZArith QArith Qcanon Permutation.
From Okv Require Import Base.Maps Base.Dec Model.Amount Model.Book Model.Query Model.Render Proofs.MapsSort.
Import ListNotations.

Lemma render_amount_equiv (a a' : amount) : map_equiv a a' -> render_amount a = render_amount a'.
Proof. apply sort_keys_canonical. Qed.

Lemma render_amount_perm (a a' : amount) : NoDup (keys a) -> Permutation a a' -> render_amount a = render_amount a'.
Proof. apply sort_keys_perm. Qed.

Section MapValues.
  Context {A B : Type} (f : A -> B).
  Definition map_values (m : amap A) : amap B := map (fun p => (fst p, f (snd p))) m.
  Lemma get_map_values k m : get k (map_values m) = option_map f (get k m).
  Proof.
    induction m as [|[k' v] r IH]; cbn [map_values map get fst snd option_map]; [reflexivity|].
    destruct (N.eqb k' k); [reflexivity|exact IH].
  Qed.
  Lemma keys_map_values m : keys (map_values m) = keys m.
  Proof. unfold keys, map_values. rewrite map_map. reflexivity. Qed.
End MapValues.

(* two balances are the same map of maps, whatever the iteration orders *)
Definition bal_equiv (b b' : balance) : Prop :=
  NoDup (keys b) /\ NoDup (keys b') /\
  forall a, match get a b, get a b' with
            | Some x, Some y => map_equiv x y
            | None, None => True
            | _, _ => False
            end.

Lemma render_balance_equiv b b' : bal_equiv b b' -> render_balance b = render_balance b'.
Proof.
  intros [ND [ND' H]]. unfold render_balance. apply sort_keys_canonical.
  split; [|split].
  - change (NoDup (keys (map_values render_amount b))). rewrite keys_map_values. exact ND.
  - change (NoDup (keys (map_values render_amount b'))). rewrite keys_map_values. exact ND'.
  - intros k. change (get k (map_values render_amount b) = get k (map_values render_amount b')).
    rewrite !get_map_values. specialize (H k).
    destruct (get k b), (get k b'); cbn [option_map]; try contradiction; [|reflexivity].
    f_equal. apply render_amount_equiv. exact H.
Qed.

(* in particular: permuting the accounts and, inside each account, the commodities *)
Lemma render_balance_perm b b' :
  NoDup (keys b) -> Permutation b b' -> render_balance b = render_balance b'.
Proof.
  intros ND HP. unfold render_balance. apply sort_keys_perm.
  - change (NoDup (keys (map_values render_amount b))). rewrite keys_map_values. exact ND.
  - apply Permutation_map. exact HP.
Qed.

Example render_amount_example :
  render_amount [(4%N, of_dec 1 0); (2%N, of_dec 2 0)] = render_amount [(2%N, of_dec 2 0); (4%N, of_dec 1 0)].
Proof. reflexivity. Qed.
