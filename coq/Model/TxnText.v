(* Text of an imported transaction, and a reader for exactly that shape.

   Printer: core/src/syntax/display.rs Display of a syntax::Transaction under
   DisplayContext{precisions} (header `date[=edate] [*|! ][(code) ]payee`, metadata lines
   `    ; ...`, posting lines with amount column, ` @ ` cost, ` = ` assertion, `rescale` to
   max(scale, precision) as repaired by the "fix:" commit recorded in known_findings.json
   (precision capped at 28)), and ImportCmd::run's `writeln!(w, "{}", display)`.
   The display width of an account name (unicode-width crate, East Asian wide = 2) only decides
   how many spaces pad the amount column; it is an input here (`w`).

   Reader: a deliberately small model of core/src/parse/{transaction,posting,metadata,primitive}.rs
   restricted to what imported text uses: it works line by line, reads plain amounts through
   Model/Lit.v `scan`, and answers Unsupported for constructs importers never print
   (parenthesised expressions, lots, `@@`, a code running over several lines).  It is tied to
   the real parser by the correspondence run of property C15.  Definitions only. *)
From Coq Require Import List NArith ZArith Bool.
From Okv Require Import Model.Lit Model.SingleEntry2.
Import ListNotations.
Open Scope N_scope.

(* ================= printer ================= *)

Definition spaces (n : nat) : str := repeat 32 n.
Definition s_indent : str := [32;32;32;32].

(* chrono "%Y/%m/%d" for years 0..9999 *)
Definition show_date (d : date) : str :=
  pad_zeros 4 (digits_of (d_y d)) ++ [47] ++ pad_zeros 2 (digits_of (d_m d)) ++ [47] ++ pad_zeros 2 (digits_of (d_d d)).

Definition clear_text (c : clear) : str :=
  match c with Uncleared => [] | Cleared => [42;32] | Pending => [33;32] end.

Definition max96N : N := 2 ^ 96 - 1.

(* ops::array::rescale upwards: multiply by ten at most k times, as long as 96 bits hold the result *)
Fixpoint rescale_up (k : nat) (m : N) (sc : nat) : N * nat :=
  match k with
  | O => (m, sc)
  | S k' => if m * 10 <=? max96N then rescale_up k' (m * 10) (S sc) else (m, sc)
  end.

(* Decimal::rescale(target) for target >= scale (display.rs only ever asks for that) *)
Definition rescale (x : pdec) (target : nat) : pdec :=
  if Nat.eqb (scale x) target then x
  else if mant x =? 0 then {| neg := neg x; mant := 0; scale := Nat.min target 28; pfmt := pfmt x |}
  else let '(m, s) := rescale_up (target - scale x) (mant x) (scale x) in
       {| neg := neg x; mant := m; scale := s; pfmt := pfmt x |}.

Definition precisions := list (str * nat).
Fixpoint prec_of (p : precisions) (c : str) : nat :=
  match p with
  | [] => 0%nat
  | (k, v) :: r => if str_eqb k c then v else prec_of r c
  end.

(* display.rs rescale(x, context) *)
Definition display_rescale (p : precisions) (a : samount) : pdec :=
  rescale (sa_value a) (Nat.max (scale (sa_value a)) (Nat.min (prec_of p (sa_comm a)) 28)).

(* fmt_with_alignment of an expr::Amount: the text and the length of its number *)
Definition amount_text (p : precisions) (a : samount) : str * nat :=
  let s := show (display_rescale p a) in
  match sa_comm a with
  | [] => (s, length s)
  | c => (s ++ [32] ++ c, length s)
  end.

Definition get_column (colsize left padding : nat) : nat :=
  if (left + padding <? colsize)%nat then (colsize - left)%nat else padding.

Definition meta_text (m : metadata) : str :=
  match m with
  | MComment s => s
  | MKeyValue k v => k ++ [58;32] ++ v
  | MKeyExpr k v => k ++ [58;58;32] ++ v
  | MWordTags ts => 58 :: flat_map (fun t => t ++ [58]) ts
  end.
Definition meta_line (m : metadata) : str := s_indent ++ [59;32] ++ meta_text m ++ [10].

(* `{:>width$}` of " =" *)
Definition pad_left (w : nat) (s : str) : str := spaces (w - length s) ++ s.

Definition posting_text (p : precisions) (w : nat) (po : sposting) : str :=
  let pc := clear_text (sp_clear po) in
  let aw := (w + length pc)%nat in
  s_indent ++ pc ++ sp_account po ++
  (match sp_amount po with
   | Some pa =>
       let '(s, al) := amount_text p (pa_amount pa) in
       spaces (get_column 48 (aw + al) 2) ++ s ++
       (match pa_cost pa with
        | Some c => [32;64;32] ++ fst (amount_text p c)
        | None => []
        end)
   | None => []
   end) ++
  (match sp_balance po with
   | Some b =>
       let '(s, al) := amount_text p b in
       (* importers always print an amount, so the padding is 0; the other arm approximates the
          display width of the commodity by its length *)
       let padding := match sp_amount po with
                      | Some _ => 0%nat
                      | None => get_column (50 + (length s - al)) aw 2
                      end in
       pad_left padding [32;61] ++ [32] ++ s
   | None => []
   end) ++ [10] ++ flat_map meta_line (sp_meta po).

Fixpoint postings_text (p : precisions) (ws : list nat) (ps : list sposting) : str :=
  match ps with
  | [] => []
  | po :: r => posting_text p (hd 0%nat ws) po ++ postings_text p (tl ws) r
  end.

Definition header_text (t : stxn) : str :=
  show_date (tr_date t) ++
  (match tr_edate t with Some e => 61 :: show_date e | None => [] end) ++
  [32] ++ clear_text (tr_clear t) ++
  (match tr_code t with Some c => [40] ++ c ++ [41;32] | None => [] end) ++
  tr_payee t ++ [10].

Definition txn_text (p : precisions) (ws : list nat) (t : stxn) : str :=
  header_text t ++ flat_map meta_line (tr_meta t) ++ postings_text p ws (tr_posts t).

(* ImportCmd::run: one `writeln!(w, "{}", ..)` per transaction *)
Fixpoint print_all (p : precisions) (wss : list (list nat)) (ts : list stxn) : str :=
  match ts with
  | [] => []
  | t :: r => txn_text p (hd [] wss) t ++ [10] ++ print_all p (tl wss) r
  end.

(* ================= reader ================= *)

Inductive item := ITxn (t : stxn) | IOther.

Fixpoint span (f : N -> bool) (l : str) : str * str :=
  match l with
  | c :: r => if f c then let '(a, b) := span f r in (c :: a, b) else ([], l)
  | [] => ([], [])
  end.

Definition is_sp (c : N) : bool := (c =? 32) || (c =? 9).
Definition drop_sp (l : str) : str := snd (span is_sp l).

(* str::lines-like: split at LF; the text after the last LF is dropped when empty *)
Fixpoint split_lines_aux (l : str) (cur : str) : list str :=
  match l with
  | [] => match cur with [] => [] | _ => [rev cur] end
  | c :: r => if c =? 10 then rev cur :: split_lines_aux r [] else split_lines_aux r (c :: cur)
  end.
Definition split_lines (l : str) : list str := split_lines_aux l [].

(* the 25 code points of Unicode White_Space (str::trim, trim_end, trim_start) *)
Definition is_white (c : N) : bool :=
  ((9 <=? c) && (c <=? 13)) || (c =? 32) || (c =? 133) || (c =? 160) || (c =? 5760)
  || ((8192 <=? c) && (c <=? 8202)) || (c =? 8232) || (c =? 8233) || (c =? 8239) || (c =? 8287)
  || (c =? 12288).
Definition trim_start (l : str) : str := snd (span is_white l).
Definition trim_end (l : str) : str := rev (trim_start (rev l)).
Definition trim (l : str) : str := trim_end (trim_start l).

(* end of a line: nothing, or the CR of a CRLF ending *)
Definition at_eol (l : str) : bool :=
  match l with [] => true | [c] => c =? 13 | _ => false end.

(* ---- dates ---- *)
Definition digits_value (l : str) : N := fold_left (fun a c => a * 10 + (c - 48)) l 0.
Definition leap (y : N) : bool := ((y mod 4 =? 0) && negb (y mod 100 =? 0)) || (y mod 400 =? 0).
Definition days_in_month (y m : N) : N :=
  if (m =? 2) then (if leap y then 29 else 28)
  else if (m =? 4) || (m =? 6) || (m =? 9) || (m =? 11) then 30 else 31.
Definition valid_date (d : date) : bool :=
  (d_y d <=? 9999) && (1 <=? d_m d) && (d_m d <=? 12) && (1 <=? d_d d) && (d_d d <=? days_in_month (d_y d) (d_m d)).

(* digit1 sep digit1 sep digit1 with the same separator `/` or `-`, then a calendar check *)
Definition read_date (l : str) : option (date * str) :=
  let '(ys, r1) := span is_digit l in
  match ys, r1 with
  | _ :: _, sep :: r2 =>
      if (sep =? 47) || (sep =? 45) then
        let '(ms, r3) := span is_digit r2 in
        match ms, r3 with
        | _ :: _, sep2 :: r4 =>
            if sep2 =? sep then
              let '(ds, r5) := span is_digit r4 in
              match ds with
              | _ :: _ =>
                  let d := {| d_y := digits_value ys; d_m := digits_value ms; d_d := digits_value ds |} in
                  if (length ys <=? 4)%nat && (length ms <=? 2)%nat && (length ds <=? 2)%nat && valid_date d
                  then Some (d, r5) else None
              | [] => None
              end
            else None
        | _, _ => None
        end
      else None
  | _, _ => None
  end.

(* ---- metadata: the text after the `;` of a metadata line ---- *)
Definition is_ascii_ws (c : N) : bool := (c =? 32) || (c =? 9) || (c =? 10) || (c =? 12) || (c =? 13).
Definition is_tag_char (c : N) : bool := negb (is_ascii_ws c || (c =? 58)).

(* repeat(1.., terminated(tag_key, ':')) *)
Fixpoint read_tag_list (fuel : nat) (l : str) : list str * str :=
  match fuel with
  | O => ([], l)
  | S f =>
      let '(k, r) := span is_tag_char l in
      match k, r with
      | _ :: _, c :: r' => if c =? 58 then let '(ts, rest) := read_tag_list f r' in (k :: ts, rest) else ([], l)
      | _, _ => ([], l)
      end
  end.

Definition strip_cr (l : str) : str :=
  match rev l with
  | c :: r => if c =? 13 then rev r else l
  | [] => l
  end.
Definition has_char (x : N) (l : str) : bool := existsb (fun c => c =? x) l.

Definition read_meta (l : str) : option metadata :=
  let body := strip_cr (drop_sp l) in
  if has_char 13 body then None            (* till_line_ending fails on a CR that does not end the line *)
  else
    match body with
    | c :: r =>
        if c =? 58 then
          match read_tag_list (length r) r with
          | ((_ :: _) as ts, rest) => if at_eol (drop_sp rest) then Some (MWordTags ts) else None
          | ([], _) =>
              (* not tags; a key cannot start with ':' either *)
              Some (MComment (trim_end body))
          end
        else
          let '(k, r1) := span is_tag_char body in
          match k with
          | [] => Some (MComment (trim_end body))
          | _ =>
              match drop_sp r1 with
              | c1 :: c2 :: v => if (c1 =? 58) && (c2 =? 58) then Some (MKeyExpr k (trim v))
                                 else if c1 =? 58 then Some (MKeyValue k (trim (c2 :: v)))
                                 else Some (MComment (trim_end body))
              | [c1] => if c1 =? 58 then Some (MKeyValue k []) else Some (MComment (trim_end body))
              | [] => Some (MComment (trim_end body))
              end
          end
    | [] => Some (MComment [])
    end.

(* block_metadata at the end of a header / posting line: `;` starts an inline metadata *)
Definition read_line_end (l : str) : option (list metadata) :=
  if at_eol l then Some []
  else match l with
       | c :: r => if c =? 59 then option_map (fun m => [m]) (read_meta r) else None
       | [] => Some []
       end.

(* ---- amounts ---- *)
Definition is_num_char (c : N) : bool := is_digit c || (c =? 45) || (c =? 44) || (c =? 46).
(* NON_COMMODITY_CHARS = " \t\r\n0123456789.,;:?!-+*/^&|=<>[](){}@" *)
Definition non_commodity (c : N) : bool :=
  (c =? 32) || (c =? 9) || (c =? 13) || (c =? 10) || is_digit c || (c =? 46) || (c =? 44) || (c =? 59)
  || (c =? 58) || (c =? 63) || (c =? 33) || (c =? 45) || (c =? 43) || (c =? 42) || (c =? 47) || (c =? 94)
  || (c =? 38) || (c =? 124) || (c =? 61) || (c =? 60) || (c =? 62) || (c =? 91) || (c =? 93) || (c =? 40)
  || (c =? 41) || (c =? 123) || (c =? 125) || (c =? 64).

Inductive ares := ANone | AUnsupported | ASome (a : samount) (rest : str).

(* value_expr restricted to a plain amount: number token, space0, commodity *)
Definition read_amount (l : str) : ares :=
  match l with
  | c :: _ =>
      if c =? 40 then AUnsupported else
      let '(tok, r1) := span is_num_char l in
      match tok with
      | [] => ANone
      | _ => match scan tok with
             | SOk d => let '(cm, r3) := span (fun x => negb (non_commodity x)) (drop_sp r1) in
                        ASome {| sa_value := d; sa_comm := cm |} r3
             | SErr _ => ANone
             end
      end
  | [] => ANone
  end.

Inductive pares := PANone | PAUnsupported | PASome (pa : pamount) (rest : str).

(* posting_amount: amount, lot (none), optional `@ rate` *)
Definition read_posting_amount (l : str) : pares :=
  match read_amount l with
  | ANone => PANone
  | AUnsupported => PAUnsupported
  | ASome a r =>
      let r1 := drop_sp r in
      match r1 with
      | c :: r2 =>
          if (c =? 40) || (c =? 91) || (c =? 123) then PAUnsupported        (* lot *)
          else if c =? 64 then
            match r2 with
            | c2 :: _ => if c2 =? 64 then PAUnsupported else
                match read_amount (drop_sp r2) with
                | ASome cst r3 => PASome {| pa_amount := a; pa_cost := Some cst |} r3
                | AUnsupported => PAUnsupported
                | ANone => PANone
                end
            | [] => PANone
            end
          else PASome {| pa_amount := a; pa_cost := None |} r1
      | [] => PASome {| pa_amount := a; pa_cost := None |} r1
      end
  end.

(* ---- posting account ---- *)
Definition is_word_char (c : N) : bool := negb ((c =? 10) || (c =? 13) || (c =? 59) || (c =? 32) || (c =? 9)).

(* further words, each after exactly one space; stops before two spaces, before [space] tab/;/CR, at the end *)
Fixpoint read_words (fuel : nat) (l : str) : str * str :=
  match fuel with
  | O => ([], l)
  | S f =>
      match l with
      | c :: c2 :: r =>
          if (c =? 32) && is_word_char c2 then
            let '(w, r') := span is_word_char (c2 :: r) in
            let '(ws, r'') := read_words f r' in
            (32 :: w ++ ws, r'')
          else ([], l)
      | _ => ([], l)
      end
  end.

Definition read_account (l : str) : option (str * str) :=
  let '(w, r) := span is_word_char l in
  match w with
  | [] => None
  | _ => let '(ws, r') := read_words (length r) r in Some (w ++ ws, r')
  end.

Inductive lres := LErr | LUnsupported | LPosting (p : sposting) | LMeta (m : metadata).

(* an indented line of a transaction, after its leading spaces and tabs *)
Definition read_indented (l : str) : lres :=
  match l with
  | c :: r =>
      if c =? 59 then match read_meta r with Some m => LMeta m | None => LErr end
      else
        let '(cl, l1) := if c =? 42 then (Cleared, drop_sp r) else if c =? 33 then (Pending, drop_sp r) else (Uncleared, l) in
        match read_account l1 with
        | None => LErr
        | Some (acct, r1) =>
            let r2 := drop_sp r1 in
            let mk := fun amt bal meta =>
              LPosting {| sp_account := acct; sp_clear := cl; sp_amount := amt; sp_balance := bal; sp_meta := meta |} in
            if at_eol r2 || (match r2 with c3 :: _ => c3 =? 59 | [] => false end) then
              match read_line_end r2 with Some m => mk None None m | None => LErr end
            else
              match read_posting_amount r2 with
              | PAUnsupported => LUnsupported
              | pa =>
                  let '(amt, r3) := match pa with PASome x r' => (Some x, drop_sp r') | _ => (None, r2) end in
                  let bal :=
                    match r3 with
                    | c4 :: r4 =>
                        if c4 =? 61 then
                          match read_amount (drop_sp r4) with
                          | ASome b r5 => inl (Some b, drop_sp r5)
                          | ANone => inl (None, r3)
                          | AUnsupported => inr tt
                          end
                        else inl (None, r3)
                    | [] => inl (None, r3)
                    end in
                  match bal with
                  | inr _ => LUnsupported
                  | inl (b, r6) => match read_line_end r6 with Some m => mk amt b m | None => LErr end
                  end
              end
        end
  | [] => LErr                                    (* a line of white space only inside a transaction *)
  end.

(* ---- header line ---- *)
Inductive hres := HErr | HUnsupported | HOk (t : stxn).

Definition is_payee_char (c : N) : bool := negb ((c =? 59) || (c =? 13) || (c =? 10)).

Definition read_header (l : str) (paren_later : bool) : hres :=
  match read_date l with
  | None => HErr
  | Some (d, r1) =>
      let '(ed, r2) :=
        match r1 with
        | c :: r => if c =? 61 then match read_date r with Some (e, r') => (Some e, r') | None => (None, r1) end
                    else (None, r1)
        | [] => (None, r1)
        end in
      let mk := fun cl code payee meta =>
        HOk {| tr_date := d; tr_edate := ed; tr_clear := cl; tr_code := code; tr_payee := payee;
               tr_meta := meta; tr_posts := [] |} in
      if at_eol r2 then mk Uncleared None [] []
      else
        match r2 with
        | c :: _ =>
            if negb (is_sp c) then HErr else
            let r3 := drop_sp r2 in
            let '(cl, r4) :=
              match r3 with
              | c1 :: r => if c1 =? 42 then (Cleared, drop_sp r) else if c1 =? 33 then (Pending, drop_sp r) else (Uncleared, r3)
              | [] => (Uncleared, r3)
              end in
            let code :=
              match r4 with
              | c1 :: r =>
                  if c1 =? 40 then
                    let '(cd, r5) := span (fun x => negb (x =? 41)) r in
                    match r5 with
                    | _ :: r6 => inl (Some cd, drop_sp r6)
                    | [] => if paren_later then inr tt else inl (None, r4)
                    end
                  else inl (None, r4)
              | [] => inl (None, r4)
              end in
            match code with
            | inr _ => HUnsupported
            | inl (cd, r7) =>
                let '(p, r8) := span is_payee_char r7 in
                match read_line_end r8 with
                | Some m => mk cl cd (trim_end p) m
                | None => HErr
                end
            end
        | [] => mk Uncleared None [] []
        end
  end.

(* ---- a transaction: header line, then indented lines ---- *)
Definition starts_indented (l : str) : bool := match l with c :: _ => is_sp c | [] => false end.

Definition add_meta (t : stxn) (m : metadata) : stxn :=
  {| tr_date := tr_date t; tr_edate := tr_edate t; tr_clear := tr_clear t; tr_code := tr_code t;
     tr_payee := tr_payee t; tr_meta := tr_meta t ++ [m]; tr_posts := tr_posts t |}.
Definition add_post (t : stxn) (p : sposting) : stxn :=
  {| tr_date := tr_date t; tr_edate := tr_edate t; tr_clear := tr_clear t; tr_code := tr_code t;
     tr_payee := tr_payee t; tr_meta := tr_meta t; tr_posts := tr_posts t ++ [p] |}.
Definition post_add_meta (p : sposting) (m : metadata) : sposting :=
  {| sp_account := sp_account p; sp_clear := sp_clear p; sp_amount := sp_amount p;
     sp_balance := sp_balance p; sp_meta := sp_meta p ++ [m] |}.

Inductive bres := BErr | BUnsupported | BOk (t : stxn) (rest : list str).

(* cur: the posting metadata lines still attach to *)
Fixpoint read_body (lines : list str) (t : stxn) (cur : option sposting) : bres :=
  let close := fun t => match cur with Some p => add_post t p | None => t end in
  match lines with
  | [] => BOk (close t) []
  | l :: rest =>
      (* a line made only of spaces and tabs ends the transaction *)
      if starts_indented l && negb (at_eol (drop_sp l)) then
        match read_indented (drop_sp l) with
        | LErr => BErr
        | LUnsupported => BUnsupported
        | LMeta m => match cur with
                     | Some p => read_body rest t (Some (post_add_meta p m))
                     | None => read_body rest (add_meta t m) None
                     end
        | LPosting p => read_body rest (close t) (Some p)
        end
      else BOk (close t) lines
  end.

Inductive rres := RItems (items : list item) (err : bool) | RUnsupported | RHang | RPanic.

Definition drop_cr (l : str) : str := snd (span (fun c => c =? 13) l).

(* parse_ledger: entries separated by vertical space (line endings and lines made only of
   spaces or tabs); stops at the first error *)
Fixpoint read_entries (fuel : nat) (lines : list str) (acc : list item) : rres :=
  match fuel with
  | O => RItems (rev acc) true
  | S f =>
      match lines with
      | [] => RItems (rev acc) false
      | l :: rest =>
          match drop_cr l with
          | [] => read_entries f rest acc
          | (c :: _) as l' =>
              if at_eol (drop_sp l') then read_entries f rest acc else
              if is_digit c then
                match read_header l' (existsb (has_char 41) rest) with
                | HErr => RItems (rev acc) true
                | HUnsupported => RUnsupported
                | HOk t =>
                    match read_body rest t None with
                    | BErr => RItems (rev acc) true
                    | BUnsupported => RUnsupported
                    | BOk t' rest' => read_entries f rest' (ITxn t' :: acc)
                    end
                end
              else RItems (rev acc) true          (* anything that is not a transaction is outside this reader *)
          end
      end
  end.

Definition read_all (text : str) : rres :=
  let ls := split_lines text in read_entries (S (length ls)) ls [].

(* ================= what "reads back as intended" means ================= *)

(* numerically equal, and only padded: the scale is the one `rescale` gives *)
Definition same_value (a b : pdec) : bool :=
  let s := Nat.max (scale a) (scale b) in
  let ma := mant a * pow10n (s - scale a) in
  let mb := mant b * pow10n (s - scale b) in
  (ma =? mb) && ((ma =? 0) || Bool.eqb (neg a) (neg b)).

Definition padded_scale_ok (p : precisions) (a : samount) (b : pdec) : bool :=
  let target := Nat.max (scale (sa_value a)) (Nat.min (prec_of p (sa_comm a)) 28) in
  Nat.eqb (scale b) target
  || ((scale (sa_value a) <=? scale b)%nat && (scale b <=? target)%nat && (max96N <? mant b * 10)).

Definition same_amount (p : precisions) (a b : samount) : bool :=
  str_eqb (sa_comm a) (sa_comm b) && same_value (sa_value a) (sa_value b) && padded_scale_ok p a (sa_value b).

Definition opt_same {A} (f : A -> A -> bool) (a b : option A) : bool :=
  match a, b with Some x, Some y => f x y | None, None => true | _, _ => false end.
Fixpoint list_same {A} (f : A -> A -> bool) (a b : list A) : bool :=
  match a, b with
  | [], [] => true
  | x :: r, y :: s => f x y && list_same f r s
  | _, _ => false
  end.
Definition clear_eqb (a b : clear) : bool :=
  match a, b with Uncleared, Uncleared => true | Cleared, Cleared => true | Pending, Pending => true | _, _ => false end.
Definition meta_eqb (a b : metadata) : bool :=
  match a, b with
  | MComment x, MComment y => str_eqb x y
  | MKeyValue k v, MKeyValue k' v' => str_eqb k k' && str_eqb v v'
  | MKeyExpr k v, MKeyExpr k' v' => str_eqb k k' && str_eqb v v'
  | MWordTags x, MWordTags y => list_same str_eqb x y
  | _, _ => false
  end.
Definition same_posting (p : precisions) (a b : sposting) : bool :=
  str_eqb (sp_account a) (sp_account b) && clear_eqb (sp_clear a) (sp_clear b)
  && opt_same (fun x y => same_amount p (pa_amount x) (pa_amount y)
                          && opt_same (same_amount p) (pa_cost x) (pa_cost y)) (sp_amount a) (sp_amount b)
  && opt_same (same_amount p) (sp_balance a) (sp_balance b)
  && list_same meta_eqb (sp_meta a) (sp_meta b).
(* printed tree a, tree read back b *)
Definition same_txn (p : precisions) (a b : stxn) : bool :=
  date_eqb (tr_date a) (tr_date b) && opt_same date_eqb (tr_edate a) (tr_edate b)
  && clear_eqb (tr_clear a) (tr_clear b) && opt_same str_eqb (tr_code a) (tr_code b)
  && str_eqb (tr_payee a) (tr_payee b) && list_same meta_eqb (tr_meta a) (tr_meta b)
  && list_same (same_posting p) (tr_posts a) (tr_posts b).
