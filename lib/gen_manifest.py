#!/usr/bin/env python3
"""Regenerate MANIFEST.json from lib/props.d/*.json (claimed) and lib/not_applicable.json."""
import json
import os
import sys

ROOT = os.path.dirname(os.path.dirname(os.path.abspath(__file__)))
sys.path.insert(0, os.path.join(ROOT, "lib"))
from props import PROPS  # noqa: E402

ALL = ["C%02d" % i for i in range(1, 21)]
na_path = os.path.join(ROOT, "lib", "not_applicable.json")
NA = json.load(open(na_path)) if os.path.exists(na_path) else {}
m = {
    "version": 1,
    "setup_cmd": "./setup.sh",
    "hooks": {"guard": "okane_verif",
              "enable": "no source hooks exist: the public API suffices; the name is reserved (RUSTFLAGS=\"--cfg okane_verif\")",
              "baseline_off_cmd": "cd /repo && cargo test --workspace --no-fail-fast --offline",
              "source_commits": [], "add_only": True},
    "engines": [{"name": "okv", "path": "/verif/check", "serves_properties": sorted(PROPS),
                 "kind_free_text": "Coq 8.16 theorems over a hand-written Gallina model + correspondence run (Rust harness linked against /repo, classifier evaluated by vm_compute)"}],
    "checks": [],
    "notes": "See DESIGN.md. Genuine defects repaired by fix: commits in /repo, and known findings, are listed in known_findings.json.",
    "not_applicable": [],
}
for pid in ALL:
    if pid in PROPS:
        c = PROPS[pid]
        m["checks"].append({
            "property_id": pid,
            "quick_cmd": "./check %s --tier quick" % pid,
            "thorough_cmd": "./check %s --tier thorough" % pid,
            "evidence_file": "/verif/evidence/%s.json" % pid,
            "replay_cmd_template": "./check %s --replay {path}" % pid,
            "engine": "okv",
            "level_claimed": {"category": "proof", "text": c["level_text"], "design_ref": c.get("design_ref", "5 " + pid)},
            "level_note": c["level_note"],
            "technique": c.get("technique", "machine-checked proof in Coq over a Gallina model, tied to the code by a differential correspondence run"),
        })
    else:
        m["not_applicable"].append({"property_id": pid, "reason": NA.get(pid, "not claimed yet: model and check under construction (DESIGN.md section 8 build order); it will be claimed once its check runs end to end")})
json.dump(m, open(os.path.join(ROOT, "MANIFEST.json"), "w"), indent=1)
print("claimed:", " ".join(sorted(PROPS)))
