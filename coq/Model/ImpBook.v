(* The imported transactions as entries of the book-keeping model (Model/Book.v): what
   `okane balance` sees when it reads back what `okane import` printed.  Names become ids
   through arbitrary functions (the theorems ask them to be injective where it matters).
   An empty commodity prints as a bare number.  Definitions only. *)
From Coq Require Import List NArith ZArith Bool QArith Qcanon.
From Okv Require Import Base.Maps Base.Dec Model.Amount Model.ImpConfig Model.ImpSingleEntry.
From Okv Require Model.Book.
Import ListNotations.
Open Scope Qc_scope.

(* an injective code of a byte string (bytes are < 256) *)
Definition str_code (s : str) : N := fold_left (fun a c => a * 257 + c + 1)%N s 0%N.

Section ToBook.
  Variable aid_of : str -> aid.
  Variable cid_of : str -> cid.

  Definition vamt (a : oamount) : vexpr :=
    VAmt (dec_value (oa_value a)) (match oa_commodity a with [] => None | c => Some (cid_of c) end).

  Definition book_posting (p : sposting) : Book.posting :=
    {| Book.p_account := aid_of (sp_account p);
       Book.p_amount := Some (vamt (sp_amount p));
       Book.p_cost := option_map (fun c => Book.XRate (vamt c)) (sp_cost p);
       Book.p_lot := None;
       Book.p_balance := option_map vamt (sp_balance p) |}.

  Definition book_txn (t : stxn) : Book.txn :=
    {| Book.t_date := st_date t; Book.t_posts := map book_posting (st_posts t) |}.

  Definition book_entries (ts : list stxn) : list Book.entry := map (fun t => Book.ETxn (book_txn t)) ts.

  (* one funding transaction per commodity: account +v, equity -v *)
  Definition fund_txn (acct equity : str) (date : Z) (cv : str * Qc) : Book.entry :=
    let amt (v : Qc) := Some (VAmt v (match fst cv with [] => None | c => Some (cid_of c) end)) in
    Book.ETxn {| Book.t_date := date;
                 Book.t_posts := [ {| Book.p_account := aid_of acct; Book.p_amount := amt (snd cv);
                                      Book.p_cost := None; Book.p_lot := None; Book.p_balance := None |};
                                   {| Book.p_account := aid_of equity; Book.p_amount := amt (- snd cv);
                                      Book.p_cost := None; Book.p_lot := None; Book.p_balance := None |} ] |}.
  Definition funding (acct equity : str) (date : Z) (b0 : list (str * Qc)) : list Book.entry :=
    map (fund_txn acct equity date) b0.
End ToBook.
