(* Shared case format of the report-layer properties (C01-C04, C08-C10, C12): what the
   harness writes and how implementation observations are compared with the model. *)
From Coq Require Import List NArith ZArith Bool QArith Qcanon.
From Okv Require Import Base.Maps Base.Dec Model.Amount Model.Book.
Import ListNotations.

Definition D (m : Z) (s : nat) : Qc := of_dec m s.
Definition P (a : N) (amt : option vexpr) (cost lot : option exchange) (bal : option vexpr) : posting :=
  {| p_account := a; p_amount := amt; p_cost := cost; p_lot := lot; p_balance := bal |}.
Definition T (d : Z) (ps : list posting) : txn := {| t_date := d; t_posts := ps |}.
(* a transaction written `DATE=EFFECTIVE`: the harness hands over the effective date it wrote;
   the ledger that is booked has none (report::book_keeping::add_transaction reads `txn.date`
   only, Model/Lower.v low_entry lowers `st_date` and drops `st_edate`), so price events, stored
   transactions and report dates are those of DATE *)
Definition TE (d ed : Z) (ps : list posting) : txn := T d ps.
Definition OP (a : N) (amt : amount) (conv : option (cid * Qc)) : oposting :=
  {| o_account := a; o_amount := amt; o_converted := conv |}.

Inductive xerr :=
| XEval (k : N) | XBalanceFailure | XUndeducible (i j : nat) | XUnbalanced (r : amount)
| XAssertion (posting : nat) (computed diff : amount)
| XZeroAmountWithExchange | XZeroExchangeRate | XExchangeWithAmountCommodity
| XInvalidAccount (k : N) | XInvalidCommodity (k : N) | XOther.

Inductive lobs :=
| LOk (txns : list (Z * list oposting)) (bal : list (N * amount))
| LErr (entry : nat) (e : xerr)
| LPanic.

(* ---- canonical comparison ---- *)
Definition qc_eqb (a b : Qc) : bool := Qc_eq_bool a b.

Fixpoint amount_eqb_sorted (a b : amount) : bool :=
  match a, b with
  | [], [] => true
  | (c1, v1) :: r1, (c2, v2) :: r2 => (c1 =? c2)%N && qc_eqb v1 v2 && amount_eqb_sorted r1 r2
  | _, _ => false
  end.
(* order-insensitive equality of amounts, zero entries significant *)
Definition amount_eqb (a b : amount) : bool := amount_eqb_sorted (sort_keys a) (sort_keys b).

(* Decimal division is rounded to 28 significant digits where the model divides exactly;
   values that went through a division are compared up to a relative 10^-18 *)
Definition qc_close (a b : Qc) : bool :=
  let d := Qcabs.Qcabs (a - b)%Qc in
  let scale := (Qcabs.Qcabs a + 1)%Qc in
  match Qccompare (d * of_dec 1000000000000000000 0)%Qc scale with Gt => false | _ => true end.

Definition conv_eqb (a b : option (cid * Qc)) : bool :=
  match a, b with
  | None, None => true
  | Some (c1, v1), Some (c2, v2) => (c1 =? c2)%N && qc_close v1 v2
  | _, _ => false
  end.

Definition oposting_eqb (a b : oposting) : bool :=
  (o_account a =? o_account b)%N && amount_eqb (o_amount a) (o_amount b)
  && conv_eqb (o_converted a) (o_converted b).

Fixpoint list_eqb {A B} (f : A -> B -> bool) (a : list A) (b : list B) : bool :=
  match a, b with
  | [], [] => true
  | x :: r, y :: s => f x y && list_eqb f r s
  | _, _ => false
  end.

Definition otxn_eqb (a : Z * list oposting) (b : otxn) : bool :=
  (fst a =? o_date b)%Z && list_eqb oposting_eqb (snd a) (o_posts b).

Definition bal_eqb (a : list (N * amount)) (b : balance) : bool :=
  list_eqb (fun x y => (fst x =? fst y)%N && amount_eqb (snd x) (snd y)) a (sort_keys b).

Definition eval_code (e : eval_err) : N :=
  match e with
  | UnmatchingOperation => 1 | UnmatchingCommodities => 2 | UnknownCommodity => 3
  | DivideByZero => 4 | NumberOverflow => 5 | AmountRequired => 6
  | PostingAmountRequired => 7 | SingleAmountRequired => 8
  end%N.

Definition err_eqb (x : xerr) (e : bk_err) : bool :=
  match x, e with
  | XEval k, EvalFailure ev => (k =? eval_code ev)%N
  | XBalanceFailure, BalanceFailure => true
  | XUndeducible i j, UndeduciblePostingAmount i' j' => Nat.eqb i i' && Nat.eqb j j'
  | XUnbalanced r, UnbalancedPostings r' => amount_eqb r r'
  | XAssertion p c d, BalanceAssertionFailure p' c' d' => Nat.eqb p p' && amount_eqb c c' && amount_eqb d d'
  | XZeroAmountWithExchange, ZeroAmountWithExchange => true
  | XZeroExchangeRate, ZeroExchangeRate => true
  | XExchangeWithAmountCommodity, ExchangeWithAmountCommodity => true
  | _, _ => false
  end.

(* full agreement of an observation with the model's run *)
Definition obs_agrees (o : lobs) (m : outcome bstate * nat) : bool :=
  match o, m with
  | LOk ts b, (Ok s, _) => list_eqb otxn_eqb ts (s_txns s) && bal_eqb b (s_bal s)
  | LErr k x, (Err e, k') => Nat.eqb k k' && err_eqb x e
  | LPanic, (Panic, _) => true
  | _, _ => false
  end.

Definition is_balance_error (x : xerr) : bool :=
  match x with XUnbalanced _ | XUndeducible _ _ => true | _ => false end.
