(* C12 — aliases are transparent; alias conflicts are rejected. *)
From Coq Require Import List NArith ZArith Bool.
From Okv Require Import Base.Maps Model.Intern.
Import ListNotations.

(* placeholder until Proofs/InternProofs.v lands *)
Theorem C12_resolve_alias : forall s a n, get a s = Some (RAlias n) -> ensure s a = (s, n).
Proof. intros s a n H. unfold ensure, resolve. rewrite H. reflexivity. Qed.
Print Assumptions C12_resolve_alias.
