(* C04 classifier.  0 Agree | 1 ModelMismatch | 2 PropertyFail | 9 harness error.
   Everything is recomputed from what the IMPLEMENTATION returned: the whole-history
   balance and each date-ranged balance against sums of the register's posting amounts. *)
From Coq Require Import List NArith ZArith Bool QArith Qcanon.
From Okv Require Import Base.Maps Base.Dec Model.Amount Model.Book Model.Query Run.LedgerCase Run.Classify_C02 Run.Classify_C03.
Import ListNotations.

Record query_obs := { q_start : option Z; q_end : option Z; q_result : list (N * amount) }.
Definition Q (s e : option Z) (r : list (N * amount)) : query_obs := {| q_start := s; q_end := e; q_result := r |}.

(* register lines as printed by `okane register`: account, amount, running total *)
Record case := { c_entries : list entry; c_obs : lobs; c_queries : list query_obs;
                 c_register : list (N * amount * amount); c_broken : bool }.
Definition C (es : list entry) (o : lobs) (qs : list query_obs) (rg : list (N * amount * amount)) : case :=
  {| c_entries := es; c_obs := o; c_queries := qs; c_register := rg; c_broken := false |}.
(* the harness could not read what the implementation printed: verdict 9 *)
Definition Broken : case :=
  {| c_entries := []; c_obs := LPanic; c_queries := []; c_register := []; c_broken := true |}.

Definition formats_of (es : list entry) : formats :=
  fold_left (fun f e => match e with EFormat c dp => set c dp f | _ => f end) es [].

(* plain sums of the register's amounts per account over the transactions in range *)
Definition sum_in_range (ts : list (Z * list oposting)) (s e : option Z) : balance :=
  fold_left (fun b t => if range_contains s e (fst t)
                        then fold_left (fun b p => run_add b (o_account p) (o_amount p)) (snd t) b
                        else b) ts [].

(* a report equals a sum: same non-zero entries per account (rounded when recomputed) *)
Definition report_matches (f : option formats) (sum : balance) (rep : list (N * amount)) : bool :=
  let norm a := match f with Some fm => a_round fm (nz a) | None => nz a end in
  forallb (fun p => amount_eqb (nz (norm (bal_get sum (fst p)))) (nz (snd p))) rep
  && forallb (fun p => a_is_zero (norm (snd p)) || mem (fst p) rep) sum.

(* no commodity with an exactly-zero total is shown *)
Definition no_zero_shown (rep : list (N * amount)) (sum : balance) : bool :=
  forallb (fun p => forallb (fun cv => negb (qc_zero (a_get (bal_get sum (fst p)) (fst cv))) || negb (mem (fst cv) (snd p))) (snd p)) rep.

Fixpoint register_ok (acc : amount) (ps : list oposting) (rg : list (N * amount * amount)) : bool :=
  match ps, rg with
  | [], [] => true
  | p :: pr, (a, x, tot) :: rr =>
      let acc' := a_add acc (o_amount p) in
      (o_account p =? a)%N && amount_eqb (o_amount p) x && amount_eqb (nz acc') (nz tot) && register_ok acc' pr rr
  | _, _ => false
  end.

Definition query_agrees (s : bstate) (q : query_obs) : bool :=
  bal_eqb (q_result q) (balance_report s (q_start q) (q_end q)).

Definition classify (c : case) : N :=
  if c_broken c then 9%N else
  let m := process (c_entries c) in
  match c_obs c with
  | LPanic => 2%N
  | LErr _ _ => if obs_agrees (c_obs c) m then 0%N else 1%N
  | LOk ts final =>
      let f := formats_of (c_entries c) in
      let whole := sum_in_range ts None None in
      let spec :=
        report_matches None whole final && no_zero_shown final whole
        && forallb (fun q => let sm := sum_in_range ts (q_start q) (q_end q) in
                             report_matches (if range_bypass (q_start q) (q_end q) then None else Some f) sm (q_result q)
                             && no_zero_shown (q_result q) sm) (c_queries c)
        && register_ok [] (flat_map snd ts) (c_register c)
        && (* final running total of the register = total of the balance report *)
           amount_eqb (nz (fold_left (fun a p => a_add a (o_amount p)) (flat_map snd ts) []))
                      (nz (fold_left (fun a p => a_add a (snd p)) final [])) in
      if negb spec then 2%N
      else match m with
           | (Ok s, _) => if obs_agrees (c_obs c) m && forallb (query_agrees s) (c_queries c)
                             && list_eqb (fun x y => (fst (fst x) =? fst (fst y))%N && amount_eqb (snd (fst x)) (snd (fst y)) && amount_eqb (snd x) (snd y))
                                         (c_register c) (register_lines [] (all_postings s))
                          then 0%N else 1%N
           | _ => 1%N
           end
  end.

Definition verdicts (cs : list case) : list N := map classify cs.
