(* C03 — omitted and assigned amounts are inferred exactly.  Theorems only.
   Vocabulary: Model/BookSpec.v (unconstrained, assignment, bal_before, stored_posting,
   bal_wf, txn_prefix).  The residual `l_residual st` that the omitted amount negates is
   characterised as the sum of the other postings' balancing values by
   C01_residual_is_sum_of_balancing_values. *)
From Coq Require Import List NArith ZArith Bool QArith Qcanon.
From Okv Require Import Base.Maps.
From Okv Require Import Base.Dec.
From Okv Require Import Model.Amount.
From Okv Require Import Model.Book.
From Okv Require Import Model.BookSpec.
From Okv Require Import Proofs.BookA_Amount.
From Okv Require Import Proofs.BookA_Posting.
From Okv Require Import Proofs.BookA_Loop.
From Okv Require Import Proofs.BookA_Txn.
From Okv Require Import Proofs.BookA_Examples.
Import ListNotations.
Open Scope Qc_scope.

(* (1) With posting u omitted the transaction is accepted with exactly this state: posting u
   stores the negated residual (every commodity of it), every other stored posting is the
   one the loop produced, accounts are unchanged, and the deduced amount is added to u's
   account. *)
Theorem C03_omitted_exact : forall s t st u,
  txn_loop s t = Ok st -> l_unfilled st = Some u ->
  exists pu posts',
    nth_error (t_posts t) u = Some pu /\ unconstrained pu /\
    add_transaction s t =
      Ok {| s_bal := bal_add_amount (l_bal st) (p_account pu) (a_neg (l_residual st));
            s_fmt := s_fmt s;
            s_events := s_events s ++ rev (l_events st);
            s_txns := s_txns s ++ [{| o_date := t_date t; o_posts := posts' |}] |} /\
    length posts' = length (t_posts t) /\
    map o_account posts' = map p_account (t_posts t) /\
    nth_error posts' u = Some {| o_account := p_account pu; o_amount := a_neg (l_residual st);
                                 o_converted := None |} /\
    (forall j, j <> u -> nth_error posts' j = nth_error (rev (l_posts st)) j).
Proof. exact omitted_exact. Qed.
Print Assumptions C03_omitted_exact.

(* the deduced amount is, in every commodity, minus the sum of the other postings' balancing
   values (posting_bv as in C01_residual_is_sum_of_balancing_values; the omitted posting's
   own entry in bvs is None and contributes 0) *)
Theorem C03_omitted_is_negated_sum : forall s t st u,
  txn_loop s t = Ok st -> l_unfilled st = Some u ->
  exists bvs,
    length bvs = length (t_posts t) /\
    nth_error bvs u = Some None /\
    (forall k p, nth_error (t_posts t) k = Some p ->
       exists b o, bal_before s t k b /\ nth_error bvs k = Some o /\ posting_bv b p o) /\
    forall c, a_get (a_neg (l_residual st)) c = - qc_sum (map (fun o => bv_get o c) bvs).
Proof. exact omitted_pointwise. Qed.
Print Assumptions C03_omitted_is_negated_sum.

(* the balancing value of a posting with a TOTAL cost / lot price (`@@ T`, `{{T}}`) is |T| with
   the sign of the posting's amount: a minus sign written on the total changes nothing
   (Exchange::exchange = abs.with_sign_of(amount)), so the omitted amount deduced from it is
   the same for `-8 X @@ -1,000 USD` and `-8 X @@ 1,000 USD` *)
Theorem C03_written_sign_of_total_ignored : forall c t v,
  xchg_apply (XT c (- t)) v = xchg_apply (XT c t) v
  /\ snd (xchg_apply (XT c t) v) = if Qclt_le_dec v 0 then - Qcabs.Qcabs t else Qcabs.Qcabs t.
Proof. exact total_written_sign_ignored. Qed.
Print Assumptions C03_written_sign_of_total_ignored.

(* commodity by commodity the deduced amount is the negated residual *)
Theorem C03_deduced_pointwise : forall a c, a_get (a_neg a) c = - a_get a c.
Proof. exact a_get_neg. Qed.
Print Assumptions C03_deduced_pointwise.

(* what "the loop produced" for posting j: the record built from process_posting's result on
   the running balance at that point *)
Theorem C03_loop_stored_exact : forall s t st j pj,
  txn_loop s t = Ok st -> nth_error (t_posts t) j = Some pj ->
  exists b b' ep ev,
    bal_before s t j b /\
    process_posting b (t_date t) j pj = Ok (b', ep, ev) /\
    bal_before s t (S j) b' /\
    nth_error (rev (l_posts st)) j = Some (stored_posting pj ep).
Proof. exact loop_stored_exact. Qed.
Print Assumptions C03_loop_stored_exact.

(* every accepted transaction, omitted posting or not: sibling amounts are the loop's *)
Theorem C03_accepted_shape : forall s t s',
  add_transaction s t = Ok s' ->
  exists st posts',
    txn_loop s t = Ok st /\
    s_fmt s' = s_fmt s /\
    s_txns s' = s_txns s ++ [{| o_date := t_date t; o_posts := posts' |}] /\
    length posts' = length (t_posts t) /\
    map o_account posts' = map p_account (t_posts t) /\
    (forall j, l_unfilled st <> Some j ->
       option_map o_amount (nth_error posts' j) =
       option_map o_amount (nth_error (rev (l_posts st)) j)) /\
    match l_unfilled st with
    | Some u => exists pu, nth_error (t_posts t) u = Some pu /\ unconstrained pu /\
                  s_bal s' = bal_add_amount (l_bal st) (p_account pu) (a_neg (l_residual st)) /\
                  option_map o_amount (nth_error posts' u) = Some (a_neg (l_residual st))
    | None => s_bal s' = l_bal st /\ balanced (s_fmt s) (l_residual st)
    end.
Proof. exact add_transaction_ok_inv. Qed.
Print Assumptions C03_accepted_shape.

(* (2) `Account = c v`, one posting: the stored amount is v minus the current holding of c,
   no other account and no other commodity of the account moves, and the account is left with
   exactly v of c.  The last part needs distinct commodities in the account's amount when
   v = 0 (the entry is removed); C03_reachable_wf gives that in every reachable state and
   BookA_Examples.ex_assign_needs_wf shows it cannot be dropped for arbitrary lists. *)
Theorem C03_assign_exact : forall b d i p bc c v,
  assignment p bc -> eval_pa bc = Ok (PSingle c v) ->
  exists b',
    process_posting b d i p =
      Ok (b', Some {| ep_amount := PSingle c (v - a_get (bal_get b (p_account p)) c);
                      ep_converted := None;
                      ep_delta := PSingle c (v - a_get (bal_get b (p_account p)) c) |}, None) /\
    (forall a', a' <> p_account p -> get a' b' = get a' b) /\
    (forall c', c' <> c -> a_get (bal_get b' (p_account p)) c' = a_get (bal_get b (p_account p)) c') /\
    (v <> 0 \/ NoDup (keys (bal_get b (p_account p))) -> a_get (bal_get b' (p_account p)) c = v).
Proof. exact assign_single_exact. Qed.
Print Assumptions C03_assign_exact.

(* bare `Account = 0`: with at most one commodity held, the stored amount is the negated
   holding and the account is left empty; with two or more, BalanceFailure *)
Theorem C03_assign_zero_exact : forall b d i p bc,
  assignment p bc -> eval_pa bc = Ok PZero ->
  ((length (bal_get b (p_account p)) <= 1)%nat ->
   exists amt,
     process_posting b d i p =
       Ok (set (p_account p) [] b,
           Some {| ep_amount := amt; ep_converted := None; ep_delta := amt |}, None) /\
     pa_to_amount amt = a_neg (bal_get b (p_account p)) /\
     bal_get (set (p_account p) [] b) (p_account p) = []) /\
  ((2 <= length (bal_get b (p_account p)))%nat -> process_posting b d i p = Err BalanceFailure).
Proof. exact assign_zero_exact. Qed.
Print Assumptions C03_assign_zero_exact.

(* the same inside an accepted transaction: what is stored for assignment posting i *)
Theorem C03_assign_exact_txn : forall s t s' i p bc c v,
  add_transaction s t = Ok s' ->
  nth_error (t_posts t) i = Some p -> assignment p bc -> eval_pa bc = Ok (PSingle c v) ->
  exists b b' posts',
    bal_before s t i b /\ bal_before s t (S i) b' /\
    s_txns s' = s_txns s ++ [{| o_date := t_date t; o_posts := posts' |}] /\
    option_map o_amount (nth_error posts' i) =
      Some (a_single c (v - a_get (bal_get b (p_account p)) c)) /\
    (bal_wf (s_bal s) -> a_get (bal_get b' (p_account p)) c = v).
Proof. exact assign_single_exact_txn. Qed.
Print Assumptions C03_assign_exact_txn.

Theorem C03_assign_zero_exact_txn : forall s t i p bc b,
  bal_before s t i b ->
  nth_error (t_posts t) i = Some p -> assignment p bc -> eval_pa bc = Ok PZero ->
  ((2 <= length (bal_get b (p_account p)))%nat -> add_transaction s t = Err BalanceFailure) /\
  (forall s', add_transaction s t = Ok s' ->
     exists b' posts',
       (length (bal_get b (p_account p)) <= 1)%nat /\
       bal_before s t (S i) b' /\ bal_get b' (p_account p) = [] /\
       s_txns s' = s_txns s ++ [{| o_date := t_date t; o_posts := posts' |}] /\
       option_map o_amount (nth_error posts' i) = Some (a_neg (bal_get b (p_account p)))).
Proof. exact assign_zero_exact_txn. Qed.
Print Assumptions C03_assign_zero_exact_txn.

(* "leaves the account at X" at the end of the transaction: C03_assign_exact_txn gives the
   account's value right after the assignment posting; it is still there when the
   transaction is done provided no other posting of the transaction (the omitted one
   included) names the account.  Without that proviso the statement is false of the faithful
   model: known finding C03-K1, witnessed by C03_assign_final_refuted_K1
   (`A / A = 5 USD / B 3 USD` leaves A at -3 USD). *)
Theorem C03_assign_final : forall s t s' i p bc c v,
  bal_wf (s_bal s) ->
  add_transaction s t = Ok s' ->
  nth_error (t_posts t) i = Some p -> assignment p bc -> eval_pa bc = Ok (PSingle c v) ->
  (forall j pj, j <> i -> nth_error (t_posts t) j = Some pj -> p_account pj <> p_account p) ->
  a_get (bal_get (s_bal s') (p_account p)) c = v.
Proof. exact assign_single_final. Qed.
Print Assumptions C03_assign_final.

Theorem C03_assign_final_refuted_K1 :
  exists t s' p bc c v,
    add_transaction bstate0 t = Ok s' /\ bal_wf (s_bal bstate0) /\
    nth_error (t_posts t) 1 = Some p /\ assignment p bc /\ eval_pa bc = Ok (PSingle c v) /\
    a_get (bal_get (s_bal s') (p_account p)) c <> v.
Proof. exact k1_witness. Qed.
Print Assumptions C03_assign_final_refuted_K1.

(* balances of every reachable state, and of every running balance inside a transaction
   started from one, have distinct commodities per account *)
Theorem C03_reachable_wf : forall es s k, process es = (Ok s, k) -> bal_wf (s_bal s).
Proof. exact reachable_wf. Qed.
Print Assumptions C03_reachable_wf.

Theorem C03_loop_wf : forall s t st, bal_wf (s_bal s) -> txn_loop s t = Ok st -> bal_wf (l_bal st).
Proof. exact txn_loop_wf. Qed.
Print Assumptions C03_loop_wf.

(* (3) two unconstrained postings i < j, the postings before j processed successfully: the
   transaction is rejected naming i and j.  (A successful prefix holds at most one
   unconstrained posting - second theorem - so i and j are the first two; if the prefix
   fails, that failure is the result - third theorem.) *)
Theorem C03_two_unconstrained_rejected : forall s t i j pi pj stj,
  (i < j)%nat ->
  nth_error (t_posts t) i = Some pi -> unconstrained pi ->
  nth_error (t_posts t) j = Some pj -> unconstrained pj ->
  txn_loop s (txn_prefix t j) = Ok stj ->
  add_transaction s t = Err (UndeduciblePostingAmount i j).
Proof. exact two_unconstrained_rejected. Qed.
Print Assumptions C03_two_unconstrained_rejected.

Theorem C03_prefix_ok_one_unconstrained : forall s t j stj i k pi pk,
  txn_loop s (txn_prefix t j) = Ok stj ->
  (i < j)%nat -> (k < j)%nat ->
  nth_error (t_posts t) i = Some pi -> unconstrained pi ->
  nth_error (t_posts t) k = Some pk -> unconstrained pk -> i = k.
Proof. exact prefix_ok_one_unconstrained. Qed.
Print Assumptions C03_prefix_ok_one_unconstrained.

Theorem C03_prefix_error_propagates : forall s t k e,
  txn_loop s (txn_prefix t k) = Err e -> add_transaction s t = Err e.
Proof. exact prefix_error_propagates. Qed.
Print Assumptions C03_prefix_error_propagates.

(* (4) frame: accounts not named by the posting / the transaction keep their entry *)
Theorem C03_frame_posting : forall b d i p b' ep ev a',
  process_posting b d i p = Ok (b', ep, ev) -> a' <> p_account p -> get a' b' = get a' b.
Proof. exact process_posting_frame. Qed.
Print Assumptions C03_frame_posting.

Theorem C03_frame : forall s t s' a',
  add_transaction s t = Ok s' -> (forall p, In p (t_posts t) -> p_account p <> a') ->
  get a' (s_bal s') = get a' (s_bal s).
Proof. exact add_transaction_frame. Qed.
Print Assumptions C03_frame.
