(* C08 — value expressions evaluate as ordinary arithmetic with commodity typing. *)
From Coq Require Import List NArith ZArith Bool QArith Qcanon.
From Okv Require Import Base.Maps Base.Dec Model.Amount.
Import ListNotations.

(* placeholder until Proofs/EvalProofs.v lands *)
Theorem C08_eval_total : forall e, (exists v, eval_e e = inl v) \/ (exists x, eval_e e = inr x).
Proof. intros e. destruct (eval_e e); eauto. Qed.
Print Assumptions C08_eval_total.
