(* C02 classifier.  0 Agree | 1 ModelMismatch | 2 PropertyFail | 100 Known C02-K1 | 9 harness.
   On an accepted ledger the assertions are re-checked against running sums of the amounts
   the IMPLEMENTATION stored (file order), independently of the model's book-keeping. *)
From Coq Require Import List NArith ZArith Bool QArith Qcanon.
From Okv Require Import Base.Maps Base.Dec Model.Amount Model.Book Run.LedgerCase.
From Okv Require Model.BookSpecB.
Import ListNotations.

(* What the rendered error says (harness/src/diag.rs reads `Display` of the error back into
   positions of the ledger text).  DSeen: the entry the source excerpt starts at; the posting
   whose `= X` begins at the `--> file:line:col` location; the posting whose account name
   carries the "computed balance: .." marker; the posting whose `= X` carries the "not match
   the computed balance" marker (99 = the place is not exactly that part of any posting of the
   entry); the computed balance and the difference of the title line; the computed balance of
   the label.  DNone: not looked at (no failed assertion).  DWide: an excerpt line exceeds the
   renderer's terminal width and is cut - not read.  DPanic: rendering panicked.
   DUnreadable: the excerpt is not the ledger's text. *)
Inductive diag :=
| DNone | DPanic | DUnreadable | DWide
| DSeen (excerpt_entry loc_posting label_posting mark_posting : nat)
        (title_computed title_diff label_computed : amount).

(* One run of `okane balance|register FILE OPTIONS` (harness/src/c02.rs run_variants): exit 0;
   or a failed balance assertion whose `--> line:col` is the `= X` of that posting of that
   entry (99: no such place), with the computed balance and difference of the title; or
   another book-keeping error (title kind, Run/LedgerCase.v title_code) located in that entry;
   or a failure without a book-keeping error in the chain (the query); or a panic.
   The flag says whether a conversion (-X) was asked for. *)
Inductive vres :=
| VOk | VAssert (entry posting : nat) (computed diff : amount) | VOther (title : N) (entry : nat)
| VQuery | VPanic.

Record case := { c_entries : list entry; c_obs : lobs; c_diag : diag; c_cmds : list (bool * vres) }.
Definition C (es : list entry) (o : lobs) : case := {| c_entries := es; c_obs := o; c_diag := DNone; c_cmds := [] |}.
Definition CD (es : list entry) (o : lobs) (d : diag) : case := {| c_entries := es; c_obs := o; c_diag := d; c_cmds := [] |}.
Definition CDV (es : list entry) (o : lobs) (d : diag) (vs : list (bool * vres)) : case :=
  {| c_entries := es; c_obs := o; c_diag := d; c_cmds := vs |}.

(* what every command run must do, whatever its options, given the model's run of the ledger:
   0 as required; 2 a ledger with a false assertion accepted, or the error names another
   posting / balance; 1 any other difference *)
Definition cmd_verdict (m : outcome bstate * nat) (v : bool * vres) : N :=
  match m, v with
  | (Ok _, _), (_, VOk) => 0
  | (Ok _, _), (true, VQuery) => 0
  | (Ok _, _), (_, VAssert _ _ _ _) => 2
  | (Ok _, _), _ => 1
  | (Err (BalanceAssertionFailure p computed diff), k), (_, VAssert k' p' c' d') =>
      if Nat.eqb k k' && Nat.eqb p p' && amount_eqb computed c' && amount_eqb diff d' then 0 else 2
  | (Err (BalanceAssertionFailure _ _ _), _), _ => 2
  | (Err e, k), (_, VOther t k') => if (t =? title_code e)%N && Nat.eqb k k' then 0 else 1
  | (Err _, _), (_, VAssert _ _ _ _) => 2
  | (Err _, _), _ => 1
  | (Panic, _), _ => 0
  end%N.

Definition cmds_verdict (m : outcome bstate * nat) (vs : list (bool * vres)) : N :=
  fold_left (fun acc v => N.max acc (cmd_verdict m v)) vs 0%N.

(* the rendered error points at posting p of entry k and reports that balance *)
Definition diag_points (d : diag) (k p : nat) (computed diff : amount) : bool :=
  match d with
  | DSeen e l a m tc td lc =>
      Nat.eqb e k && Nat.eqb l p && Nat.eqb a p && Nat.eqb m p
      && amount_eqb tc computed && amount_eqb td diff && amount_eqb lc computed
  | DNone | DWide => true
  | DPanic | DUnreadable => false
  end.

Definition txns_of (es : list entry) : list txn :=
  flat_map (fun e => match e with ETxn t => [t] | _ => [] end) es.

(* running balances: account -> amount, plain sums (zero entries harmless: read through a_get / a_is_zero) *)
Definition run_add (b : balance) (a : aid) (x : amount) : balance := set a (a_add (bal_get b a) x) b.

Definition holds (expected : posting_amount) (cur : amount) : bool :=
  match expected with
  | PZero => a_is_zero cur
  | PSingle c v => qc_eqb (a_get cur c) v
  end.

(* is there an omitted-amount posting on account a among the first i postings?  The same
   executable predicate as in the carve-out of C02_assertions_hold_outside_K1
   (BookSpecB.known_class t i = omitted_before (account of posting i) i (t_posts t)). *)
Definition omitted_before : aid -> nat -> list posting -> bool := Okv.Model.BookSpecB.omitted_before.

(* walk one transaction: returns (running', ok, known) *)
Fixpoint walk_posts (all : list posting) (i : nat) (ps : list posting) (os : list oposting)
         (b : balance) (ok known : bool) : balance * bool * bool :=
  match ps, os with
  | p :: pr, o :: or_ =>
      let b' := run_add b (p_account p) (o_amount o) in
      match p_amount p, p_balance p with
      | Some _, Some bexpr =>
          match (match eval_v bexpr with inl v => ev_to_pa v | inr e => inr e end) with
          | inl expected =>
              if holds expected (bal_get b' (p_account p))
              then walk_posts all (S i) pr or_ b' ok known
              else if omitted_before (p_account p) i all
                   then walk_posts all (S i) pr or_ b' ok true
                   else walk_posts all (S i) pr or_ b' false known
          | inr _ => walk_posts all (S i) pr or_ b' false known
          end
      | _, _ => walk_posts all (S i) pr or_ b' ok known
      end
  | [], [] => (b, ok, known)
  | _, _ => (b, false, known)
  end.

Fixpoint walk_txns (ts : list txn) (os : list (Z * list oposting)) (b : balance) (ok known : bool)
  : bool * bool :=
  match ts, os with
  | t :: tr, o :: or_ =>
      let '(b', ok', known') := walk_posts (t_posts t) 0 (t_posts t) (snd o) b ok known in
      walk_txns tr or_ b' ok' known'
  | [], [] => (ok, known)
  | _, _ => (false, known)
  end.

Definition model_assertion (e : bk_err) : bool :=
  match e with BalanceAssertionFailure _ _ _ => true | _ => false end.
Definition obs_assertion (x : xerr) : bool :=
  match x with XAssertion _ _ _ => true | _ => false end.

Definition classify_plain (c : case) : N :=
  let m := process (c_entries c) in
  let agree := obs_agrees (c_obs c) m in
  match c_obs c with
  | LPanic => 2%N
  | LOk ts _ =>
      let '(ok, known) := walk_txns (txns_of (c_entries c)) ts [] true false in
      if negb ok then 2%N
      else if known then 100%N
      else if agree then 0%N
      else match m with
           | (Err e, _) => if model_assertion e then 2%N else 1%N
           | _ => 1%N
           end
  | LErr k x =>
      if agree then
        match m, c_diag c with
        | _, DUnreadable => 9%N
        | (Err (BalanceAssertionFailure p computed diff), k'), d =>
            if diag_points d k' p computed diff then 0%N
            else 2%N           (* rejected, but the printed error points elsewhere or reports another balance *)
        | _, _ => 0%N
        end
      else match m with
           | (Err e, k') =>
               if obs_assertion x || model_assertion e
               then 2%N       (* a false assertion must be reported at its posting with the computed balance *)
               else 1%N
           | (Ok _, _) => if obs_assertion x then 2%N else 1%N
           | _ => 1%N
           end
  end.

(* the plain run first; where it is as required (or the known class), every command run *)
Definition classify (c : case) : N :=
  let base := classify_plain c in
  if (base =? 0)%N || (base =? 100)%N then
    match cmds_verdict (process (c_entries c)) (c_cmds c) with
    | 0%N => base
    | v => v
    end
  else base.

Definition verdicts (cs : list case) : list N := map classify cs.
