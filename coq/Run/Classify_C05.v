(* Correspondence classifier for C05.  A case is one ledger text with what the real
   parse_ledger / FormatOptions::format did on it.  Verdicts: 0 Agree | 1 ModelMismatch |
   2 PropertyFail | 100+k known finding | 9 harness error. *)
From Coq Require Import List NArith ZArith Bool.
From Okv Require Import Model.Lit Model.LitSpec Model.Syntax Model.Comb Model.ParsePosting Model.ParseLedger
  Run.SyntaxEqb.
Import ListNotations.
Open Scope N_scope.

Inductive obs :=
| OOk (es : list parsed_entry)
| OErr (es : list parsed_entry) (line_start text_start span_s span_e label : N)
| OPanic
| OTimeout
| OAbort (sig : N)
| OHarness.

Inductive fobs :=
| FNone                                   (* not accepted: nothing to format *)
| FPanic
| FErr
| FOk (f1 : list N) (o1 : obs) (f2 : option (list N)).

Record tcase := { c_text : list N; c_doc : bool; c_obs : obs; c_fmt : fobs }.

(* A long file (4-205 KiB), written as line numbers of a dictionary of its distinct lines (UTF-8
   bytes; every line ends with a line feed), with what came out of
     l_file  : `okane format FILE` on a real file holding the text,
     l_again : `okane format` on a file holding that output,
     l_reads : FormatOptions::format through a reader that returns at most k bytes per read
               (k = 0: a changing pattern),
     l_ref   : the printing (DisplayContext::default, one line feed after each entry) of the
               entries parse_ledger yields on the text as a string in memory - no reader;
   None = the step failed.  l_meaning: the canonical entry terms of parse_ledger(text) and of
   parse_ledger(l_file) are equal (compared by the harness: the parser model is too slow at
   this length, see the evidence assumptions).  l_formatted: the text is itself a fixed point
   of the in-memory printing. *)
Record lcase := {
  l_dict : list (list N);
  l_text : list N;
  l_formatted : bool;
  l_ref : option (list N);
  l_file : option (list N);
  l_again : option (list N);
  l_reads : list (N * option (list N));
  l_meaning : bool
}.

Inductive case := Short (c : tcase) | Long (l : lcase) | LCrash | LHarness.

(* ---- comparison with the model ---- *)
Definition span_eqb (a b : span) : bool := (fst a =? fst b) && (snd a =? snd b).

Definition pspans_eqb (a b : pspans) : bool :=
  span_eqb (a_posting a) (a_posting b) && span_eqb (a_account a) (a_account b) &&
  opt_eqb span_eqb (a_amount a) (a_amount b) && opt_eqb span_eqb (a_cost a) (a_cost b) &&
  opt_eqb span_eqb (a_lot_price a) (a_lot_price b) && opt_eqb span_eqb (a_balance a) (a_balance b).

Definition pentry_eqb (a b : parsed_entry) : bool :=
  span_eqb (e_span a) (e_span b) && (e_line_start a =? e_line_start b) &&
  entry_eqb pdec_exact (e_entry a) (e_entry b) && list_eqb pspans_eqb (e_spans a) (e_spans b).

Definition obs_matches_model (o : obs) (m : ledger_result) : bool :=
  match o, m with
  | OOk es, LOk es' => list_eqb pentry_eqb es es'
  | OErr es l t a b lbl, LErr es' e =>
      list_eqb pentry_eqb es es' && (l =? pe_line_start e) && (t =? pe_text_start e) &&
      (a =? fst (pe_span e)) && (b =? snd (pe_span e)) && (lbl =? pe_label e)
  | OPanic, LPanic _ => true
  | OTimeout, LDiverge _ => true
  | _, _ => false
  end.

(* ---- the property, on what the implementation did ---- *)
Definition accepted (o : obs) : bool := match o with OOk _ => true | _ => false end.

Definition same_meaning (a b : list parsed_entry) : bool :=
  list_eqb (entry_eqb pdec_same) (map e_entry a) (map e_entry b).

Definition format_ok (o : obs) (f : fobs) : bool :=
  match o with
  | OOk es =>
      match f with
      | FOk f1 (OOk es1) (Some f2) => same_meaning es es1 && str_eqb f1 f2
      | _ => false
      end
  | _ => true
  end.

Definition crashed (o : obs) : bool :=
  match o with OPanic | OTimeout | OAbort _ => true | _ => false end.

Definition spec_holds (c : tcase) : bool :=
  (negb (c_doc c) || accepted (c_obs c)) && format_ok (c_obs c) (c_fmt c).

(* ---- long files ---- *)
Definition expand (dict : list (list N)) (ix : list N) : list N :=
  flat_map (fun i => nth (N.to_nat i) dict [] ++ [10]) ix.

(* equal line numbers give equal bytes whatever the dictionary holds; only when the numbers
   differ are the bytes written out and compared (the branches of `if` are evaluated lazily) *)
Definition same_text (dict : list (list N)) (a b : list N) : bool :=
  if list_eqb N.eqb a b then true else str_eqb (expand dict a) (expand dict b).

Definition out_is (dict : list (list N)) (want : list N) (o : option (list N)) : bool :=
  match o with Some ix => same_text dict ix want | None => false end.

(* the property on what the command did: the formatted file has the entries of the file,
   formatting the output again returns it unchanged, and an already formatted file is
   returned unchanged *)
Definition long_spec (l : lcase) : bool :=
  match l_file l with
  | Some f =>
      l_meaning l && out_is (l_dict l) f (l_again l) &&
      (negb (l_formatted l) || same_text (l_dict l) f (l_text l))
  | None => false
  end.

(* the reading glue: whatever the reader hands out per call, the output is the printing of the
   entries of the text *)
Definition long_agree (l : lcase) : bool :=
  match l_ref l with
  | Some r =>
      out_is (l_dict l) r (l_file l) && forallb (fun p => out_is (l_dict l) r (snd p)) (l_reads l)
  | None => false
  end.

Definition classify_long (l : lcase) : N :=
  match l_ref l with
  | None => 9                      (* the generator only keeps texts that parse *)
  | Some _ => if negb (long_spec l) then 2 else if long_agree l then 0 else 1
  end.

Definition classify_short (c : tcase) : N :=
  match c_obs c with
  | OHarness => 9
  | _ =>
      let m := parse_ledger (c_text c) in
      let agree :=
        obs_matches_model (c_obs c) m &&
        match c_fmt c with
        | FOk f1 o1 _ => obs_matches_model o1 (parse_ledger f1)
        | _ => true
        end in
      if negb (spec_holds c) then 2
      else if agree then 0 else 1
  end.

Definition classify (c : case) : N :=
  match c with
  | Short t => classify_short t
  | Long l => classify_long l
  | LCrash => 2                    (* the command or the formatter crashed or hung on a long file *)
  | LHarness => 9
  end.

Definition verdicts (cs : list case) : list N := map classify cs.
