//! C08: value expressions evaluate as ordinary arithmetic with commodity typing.
//! Trees are generated along the grammar of core/src/parse/expr.rs, printed, and the text is
//! (a) parsed by the real parser (shape), (b) evaluated by the real code in seven positions.
use crate::cli;
use crate::coq::{self, Shards, Stats};
use crate::ledger::*;
use crate::prng::Rng;
use crate::Opts;
use okane_core::syntax::expr as sx;
use okane_core::{load, report};
use rust_decimal::Decimal;
use serde_json::json;
use std::collections::{HashMap, HashSet};
use std::path::PathBuf;

// commodity ids of ledger::COMMODITIES
const AAPL: usize = 0;
const EUR: usize = 2;
const USD: usize = 4;

/// abstract syntax: what one means; `embed` places the parentheses the grammar needs
#[derive(Clone, Debug)]
enum A {
    Lit(usize),
    Neg(Box<A>),
    Bin(Op, Box<A>, Box<A>),
}

/// the six literals: number, zero, amount, zero amount, negative amount, second commodity
fn pool() -> Vec<Lit> {
    vec![
        Lit { m: 2, scale: 0, comm: None, grouped: false },
        Lit { m: 0, scale: 0, comm: None, grouped: false },
        Lit { m: 5, scale: 0, comm: Some(USD), grouped: false },
        Lit { m: 0, scale: 0, comm: Some(USD), grouped: false },
        Lit { m: -15, scale: 1, comm: Some(USD), grouped: false },
        Lit { m: 4, scale: 0, comm: Some(EUR), grouped: false },
    ]
}

/// extra literals of the random stream
fn wide_pool() -> Vec<Lit> {
    let mut v = pool();
    v.extend(vec![
        Lit { m: -25, scale: 1, comm: None, grouped: false },
        Lit { m: 1250, scale: 2, comm: Some(EUR), grouped: false },
        Lit { m: 1234567, scale: 2, comm: Some(USD), grouped: true },
        Lit { m: 8, scale: 0, comm: None, grouped: false },
        Lit { m: 0, scale: 2, comm: Some(EUR), grouped: false },
        Lit { m: 3, scale: 0, comm: None, grouped: false },
        // exactly divisible by 3, 6, 7, 9: a reciprocal-and-multiply "optimisation" would be inexact here
        Lit { m: 9, scale: 0, comm: Some(USD), grouped: false },
        Lit { m: 6, scale: 0, comm: None, grouped: false },
        Lit { m: 4410, scale: 2, comm: Some(EUR), grouped: false },
        Lit { m: 7, scale: 0, comm: None, grouped: false },
    ]);
    v
}

fn pos(l: &Lit) -> Lit {
    Lit { m: -l.m, ..l.clone() }
}

// add ::= add (+|-) mul | mul
fn embed_add(a: &A, p: &[Lit]) -> Ex {
    match a {
        A::Bin(op @ (Op::Add | Op::Sub), l, r) => Ex::Bin(*op, Box::new(embed_add(l, p)), Box::new(embed_mul(r, p))),
        _ => embed_mul(a, p),
    }
}
// mul ::= mul (*|/) unary | unary
fn embed_mul(a: &A, p: &[Lit]) -> Ex {
    match a {
        A::Bin(op @ (Op::Mul | Op::Div), l, r) => Ex::Bin(*op, Box::new(embed_mul(l, p)), Box::new(embed_unary(r, p))),
        _ => embed_unary(a, p),
    }
}
// unary ::= - value | value.   A '-' at this place is always the operator (dispatch on the
// first character), so a negative literal here IS a negation of the positive literal.
fn embed_unary(a: &A, p: &[Lit]) -> Ex {
    match a {
        A::Neg(x) => Ex::Neg(Box::new(Ex::Val(Box::new(embed_value(x, p, true))))),
        A::Lit(i) if p[*i].m < 0 => Ex::Neg(Box::new(Ex::Val(Box::new(VE::Amt(pos(&p[*i])))))),
        _ => Ex::Val(Box::new(embed_value(a, p, false))),
    }
}
// value ::= amount | "(" add ")".  Directly after the unary minus the number scanner takes a
// '-' of its own ("--1.5 USD" is the negation of the literal -1.5 USD).
fn embed_value(a: &A, p: &[Lit], after_minus: bool) -> VE {
    match a {
        A::Lit(i) if p[*i].m >= 0 || after_minus => VE::Amt(p[*i].clone()),
        _ => VE::Paren(Box::new(embed_add(a, p))),
    }
}
fn embed_top(a: &A, p: &[Lit]) -> VE {
    match a {
        A::Lit(i) => VE::Amt(p[*i].clone()), // a top-level amount may be a negative literal
        _ => VE::Paren(Box::new(embed_add(a, p))),
    }
}

/// redundant parentheses at random places (still a phrase of the grammar)
fn sprinkle(e: &Ex, r: &mut Rng) -> Ex {
    let inner = match e {
        Ex::Neg(x) => Ex::Neg(Box::new(sprinkle_val(x, r))),
        Ex::Bin(op, l, rr) => Ex::Bin(*op, Box::new(sprinkle(l, r)), Box::new(sprinkle(rr, r))),
        Ex::Val(v) => match &**v {
            VE::Paren(x) => Ex::Val(Box::new(VE::Paren(Box::new(sprinkle(x, r))))),
            VE::Amt(_) => e.clone(),
        },
    };
    // wrapping is only grammatical where a value may stand: keep Neg's operand a value
    if r.chance(1, 6) {
        Ex::Val(Box::new(VE::Paren(Box::new(inner))))
    } else {
        inner
    }
}
fn sprinkle_val(e: &Ex, r: &mut Rng) -> Ex {
    match e {
        Ex::Val(v) => match &**v {
            VE::Paren(x) => Ex::Val(Box::new(VE::Paren(Box::new(sprinkle(x, r))))),
            VE::Amt(_) => e.clone(),
        },
        _ => e.clone(),
    }
}

const OPS: [Op; 4] = [Op::Add, Op::Sub, Op::Mul, Op::Div];

/// all abstract trees with exactly k operators (unary minus counts) over nlit literals
fn all_trees(k: usize, lits: &[usize], memo: &mut HashMap<usize, Vec<A>>) -> Vec<A> {
    if let Some(v) = memo.get(&k) {
        return v.clone();
    }
    let mut out = Vec::new();
    if k == 0 {
        for i in lits {
            out.push(A::Lit(*i));
        }
    } else {
        for x in all_trees(k - 1, lits, memo) {
            out.push(A::Neg(Box::new(x)));
        }
        for i in 0..k {
            let ls = all_trees(i, lits, memo);
            let rs = all_trees(k - 1 - i, lits, memo);
            for op in OPS {
                for l in &ls {
                    for r in &rs {
                        out.push(A::Bin(op, Box::new(l.clone()), Box::new(r.clone())));
                    }
                }
            }
        }
    }
    memo.insert(k, out.clone());
    out
}

fn random_tree(r: &mut Rng, k: usize, nlit: usize) -> A {
    if k == 0 {
        return A::Lit(r.below(nlit as u64) as usize);
    }
    if r.chance(1, 6) {
        return A::Neg(Box::new(random_tree(r, k - 1, nlit)));
    }
    let i = r.below(k as u64) as usize;
    let op = *r.pick(&OPS);
    A::Bin(op, Box::new(random_tree(r, i, nlit)), Box::new(random_tree(r, k - 1 - i, nlit)))
}

/// mostly well-typed trees: `com` = the tree should denote an amount (else a bare number);
/// one node in twenty-five ignores the discipline
fn typed_tree(r: &mut Rng, k: usize, com: bool, p: &[Lit]) -> A {
    if r.chance(1, 25) {
        return random_tree(r, k, p.len());
    }
    if k == 0 {
        let idx: Vec<usize> = (0..p.len()).filter(|i| p[*i].comm.is_some() == com).collect();
        return A::Lit(*r.pick(&idx));
    }
    if r.chance(1, 6) {
        return A::Neg(Box::new(typed_tree(r, k - 1, com, p)));
    }
    let i = r.below(k as u64) as usize;
    let j = k - 1 - i;
    let (op, lc, rc) = if !com {
        (*r.pick(&OPS), false, false)
    } else {
        match r.below(6) {
            0 | 1 => (Op::Add, true, true),
            2 => (Op::Sub, true, true),
            3 => (Op::Mul, true, false),
            4 => (Op::Mul, false, true),
            _ => {
                if r.chance(2, 3) {
                    (Op::Div, true, false)
                } else {
                    (Op::Div, false, true)
                }
            }
        }
    };
    A::Bin(op, Box::new(typed_tree(r, i, lc, p)), Box::new(typed_tree(r, j, rc, p)))
}

// ---------- divisions whose divisor has no finite reciprocal, with an exact quotient ----------

/// divisors d with 1/d not a terminating decimal: (mantissa, scale)
const NT_DIVISORS: [(i64, u32); 18] = [
    (3, 0), (6, 0), (7, 0), (9, 0), (11, 0), (12, 0), (13, 0), (3, 1), (7, 2), (14, 0), (15, 0), (21, 0), (33, 1), (-3, 0), (-7, 0), (24, 0), (45, 1), (3, 0),
];

fn push_lit(p: &mut Vec<Lit>, m: i64, scale: u32, comm: Option<usize>) -> A {
    p.push(Lit { m, scale, comm, grouped: m.abs() >= 1000 && scale <= 2 && m % 7 == 0 });
    A::Lit(p.len() - 1)
}

/// A tree `D / d` (or `D / d C`) where d has no finite reciprocal and D - a literal, a sum, a
/// difference, a product, over one or two commodities or none - is an exact multiple of d; the
/// node is then placed under further operators.  Every quotient terminates, so the whole case
/// is compared exactly.  The literals go to a pool of the case's own.
fn exact_division_tree(r: &mut Rng, p: &mut Vec<Lit>) -> (A, &'static str) {
    let (dm, ds) = *r.pick(&NT_DIVISORS);
    // the quotient
    let qs = *r.pick(&[0u32, 0, 0, 1, 2, 2, 3]);
    let qmax = if r.chance(1, 3) { 90_000 } else { 900 };
    let qm = r.range(1, qmax) * if r.chance(1, 4) { -1 } else { 1 };
    // commodity typing of the node: amount / number mostly; number / number; number / amount
    let kind = r.below(10);
    let (dividend_comm, divisor_comm) = match kind {
        0 => (None, None),
        1 => (None, Some(*r.pick(&[USD, EUR]))),
        _ => (Some(*r.pick(&[USD, EUR])), None),
    };
    let c = dividend_comm;
    // the dividend D = q * d written in one of six ways
    let (big_m, big_s) = (qm * dm, qs + ds);
    let (dividend, form) = match r.below(6) {
        0 | 1 => (push_lit(p, big_m, big_s, c), "literal"),
        2 => {
            // x + (D - x)  or  x - (x - D)
            let x = r.range(1, 5000) * 10i64.pow(big_s.min(3));
            let xl = push_lit(p, x, big_s, c);
            if r.chance(1, 2) {
                (A::Bin(Op::Add, Box::new(xl), Box::new(push_lit(p, big_m - x, big_s, c))), "sum")
            } else {
                (A::Bin(Op::Sub, Box::new(xl), Box::new(push_lit(p, x - big_m, big_s, c))), "difference")
            }
        }
        3 => {
            // q C * d  or  d * q C : the product is the multiple
            let ql = push_lit(p, qm, qs, c);
            let dl = push_lit(p, dm, ds, None);
            if r.chance(1, 2) {
                (A::Bin(Op::Mul, Box::new(ql), Box::new(dl)), "product")
            } else {
                (A::Bin(Op::Mul, Box::new(dl), Box::new(ql)), "product")
            }
        }
        4 => {
            // (q C * j) with j a multiple of d
            let t = r.range(2, 9);
            let ql = push_lit(p, qm, qs, c);
            let jl = push_lit(p, dm * t, ds, None);
            (A::Bin(Op::Mul, Box::new(ql), Box::new(jl)), "product_of_multiple")
        }
        _ => match c {
            // two commodities, each a multiple of d
            Some(c1) => {
                let c2 = if c1 == USD { EUR } else { USD };
                let a = push_lit(p, big_m, big_s, Some(c1));
                let b = push_lit(p, dm * r.range(1, 400), ds, Some(c2));
                (A::Bin(Op::Add, Box::new(a), Box::new(b)), "two_commodities")
            }
            None => (A::Neg(Box::new(push_lit(p, -big_m, big_s, None))), "negated"),
        },
    };
    let divisor = push_lit(p, dm, ds, divisor_comm);
    let mut node = A::Bin(Op::Div, Box::new(dividend), Box::new(divisor));
    // what stands around the node
    let typed = dividend_comm.or(divisor_comm);
    let two = form == "two_commodities";
    for _ in 0..r.below(3) {
        node = match r.below(7) {
            0 => A::Neg(Box::new(node)),
            1 => A::Bin(Op::Mul, Box::new(node), Box::new(push_lit(p, *r.pick(&[2i64, 3, 5, 25, -4]), *r.pick(&[0u32, 0, 1]), None))),
            2 => A::Bin(Op::Mul, Box::new(push_lit(p, *r.pick(&[2i64, 3, 15]), 0, None)), Box::new(node)),
            3 => A::Bin(Op::Div, Box::new(node), Box::new(push_lit(p, *r.pick(&[2i64, 4, 5, 8, 10, 5]), *r.pick(&[0u32, 0, 1]), None))),
            4 | 5 => {
                let other = push_lit(p, r.range(-2000, 2000), *r.pick(&[0u32, 2]), if two && r.chance(1, 2) { Some(USD) } else { typed });
                let op = if r.chance(1, 2) { Op::Add } else { Op::Sub };
                if r.chance(1, 2) {
                    A::Bin(op, Box::new(node), Box::new(other))
                } else {
                    A::Bin(op, Box::new(other), Box::new(node))
                }
            }
            _ => node,
        };
    }
    (node, form)
}

/// (divisions whose divisor has no finite reciprocal and whose quotient is exact, those among
/// them that divide a commodity amount by a bare number) in a tree that evaluates to a value -
/// by the generator's own arithmetic; (0, 0) for a tree that is ill-typed or overflows
pub fn nt_divisions(t: &VE) -> (usize, usize) {
    // value per commodity (None = bare number)
    type V = std::collections::BTreeMap<Option<usize>, Decimal>;
    fn bare(v: &V) -> Option<Decimal> {
        if v.len() == 1 {
            v.get(&None).copied()
        } else {
            None
        }
    }
    fn ve(v: &VE, acc: &mut (usize, usize)) -> Option<V> {
        match v {
            VE::Paren(e) => ex(e, acc),
            VE::Amt(l) => {
                let mut m = V::new();
                m.insert(l.comm, l.dec());
                Some(m)
            }
        }
    }
    fn ex(e: &Ex, acc: &mut (usize, usize)) -> Option<V> {
        Some(match e {
            Ex::Val(v) => ve(v, acc)?,
            Ex::Neg(x) => ex(x, acc)?.into_iter().map(|(c, v)| (c, -v)).collect(),
            Ex::Bin(op, l, r) => {
                let lv = ex(l, acc)?;
                let rv = ex(r, acc)?;
                match op {
                    Op::Add | Op::Sub => {
                        if bare(&lv).is_some() != bare(&rv).is_some() {
                            return None;
                        }
                        let mut m = lv.clone();
                        for (c, v) in rv {
                            let e = m.entry(c).or_insert(Decimal::ZERO);
                            *e = if *op == Op::Add { e.checked_add(v)? } else { e.checked_sub(v)? };
                        }
                        m
                    }
                    Op::Mul => match (bare(&lv), bare(&rv)) {
                        (Some(x), _) => rv.into_iter().map(|(c, v)| Some((c, v.checked_mul(x)?))).collect::<Option<V>>()?,
                        (_, Some(y)) => lv.into_iter().map(|(c, v)| Some((c, v.checked_mul(y)?))).collect::<Option<V>>()?,
                        _ => return None,
                    },
                    Op::Div => {
                        // the divisor: a bare number, or (under a bare dividend) one commodity
                        if rv.len() != 1 {
                            return None;
                        }
                        let (yc, y) = rv.iter().next().map(|(c, v)| (*c, *v))?;
                        if y.is_zero() || (yc.is_some() && bare(&lv).is_none()) {
                            return None;
                        }
                        let mut exact = true;
                        let mut m = V::new();
                        for (c, v) in &lv {
                            let q = v.checked_div(y)?;
                            exact &= q.checked_mul(y) == Some(*v);
                            m.insert(c.or(yc), q);
                        }
                        let recip = Decimal::ONE.checked_div(y)?;
                        if exact && recip.checked_mul(y) != Some(Decimal::ONE) && lv.values().any(|v| !v.is_zero()) {
                            acc.0 += 1;
                            if yc.is_none() && bare(&lv).is_none() {
                                acc.1 += 1;
                            }
                        }
                        m
                    }
                }
            }
        })
    }
    let mut acc = (0, 0);
    match ve(t, &mut acc) {
        Some(_) => acc,
        None => (0, 0),
    }
}

fn count_ops_ve(v: &VE) -> usize {
    match v {
        VE::Paren(e) => count_ops(e),
        VE::Amt(_) => 0,
    }
}
fn count_ops(e: &Ex) -> usize {
    match e {
        Ex::Neg(x) => 1 + count_ops(x),
        Ex::Bin(_, l, r) => 1 + count_ops(l) + count_ops(r),
        Ex::Val(v) => count_ops_ve(v),
    }
}
fn depth_ve(v: &VE) -> usize {
    match v {
        VE::Paren(e) => 1 + depth(e),
        VE::Amt(_) => 0,
    }
}
fn depth(e: &Ex) -> usize {
    match e {
        Ex::Neg(x) => 1 + depth(x),
        Ex::Bin(_, l, r) => 1 + depth(l).max(depth(r)),
        Ex::Val(v) => depth_ve(v),
    }
}

// ---------- lexer: text -> tokens, following the dispatch of expr.rs ----------

#[derive(Clone, Debug, PartialEq)]
enum Tok {
    Num(Decimal, Option<usize>),
    LP,
    RP,
    Plus,
    Minus,
    Star,
    Slash,
}

/// blanks are skipped; '-' is a binary operator after an operand, the unary operator where an
/// operand is expected, and part of the number at the very start of the text or directly
/// after the unary operator (negate_expr = '-' value_expr, and a number may carry a sign)
fn lex(text: &str) -> Option<Vec<Tok>> {
    let cs: Vec<char> = text.chars().collect();
    let mut i = 0;
    let mut out = Vec::new();
    let mut expect_operand = true;
    let mut prev_unary = false;
    while i < cs.len() {
        let c = cs[i];
        if c == ' ' || c == '\t' {
            i += 1;
            continue;
        }
        let number_start = c.is_ascii_digit() || (c == '-' && expect_operand && (out.is_empty() || prev_unary));
        if number_start {
            let st = i;
            i += 1;
            while i < cs.len() && (cs[i].is_ascii_digit() || cs[i] == '.' || cs[i] == ',') {
                i += 1;
            }
            let num: String = cs[st..i].iter().filter(|c| **c != ',').collect();
            let d: Decimal = num.parse().ok()?;
            while i < cs.len() && (cs[i] == ' ' || cs[i] == '\t') {
                i += 1;
            }
            let cst = i;
            while i < cs.len() && cs[i].is_alphabetic() {
                i += 1;
            }
            let comm: String = cs[cst..i].iter().collect();
            let cid = if comm.is_empty() { None } else { Some(COMMODITIES.iter().position(|x| *x == comm)?) };
            out.push(Tok::Num(d, cid));
            expect_operand = false;
            prev_unary = false;
            continue;
        }
        i += 1;
        match c {
            '(' => {
                out.push(Tok::LP);
                expect_operand = true;
                prev_unary = false;
            }
            ')' => {
                out.push(Tok::RP);
                expect_operand = false;
                prev_unary = false;
            }
            '+' | '*' | '/' => {
                out.push(match c {
                    '+' => Tok::Plus,
                    '*' => Tok::Star,
                    _ => Tok::Slash,
                });
                expect_operand = true;
                prev_unary = false;
            }
            '-' => {
                out.push(Tok::Minus);
                prev_unary = expect_operand;
                expect_operand = true;
            }
            _ => return None,
        }
    }
    Some(out)
}

fn tok_term(t: &Tok) -> String {
    match t {
        Tok::Num(d, c) => format!("TNum {} {}", dec_term(d), coq::opt(c.map(|x| x.to_string()))),
        Tok::LP => "TLP".into(),
        Tok::RP => "TRP".into(),
        Tok::Plus => "TPlus".into(),
        Tok::Minus => "TMinus".into(),
        Tok::Star => "TStar".into(),
        Tok::Slash => "TSlash".into(),
    }
}

// ---------- the real parser's tree ----------

fn from_sx_value(v: &sx::ValueExpr) -> Option<VE> {
    Some(match v {
        sx::ValueExpr::Paren(e) => VE::Paren(Box::new(from_sx_expr(e)?)),
        sx::ValueExpr::Amount(a) => {
            let d = a.value.value;
            let comm = if a.commodity.is_empty() { None } else { Some(COMMODITIES.iter().position(|x| *x == a.commodity)?) };
            VE::Amt(Lit { m: i64::try_from(d.mantissa()).ok()?, scale: d.scale(), comm, grouped: false })
        }
    })
}
fn from_sx_expr(e: &sx::Expr) -> Option<Ex> {
    Some(match e {
        sx::Expr::Unary(u) => match u.op {
            sx::UnaryOp::Negate => Ex::Neg(Box::new(from_sx_expr(&u.expr)?)),
        },
        sx::Expr::Binary(b) => Ex::Bin(
            match b.op {
                sx::BinaryOp::Add => Op::Add,
                sx::BinaryOp::Sub => Op::Sub,
                sx::BinaryOp::Mul => Op::Mul,
                sx::BinaryOp::Div => Op::Div,
            },
            Box::new(from_sx_expr(&b.lhs)?),
            Box::new(from_sx_expr(&b.rhs)?),
        ),
        sx::Expr::Value(v) => Ex::Val(Box::new(from_sx_value(v)?)),
    })
}

fn real_parse(text: &str) -> Option<VE> {
    let r = std::panic::catch_unwind(|| {
        let v: Result<sx::ValueExpr, _> = text.try_into();
        v.ok().and_then(|v| from_sx_value(&v))
    });
    r.unwrap_or(None)
}

// ---------- evaluation positions ----------

#[derive(Clone, Debug)]
enum RObs {
    Amt(AmountObs),
    Err(u8),
    Panic,
}

fn robs_term(o: &RObs) -> String {
    match o {
        RObs::Amt(a) => format!("(RAmt {})", amount_term(a)),
        RObs::Err(k) => format!("(RErr {})", k),
        RObs::Panic => "RPanic".into(),
    }
}
fn robs_json(o: &RObs) -> serde_json::Value {
    match o {
        RObs::Amt(a) => json!({"amount": a.iter().map(|(c, v)| format!("{} {}", v, COMMODITIES.get(*c).unwrap_or(&"?"))).collect::<Vec<_>>()}),
        RObs::Err(k) => json!({ "error_kind": k }),
        RObs::Panic => json!("panic"),
    }
}

const BASE_LEDGER: &str = "2020/01/01 base\n    Assets:Bank  1 USD\n    Assets:Bank  1 EUR\n    Assets:Bank  1 AAPL\n    Equity:Opening\n";

fn cli_err_code(stderr: &str) -> u8 {
    let table = [
        ("operator can't be applied to unmatched types", 1u8),
        ("unmatching commodities", 2),
        ("unknown commodity", 3),
        ("cannot divide by zero", 4),
        ("overflow happened", 5),
        ("expected 0 or amount with commodity", 6),
        ("0 or amount with single commodity expected", 7),
        ("amount with single commodity expected", 8),
        ("failed to parse the given value", 50),
    ];
    for (pat, k) in table {
        if stderr.contains(pat) {
            return k;
        }
    }
    0
}

fn lit_ve(m: i64, comm: Option<usize>) -> VE {
    VE::Amt(Lit { m, scale: 0, comm, grouped: false })
}

fn two(p: Posting) -> Vec<Entry> {
    vec![Entry::Txn(Txn { effective: None, date: 0, posts: vec![p, Posting { account: 1, amount: None, cost: None, lot: None, balance: None }], head: Head::default() })]
}

fn position_ledgers(t: &VE) -> Vec<(&'static str, Vec<Entry>)> {
    let stock = || Some(lit_ve(1, Some(AAPL)));
    vec![
        ("posting", two(Posting { account: 0, amount: Some(t.clone()), cost: None, lot: None, balance: None })),
        ("cost", two(Posting { account: 0, amount: stock(), cost: Some(Exch::Rate(t.clone())), lot: None, balance: None })),
        ("lot", two(Posting { account: 0, amount: stock(), cost: None, lot: Some(Exch::Rate(t.clone())), balance: None })),
        ("assert", two(Posting { account: 0, amount: Some(lit_ve(0, None)), cost: None, lot: None, balance: Some(t.clone()) })),
        ("assign", two(Posting { account: 0, amount: None, cost: None, lot: None, balance: Some(t.clone()) })),
    ]
}

/// Declared display precisions (`commodity X` + `format 1,000.00 X`) of the second set of
/// contexts: (commodity id, decimals).  No evaluation may round to them.
const FORMAT_TABLES: [&[(usize, u32)]; 4] = [
    &[(USD, 0), (EUR, 0), (AAPL, 0)],
    &[(USD, 2), (EUR, 0)],
    &[(USD, 0), (EUR, 3), (AAPL, 2)],
    &[(USD, 1), (EUR, 1)],
];
/// which table the n-th case uses: whole units (where every fraction would show) most often
const TABLE_ROTATION: [usize; 6] = [0, 1, 0, 2, 0, 3];

/// the declarations of table k; `n` chooses how each sample number is written
fn format_entries(k: usize, n: usize) -> Vec<Entry> {
    FORMAT_TABLES[k].iter().enumerate().map(|(i, (c, dp))| Entry::Format(*c, *dp, FmtLit::nth(n + i))).collect()
}

/// one processed ledger that declares the precisions of FORMAT_TABLES[k]
struct FmtBase<'c> {
    ledger: report::query::Ledger<'c>,
    rctx: report::ReportContext<'c>,
    path: PathBuf,
}

struct Ctx<'a> {
    sh: Shards,
    st: Stats,
    seen: HashSet<String>,
    names: Names,
    base_path: PathBuf,
    comms: Vec<String>,
    emitted: usize,
    _scratch: &'a cli::Scratch,
}

fn eval_obs<'c>(ledger: &mut report::query::Ledger<'c>, rctx: &report::ReportContext<'c>, text: &str, comms: &[String]) -> RObs {
    let r = std::panic::catch_unwind(std::panic::AssertUnwindSafe(|| {
        ledger.eval(
            rctx,
            text,
            &report::query::EvalContext { date: chrono::NaiveDate::from_ymd_opt(2020, 1, 1).unwrap(), exchange: None },
        )
    }));
    match r {
        Err(_) => RObs::Panic,
        Ok(Ok(a)) => RObs::Amt(amount_obs(&a, comms)),
        Ok(Err(report::query::QueryError::EvalFailed(e))) => {
            let d = format!("{:?}", e);
            let name: String = d.chars().take_while(|c| c.is_alphanumeric()).collect();
            RObs::Err(eval_code(&name))
        }
        Ok(Err(report::query::QueryError::ParseFailed(_))) => RObs::Err(50),
        Ok(Err(_)) => RObs::Err(0),
    }
}

/// okane primitive eval --date D -f FILE -- EXPR   (EvalCmd wraps the words in parentheses)
fn cli_obs(path: &std::path::Path, text: &str, comms: &[String]) -> RObs {
    let p = path.to_string_lossy().to_string();
    let r = cli::run(&["primitive", "eval", "--date", "2020-01-01", "-f", &p, "--", text]);
    if r.panicked {
        RObs::Panic
    } else if r.ok {
        RObs::Amt(parse_inline(r.stdout.trim_end(), comms))
    } else {
        RObs::Err(cli_err_code(&r.stderr))
    }
}

fn cli_obs_words(path: &std::path::Path, words: &[String], comms: &[String]) -> RObs {
    let p = path.to_string_lossy().to_string();
    let mut args: Vec<&str> = vec!["primitive", "eval", "--date", "2020-01-01", "-f", &p, "--"];
    args.extend(words.iter().map(|w| w.as_str()));
    let r = cli::run(&args);
    if r.panicked {
        RObs::Panic
    } else if r.ok {
        RObs::Amt(parse_inline(r.stdout.trim_end(), comms))
    } else {
        RObs::Err(cli_err_code(&r.stderr))
    }
}

/// the ways a user types the expression after `okane primitive eval ... --`: the command joins
/// its words with blanks and evaluates them as one parenthesised group, so all of these mean
/// the same expression (name, argv words)
fn typed_shapes(t: &VE) -> Vec<(&'static str, Vec<String>)> {
    let once = match t {
        VE::Paren(_) => ve_text(t),
        VE::Amt(_) => format!("({})", ve_text(t)),
    };
    let bare = match t {
        VE::Paren(e) => ex_text(e),
        VE::Amt(_) => ve_text(t),
    };
    let split = |s: &str| s.split(' ').filter(|w| !w.is_empty()).map(|w| w.to_string()).collect::<Vec<String>>();
    let mut out = vec![
        ("bare", vec![bare.clone()]),
        ("wrapped_once", vec![once.clone()]),
        ("wrapped_twice", vec![format!("({})", once)]),
        ("bare_one_word_per_token", split(&bare)),
        ("wrapped_once_one_word_per_token", split(&once)),
        ("bare_blanks_around", vec![format!(" {}  ", bare)]),
        ("wrapped_once_blanks_around", vec![format!("  {} ", once)]),
    ];
    if let VE::Paren(e) = t {
        if let Ex::Bin(op, l, r) = &**e {
            let o = match op {
                Op::Add => "+",
                Op::Sub => "-",
                Op::Mul => "*",
                Op::Div => "/",
            };
            let g = format!("({}) {} ({})", ex_text(l), o, ex_text(r));
            out.push(("group_op_group", vec![g.clone()]));
            out.push(("group_op_group_one_word_per_token", split(&g)));
            out.push(("group_op_group_three_words", vec![format!("({})", ex_text(l)), o.to_string(), format!("({})", ex_text(r))]));
            out.push(("group_op_group_blanks_around", vec![format!(" {} ", g)]));
        }
    }
    out
}

fn emit<'c>(
    cx: &mut Ctx,
    ledger: &mut report::query::Ledger<'c>,
    rctx: &report::ReportContext<'c>,
    fmt_bases: &mut [FmtBase<'c>],
    forced_table: Option<usize>,
    forced_shape: Option<usize>,
    t: &VE,
    tag: &str,
) {
    let text = ve_text(t);
    if !cx.seen.insert(text.clone()) {
        return;
    }
    let toks = match lex(&text) {
        Some(t) => t,
        None => {
            cx.st.count("harness:lex_failed");
            return;
        }
    };
    let parsed = real_parse(&text);
    // Ledger::eval and the CLI on the ledger without declarations
    let ev = eval_obs(ledger, rctx, &text, &cx.comms);
    let cl = cli_obs(&cx.base_path, &text, &cx.comms);
    // ... and on a ledger that declares display precisions
    let table = forced_table.unwrap_or(TABLE_ROTATION[cx.emitted % TABLE_ROTATION.len()]) % FORMAT_TABLES.len();
    cx.emitted += 1;
    let (fev, fcl) = {
        let fb = &mut fmt_bases[table];
        (eval_obs(&mut fb.ledger, &fb.rctx, &text, &cx.comms), cli_obs(&fb.path, &text, &cx.comms))
    };
    // the command again, with the expression typed in every other way
    let mut shapes: Vec<RObs> = Vec::new();
    let mut sjson = serde_json::Map::new();
    for (k, (name, words)) in typed_shapes(t).into_iter().enumerate() {
        // one in three on the ledger with declarations
        let path = if (cx.emitted + k) % 3 == 0 { fmt_bases[table].path.clone() } else { cx.base_path.clone() };
        let ob = cli_obs_words(&path, &words, &cx.comms);
        cx.st.count(&format!("cli_typed:{}", name));
        let starts_ends_group = words.first().map_or(false, |w| w.trim_start().starts_with('(')) && words.last().map_or(false, |w| w.trim_end().ends_with(')'));
        if starts_ends_group && (name.starts_with("group_op_group") || name.starts_with("bare")) {
            cx.st.count("cli_typed:top_level_operator_between_two_groups");
        }
        sjson.insert(name.to_string(), json!({"argv": words, "result": robs_json(&ob)}));
        shapes.push(ob);
    }
    let mut lobs = Vec::new();
    let mut ljson = serde_json::Map::new();
    // header shape of the five ledgers and sample-number shape of the declarations: by case number
    let nth = forced_shape.unwrap_or(cx.emitted);
    for (name, mut es) in position_ledgers(t) {
        vary_shapes_nth(&mut es, nth);
        let r = render(&es);
        shape_text_stats(&mut cx.st, &shape(&es));
        let o = run_process(&[("/main.ledger".to_string(), r.text.clone())], &cx.names, Some(&r));
        cx.st.count(&format!("{}:{}", name, obs_kind(&o)));
        ljson.insert(name.to_string(), json!({"ledger": r.text, "impl": obs_json(&o)}));
        lobs.push(obs_term(&o));
    }
    // the same five ledgers after `commodity X / format ..` declarations
    let mut flobs = Vec::new();
    let mut fjson = serde_json::Map::new();
    for (name, mut es) in position_ledgers(t) {
        vary_shapes_nth(&mut es, nth + 1);
        let mut all = format_entries(table, nth);
        all.extend(es);
        let r = render(&all);
        shape_text_stats(&mut cx.st, &shape(&all));
        let o = run_process(&[("/main.ledger".to_string(), r.text.clone())], &cx.names, Some(&r));
        cx.st.count(&format!("declared:{}:{}", name, obs_kind(&o)));
        fjson.insert(name.to_string(), json!({"ledger": r.text, "impl": obs_json(&o)}));
        flobs.push(obs_term(&o));
    }
    cx.st.count(&format!("declared_precision_table:{}", table));
    // does some declared precision cut the exact result?  (the cases a rounding `eval` shows on)
    if let RObs::Amt(a) = &ev {
        let cut = a.iter().any(|(c, v)| FORMAT_TABLES[table].iter().any(|(fc, dp)| fc == c && v.normalize().scale() > *dp));
        if cut {
            cx.st.count("declared:eval_result_finer_than_declared_precision");
        }
    }
    let nops = count_ops_ve(t);
    let (ntd, ntd_amount) = nt_divisions(t);
    if ntd > 0 {
        cx.st.count("division:exact_quotient_by_divisor_without_finite_reciprocal");
    }
    if ntd_amount > 0 {
        cx.st.count("division:exact_quotient_by_divisor_without_finite_reciprocal(amount / number)");
    }
    cx.st.eval(&text, nops >= 1);
    cx.st.count(&format!("gen:{}", tag));
    cx.st.count(&format!("operators:{}", nops.min(9)));
    cx.st.count(&format!("paren_depth:{}", depth_ve(t).min(9)));
    cx.st.count(match &ev {
        RObs::Amt(a) => match a.len() {
            0 => "eval:zero",
            1 => "eval:single",
            _ => "eval:multi",
        },
        RObs::Err(1) => "eval:err:unmatching_operation",
        RObs::Err(4) => "eval:err:divide_by_zero",
        RObs::Err(6) => "eval:err:amount_required",
        RObs::Err(8) => "eval:err:single_amount_required",
        RObs::Err(_) => "eval:err:other",
        RObs::Panic => "eval:panic",
    });
    if parsed.as_ref() != Some(&strip_grouped(t)) {
        cx.st.count("shape:real_parser_differs");
    }
    let rep = json!({"property": "C08", "expr": text, "tree": serde_json::to_value(t).unwrap(),
        "fmt_table": table, "shape_n": nth,
        "impl": {"parsed_as": parsed.as_ref().map(|p| ve_text(p)), "ledger_eval": robs_json(&ev), "cli_eval": robs_json(&cl), "cli_eval_typed": sjson,
                 "positions": ljson,
                 "declared_precisions": FORMAT_TABLES[table].iter().map(|(c, dp)| format!("{} {}", COMMODITIES[*c], dp)).collect::<Vec<_>>(),
                 "declared_ledger_eval": robs_json(&fev), "declared_cli_eval": robs_json(&fcl), "declared_positions": fjson},
        "reproduce": format!("okane primitive eval --date 2020-01-01 -f <ledger mentioning USD EUR AAPL, with and without `commodity X / format 1,000.00 X` declarations> -- '{}'", text)});
    if cx.st.samples.len() < 2 || (cx.st.samples.len() < 5 && nops >= 2 && matches!(ev, RObs::Err(_)) == (cx.st.samples.len() % 2 == 0)) {
        cx.st.sample(rep.clone(), 5);
    }
    let term = format!(
        "CFS {} {} {} {} {} {} {} {} {} {} {}",
        ve_term(t),
        coq::list(toks.iter().map(tok_term)),
        coq::opt(parsed.as_ref().map(ve_term)),
        robs_term(&ev),
        robs_term(&cl),
        lobs.join(" "),
        coq::list(FORMAT_TABLES[table].iter().map(|(c, dp)| format!("({}, {}%nat)", c, dp))),
        robs_term(&fev),
        robs_term(&fcl),
        flobs.join(" "),
        coq::list(shapes.iter().map(robs_term))
    );
    cx.sh.push(term, vec![rep]);
}

/// the real parser does not keep `grouped` (it is a print flag of the generator)
fn strip_grouped(v: &VE) -> VE {
    match v {
        VE::Paren(e) => VE::Paren(Box::new(strip_grouped_e(e))),
        VE::Amt(l) => VE::Amt(Lit { grouped: false, ..l.clone() }),
    }
}
fn strip_grouped_e(e: &Ex) -> Ex {
    match e {
        Ex::Neg(x) => Ex::Neg(Box::new(strip_grouped_e(x))),
        Ex::Bin(op, l, r) => Ex::Bin(*op, Box::new(strip_grouped_e(l)), Box::new(strip_grouped_e(r))),
        Ex::Val(v) => Ex::Val(Box::new(strip_grouped(v))),
    }
}

/// the generator's own arithmetic, used only to keep inexact quotients out of further
/// operations (Decimal rounds a quotient to 28 digits; the model divides exactly, so a
/// later zero test could differ).  None = inexact quotient below the root.
fn exactness(a: &A, p: &[Lit], root: bool) -> Option<()> {
    fn val(a: &A, p: &[Lit]) -> Option<(Option<Decimal>, bool)> {
        // (numeric value if a bare number or single commodity, exact so far)
        Some(match a {
            A::Lit(i) => (Some(p[*i].dec()), true),
            A::Neg(x) => {
                let (v, e) = val(x, p)?;
                (v.map(|d| -d), e)
            }
            A::Bin(op, l, r) => {
                let (lv, le) = val(l, p)?;
                let (rv, re) = val(r, p)?;
                if !(le && re) {
                    return None; // an inexact value flows into another operation
                }
                match op {
                    Op::Div => match (lv, rv) {
                        (Some(x), Some(y)) if !y.is_zero() => {
                            let q = x.checked_div(y)?;
                            (Some(q), q.checked_mul(y) == Some(x))
                        }
                        _ => (None, true),
                    },
                    Op::Mul => (lv.zip(rv).and_then(|(x, y)| x.checked_mul(y)), true),
                    Op::Add => (lv.zip(rv).and_then(|(x, y)| x.checked_add(y)), true),
                    Op::Sub => (lv.zip(rv).and_then(|(x, y)| x.checked_sub(y)), true),
                }
            }
        })
    }
    let _ = root;
    val(a, p).map(|_| ())
}

pub fn run(o: &Opts) {
    let header = "From Coq Require Import List NArith ZArith QArith Qcanon.\nFrom Okv Require Import Base.Maps Base.Dec Model.Amount Model.Book Model.ExprParse Run.LedgerCase Run.Classify_C08.\nImport ListNotations.\nOpen Scope N_scope.";
    let scratch = cli::Scratch::new("c08");
    let base_path = scratch.write("base.ledger", BASE_LEDGER);
    let names = Names::default_names();
    let mut cx = Ctx {
        sh: Shards::new(&o.out, o.shards, header),
        st: Stats::new(),
        seen: HashSet::new(),
        comms: names.commodities.clone(),
        names,
        base_path,
        emitted: 0,
        _scratch: &scratch,
    };
    cx.st.rule = "expression trees generated along the grammar of parse/expr.rs (add over mul over unary over value; parentheses where the grammar needs them, plus redundant ones in the random stream) over six literals (number, zero, amount, zero amount, negative amount, second commodity), plus a stream of divisions whose divisor has no finite reciprocal (3, 6, 7, 9, 11, 12, 13, 0.3, 0.07, 1.4, 15, 21, 3.3, 24, 4.5, -3, -7) and whose dividend - a literal, a sum, a difference, a product, two commodities; a commodity amount, a bare number, or a number over an amount - is an exact multiple of it, under up to two further operators (counted as division:exact_quotient_by_divisor_without_finite_reciprocal; all compared exactly); printed to text; the text is parsed by syntax::expr::ValueExpr::try_from (tree compared) and evaluated by Ledger::eval, `okane primitive eval` (the printed text as one word, and typed in every other way: without the outer group, wrapped once and twice, `(a) op (b)` for a top-level operator, one argv word per token, three words, blanks around - cli_typed:* counts, two in three on the ledger without declarations; every way must give the value of the one expression), and as posting amount, @ cost, {} lot price, balance assertion and balance assignment through report::process - all seven twice: on ledgers without declarations and on ledgers that declare display precisions (`commodity X` + `format`, four tables rotating, whole units most often), where the answers must be the same exact values; non-trivial = at least one operator; distinct by expression text".into();
    cx.st.assumptions.push("an inexact quotient (Decimal rounds to 28 digits) is only generated at the root of a tree, where it is compared up to 1e-18 relative; everywhere else values are compared exactly".into());
    cx.st.assumptions.push("literal mantissas below 10^7, at most 8 operators: no Decimal overflow".into());
    cx.st.assumptions.push("parentheses nested far less than the parser's MAX_EXPR_DEPTH = 100 and trees far lower than its MAX_EXPR_HEIGHT = 256, i.e. chains far shorter than 255 operators (the token-level model has neither bound)".into());

    // the processed ledger every Ledger::eval call is made against (it mentions the commodities)
    let arena = bumpalo::Bump::new();
    let mut rctx = report::ReportContext::new(&arena);
    let mut map: HashMap<PathBuf, Vec<u8>> = HashMap::new();
    map.insert(PathBuf::from("/main.ledger"), BASE_LEDGER.as_bytes().to_vec());
    let loader = load::Loader::new(PathBuf::from("/main.ledger"), load::FakeFileSystem::from(map));
    let mut ledger = report::process(&mut rctx, loader, &report::ProcessOptions::default()).expect("base ledger");

    // ... and one per table of declared precisions
    let mut fmt_bases: Vec<FmtBase> = Vec::new();
    for k in 0..FORMAT_TABLES.len() {
        let text = format!("{}{}", render(&format_entries(k, 3 * k)).text, BASE_LEDGER);
        let path = scratch.write(&format!("base_fmt{}.ledger", k), &text);
        let mut frctx = report::ReportContext::new(&arena);
        let mut map: HashMap<PathBuf, Vec<u8>> = HashMap::new();
        map.insert(PathBuf::from("/main.ledger"), text.as_bytes().to_vec());
        let loader = load::Loader::new(PathBuf::from("/main.ledger"), load::FakeFileSystem::from(map));
        let fledger = report::process(&mut frctx, loader, &report::ProcessOptions::default()).expect("base ledger with formats");
        fmt_bases.push(FmtBase { ledger: fledger, rctx: frctx, path });
    }

    // corpus / replay: {"tree": VE, "fmt_table": k}
    let mut replay = false;
    let mut files: Vec<PathBuf> = Vec::new();
    if let Some(i) = o.extra.iter().position(|a| a == "--replay") {
        replay = true;
        if let Some(p) = o.extra.get(i + 1) {
            files.push(PathBuf::from(p));
        }
    } else if let Ok(rd) = std::fs::read_dir(&o.corpus) {
        files = rd.filter_map(|e| e.ok()).map(|e| e.path()).collect();
        files.sort();
    }
    for p in files {
        if let Ok(text) = std::fs::read_to_string(&p) {
            if let Ok(v) = serde_json::from_str::<serde_json::Value>(&text) {
                if let Some(t) = v.get("tree").and_then(|t| serde_json::from_value::<VE>(t.clone()).ok()) {
                    let k = v.get("fmt_table").and_then(|k| k.as_u64()).map(|k| k as usize);
                    let n = v.get("shape_n").and_then(|k| k.as_u64()).map(|k| k as usize);
                    emit(&mut cx, &mut ledger, &rctx, &mut fmt_bases, k, n, &t, "corpus");
                }
            }
        }
    }
    if !replay {
        let p6 = pool();
        let all6: Vec<usize> = (0..6).collect();
        let mut memo = HashMap::new();
        // exhaustive small trees
        let kmax = if o.thorough { 2 } else { 1 };
        for k in 0..=kmax {
            for a in all_trees(k, &all6, &mut memo) {
                if exactness(&a, &p6, true).is_some() {
                    emit(&mut cx, &mut ledger, &rctx, &mut fmt_bases, None, None, &embed_top(&a, &p6), "exhaustive6");
                }
            }
        }
        if o.thorough {
            // three operators, exhaustively over number / amount / second commodity
            let mut memo3 = HashMap::new();
            for a in all_trees(3, &[0, 2, 5], &mut memo3) {
                if exactness(&a, &p6, true).is_some() {
                    emit(&mut cx, &mut ledger, &rctx, &mut fmt_bases, None, None, &embed_top(&a, &p6), "exhaustive3lit");
                }
            }
        }
        // random trees of two and three operators over all six literals
        let mut r = Rng::new(o.seed, 801);
        let n = if o.thorough { 20000 } else { 2200 };
        for _ in 0..n {
            let k = 2 + r.below(2) as usize;
            let a = if r.chance(1, 3) { random_tree(&mut r, k, 6) } else { let com = r.chance(3, 4); typed_tree(&mut r, k, com, &p6) };
            if exactness(&a, &p6, true).is_some() {
                emit(&mut cx, &mut ledger, &rctx, &mut fmt_bases, None, None, &embed_top(&a, &p6), "random23");
            } else {
                cx.st.count("gen:skipped_inexact_inner_quotient");
            }
        }
        // deeper random trees over a wider pool, with redundant parentheses
        let pw = wide_pool();
        let n = if o.thorough { 6000 } else { 500 };
        for _ in 0..n {
            let k = 4 + r.below(5) as usize;
            let a = if r.chance(1, 4) { random_tree(&mut r, k, pw.len()) } else { let com = r.chance(3, 4); typed_tree(&mut r, k, com, &pw) };
            if exactness(&a, &pw, true).is_none() {
                cx.st.count("gen:skipped_inexact_inner_quotient");
                continue;
            }
            let t = match embed_top(&a, &pw) {
                VE::Paren(e) => VE::Paren(Box::new(sprinkle(&e, &mut r))),
                x => x,
            };
            emit(&mut cx, &mut ledger, &rctx, &mut fmt_bases, None, None, &t, "random_deep");
        }
    }
    if !replay {
        // divisions by 3, 6, 7, 9, 11, 12, 13, 0.3, 0.07 ... of exact multiples: the quotient
        // is exact although the reciprocal of the divisor is not, so the comparison is exact
        let mut rd = Rng::new(o.seed, 802);
        let n = if o.thorough { 5000 } else { 450 };
        for _ in 0..n {
            let mut pool: Vec<Lit> = Vec::new();
            let (a, form) = exact_division_tree(&mut rd, &mut pool);
            if exactness(&a, &pool, true).is_none() {
                cx.st.count("gen:skipped_inexact_inner_quotient");
                continue;
            }
            let t = match embed_top(&a, &pool) {
                VE::Paren(e) if rd.chance(1, 4) => VE::Paren(Box::new(sprinkle(&e, &mut rd))),
                x => x,
            };
            cx.st.count(&format!("exact_division:dividend_{}", form));
            emit(&mut cx, &mut ledger, &rctx, &mut fmt_bases, None, None, &t, "exact_division");
        }
    }
    let Ctx { sh, st, .. } = cx;
    sh.finish(&st);
}
