(* Model of cli/src/import/config.rs: the YAML documents (ConfigFragment), ConfigSet::select,
   ConfigFragment::merge and the conversion into a ConfigEntry.  Definitions only.

   Text is a list of UTF-8 bytes.  `P` is the representation of a matcher pattern (a regex
   source string in the code; the `regex` crate is an oracle, see Model/ImpExtract.v). *)
From Coq Require Import List NArith ZArith Bool Arith.
Import ListNotations.

Definition str := list N.

Fixpoint str_eqb (a b : str) : bool :=
  match a, b with
  | [], [] => true
  | x :: r, y :: s => (x =? y)%N && str_eqb r s
  | _, _ => false
  end.

(* is p a prefix of s *)
Fixpoint prefixb (p s : str) : bool :=
  match p, s with
  | [], _ => true
  | a :: p', b :: s' => (a =? b)%N && prefixb p' s'
  | _ :: _, [] => false
  end.

(* str::contains: p occurs in s (on UTF-8 text a byte-level occurrence of a valid needle is a
   character-level one) *)
Fixpoint contains (s p : str) : bool :=
  prefixb p s || match s with [] => false | _ :: r => contains r p end.

Definition option_or {A} (a b : option A) : option A := match a with Some _ => a | None => b end.

Inductive account_type := Asset | Liability.
Inductive amount_mode := Extract | Compute.
Inductive rate_mode := PriceOfSecondary | PriceOfPrimary.

(* CommodityConversionSpec *)
Record conv_spec := { cv_amount : amount_mode; cv_commodity : option str; cv_rate : rate_mode;
                      cv_disabled : bool }.
Definition conv_default : conv_spec :=
  {| cv_amount := Extract; cv_commodity := None; cv_rate := PriceOfSecondary; cv_disabled := false |}.

(* AccountCommodityConfig / AccountCommoditySpec *)
Inductive commodity_cfg := CPrimary (c : str) | CSpec (primary : str) (conv : conv_spec).
Record commodity_spec := { cs_primary : str; cs_conversion : conv_spec }.
Definition commodity_spec_of (c : commodity_cfg) : commodity_spec :=
  match c with
  | CPrimary p => {| cs_primary := p; cs_conversion := conv_default |}
  | CSpec p cv => {| cs_primary := p; cs_conversion := cv |}
  end.

Inductive field_key :=
| FDate | FPayee | FCategory | FNote | FAmount | FCredit | FDebit | FBalance | FCommodity
| FRate | FSecondaryAmount | FSecondaryCommodity | FCharge.

Definition field_key_code (k : field_key) : N :=
  match k with
  | FDate => 0 | FPayee => 1 | FCategory => 2 | FNote => 3 | FAmount => 4 | FCredit => 5
  | FDebit => 6 | FBalance => 7 | FCommodity => 8 | FRate => 9 | FSecondaryAmount => 10
  | FSecondaryCommodity => 11 | FCharge => 12
  end%N.
Definition field_key_eqb (a b : field_key) : bool := (field_key_code a =? field_key_code b)%N.

(* template.rs: a parsed template; indices are zero-based *)
Inductive tkey := TNamed (k : field_key) | TIndexed (i : nat).
Inductive segment := SLit (s : str) | SRef (k : tkey).

(* FieldPos; PIndex is the zero-based index (OneBasedIndex::as_zero_based) *)
Inductive field_pos := PIndex (i : nat) | PLabel (l : str) | PTemplate (segs : list segment).

Inductive row_order := OldToNew | NewToOld.

(* FormatSpec; the two HashMaps are association lists in iteration order *)
Record format_spec := { fs_date : str; fs_precisions : list (str * N);
                        fs_fields : list (field_key * field_pos); fs_delimiter : str;
                        fs_skip_head : Z; fs_row_order : row_order }.
Definition format_default : format_spec :=
  {| fs_date := []; fs_precisions := []; fs_fields := []; fs_delimiter := []; fs_skip_head := 0%Z;
     fs_row_order := OldToNew |}.

Inductive rewrite_field :=
| RDomainCode | RDomainFamily | RDomainSubFamily | RCreditorName | RCreditorAccountId
| RUltimateCreditorName | RDebtorName | RDebtorAccountId | RUltimateDebtorName
| RRemittanceUnstructuredInfo | RAdditionalEntryInfo | RAdditionalTransactionInfo
| RSecondaryCommodity | RCategory | RPayee.

Section Config.
  Context {P : Type}.

  (* RewriteMatcher: Or(list of FieldMatcher) or a single FieldMatcher, which becomes a
     one-element OR-list (MatchOrExpr::try_from).  A FieldMatcher is a HashMap from field to
     pattern: an association list in iteration order. *)
  Definition and_list := list (rewrite_field * P).
  Record rule := { r_matcher : list and_list; r_pending : bool; r_payee : option str;
                   r_account : option str; r_conversion : option conv_spec }.

  (* ConfigFragment: one YAML document *)
  Record doc := { d_path : str; d_encoding : option N; d_account : option str;
                  d_account_type : option account_type; d_operator : option str;
                  d_commodity : option commodity_cfg; d_format : option format_spec;
                  d_rewrite : list rule }.

  (* ConfigFragment::merge: self.merge(other) *)
  Definition merge (self other : doc) : doc :=
    {| d_path := d_path other;
       d_encoding := option_or (d_encoding other) (d_encoding self);
       d_account := option_or (d_account other) (d_account self);
       d_account_type := option_or (d_account_type other) (d_account_type self);
       d_operator := option_or (d_operator other) (d_operator self);
       d_commodity := option_or (d_commodity other) (d_commodity self);
       d_format := option_or (d_format other) (d_format self);
       d_rewrite := d_rewrite self ++ d_rewrite other |}.

  Record entry := { e_path : str; e_encoding : N; e_account : str; e_account_type : account_type;
                    e_operator : option str; e_commodity : commodity_spec; e_format : format_spec;
                    e_rewrite : list rule }.

  Inductive cfg_err := NoEncoding | NoAccount | NoAccountType | NoCommodity.

  (* TryFrom<ConfigFragment> for ConfigEntry: the checks in source order *)
  Definition to_entry (d : doc) : entry + cfg_err :=
    match d_encoding d with
    | None => inr NoEncoding
    | Some enc =>
    match d_account d with
    | None => inr NoAccount
    | Some acc =>
    match d_account_type d with
    | None => inr NoAccountType
    | Some at_ =>
    match d_commodity d with
    | None => inr NoCommodity
    | Some com =>
        inl {| e_path := d_path d; e_encoding := enc; e_account := acc; e_account_type := at_;
               e_operator := d_operator d; e_commodity := commodity_spec_of com;
               e_format := match d_format d with Some f => f | None => format_default end;
               e_rewrite := d_rewrite d |}
    end end end end.

  (* slice::sort_by_key is a stable sort; x is earlier in the input than everything in l *)
  Fixpoint insert_by {A} (key : A -> nat) (x : A) (l : list A) : list A :=
    match l with
    | [] => [x]
    | y :: r => if key x <=? key y then x :: l else y :: insert_by key x r
    end.
  Definition stable_sort {A} (key : A -> nat) (l : list A) : list A :=
    fold_right (insert_by key) [] l.

  Definition path_len (d : doc) : nat := length (d_path d).

  (* the documents of the set that apply to file path fp, in merge order *)
  Definition matching (docs : list doc) (fp : str) : list doc :=
    stable_sort path_len (filter (fun d => contains fp (d_path d)) docs).

  Definition merged (docs : list doc) (fp : str) : option doc :=
    match matching docs fp with
    | [] => None
    | d :: r => Some (fold_left merge r d)
    end.

  (* ConfigSet::select on a path that is valid Unicode *)
  Definition select (docs : list doc) (fp : str) : option (entry + cfg_err) :=
    option_map to_entry (merged docs fp).
End Config.
Arguments rule P : clear implicits.
Arguments doc P : clear implicits.
Arguments entry P : clear implicits.
Arguments and_list P : clear implicits.
