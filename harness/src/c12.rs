//! C12: aliases are transparent; alias conflicts are rejected.
//! Ledgers of ledger.rs with `account` / `commodity` declarations carrying aliases; every
//! ledger is run twice (canonical names / declared aliases written at later uses) and the
//! two observations travel in one case.  Conflict cases plant one conflicting declaration.
use crate::cli;
use crate::coq::{self, Shards, Stats};
use crate::ledger::*;
use crate::prng::Rng;
use crate::Opts;
use serde::{Deserialize, Serialize};
use serde_json::json;
use std::collections::BTreeMap;
use std::fmt::Write as _;

const ACC_ALIAS: [[&str; 2]; 6] =
    [["Bank", "BK"], ["Cash", "Wal|let"], ["Opening", "E*Q"], ["Food", "Groceries 100%"], ["Job", "Salary"], ["Card", "Card #2"]];
// aliases also use characters that are comment prefixes elsewhere (# % | *), which are ordinary
// characters inside names
const COM_ALIAS: [[&str; 2]; 5] = [["Apple", "APL"], ["Franc", "S#r"], ["Euro", "E%U"], ["Yen", "JP"], ["US", "Dollar"]];

/// every written name of a namespace, byte-sorted: id = index (so id order = name order)
fn namespace(canon: &[&str], aliases: &[[&str; 2]]) -> Vec<String> {
    let mut v: Vec<String> = canon.iter().map(|s| s.to_string()).collect();
    for a in aliases {
        v.push(a[0].to_string());
        v.push(a[1].to_string());
    }
    v.sort();
    v.dedup();
    v
}

struct Ns {
    acc: Vec<String>,
    com: Vec<String>,
}

impl Ns {
    fn new() -> Self {
        Ns { acc: namespace(&ACCOUNTS, &ACC_ALIAS), com: namespace(&COMMODITIES, &COM_ALIAS) }
    }
    fn acc_id(&self, s: &str) -> usize {
        self.acc.iter().position(|x| x == s).unwrap()
    }
    fn com_id(&self, s: &str) -> usize {
        self.com.iter().position(|x| x == s).unwrap()
    }
    fn acc_canon(&self, i: usize) -> usize {
        self.acc_id(ACCOUNTS[i])
    }
    fn com_canon(&self, i: usize) -> usize {
        self.com_id(COMMODITIES[i])
    }
    fn acc_alias(&self, i: usize, k: usize) -> usize {
        self.acc_id(ACC_ALIAS[i][k])
    }
    fn com_alias(&self, i: usize, k: usize) -> usize {
        self.com_id(COM_ALIAS[i][k])
    }
}

/// named entry: all ids are namespace ids
#[derive(Clone, Debug, PartialEq, Serialize, Deserialize)]
enum NE {
    /// `lines`: the sub-directives exactly as written, in order; `aliases` (and `fmt`, the last
    /// format line) are what they mean.  None = the fixed layout of older corpus files.
    Account {
        name: usize,
        aliases: Vec<usize>,
        #[serde(default)]
        lines: Option<Vec<Sub>>,
    },
    Commodity {
        name: usize,
        aliases: Vec<usize>,
        fmt: Option<u32>,
        #[serde(default)]
        lines: Option<Vec<Sub>>,
    },
    Txn(Txn),
    Comment,
}

/// one sub-directive line of an `account` / `commodity` block
#[derive(Clone, Debug, PartialEq, Serialize, Deserialize)]
enum Sub {
    Alias(usize),
    Note,
    Comment,
    Format(u32),
}

fn sub_aliases(lines: &[Sub]) -> Vec<usize> {
    lines.iter().filter_map(|l| if let Sub::Alias(a) = l { Some(*a) } else { None }).collect()
}
fn account_decl(name: usize, lines: Vec<Sub>) -> NE {
    NE::Account { name, aliases: sub_aliases(&lines), lines: Some(lines) }
}
fn commodity_decl(name: usize, lines: Vec<Sub>) -> NE {
    // set_format is called for every format line: the last one stays
    let fmt = lines.iter().rev().find_map(|l| if let Sub::Format(d) = l { Some(*d) } else { None });
    NE::Commodity { name, aliases: sub_aliases(&lines), fmt, lines: Some(lines) }
}

/// the given alias lines in the given order with note / comment / format lines before, between
/// and after them in every order; `fmt` (commodities) is the format that stays, i.e. the last
/// format line, possibly with an overridden one before it
fn layout(r: &mut Rng, aliases: &[usize], fmt: Option<u32>, is_acc: bool) -> Vec<Sub> {
    layout_with(r, aliases, fmt, is_acc, 6)
}

/// `fmt_one_in`: a commodity block without a planned format gets a format line one time in so many
fn layout_with(r: &mut Rng, aliases: &[usize], fmt: Option<u32>, is_acc: bool, fmt_one_in: u64) -> Vec<Sub> {
    let mut v: Vec<Sub> = aliases.iter().map(|a| Sub::Alias(*a)).collect();
    let extras = match r.below(8) {
        0 => 0,
        1..=3 => 1,
        4..=6 => 2,
        _ => 3,
    };
    for _ in 0..extras {
        let at = r.below(v.len() as u64 + 1) as usize;
        v.insert(at, if r.chance(1, 2) { Sub::Note } else { Sub::Comment });
    }
    let fmt = if is_acc { None } else if fmt.is_none() && r.chance(1, fmt_one_in) { Some(*r.pick(&[2u32, 3, 4])) } else { fmt };
    if let Some(dp) = fmt {
        let at = r.below(v.len() as u64 + 1) as usize;
        v.insert(at, Sub::Format(dp));
        if r.chance(1, 4) {
            let before = r.below(at as u64 + 1) as usize;
            v.insert(before, Sub::Format(*r.pick(&[0u32, 1, 2, 4])));
        }
    }
    v
}

// ---------- text ----------

fn lit_text_n(l: &Lit, ns: &Ns) -> String {
    let n = num_text(l.m, l.scale, l.grouped);
    match l.comm {
        Some(c) => format!("{} {}", n, ns.com[c]),
        None => n,
    }
}
fn ve_text_n(v: &VE, ns: &Ns) -> String {
    match v {
        VE::Paren(e) => format!("({})", ex_text_n(e, ns)),
        VE::Amt(l) => lit_text_n(l, ns),
    }
}
fn ex_text_n(e: &Ex, ns: &Ns) -> String {
    match e {
        Ex::Neg(x) => format!("-{}", ex_text_n(x, ns)),
        Ex::Bin(op, l, r) => format!(
            "{} {} {}",
            ex_text_n(l, ns),
            match op {
                Op::Add => "+",
                Op::Sub => "-",
                Op::Mul => "*",
                Op::Div => "/",
            },
            ex_text_n(r, ns)
        ),
        Ex::Val(v) => ve_text_n(v, ns),
    }
}
fn posting_text_n(p: &Posting, ns: &Ns) -> String {
    let mut s = format!("    {}", ns.acc[p.account]);
    if let Some(a) = &p.amount {
        write!(s, "  {}", ve_text_n(a, ns)).unwrap();
        match &p.lot {
            Some(Exch::Rate(v)) => write!(s, " {{{}}}", ve_text_n(v, ns)).unwrap(),
            Some(Exch::Total(v)) => write!(s, " {{{{{}}}}}", ve_text_n(v, ns)).unwrap(),
            None => {}
        }
        match &p.cost {
            Some(Exch::Rate(v)) => write!(s, " @ {}", ve_text_n(v, ns)).unwrap(),
            Some(Exch::Total(v)) => write!(s, " @@ {}", ve_text_n(v, ns)).unwrap(),
            None => {}
        }
    }
    if let Some(b) = &p.balance {
        write!(s, "  = {}", ve_text_n(b, ns)).unwrap();
    }
    s
}

fn render_n(entries: &[NE], ns: &Ns) -> Rendered {
    let mut text = String::new();
    let mut entry_line = Vec::new();
    let mut posting_off = Vec::new();
    let mut line = 1usize;
    for (k, e) in entries.iter().enumerate() {
        entry_line.push(line);
        let mut offs = Vec::new();
        match e {
            NE::Txn(t) => {
                // header in the shape drawn by the shared generator (the default is `DATE txn<k>`)
                write!(text, "{}", date_text(t.date)).unwrap();
                if let Some(ed) = t.effective {
                    write!(text, "={}", date_text(ed)).unwrap();
                }
                writeln!(text, "{}", t.head.text(k, None)).unwrap();
                line += 1;
                for p in &t.posts {
                    offs.push(text.len());
                    writeln!(text, "{}", posting_text_n(p, ns)).unwrap();
                    line += 1;
                }
            }
            NE::Account { name, lines: Some(lines), .. } => {
                writeln!(text, "account {}", ns.acc[*name]).unwrap();
                line += 1;
                for l in lines {
                    match l {
                        Sub::Alias(a) => writeln!(text, "    alias {}", ns.acc[*a]).unwrap(),
                        Sub::Note => writeln!(text, "    note about {}", k).unwrap(),
                        Sub::Comment => writeln!(text, "    ; remark {}", k).unwrap(),
                        Sub::Format(_) => continue,
                    }
                    line += 1;
                }
            }
            NE::Commodity { name, lines: Some(lines), .. } => {
                writeln!(text, "commodity {}", ns.com[*name]).unwrap();
                line += 1;
                for (j, l) in lines.iter().enumerate() {
                    match l {
                        Sub::Alias(a) => writeln!(text, "    alias {}", ns.com[*a]).unwrap(),
                        Sub::Note => writeln!(text, "    note about {}", k).unwrap(),
                        Sub::Comment => writeln!(text, "    ; remark {}", k).unwrap(),
                        // the sample number in one of the forms of ledger::FmtLit, by position
                        Sub::Format(dp) => {
                            writeln!(text, "    format {} {}", FmtLit::nth(k + j).text(*dp), ns.com[*name]).unwrap()
                        }
                    }
                    line += 1;
                }
            }
            NE::Account { name, aliases, lines: None } => {
                writeln!(text, "account {}", ns.acc[*name]).unwrap();
                line += 1;
                // note / comment sub-directives before and between the alias lines
                for (j, a) in aliases.iter().enumerate() {
                    match (k + j) % 3 {
                        1 => {
                            writeln!(text, "    note about {}", k).unwrap();
                            line += 1;
                        }
                        2 => {
                            writeln!(text, "    ; remark {}", k).unwrap();
                            line += 1;
                        }
                        _ => {}
                    }
                    writeln!(text, "    alias {}", ns.acc[*a]).unwrap();
                    line += 1;
                }
            }
            NE::Commodity { name, aliases, fmt, lines: None } => {
                writeln!(text, "commodity {}", ns.com[*name]).unwrap();
                line += 1;
                // the format line between the aliases when there are two
                let mut lines: Vec<String> = aliases.iter().map(|a| format!("    alias {}", ns.com[*a])).collect();
                if let Some(dp) = fmt {
                    let f = format!("    format {} {}", num_text(1000 * 10i64.pow(*dp), *dp, true), ns.com[*name]);
                    let at = if lines.len() >= 2 { 1 } else { lines.len() };
                    lines.insert(at, f);
                }
                match k % 3 {
                    1 => lines.insert(0, format!("    note about {}", k)),
                    2 => lines.insert(0, format!("    ; remark {}", k)),
                    _ => {}
                }
                for l in lines {
                    writeln!(text, "{}", l).unwrap();
                    line += 1;
                }
            }
            NE::Comment => {
                writeln!(text, "; comment {}", k).unwrap();
                line += 1;
            }
        }
        posting_off.push(offs);
        text.push('\n');
        line += 1;
    }
    Rendered { text, entry_line, entry_last_line: Vec::new(), posting_off, posting_span: Vec::new() }
}

fn ne_term(e: &NE) -> String {
    match e {
        NE::Account { name, aliases, .. } => format!("(NAccount {} {})", name, coq::list(aliases.iter().map(|a| a.to_string()))),
        NE::Commodity { name, aliases, fmt, .. } => format!(
            "(NCommodity {} {} {})",
            name,
            coq::list(aliases.iter().map(|a| a.to_string())),
            coq::opt(fmt.map(|d| format!("{}%nat", d)))
        ),
        NE::Txn(t) => {
            let s = entry_term(&Entry::Txn(t.clone()));
            format!("(NTxn {}", &s["(ETxn ".len()..])
        }
        NE::Comment => "NNop".into(),
    }
}

// ---------- CLI observation ----------

#[derive(Clone, Debug, PartialEq)]
enum CliObs {
    Ok { bal: Vec<(usize, AmountObs)>, reg: Vec<(usize, AmountObs, AmountObs)> },
    Err(String),
}

/// one inline amount at the start of `s`: "0" | "v C" | "(v C + v C ...)"; returns the rest
fn take_amount<'a>(s: &'a str, comms: &[String]) -> (AmountObs, &'a str) {
    let s = s.trim_start();
    if s.starts_with('(') {
        let end = s.find(')').map(|i| i + 1).unwrap_or(s.len());
        return (parse_inline(&s[..end], comms), &s[end..]);
    }
    let mut it = s.splitn(2, ' ');
    let num = it.next().unwrap_or("");
    let rest = it.next().unwrap_or("");
    let word_end = rest.find(' ').unwrap_or(rest.len());
    let word = &rest[..word_end];
    if !word.is_empty() && word.chars().all(|c| c.is_alphabetic()) {
        (parse_inline(&format!("{} {}", num, word), comms), &rest[word_end..])
    } else {
        (parse_inline(num, comms), rest)
    }
}

fn run_cli(path: &str, ns: &Ns) -> CliObs {
    let b = cli::run(&["balance", path]);
    if b.panicked {
        return CliObs::Err("panic".into());
    }
    if !b.ok {
        return CliObs::Err(b.stderr);
    }
    let mut bal = Vec::new();
    for l in b.stdout.lines() {
        if let Some((a, amt)) = l.split_once(": ") {
            bal.push((comm_id(a, &ns.acc), parse_inline(amt, &ns.com)));
        }
    }
    let r = cli::run(&["register", path]);
    if !r.ok {
        return CliObs::Err(r.stderr);
    }
    let mut reg = Vec::new();
    for l in r.stdout.lines() {
        let (a, rest) = l.split_once(' ').unwrap_or((l, ""));
        let (amt, rest) = take_amount(rest, &ns.com);
        let (tot, _) = take_amount(rest, &ns.com);
        reg.push((comm_id(a, &ns.acc), amt, tot));
    }
    CliObs::Ok { bal, reg }
}

fn cli_term(c: &CliObs) -> String {
    match c {
        CliObs::Ok { bal, reg } => format!(
            "(CliOk {} {})",
            coq::list(bal.iter().map(|(a, am)| format!("({}, {})", a, amount_term(am)))),
            coq::list(reg.iter().map(|(a, am, t)| format!("({}, {}, {})", a, amount_term(am), amount_term(t))))
        ),
        CliObs::Err(_) => "CliErr".into(),
    }
}

// ---------- price DB legs ----------

/// one `P DATE X RATE Y` line; x / y index COMMODITIES; `ax` / `ay`: which declared alias (0 / 1
/// of COM_ALIAS) the alias-spelled DB writes instead of the canonical name (None = canonical)
#[derive(Clone, Debug, PartialEq, Serialize, Deserialize)]
struct PLine {
    date: i32,
    x: usize,
    m: i64,
    scale: u32,
    y: usize,
    ax: Option<usize>,
    ay: Option<usize>,
}

/// a price DB in two spellings (canonical names / aliases the ledger declares), the target of
/// `-X`, the `--now` / `--date` day and the expression of `primitive eval`
#[derive(Clone, Debug, PartialEq, Serialize, Deserialize)]
struct Pdb {
    lines: Vec<PLine>,
    target: usize,
    now: i32,
    eval_m: i64,
    eval_c: usize,
}

impl Pdb {
    fn aliases_written(&self) -> usize {
        self.lines.iter().map(|l| l.ax.is_some() as usize + l.ay.is_some() as usize).sum()
    }
    fn text(&self, alias: bool) -> String {
        let mut s = String::new();
        for l in &self.lines {
            let name = |c: usize, a: Option<usize>| match a {
                Some(k) if alias => COM_ALIAS[c][k],
                _ => COMMODITIES[c],
            };
            writeln!(s, "P {} {} {} {}", date_text(l.date), name(l.x, l.ax), num_text(l.m, l.scale, false), name(l.y, l.ay)).unwrap();
        }
        s
    }
}

/// aliases (index into COM_ALIAS[c]) that the ledger declares for commodity c, anywhere
fn declared_commodity_aliases(es: &[NE], ns: &Ns) -> Vec<Vec<usize>> {
    let mut out = vec![Vec::new(); COMMODITIES.len()];
    for e in es {
        if let NE::Commodity { name, aliases, .. } = e {
            for c in 0..COMMODITIES.len() {
                if ns.com_canon(c) == *name {
                    for k in 0..2 {
                        if aliases.contains(&ns.com_alias(c, k)) && !out[c].contains(&k) {
                            out[c].push(k);
                        }
                    }
                }
            }
        }
    }
    out
}

fn gen_pdb(r: &mut Rng, es: &[NE], ns: &Ns) -> Pdb {
    let decl = declared_commodity_aliases(es, ns);
    let with_alias: Vec<usize> = (0..COMMODITIES.len()).filter(|c| !decl[*c].is_empty()).collect();
    let dates: Vec<i32> = es.iter().filter_map(|e| if let NE::Txn(t) = e { Some(t.date) } else { None }).collect();
    let lo = dates.iter().copied().min().unwrap_or(100);
    let hi = dates.iter().copied().max().unwrap_or(100);
    let pick_comm = |r: &mut Rng| -> usize {
        if !with_alias.is_empty() && r.chance(3, 4) {
            *r.pick(&with_alias)
        } else {
            r.below(COMMODITIES.len() as u64) as usize
        }
    };
    let n = 1 + r.below(4) as usize;
    let mut lines = Vec::new();
    for _ in 0..n {
        let x = pick_comm(r);
        let mut y = pick_comm(r);
        if y == x {
            y = (x + 1 + r.below(COMMODITIES.len() as u64 - 1) as usize) % COMMODITIES.len();
        }
        let spell = |r: &mut Rng, c: usize| if !decl[c].is_empty() && r.chance(2, 3) { Some(*r.pick(&decl[c])) } else { None };
        let ax = spell(r, x);
        let ay = spell(r, y);
        let scale = *r.pick(&[0u32, 0, 1, 2, 3]);
        lines.push(PLine { date: lo - 3 + r.below((hi - lo + 8) as u64) as i32, x, m: 1 + r.below(30000) as i64, scale, y, ax, ay });
    }
    let target = if r.chance(4, 5) { lines[r.below(lines.len() as u64) as usize].y } else { r.below(COMMODITIES.len() as u64) as usize };
    let eval_c = if r.chance(4, 5) { lines[r.below(lines.len() as u64) as usize].x } else { r.below(COMMODITIES.len() as u64) as usize };
    Pdb { lines, target, now: hi + r.below(40) as i32, eval_m: 1 + r.below(5000) as i64, eval_c }
}

/// what `okane balance LEDGER -X T --now D --price-db DB` and `okane primitive eval --date D -X T
/// --price-db DB -f LEDGER EXPR` showed.  kind: 0 printed, 1 stopped in the ledger (load or
/// book-keeping), 2 stopped loading the price DB, 3 stopped in the query / evaluation, 9 panic
#[derive(Clone, Debug, PartialEq)]
struct PdbObs {
    kind: u8,
    bal: Vec<(usize, AmountObs)>,
    ekind: u8,
    eval: AmountObs,
    text: String,
}

fn stop_kind(r: &cli::CliResult) -> u8 {
    if r.panicked {
        9
    } else if r.ok {
        0
    } else if r.stderr.contains("failed to load the Price DB") {
        2
    } else if r.stderr.starts_with("failed to report") {
        1
    } else {
        3
    }
}

fn iso_date(d: i32) -> String {
    date_text(d).replace('/', "-")
}

fn run_pdb(ledger: &str, db: &str, p: &Pdb, ns: &Ns) -> PdbObs {
    let now = iso_date(p.now);
    let b = cli::run(&["balance", ledger, "-X", COMMODITIES[p.target], "--now", &now, "--price-db", db]);
    let mut bal = Vec::new();
    if b.ok {
        for l in b.stdout.lines() {
            if let Some((a, amt)) = l.split_once(": ") {
                bal.push((comm_id(a, &ns.acc), parse_inline(amt, &ns.com)));
            }
        }
    }
    let expr = format!("{} {}", p.eval_m, COMMODITIES[p.eval_c]);
    let e = cli::run(&["primitive", "eval", "--date", &now, "-X", COMMODITIES[p.target], "--price-db", db, "-f", ledger, &expr]);
    let eval = if e.ok { parse_inline(e.stdout.trim(), &ns.com) } else { AmountObs::new() };
    let text = format!("balance -X: {}\neval: {}", if b.ok { b.stdout.clone() } else { b.stderr.clone() }, if e.ok { e.stdout.clone() } else { e.stderr.clone() });
    PdbObs { kind: stop_kind(&b), bal, ekind: stop_kind(&e), eval, text }
}

fn pdb_term(o: &PdbObs) -> String {
    format!("(PO {} {} {} {})", o.kind, coq::list(o.bal.iter().map(|(a, am)| format!("({}, {})", a, amount_term(am)))), o.ekind, amount_term(&o.eval))
}

// ---------- generation ----------

fn map_ve(v: &VE, f: &mut dyn FnMut(usize) -> usize) -> VE {
    match v {
        VE::Paren(e) => VE::Paren(Box::new(map_ex(e, f))),
        VE::Amt(l) => VE::Amt(Lit { comm: l.comm.map(|c| f(c)), ..l.clone() }),
    }
}
fn map_ex(e: &Ex, f: &mut dyn FnMut(usize) -> usize) -> Ex {
    match e {
        Ex::Neg(x) => Ex::Neg(Box::new(map_ex(x, f))),
        Ex::Bin(op, l, r) => {
            let l2 = map_ex(l, f);
            let r2 = map_ex(r, f);
            Ex::Bin(*op, Box::new(l2), Box::new(r2))
        }
        Ex::Val(v) => Ex::Val(Box::new(map_ve(v, f))),
    }
}
fn map_exch(x: &Exch, f: &mut dyn FnMut(usize) -> usize) -> Exch {
    match x {
        Exch::Total(v) => Exch::Total(map_ve(v, f)),
        Exch::Rate(v) => Exch::Rate(map_ve(v, f)),
    }
}
/// every written name of a transaction, in source order
fn map_txn(t: &Txn, fa: &mut dyn FnMut(usize) -> usize, fc: &mut dyn FnMut(usize) -> usize) -> Txn {
    Txn {
        head: t.head,
        effective: t.effective,
        date: t.date,
        posts: t
            .posts
            .iter()
            .map(|p| {
                let account = fa(p.account);
                let amount = p.amount.as_ref().map(|v| map_ve(v, fc));
                let lot = p.lot.as_ref().map(|x| map_exch(x, fc));
                let cost = p.cost.as_ref().map(|x| map_exch(x, fc));
                let balance = p.balance.as_ref().map(|v| map_ve(v, fc));
                Posting { account, amount, cost, lot, balance }
            })
            .collect(),
    }
}

/// a ledger of ledger.rs with declarations added; names are canonical everywhere
fn gen_base(r: &mut Rng, ns: &Ns, b: &Bias) -> Vec<NE> {
    let es = gen_ledger(r, b);
    let mut out: Vec<NE> = Vec::new();
    for e in &es {
        out.push(match e {
            Entry::Txn(t) => NE::Txn(map_txn(t, &mut |a| ns.acc_canon(a), &mut |c| ns.com_canon(c))),
            Entry::Format(c, dp, _) => {
                let mut aliases = Vec::new();
                for k in 0..2 {
                    if r.chance(1, 3) {
                        aliases.push(ns.com_alias(*c, k));
                    }
                }
                commodity_decl(ns.com_canon(*c), layout(r, &aliases, Some(*dp), false))
            }
            Entry::Comment => NE::Comment,
        });
    }
    // account declarations with 1-2 aliases: before, between and after the uses
    let nacc = 1 + r.below(3);
    for _ in 0..nacc {
        let i = r.below(ACCOUNTS.len() as u64) as usize;
        let aliases = match r.below(3) {
            0 => vec![ns.acc_alias(i, 0)],
            1 => vec![ns.acc_alias(i, 1)],
            _ => vec![ns.acc_alias(i, 0), ns.acc_alias(i, 1)],
        };
        let at = if r.chance(1, 2) { 0 } else { r.below(out.len() as u64 + 1) as usize };
        out.insert(at, account_decl(ns.acc_canon(i), layout(r, &aliases, None, true)));
    }
    let ncom = 1 + r.below(2);
    for _ in 0..ncom {
        let i = r.below(COMMODITIES.len() as u64) as usize;
        let aliases = match r.below(3) {
            0 => vec![ns.com_alias(i, 0)],
            1 => vec![ns.com_alias(i, 1)],
            _ => vec![ns.com_alias(i, 1), ns.com_alias(i, 0)],
        };
        let at = if r.chance(1, 2) { 0 } else { r.below(out.len() as u64 + 1) as usize };
        out.insert(at, commodity_decl(ns.com_canon(i), layout(r, &aliases, None, false)));
    }
    // a declaration without alias now and then
    if r.chance(1, 5) {
        let i = r.below(ACCOUNTS.len() as u64) as usize;
        let at = r.below(out.len() as u64 + 1) as usize;
        out.insert(at, account_decl(ns.acc_canon(i), layout(r, &[], None, true)));
    }
    out
}

/// write declared aliases at later uses, each with probability num/den; returns the count
fn substitute(es: &[NE], r: &mut Rng, num: u64, den: u64) -> (Vec<NE>, usize) {
    let mut da: BTreeMap<usize, Vec<usize>> = BTreeMap::new();
    let mut dc: BTreeMap<usize, Vec<usize>> = BTreeMap::new();
    let mut n = 0usize;
    let mut out = Vec::new();
    for e in es {
        match e {
            NE::Account { name, aliases, .. } => {
                let v = da.entry(*name).or_default();
                for a in aliases {
                    if !v.contains(a) {
                        v.push(*a);
                    }
                }
                out.push(e.clone());
            }
            NE::Commodity { name, aliases, .. } => {
                let v = dc.entry(*name).or_default();
                for a in aliases {
                    if !v.contains(a) {
                        v.push(*a);
                    }
                }
                out.push(e.clone());
            }
            NE::Txn(t) => {
                // two generators: closures cannot both borrow r
                let mut ra = r.clone();
                let mut na = 0usize;
                let mut fa = |a: usize| match da.get(&a) {
                    Some(v) if !v.is_empty() && ra.chance(num, den) => {
                        na += 1;
                        *ra.pick(v)
                    }
                    _ => a,
                };
                let mut rc = r.clone();
                rc.next();
                let mut nc = 0usize;
                let mut fc = |c: usize| match dc.get(&c) {
                    Some(v) if !v.is_empty() && rc.chance(num, den) => {
                        nc += 1;
                        *rc.pick(v)
                    }
                    _ => c,
                };
                let t2 = map_txn(t, &mut fa, &mut fc);
                n += na + nc;
                r.next();
                r.next();
                out.push(NE::Txn(t2));
            }
            NE::Comment => out.push(e.clone()),
        }
    }
    (out, n)
}

/// does a sub-line follow the alias line `a` in the block?
fn followed(lines: &[Sub], a: usize) -> bool {
    match lines.iter().position(|l| *l == Sub::Alias(a)) {
        Some(i) => i + 1 < lines.len(),
        None => false,
    }
}

/// plant one declaration conflict; returns the kind and whether further sub-lines follow the
/// alias line meant to be refused (where it is an alias line that is refused)
fn plant_conflict(es: &[NE], r: &mut Rng, ns: &Ns) -> (Vec<NE>, &'static str, Option<bool>) {
    let mut out = es.to_vec();
    let is_acc = r.chance(1, 2);
    let n = if is_acc { ACCOUNTS.len() } else { COMMODITIES.len() } as u64;
    let x = r.below(n) as usize;
    let mut y = r.below(n) as usize;
    if y == x {
        y = (x + 1) % n as usize;
    }
    let canon = |i: usize| if is_acc { ns.acc_canon(i) } else { ns.com_canon(i) };
    let alias = |i: usize, k: usize| if is_acc { ns.acc_alias(i, k) } else { ns.com_alias(i, k) };
    // the block of sub-lines in a random order around the alias lines: notes, comments, format
    // lines and harmless alias lines before, between and after the one that must be refused
    let mut after: Option<bool> = None;
    let mut decl = |r: &mut Rng, name: usize, mut aliases: Vec<usize>, bad: Option<usize>, own: usize| {
        // a harmless alias of the declared name itself, before or after the others
        if r.chance(1, 2) {
            let extra = alias(own, r.below(2) as usize);
            if !aliases.contains(&extra) {
                let at = r.below(aliases.len() as u64 + 1) as usize;
                aliases.insert(at, extra);
            }
        }
        let lines = layout_with(r, &aliases, None, is_acc, 2);
        if let Some(b) = bad {
            after = Some(followed(&lines, b));
        }
        if is_acc {
            account_decl(name, lines)
        } else {
            commodity_decl(name, lines)
        }
    };
    let k = r.below(2) as usize;
    let p1 = r.below(out.len() as u64 + 1) as usize;
    let kind = match r.below(6) {
        0 => {
            // alias of a name that is canonical by declaration
            let d = decl(r, canon(x), vec![], None, x);
            out.insert(p1, d);
            let p2 = p1 + 1 + r.below((out.len() - p1) as u64) as usize;
            let d = decl(r, canon(y), vec![canon(x)], Some(canon(x)), y);
            out.insert(p2, d);
            "alias_already_declared_canonical"
        }
        1 => {
            // alias of a name made canonical implicitly by an earlier use: declare at the end
            let d = decl(r, canon(y), vec![canon(x)], Some(canon(x)), y);
            out.push(d);
            "alias_already_canonical_by_use"
        }
        2 => {
            // the alias name itself was used before its declaration
            let a = alias(x, k);
            // drop earlier declarations of that alias, write it in the first transaction that uses x
            for e in out.iter_mut() {
                match e {
                    NE::Account { aliases, lines, .. } if is_acc => {
                        aliases.retain(|z| *z != a);
                        if let Some(l) = lines {
                            l.retain(|z| *z != Sub::Alias(a));
                        }
                    }
                    NE::Commodity { aliases, lines, .. } if !is_acc => {
                        aliases.retain(|z| *z != a);
                        if let Some(l) = lines {
                            l.retain(|z| *z != Sub::Alias(a));
                        }
                    }
                    _ => {}
                }
            }
            let cx = canon(x);
            let mut done = false;
            for e in out.iter_mut() {
                if let NE::Txn(t) = e {
                    let t2 = if is_acc {
                        map_txn(t, &mut |q| if q == cx { a } else { q }, &mut |c| c)
                    } else {
                        map_txn(t, &mut |q| q, &mut |c| if c == cx { a } else { c })
                    };
                    if t2 != *t {
                        *t = t2;
                        done = true;
                        break;
                    }
                }
            }
            // the other alias of x may be declared in the same block, on either side
            let d = decl(r, cx, vec![a], Some(a), x);
            out.push(d);
            if done {
                "alias_name_used_before_declaration"
            } else {
                "alias_declared_late_without_earlier_use"
            }
        }
        3 => {
            // canonical declaration of a name that is an alias
            let d = decl(r, canon(x), vec![alias(x, k)], None, x);
            out.insert(p1, d);
            let p2 = p1 + 1 + r.below((out.len() - p1) as u64) as usize;
            let d = decl(r, alias(x, k), vec![], None, y);
            out.insert(p2, d);
            "canonical_already_alias"
        }
        4 => {
            // one alias for two canonicals
            let d = decl(r, canon(x), vec![alias(x, k)], None, x);
            out.insert(p1, d);
            let p2 = p1 + 1 + r.below((out.len() - p1) as u64) as usize;
            let both = if r.chance(1, 2) { vec![alias(y, 0), alias(x, k)] } else { vec![alias(x, k), alias(y, 0)] };
            let d = decl(r, canon(y), both, Some(alias(x, k)), y);
            out.insert(p2, d);
            "alias_of_two_canonicals"
        }
        _ => {
            let both = if r.chance(1, 2) { vec![alias(x, k), canon(x)] } else { vec![canon(x), alias(x, k)] };
            let d = decl(r, canon(x), both, Some(canon(x)), x);
            out.insert(p1, d);
            "alias_of_itself"
        }
    };
    (out, kind, after)
}

fn used_anything(es: &[NE]) -> bool {
    es.iter().any(|e| matches!(e, NE::Txn(_)))
}

struct Run {
    obs: Obs,
    cli: CliObs,
    text: String,
}

fn run_both(es: &[NE], ns: &Ns, names: &Names, scratch: &cli::Scratch, file: &str) -> Run {
    let r = render_n(es, ns);
    let obs = run_process(&[("/main.ledger".to_string(), r.text.clone())], names, Some(&r));
    let p = scratch.write(file, &r.text);
    let cli = run_cli(&p.to_string_lossy(), ns);
    Run { obs, cli, text: r.text }
}

fn emit(sh: &mut Shards, st: &mut Stats, a: &[NE], b: &[NE], nsub: usize, kind: &str, ns: &Ns, names: &Names, scratch: &cli::Scratch, pdb: Option<&Pdb>) {
    let ra = run_both(a, ns, names, scratch, "a.ledger");
    // the first ledger with a price DB spelled with canonical names / with the aliases it declares
    let pdb_obs = pdb.map(|p| {
        let ledger = scratch.dir.join("a.ledger").to_string_lossy().into_owned();
        let dc = scratch.write("canonical.pricedb", &p.text(false));
        let da = scratch.write("alias.pricedb", &p.text(true));
        (run_pdb(&ledger, &dc.to_string_lossy(), p, ns), run_pdb(&ledger, &da.to_string_lossy(), p, ns))
    });
    let rb = if a == b { Run { obs: ra.obs.clone(), cli: ra.cli.clone(), text: ra.text.clone() } } else { run_both(b, ns, names, scratch, "b.ledger") };
    let conflict_reported = matches!(&ra.obs, Obs::Err { err: ErrObs::InvalidAccount(_) | ErrObs::InvalidCommodity(_), .. });
    let nontrivial = nsub >= 1 || conflict_reported;
    if let (Some(p), Some((oc, oa))) = (pdb, &pdb_obs) {
        st.count("stream:price-db pair (canonical / alias spelling of the P lines)");
        st.count(&format!("price-db:aliases written in the alias-spelled DB:{}", p.aliases_written().min(4)));
        st.count(&format!("price-db:balance -X (canonical spelling):{}", ["printed", "stopped in the ledger", "stopped loading the price DB", "stopped in the query", "", "", "", "", "", "panic"][oc.kind as usize]));
        st.count(&format!("price-db:primitive eval -X (canonical spelling):{}", ["printed", "stopped in the ledger", "stopped loading the price DB", "stopped in the evaluation", "", "", "", "", "", "panic"][oc.ekind as usize]));
        if oc.kind == 0 && oc.bal.iter().any(|(_, am)| am.keys().any(|c| *c == ns.com_canon(p.target))) && p.aliases_written() > 0 {
            st.count("price-db:converted report printed with an alias-spelled DB line");
        }
        if pdb_term(oc) != pdb_term(oa) {
            st.count("impl:price_db_pair_differs");
        }
    }
    st.eval(&(ra.text.clone(), rb.text.clone()), nontrivial);
    st.count(&format!("kind:{}", kind));
    st.count(&format!("a:{}", obs_kind(&ra.obs)));
    st.count(&format!("b:{}", obs_kind(&rb.obs)));
    if let Obs::Err { err: ErrObs::InvalidAccount(k) | ErrObs::InvalidCommodity(k), .. } = &ra.obs {
        st.count(&format!("conflict_error_kind:{}", k));
    }
    st.add("substituted_occurrences", nsub as u64);
    st.count(&format!("substitutions:{}", nsub.min(6)));
    st.add("declarations", a.iter().filter(|e| matches!(e, NE::Account { .. } | NE::Commodity { .. })).count() as u64);
    st.add("transactions", a.iter().filter(|e| matches!(e, NE::Txn(_))).count() as u64);
    for (k, e) in a.iter().enumerate() {
        match e {
            NE::Txn(t) => {
                st.add("shape:header_without_payee", t.head.bare as u64);
                st.add("shape:header_ends_after_clear_mark", t.head.ends_after_mark(None) as u64);
                st.add("shape:header_effective_date", t.effective.is_some() as u64);
            }
            NE::Commodity { lines: Some(lines), .. } => {
                for (j, l) in lines.iter().enumerate() {
                    if matches!(l, Sub::Format(_)) {
                        st.add(&format!("format_sample:{}", FmtLit::nth(k + j).name()), 1);
                    }
                }
            }
            _ => {}
        }
    }
    if obs_term(&ra.obs) != obs_term(&rb.obs) || cli_term(&ra.cli) != cli_term(&rb.cli) {
        st.count("impl:pair_differs");
    }
    let rep = json!({"property": "C12", "kind": kind, "ledger": ra.text, "ledger_with_aliases": rb.text,
        "substituted": nsub,
        "impl": {"a": obs_json_n(&ra.obs, ns), "b": obs_json_n(&rb.obs, ns),
                 "cli_a": cli_json(&ra.cli), "cli_b": cli_json(&rb.cli)},
        "entries_a": serde_json::to_value(a).unwrap(), "entries_b": serde_json::to_value(b).unwrap(),
        "pdb": pdb.map(|p| serde_json::to_value(p).unwrap()),
        "price_db": pdb.map(|p| json!({"canonical_spelling": p.text(false), "alias_spelling": p.text(true),
            "balance_args": format!("-X {} --now {} --price-db DB", COMMODITIES[p.target], iso_date(p.now)),
            "eval_args": format!("primitive eval --date {} -X {} --price-db DB -f LEDGER '{} {}'", iso_date(p.now), COMMODITIES[p.target], p.eval_m, COMMODITIES[p.eval_c]),
            "impl_canonical": pdb_obs.as_ref().map(|o| o.0.text.clone()), "impl_alias": pdb_obs.as_ref().map(|o| o.1.text.clone())})),
        "reproduce": "write each ledger to a file and compare: okane balance <file>; okane register <file>; with price_db: write `ledger` and both spellings of the DB to files and compare okane balance LEDGER <balance_args> and okane <eval_args>"});
    if st.samples.len() < 2 || (st.samples.len() < 5 && (conflict_reported == (st.samples.len() % 2 == 0)) && nontrivial) {
        st.sample(rep.clone(), 5);
    }
    let term = format!(
        "{} {} {} {} {} {} {}{}",
        if pdb_obs.is_some() { "CP" } else { "C" },
        coq::list(a.iter().map(ne_term)),
        coq::list(b.iter().map(ne_term)),
        obs_term(&ra.obs),
        obs_term(&rb.obs),
        cli_term(&ra.cli),
        cli_term(&rb.cli),
        match &pdb_obs {
            Some((oc, oa)) => format!(" {} {}", pdb_term(oc), pdb_term(oa)),
            None => String::new(),
        }
    );
    sh.push(term, vec![rep]);
}

fn obs_json_n(o: &Obs, ns: &Ns) -> serde_json::Value {
    match o {
        Obs::Ok { txns, balance } => json!({"ok": {"transactions": txns.len(),
            "balance": balance.iter().map(|(a, am)| format!("{}: {}", ns.acc.get(*a).map(|s| s.as_str()).unwrap_or("?"),
                am.iter().map(|(c, v)| format!("{} {}", v, ns.com.get(*c).map(|s| s.as_str()).unwrap_or("?"))).collect::<Vec<_>>().join(" + "))).collect::<Vec<_>>()}}),
        Obs::Err { entry, text, .. } => json!({"err": text, "entry": entry}),
        Obs::Panic(m) => json!({ "panic": m }),
    }
}
fn cli_json(c: &CliObs) -> serde_json::Value {
    match c {
        CliObs::Ok { bal, reg } => json!({"balance_lines": bal.len(), "register_lines": reg.len()}),
        CliObs::Err(e) => json!({ "err": e }),
    }
}

pub fn run(o: &Opts) {
    let header = "From Coq Require Import List NArith ZArith QArith Qcanon.\nFrom Okv Require Import Base.Maps Base.Dec Model.Amount Model.Book Model.Intern Model.Named Run.LedgerCase Run.Classify_C12.\nImport ListNotations.\nOpen Scope N_scope.";
    let mut sh = Shards::new(&o.out, o.shards, header);
    let mut st = Stats::new();
    st.rule = "ledgers of the C01 generator with `account` / `commodity` declarations carrying 1-2 aliases placed before, between and after the uses, their blocks written with note / comment / format sub-lines (and, in conflict cases, harmless alias lines) before, between and after the alias lines in every order; each ledger is run a second time with declared aliases written at random later occurrences (accounts of postings; commodities in amounts, costs, lot prices, assertions) and both observations form one case; conflict cases plant one conflicting declaration (alias already canonical by declaration / by earlier use / the alias name itself used earlier; canonical already an alias; one alias for two canonicals; alias of itself); observed: Ledger::transactions + Ledger::balance through report::process on a FakeFileSystem, and the parsed stdout of `okane balance` / `okane register` on a real file; a third of the pairs and half of the conflict ledgers are also read with a price DB (1-4 `P` lines over the ledger's dates, mostly about commodities the ledger declares aliases for) written once with canonical names and once with declared aliases (2/3 of the occurrences): `okane balance LEDGER -X T --now D --price-db DB` and `okane primitive eval --date D -X T --price-db DB -f LEDGER 'N C'` must print the same converted report, alias-free, or stop in the same stage, and may stop in the ledger only if the ledger read without a price DB is refused; non-trivial = at least one substituted occurrence, or a reported declaration conflict; distinct by the pair of ledger texts".into();
    st.assumptions.push("same numeric ranges as C01 (exact Decimal arithmetic)".into());
    let ns = Ns::new();
    let names = Names { accounts: ns.acc.clone(), commodities: ns.com.clone() };
    let scratch = cli::Scratch::new("c12");

    // corpus / replay
    let mut replay = false;
    let mut files: Vec<std::path::PathBuf> = Vec::new();
    if let Some(i) = o.extra.iter().position(|a| a == "--replay") {
        replay = true;
        if let Some(p) = o.extra.get(i + 1) {
            files.push(p.into());
        }
    } else if let Ok(rd) = std::fs::read_dir(&o.corpus) {
        files = rd.filter_map(|e| e.ok()).map(|e| e.path()).collect();
        files.sort();
    }
    for p in files {
        if let Ok(text) = std::fs::read_to_string(&p) {
            if let Ok(v) = serde_json::from_str::<serde_json::Value>(&text) {
                let a = v.get("entries_a").and_then(|e| serde_json::from_value::<Vec<NE>>(e.clone()).ok());
                let b = v.get("entries_b").and_then(|e| serde_json::from_value::<Vec<NE>>(e.clone()).ok());
                if let (Some(a), Some(b)) = (a, b) {
                    let nsub = v.get("substituted").and_then(|x| x.as_u64()).unwrap_or(0) as usize;
                    let pdb = v.get("pdb").and_then(|e| serde_json::from_value::<Pdb>(e.clone()).ok());
                    emit(&mut sh, &mut st, &a, &b, nsub, "corpus", &ns, &names, &scratch, pdb.as_ref());
                }
            }
        }
    }
    if !replay {
        let mut r = Rng::new(o.seed, 1201);
        let n = if o.thorough { 12000 } else { 1200 };
        let mut bias = Bias::default_bias();
        bias.unbalanced_pct = 5;
        bias.wrong_assert_pct = 3;
        bias.cost_pct = 25;
        bias.lot_pct = 12;
        bias.expr_pct = 25;
        for k in 0..n {
            let base = gen_base(&mut r, &ns, &bias);
            // the first ledger already writes an alias here and there
            let (a, _) = substitute(&base, &mut r, 1, 8);
            if k % 4 == 3 {
                let (c, kind, after) = plant_conflict(&a, &mut r, &ns);
                if used_anything(&c) {
                    match after {
                        Some(true) => st.count("conflict_block:sub-lines_follow_the_refused_alias_line"),
                        Some(false) => st.count("conflict_block:refused_alias_line_is_last"),
                        None => st.count("conflict_block:the_declaration_itself_is_refused"),
                    }
                    // half of the conflict ledgers also with a price DB: the same error in both spellings
                    let pdb = if k % 8 == 7 { Some(gen_pdb(&mut r, &c, &ns)) } else { None };
                    emit(&mut sh, &mut st, &c, &c, 0, kind, &ns, &names, &scratch, pdb.as_ref());
                }
            } else {
                let (b, nsub) = substitute(&a, &mut r, 1, 2);
                // a third of the pairs: the first ledger is also read with `--price-db`, the DB
                // spelled once with canonical names and once with aliases the ledger declares
                let pdb = if k % 4 == 1 { Some(gen_pdb(&mut r, &a, &ns)) } else { None };
                emit(&mut sh, &mut st, &a, &b, nsub, "pair", &ns, &names, &scratch, pdb.as_ref());
            }
        }
    }
    sh.finish(&st);
}
