(* C13: `balance -X` / `eval -X`.  Converting an amount, the accounts of a balance, or the re-folded
   transactions succeeds for one iteration order iff it succeeds for every order, with equivalent
   results.  WHICH missing rate a failing conversion names does follow the order in the model
   (convert_amount: F20, repaired in the code by sorting; convert_accounts: F21, see the refutation
   at the end). *)
From Coq Require Import List NArith ZArith Bool QArith Qcanon Lia Permutation.
From Okv Require Import Base.Maps Base.Dec Model.Amount Model.Book Model.Query Model.Render
     Model.PriceDb Model.Convert Model.OrderSpec
     Proofs.MapsSort Proofs.RenderProofs Proofs.BookA_Maps Proofs.BookA_Amount
     Proofs.OrderMaps Proofs.OrderAmount Proofs.OrderBook Proofs.OrderReports Proofs.OrderPrice.
Import ListNotations.
Open Scope Qc_scope.

Lemma conv_rel_trans {A} (R : A -> A -> Prop) x y z :
  (forall a b c, R a b -> R b c -> R a c) -> conv_rel R x y -> conv_rel R y z -> conv_rel R x z.
Proof. intros HT. destruct x, y, z; cbn [conv_rel]; try tauto. apply HT. Qed.

Lemma conv_rel_cbind {A A' B B'} (R : A -> A' -> Prop) (S : B -> B' -> Prop) x y f g :
  conv_rel R x y -> (forall a a', R a a' -> conv_rel S (f a) (g a')) -> conv_rel S (cbind x f) (cbind y g).
Proof.
  destruct x, y; cbn [conv_rel cbind]; intros H HF; try contradiction; auto.
Qed.

(* two successive `+=` of single amounts commute *)
Lemma add1_comm acc acc' c1 v1 c2 v2 : map_equiv acc acc' ->
  map_equiv (a_add1 (a_add1 acc c1 v1) c2 v2) (a_add1 (a_add1 acc' c2 v2) c1 v1).
Proof.
  intros H. split; [apply NoDup_add1, NoDup_add1, (map_equiv_nodup_l _ _ H)|].
  split; [apply NoDup_add1, NoDup_add1, (map_equiv_nodup_r _ _ H)|].
  intros k. rewrite !get_add1, !a_get_add1, <- !(a_get_equiv _ _ _ H), <- (map_equiv_get _ _ k H).
  repeat match goal with |- context [N.eqb ?a ?b] => destruct (N.eqb_spec a b) end;
    subst; try congruence; try reflexivity; f_equal; ring.
Qed.

(* ---- one amount ---- *)
Section Two.
  Variables (fuel fuel' : nat) (choose choose' : chooser) (recs recs' : records).
  Hypothesis Hcs : forall c v target date,
    convert_single fuel choose recs c v target date = convert_single fuel' choose' recs' c v target date.

  Lemma conv_from_switch l target date : forall acc acc', map_equiv acc acc' ->
    conv_rel map_equiv (convert_amount_from fuel choose recs acc l target date)
                       (convert_amount_from fuel' choose' recs' acc' l target date).
  Proof.
    induction l as [|[c v] r IH]; intros acc acc' H; cbn [convert_amount_from]; [exact H|].
    rewrite Hcs. destruct (convert_single fuel' choose' recs' c v target date) as [[c' v']| |]; cbn [conv_rel]; auto.
    apply IH, add1_equiv, H.
  Qed.
End Two.

Section One.
  Variables (fuel : nat) (choose : chooser) (recs : records).
  Let from := convert_amount_from fuel choose recs.

  Lemma conv_from_acc l target date acc acc' : map_equiv acc acc' ->
    conv_rel map_equiv (from acc l target date) (from acc' l target date).
  Proof. apply conv_from_switch. reflexivity. Qed.

  Lemma conv_from_perm l l' target date : Permutation l l' -> forall acc acc', map_equiv acc acc' ->
    conv_rel map_equiv (from acc l target date) (from acc' l' target date).
  Proof.
    induction 1 as [|[c v] l l' HP IH|[c1 v1] [c2 v2] l|l1 l2 l3 HP1 IH1 HP2 IH2]; intros acc acc' H.
    - exact H.
    - unfold from. cbn [convert_amount_from].
      destruct (convert_single fuel choose recs c v target date) as [[c' v']| |]; cbn [conv_rel]; auto.
      apply IH, add1_equiv, H.
    - unfold from. cbn [convert_amount_from].
      destruct (convert_single fuel choose recs c1 v1 target date) as [[d1 w1]| |],
               (convert_single fuel choose recs c2 v2 target date) as [[d2 w2]| |]; cbn [conv_rel]; auto.
      apply conv_from_acc, add1_comm, H.
    - eapply conv_rel_trans; [apply map_equiv_trans|apply IH1, H|apply IH2].
      eapply map_equiv_trans; [apply map_equiv_sym, H|exact H].
  Qed.
End One.

Section Two'.
  Variables (fuel fuel' : nat) (choose choose' : chooser) (recs recs' : records).
  Hypothesis Hcs : forall c v target date,
    convert_single fuel choose recs c v target date = convert_single fuel' choose' recs' c v target date.

  Theorem convert_amount_equiv a a' target date : map_equiv a a' ->
    conv_rel map_equiv (convert_amount fuel choose recs a target date)
                       (convert_amount fuel' choose' recs' a' target date).
  Proof.
    intros H. unfold convert_amount.
    eapply conv_rel_trans; [apply map_equiv_trans| |].
    - apply (conv_from_switch fuel fuel' choose choose' recs recs' Hcs a target date a_zero a_zero), map_equiv_nil.
    - apply conv_from_perm; [apply map_equiv_perm, H|apply map_equiv_nil].
  Qed.

  (* a converted amount is a duplicate-free map *)
  Lemma convert_amount_self a target date :
    conv_rel map_equiv (convert_amount fuel choose recs a target date) (convert_amount fuel choose recs a target date).
  Proof. apply conv_from_switch; [reflexivity|apply map_equiv_nil]. Qed.

  (* ---- the accounts of a balance ---- *)
  Definition ent_equiv (p p' : aid * amount) : Prop := fst p = fst p' /\ map_equiv (snd p) (snd p').

  Lemma accounts_pointwise target now b b2 : Forall2 ent_equiv b b2 -> forall acc acc', bal_equiv acc acc' ->
    conv_rel bal_equiv (convert_accounts fuel choose recs target now b acc)
                       (convert_accounts fuel' choose' recs' target now b2 acc').
  Proof.
    induction 1 as [|[a m] [a' m'] r r' [Ha Hm] _ IH]; intros acc acc' H; cbn [convert_accounts]; [exact H|].
    cbn [fst snd] in Ha, Hm. subst a'.
    apply (conv_rel_cbind map_equiv); [apply convert_amount_equiv, Hm|].
    intros x x' Hx. apply IH, bal_add_amount_equiv; assumption.
  Qed.
End Two'.

Lemma get_bal_add_amount b a x k :
  get k (bal_add_amount b a x) = if (a =? k)%N then Some (a_remove_zeros (a_add (bal_get b a) x)) else get k b.
Proof. unfold bal_add_amount. apply get_set. Qed.

Lemma bal_get_add_amount_other b a x a' : a <> a' -> bal_get (bal_add_amount b a x) a' = bal_get b a'.
Proof.
  intros H. unfold bal_get. rewrite get_bal_add_amount. destruct (N.eqb_spec a a'); [contradiction|reflexivity].
Qed.

Lemma NoDup_bal_add_amount b a x : NoDup (keys b) -> NoDup (keys (bal_add_amount b a x)).
Proof. apply NoDup_keys_set. Qed.

(* additions to two different accounts commute *)
Lemma bal_add_amount_comm acc acc' a1 x1 a2 x2 : a1 <> a2 ->
  bal_equiv acc acc' -> map_equiv x1 x1 -> map_equiv x2 x2 ->
  bal_equiv (bal_add_amount (bal_add_amount acc a1 x1) a2 x2) (bal_add_amount (bal_add_amount acc' a2 x2) a1 x1).
Proof.
  intros Hne H H1 H2. pose proof H as [A [B C]].
  split; [apply NoDup_bal_add_amount, NoDup_bal_add_amount, A|].
  split; [apply NoDup_bal_add_amount, NoDup_bal_add_amount, B|].
  intros k. rewrite !get_bal_add_amount.
  rewrite (bal_get_add_amount_other acc a1 x1 a2 Hne), (bal_get_add_amount_other acc' a2 x2 a1 (not_eq_sym Hne)).
  destruct (N.eqb_spec a2 k) as [->|E2].
  - destruct (N.eqb_spec a1 k) as [E|_]; [contradiction|].
    apply a_remove_zeros_equiv, a_add_equiv; [apply bal_get_equiv, H|exact H2].
  - destruct (N.eqb_spec a1 k) as [->|E1]; [|apply C].
    apply a_remove_zeros_equiv, a_add_equiv; [apply bal_get_equiv, H|exact H1].
Qed.

Lemma bal_equiv_self_l b b' : bal_equiv b b' -> bal_equiv b b.
Proof. intros H. eapply bal_equiv_trans; [exact H|apply bal_equiv_sym, H]. Qed.
Lemma bal_equiv_self_r b b' : bal_equiv b b' -> bal_equiv b' b'.
Proof. intros H. eapply bal_equiv_trans; [apply bal_equiv_sym, H|exact H]. Qed.

Section One'.
  Variables (fuel : nat) (choose : chooser) (recs : records).
  Let CA := convert_accounts fuel choose recs.

  Lemma accounts_acc target now l acc acc' : bal_equiv acc acc' ->
    conv_rel bal_equiv (CA target now l acc) (CA target now l acc').
  Proof.
    revert acc acc'. induction l as [|[a m] r IH]; intros acc acc' H; unfold CA; cbn [convert_accounts]; [exact H|].
    pose proof (convert_amount_self fuel choose recs m target now) as HS. unfold conv.
    destruct (convert_amount fuel choose recs m target now) as [x| |]; cbn [cbind conv_rel]; auto.
    cbn [conv_rel] in HS. apply IH, bal_add_amount_equiv; assumption.
  Qed.

  Lemma accounts_perm target now b b' : Permutation b b' -> NoDup (keys b) ->
    forall acc acc', bal_equiv acc acc' -> conv_rel bal_equiv (CA target now b acc) (CA target now b' acc').
  Proof.
    induction 1 as [|[a m] l l' HP IH|[a1 m1] [a2 m2] l|l1 l2 l3 HP1 IH1 HP2 IH2]; intros ND acc acc' H.
    - exact H.
    - cbn [keys map fst] in ND. inversion ND as [|? ? _ ND']; subst. unfold CA. cbn [convert_accounts]. unfold conv.
      pose proof (convert_amount_self fuel choose recs m target now) as HS.
      destruct (convert_amount fuel choose recs m target now) as [x| |]; cbn [cbind conv_rel]; auto.
      cbn [conv_rel] in HS. apply (IH ND'), bal_add_amount_equiv; assumption.
    - cbn [keys map fst] in ND. inversion ND as [|? ? Hni _]; subst.
      assert (a2 <> a1) as Hne by (intros ->; apply Hni; left; reflexivity).
      unfold CA. cbn [convert_accounts]. unfold conv.
      pose proof (convert_amount_self fuel choose recs m1 target now) as HS1.
      pose proof (convert_amount_self fuel choose recs m2 target now) as HS2.
      destruct (convert_amount fuel choose recs m1 target now) as [x1| |],
               (convert_amount fuel choose recs m2 target now) as [x2| |]; cbn [cbind conv_rel]; auto.
      cbn [conv_rel] in HS1, HS2. apply accounts_acc, bal_add_amount_comm; assumption.
    - eapply conv_rel_trans; [apply bal_equiv_trans|apply (IH1 ND _ _ H)|].
      apply IH2; [|apply (bal_equiv_self_r _ _ H)].
      unfold keys. eapply Permutation_NoDup; [apply Permutation_map; exact HP1|exact ND].
  Qed.
End One'.

(* a balance in another order = a permutation, then the same accounts with re-ordered amounts *)
Lemma bal_equiv_decompose b b' : bal_equiv b b' ->
  exists b2, Permutation b b2 /\ Forall2 ent_equiv b2 b'.
Proof.
  intros [A [B C]]. exists (map (fun p => (fst p, bal_get b (fst p))) b'). split.
  - apply NoDup_Permutation.
    + apply NoDup_keys_list, A.
    + apply NoDup_keys_list. unfold keys. rewrite map_map. cbn [fst]. exact B.
    + intros [a m]. rewrite in_map_iff. split.
      * intros HI. pose proof (NoDup_get_in _ _ _ A HI) as G. specialize (C a). rewrite G in C.
        destruct (get a b') as [y|] eqn:G'; [|contradiction].
        exists (a, y). cbn [fst]. unfold bal_get. rewrite G. split; [reflexivity|apply get_some_in, G'].
      * intros [[a' y] [E HI]]. cbn [fst] in E. injection E as -> <-.
        pose proof (NoDup_get_in _ _ _ B HI) as G'. specialize (C a). rewrite G' in C.
        destruct (get a b) as [x|] eqn:G; [|contradiction]. unfold bal_get. rewrite G. apply get_some_in, G.
  - assert (forall p, In p b' -> map_equiv (bal_get b (fst p)) (snd p)) as HI.
    { intros [a y] HI. cbn [fst snd]. pose proof (NoDup_get_in _ _ _ B HI) as G'. specialize (C a).
      rewrite G' in C. unfold bal_get. destruct (get a b); [exact C|contradiction]. }
    clear A B C. induction b' as [|p r IH]; cbn [map]; constructor.
    + split; cbn [fst snd]; [reflexivity|apply HI; left; reflexivity].
    + apply IH. intros q Hq. apply HI. right. exact Hq.
Qed.

Section Reports.
  Variables (fuel fuel' : nat) (choose choose' : chooser) (recs recs' : records).
  Hypothesis Hcs : forall c v target date,
    convert_single fuel choose recs c v target date = convert_single fuel' choose' recs' c v target date.

  Theorem convert_accounts_equiv target now b b' acc acc' : bal_equiv b b' -> bal_equiv acc acc' ->
    conv_rel bal_equiv (convert_accounts fuel choose recs target now b acc)
                       (convert_accounts fuel' choose' recs' target now b' acc').
  Proof.
    intros Hb Hacc. destruct (bal_equiv_decompose b b' Hb) as [b2 [HP HF]].
    eapply conv_rel_trans; [apply bal_equiv_trans| |].
    - apply (accounts_perm fuel choose recs target now b b2 HP (proj1 Hb) acc acc (bal_equiv_self_l _ _ Hacc)).
    - apply (accounts_pointwise fuel fuel' choose choose' recs recs' Hcs target now b2 b' HF acc acc' Hacc).
  Qed.

  Lemma refold_posts_equiv hist date ps ps' : Forall2 op_equiv ps ps' -> forall b b', bal_equiv b b' ->
    conv_rel bal_equiv (refold_posts fuel choose recs hist date ps b) (refold_posts fuel' choose' recs' hist date ps' b').
  Proof.
    induction 1 as [|p p' r r' [Ha [Hm _]] _ IH]; intros b b' H; cbn [refold_posts]; [exact H|].
    apply (conv_rel_cbind map_equiv).
    - destruct hist as [t|]; [apply (convert_amount_equiv fuel fuel' choose choose' recs recs' Hcs), Hm|exact Hm].
    - intros x x' Hx. rewrite Ha. apply IH, bal_add_amount_equiv; assumption.
  Qed.

  Lemma refold_txns_equiv hist st en ts ts' : Forall2 otxn_equiv ts ts' -> forall b b', bal_equiv b b' ->
    conv_rel bal_equiv (refold_txns fuel choose recs hist st en ts b) (refold_txns fuel' choose' recs' hist st en ts' b').
  Proof.
    induction 1 as [|t t' r r' [Hd Hp] _ IH]; intros b b' H; cbn [refold_txns]; [exact H|].
    rewrite Hd. destruct (range_contains st en (o_date t')); [|apply IH, H].
    apply (conv_rel_cbind bal_equiv); [apply refold_posts_equiv; assumption|]. intros x x' Hx. apply IH, Hx.
  Qed.

  (* Ledger::balance with any conversion and date range *)
  Theorem balance_query_equiv s s' cv st en : st_equiv s s' ->
    conv_rel bal_equiv (balance_query fuel choose recs s cv st en) (balance_query fuel' choose' recs' s' cv st en).
  Proof.
    intros [Hb Hf He Ht]. unfold balance_query.
    apply (conv_rel_cbind bal_equiv).
    - destruct (negb (require_recompute cv st en)); [exact Hb|].
      apply (conv_rel_cbind bal_equiv); [apply refold_txns_equiv; [exact Ht|apply bal_equiv_nil]|].
      intros x x' Hx. cbn [conv_rel]. destruct (is_up_to_date cv); [exact Hx|apply bal_round_equiv; assumption].
    - intros x x' Hx. destruct cv as [[[|now] target]|]; cbn [conv_rel]; try exact Hx.
      apply (conv_rel_cbind bal_equiv); [apply convert_accounts_equiv; [exact Hx|apply bal_equiv_nil]|].
      intros y y' Hy. cbn [conv_rel]. apply bal_round_equiv; assumption.
  Qed.

  (* Ledger::eval with an exchange commodity *)
  Theorem eval_exchange_equiv a a' exchange date : map_equiv a a' ->
    conv_rel map_equiv (eval_exchange fuel choose recs a exchange date) (eval_exchange fuel' choose' recs' a' exchange date).
  Proof.
    intros H. destruct exchange as [t|]; cbn [eval_exchange conv_rel]; [|exact H].
    apply (convert_amount_equiv fuel fuel' choose choose' recs recs' Hcs), H.
  Qed.

  (* what is printed when both succeed *)
  Corollary balance_query_stdout s s' cv st en b b' : st_equiv s s' ->
    balance_query fuel choose recs s cv st en = COk b ->
    balance_query fuel' choose' recs' s' cv st en = COk b' ->
    render_balance b = render_balance b'.
  Proof.
    intros H E E'. pose proof (balance_query_equiv s s' cv st en H) as HR. rewrite E, E' in HR.
    apply render_balance_equiv, HR.
  Qed.
End Reports.

(* ---- from equivalent book-keeping states to the converted report ---- *)
(* the price repository is built from the recorded events of each state (equivalent, so the
   repositories are rec_equiv) and the same price DB; heap orders and fuel are arbitrary but
   sufficient; no commodity has two optimal chains of different rates *)
Theorem balance_exchange_equiv s s' db fuel fuel' choose choose' cv st en :
  st_equiv s s' ->
  (forall c target date, c <> target -> tie_free (repository (s_events s) db) date target c) ->
  (forall target date, exists t, price_table fuel choose (repository (s_events s) db) target date = PTDone t) ->
  (forall target date, exists t, price_table fuel' choose' (repository (s_events s') db) target date = PTDone t) ->
  conv_rel bal_equiv (balance_query fuel choose (repository (s_events s) db) s cv st en)
                     (balance_query fuel' choose' (repository (s_events s') db) s' cv st en).
Proof.
  intros H Hfree HF HF'. apply balance_query_equiv; [|exact H].
  intros c v target date. destruct (HF target date) as [t HT], (HF' target date) as [t' HT'].
  apply (convert_single_determined _ _ date target c v choose choose' fuel fuel' t t'); auto.
  apply repository_equiv, H.
Qed.

Corollary balance_exchange_stdout s s' db fuel fuel' choose choose' cv st en b b' :
  st_equiv s s' ->
  (forall c target date, c <> target -> tie_free (repository (s_events s) db) date target c) ->
  (forall target date, exists t, price_table fuel choose (repository (s_events s) db) target date = PTDone t) ->
  (forall target date, exists t, price_table fuel' choose' (repository (s_events s') db) target date = PTDone t) ->
  balance_query fuel choose (repository (s_events s) db) s cv st en = COk b ->
  balance_query fuel' choose' (repository (s_events s') db) s' cv st en = COk b' ->
  render_balance b = render_balance b'.
Proof.
  intros H Hfree HF HF' E E'.
  pose proof (balance_exchange_equiv s s' db fuel fuel' choose choose' cv st en H Hfree HF HF') as HR.
  rewrite E, E' in HR. apply render_balance_equiv, HR.
Qed.

(* ---- iterating in key order (what 170c38c does for an amount, and what would repair F21) ---- *)
Definition canon_balance (b : balance) : balance := sort_keys (map (fun p => (fst p, sort_keys (snd p))) b).

Lemma canon_balance_equiv b b' : bal_equiv b b' -> canon_balance b = canon_balance b'.
Proof. apply render_balance_equiv. Qed.

Theorem convert_sorted_deterministic fuel choose recs :
  (forall a a' target date, map_equiv a a' ->
     convert_amount fuel choose recs (sort_keys a) target date = convert_amount fuel choose recs (sort_keys a') target date) /\
  (forall b b' target now acc, bal_equiv b b' ->
     convert_accounts fuel choose recs target now (canon_balance b) acc =
     convert_accounts fuel choose recs target now (canon_balance b') acc).
Proof.
  split.
  - intros a a' target date H. rewrite (sort_keys_canonical _ _ H). reflexivity.
  - intros b b' target now acc H. rewrite (canon_balance_equiv _ _ H). reflexivity.
Qed.

(* ---- F21: the error of convert_accounts names the first failing account in iteration order ---- *)
Module F21.
  Definition usd : cid := 9%N.
  Definition b1 : balance := [(1%N, [(2%N, of_dec 5 0)]); (3%N, [(4%N, of_dec 7 0)])].
  Definition b2 : balance := [(3%N, [(4%N, of_dec 7 0)]); (1%N, [(2%N, of_dec 5 0)])].

  Example same_balance : bal_equiv b1 b2.
  Proof. apply bal_equivb_sound. vm_compute. reflexivity. Qed.

  Example errors_differ :
    exists v v',
      convert_accounts 16 choose_max [] usd 0 b1 [] = CErr (RateNotFound 2%N v usd 0) /\
      convert_accounts 16 choose_max [] usd 0 b2 [] = CErr (RateNotFound 4%N v' usd 0).
  Proof. eexists. eexists. split; vm_compute; reflexivity. Qed.

  Theorem convert_accounts_error_order_dependent :
    exists fuel choose recs target now b b',
      bal_equiv b b' /\
      convert_accounts fuel choose recs target now b [] <> convert_accounts fuel choose recs target now b' [].
  Proof.
    exists 16%nat, choose_max, [], usd, 0%Z, b1, b2. split; [exact same_balance|].
    destruct errors_differ as [v [v' [E E']]]. rewrite E, E'. intros H. inversion H.
  Qed.

  (* F20 in the model (the code now sorts): which commodity of ONE amount is named *)
  Theorem convert_amount_error_order_dependent :
    exists fuel choose recs target date a a',
      map_equiv a a' /\
      convert_amount fuel choose recs a target date <> convert_amount fuel choose recs a' target date.
  Proof.
    exists 16%nat, choose_max, [], usd, 0%Z, [(2%N, of_dec 5 0); (4%N, of_dec 7 0)], [(4%N, of_dec 7 0); (2%N, of_dec 5 0)].
    split; [apply amt_equivb_sound; vm_compute; reflexivity|].
    intros H. vm_compute in H. inversion H.
  Qed.
End F21.
